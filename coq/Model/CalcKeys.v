(* C04 — the calculator's results as a DICTIONARY keyed by property name (energy, forces, stress, ...), for calculators that compute only
   what is asked for: ASE Calculator.get_property (reset when the system changed, compute what is missing), Context.save_state
   (last_results IS calc.results: the same dictionary object, so a key added later for the same configuration is in both),
   Context.revert_state (calc.results := last_results, the dictionary is REPLACED) with the driver's resynchronisation of calc.atoms.
   Executable definitions only.  Configurations, keys and values are opaque; the calculator is any function E of key and configuration. *)
From Coq Require Export List Bool Arith.
Export ListNotations.

Section Keys.
  Variables C K V : Type.
  Variable E : K -> C -> V.
  Variable ceq : C -> C -> bool.              (* ASE compare_atoms *)
  Variable keq : K -> K -> bool.
  Variable ke : K.                            (* 'energy': what save_state and every criteria ask for *)

  Fixpoint lookup (k : K) (d : list (K * V)) : option V :=
    match d with [] => None | (k', v) :: t => if keq k k' then Some v else lookup k t end.

  Record kst := { kcfg : C;                   (* the live atoms *)
                  kcatoms : option C;         (* calc.atoms *)
                  kres : list (K * V);        (* calc.results *)
                  kalias : bool;              (* calc.results is context.last_results (one object) *)
                  klast_cfg : C;              (* context.last_positions *)
                  klast_res : list (K * V) }. (* context.last_results *)

  Definition in_sync (s : kst) : bool := match kcatoms s with Some a => ceq a (kcfg s) | None => false end.

  (* calc.get_property(k, atoms): system changed -> reset (a NEW empty dictionary); then compute k if it is not held *)
  Definition request (s : kst) (k : K) : kst :=
    let sync := in_sync s in
    let res := if sync then kres s else [] in
    let al := if sync then kalias s else false in
    match lookup k res with
    | Some _ => {| kcfg := kcfg s; kcatoms := Some (kcfg s); kres := res; kalias := al; klast_cfg := klast_cfg s; klast_res := klast_res s |}
    | None => {| kcfg := kcfg s; kcatoms := Some (kcfg s); kres := (k, E k (kcfg s)) :: res; kalias := al; klast_cfg := klast_cfg s;
                 klast_res := if al then (k, E k (kcfg s)) :: klast_res s else klast_res s |}
    end.

  Definition kpropose (s : kst) (c' : C) : kst :=
    {| kcfg := c'; kcatoms := kcatoms s; kres := kres s; kalias := kalias s; klast_cfg := klast_cfg s; klast_res := klast_res s |}.

  (* DisplacementContext.save_state: last_positions := positions; get_potential_energy(); last_results := calc.results (the object) *)
  Definition ksave (s : kst) : kst :=
    let t := request s ke in
    {| kcfg := kcfg t; kcatoms := kcatoms t; kres := kres t; kalias := true; klast_cfg := kcfg t; klast_res := kres t |}.

  (* revert_state: positions := last_positions; calc.results := last_results; Canonical.revert_state: calc.atoms.positions := positions.
     upd = true is the variant `calc.results.update(last_results)` (seeded change C04-11): saved values override, other keys stay *)
  Definition krevert (upd : bool) (s : kst) : kst :=
    {| kcfg := klast_cfg s; kcatoms := Some (klast_cfg s); kres := if upd then klast_res s ++ kres s else klast_res s;
       kalias := negb upd; klast_cfg := klast_cfg s; klast_res := klast_res s |}.

  (* elementary operations (the correspondence drives the real objects with the same lists) *)
  Inductive kop := KPropose (c' : C) | KRequest (k : K) | KSave | KRevert.
  Definition kstep (upd : bool) (s : kst) (o : kop) : kst :=
    match o with KPropose c' => kpropose s c' | KRequest k => request s k | KSave => ksave s | KRevert => krevert upd s end.

  (* a trial: the move proposes c', move and criteria ask for the properties ks (the criteria at least for the energy), then accept or reject *)
  Inductive kout := KRejected (c' : C) (ks : list K) | KAccepted (c' : C) (ks : list K).
  Definition ktrial (upd : bool) (s : kst) (o : kout) : kst :=
    match o with
    | KRejected c' ks => krevert upd (request (fold_left request ks (kpropose s c')) ke)
    | KAccepted c' ks => ksave (fold_left request ks (kpropose s c'))
    end.
  Definition krun (upd : bool) (os : list kout) (s : kst) : kst := fold_left (ktrial upd) os s.

  (* every value held under some key is the value of that key for configuration c *)
  Definition good (c : C) (d : list (K * V)) : Prop := forall k v, lookup k d = Some v -> v = E k c.
  (* between trials: the calculator is in sync with the atoms, everything it holds - and everything the context saved - belongs to them *)
  Definition KCoherent (s : kst) : Prop :=
    in_sync s = true /\ good (kcfg s) (kres s) /\ klast_cfg s = kcfg s /\ good (klast_cfg s) (klast_res s).
End Keys.
Arguments kcfg {C K V}. Arguments kcatoms {C K V}. Arguments kres {C K V}. Arguments kalias {C K V}. Arguments klast_cfg {C K V}.
Arguments klast_res {C K V}. Arguments Build_kst {C K V}. Arguments KPropose {C K}. Arguments KRequest {C K}. Arguments KSave {C K}. Arguments KRevert {C K}.
Arguments KRejected {C K}. Arguments KAccepted {C K}.
