(* C08 / C07 — the generic to_dict / JSON / registry / from_dict scheme of the package
   (moves/core.py BaseMove.to_dict/from_dict, operations/core.py, integrators/core.py, moves/composite.py, operations/composite.py,
   utils/moves.py MoveStorage, registry.py get_typed_class).  Classes, field names and protocols are numbers (the translator assigns
   them); atomic values are opaque tokens (JSON encode/decode is the identity on them - ASE's codec, validated by the harness). *)
From Coq Require Export List ZArith Bool Arith.
Export ListNotations.

Inductive value := VAtom (tok : Z) | VObj (o : obj) | VList (l : list obj)
with obj := Obj (cls : nat) (fields : list (nat * value)).

(* what the translator extracts per class *)
Record cschema := { c_id : nat;
                    c_registered : bool;                 (* registered in the global registry under the name its to_dict emits *)
                    c_proto : nat;                       (* protocol it satisfies (Move / Operation / Integrator / Criteria / ...) *)
                    c_params : list nat;                 (* constructor parameters (callables excepted) *)
                    c_required : list nat;               (* those without a default *)
                    c_tunables : list nat;               (* documented tunable attributes that are not constructor parameters *)
                    c_emit_kwargs : list nat;            (* keys to_dict() puts under "kwargs" *)
                    c_emit_attrs : list nat;             (* keys to_dict() puts under "attributes" *)
                    c_child_proto : list (nat * nat) }.  (* field -> protocol from_dict asks the registry for when rebuilding that field *)
Definition schema := list cschema.

Definition memn (x : nat) (l : list nat) : bool := existsb (Nat.eqb x) l.
Definition subset (a b : list nat) : bool := forallb (fun x => memn x b) a.
Fixpoint lookup (s : schema) (c : nat) : option cschema :=
  match s with [] => None | h :: t => if Nat.eqb (c_id h) c then Some h else lookup t c end.
Fixpoint assoc (l : list (nat * nat)) (k : nat) : option nat :=
  match l with [] => None | (a, b) :: t => if Nat.eqb a k then Some b else assoc t k end.

(* the dictionary written to JSON: name + kwargs + attributes (values serialised recursively) *)
Inductive dval := DAtom (tok : Z) | DDict (d : ddict) | DList (l : list ddict)
with ddict := Dict (name : nat) (kwargs : list (nat * dval)) (attrs : list (nat * dval)).

Section WithSchema.
  Variable s : schema.

  Fixpoint to_dval (v : value) : dval :=
    match v with
    | VAtom t => DAtom t
    | VObj o => DDict (to_dict o)
    | VList l => DList (map to_dict l)
    end
  with to_dict (o : obj) : ddict :=
    match o with
    | Obj c fs =>
        let emit := fix emit (keys : list nat) (l : list (nat * value)) : list (nat * dval) :=
                      match l with
                      | [] => []
                      | kv :: t => if memn (fst kv) keys then (fst kv, to_dval (snd kv)) :: emit keys t else emit keys t
                      end in
        match lookup s c with
        | None => Dict c [] []
        | Some sc => Dict c (emit (c_emit_kwargs sc) fs) (emit (c_emit_attrs sc) fs)
        end
    end.

  (* registry lookup with protocol check: get_typed_class(name, expected) *)
  Definition typed_class (name expected : nat) : option cschema :=
    match lookup s name with
    | Some sc => if c_registered sc && Nat.eqb (c_proto sc) expected then Some sc else None
    | None => None
    end.

  (* from_dict: children are rebuilt through the registry with the protocol the parent asks for; then the constructor call with the kwargs - which fails on an
     unknown or a missing required parameter - then setattr for every attribute *)
  Fixpoint from_dval (fuel : nat) (expected : option nat) (d : dval) : option value :=
    match fuel with
    | O => None
    | S f =>
        match d with
        | DAtom t => Some (VAtom t)
        | DDict dd => match expected with
                      | Some p => option_map VObj (from_dict f p dd)
                      | None => None                      (* a nested object the parent does not know how to rebuild stays a raw dict: failure *)
                      end
        | DList l => match expected with
                     | Some p => option_map VList (fold_right (fun dd acc => match from_dict f p dd, acc with Some o, Some t => Some (o :: t) | _, _ => None end) (Some []) l)
                     | None => None
                     end
        end
    end
  with from_dict (fuel : nat) (expected : nat) (dd : ddict) : option obj :=
    match fuel with
    | O => None
    | S f =>
        match dd with
        | Dict name kw at_ =>
            match typed_class name expected with
            | None => None
            | Some sc =>
                if subset (map fst kw) (c_params sc) && subset (c_required sc) (map fst kw) then
                  let conv := fun (l : list (nat * dval)) =>
                                fold_right (fun kd acc => match from_dval f (assoc (c_child_proto sc) (fst kd)) (snd kd), acc with
                                                          | Some v, Some r => Some ((fst kd, v) :: r)
                                                          | _, _ => None
                                                          end) (Some []) l in
                  match conv kw, conv at_ with
                  | Some a, Some b => Some (Obj name (a ++ b))
                  | _, _ => None
                  end
                else None
            end
        end
    end.

  (* the finite condition the translator's data must satisfy, per class *)
  Definition class_ok (sc : cschema) : bool :=
    c_registered sc
    && subset (c_params sc) (c_emit_kwargs sc)              (* every constructor parameter is written *)
    && subset (c_emit_kwargs sc) (c_params sc)              (* and nothing is written that the constructor would refuse *)
    && subset (c_tunables sc) (c_emit_attrs sc)             (* every documented tunable is written *)
    && subset (c_required sc) (c_params sc).
End WithSchema.

(* ---- simulation classes: what the restart path (ASE's encoder calls todict) writes, what the constructor takes *)
Record sschema := { s_id : nat; s_registered : bool; s_has_todict : bool; s_has_from_dict : bool; s_writes_atoms : bool;
                    s_required : list nat;            (* constructor parameters without default (atoms apart) *)
                    s_accepted : list nat;            (* every keyword the constructor chain accepts *)
                    s_emit_kwargs : list nat;         (* keys written under "kwargs" *)
                    s_emitted : list nat;             (* every key written: kwargs, attributes, context, rng_state *)
                    s_settings : list nat }.          (* simulation-level settings the class owns *)
Definition restart_ok (sc : sschema) : bool :=
  s_registered sc && s_has_todict sc && s_has_from_dict sc && s_writes_atoms sc
  && subset (s_required sc) (s_emit_kwargs sc) && subset (s_emit_kwargs sc) (s_accepted sc) && subset (s_settings sc) (s_emitted sc).
