(* C13 / C18 — mc/fbmc.py: force-bias trial probability, rejection loop bookkeeping, adaptive step length. *)
From Coq Require Export Reals List Bool Arith.
Export ListNotations.
Open Scope R_scope.

(* ------------------------------------------------------------------ C18: adaptive delta *)
Definition atanh (x : R) : R := / 2 * ln ((1 + x) / (1 - x)).

(* tanh_update / exp_update (r = reference variance) *)
Definition upd_tanh (r v : R) : R := 1 - tanh (v / r * atanh (1 / 2)).
Definition upd_exp (r v : R) : R := exp (- v / r * ln 2).
(* update_delta *)
Definition delta_of (lo hi f : R) : R := lo + (hi - lo) * f.

(* ------------------------------------------------------------------ C13: one coordinate *)
Definition clip (x m : R) : R := Rmax (- m) (Rmin x m).
Definition gamma_of (kB gmax F delta T : R) : R := clip (F * delta / (2 * T * kB)) gmax.

Definition sgn (z : R) : R := if Rlt_dec 0 z then 1 else if Rlt_dec z 0 then -1 else 0.
Definition den (g : R) : R := exp g - exp (- g).
(* calculate_trial_probability, one component; value 1 where the denominator vanishes *)
Definition P (z g : R) : R :=
  if Req_EM_T (den g) 0 then 1
  else sgn z * (exp (sgn z * g) - exp (g * (2 * z - sgn z))) / den g.

(* displacement of one coordinate: zeta * delta * (m_min / m)^p *)
Definition disp (z delta scale : R) : R := z * delta * scale.

(* ------------------------------------------------------------------ C13: the vectorised rejection loop, bookkeeping only.
   The generator's stream is indexed by naturals; a coordinate holds the stream positions of its current (zeta, u).
   Round 0 draws n zetas then n uniforms; every later round draws k zetas then k uniforms for the k coordinates that
   have not converged, in coordinate order.  [verdict zp up] = "P(zeta at zp) > u at up" (decided over the reals). *)
Definition slot := (nat * nat)%type.

Fixpoint refill (conv : list bool) (cur : list slot) (next k : nat) : list slot :=
  match conv, cur with
  | c :: cs, x :: xs => if c then x :: refill cs xs next k else (next, next + k)%nat :: refill cs xs (S next) k
  | _, _ => []
  end.

Definition count_false (l : list bool) : nat := length (filter negb l).

Fixpoint fbloop (fuel : nat) (verdict : nat -> nat -> bool) (cur : list slot) (consumed : nat) : option (list slot * nat) :=
  let conv := map (fun s => verdict (fst s) (snd s)) cur in
  if forallb (fun b => b) conv then Some (cur, consumed)
  else match fuel with
       | O => None
       | S f => let k := count_false conv in fbloop f verdict (refill conv cur consumed k) (consumed + 2 * k)
       end.

Definition initial_slots (n : nat) : list slot := map (fun i => (i, i + n)%nat) (seq 0 n).
Definition fbstep (fuel n : nat) (verdict : nat -> nat -> bool) := fbloop fuel verdict (initial_slots n) (2 * n).

(* mass scaling of one coordinate: (m_min / m)^p, numpy's power on positive reals *)
Definition scale_of (mmin m p : R) : R := Rpower (mmin / m) p.
