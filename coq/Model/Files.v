(* C16 — io/logger.py, io/trajectory.py, io/restart.py: what is on disk after each file operation.
   A text file object has a process-local buffer; write() appends to it and the runtime may push ANY prefix of the buffer to the OS at
   any time; flush / seek / truncate push all of it first.  If the process dies, the OS part (plus whatever prefix was pushed) survives. *)
From Coq Require Export List Bool Arith.
Export ListNotations.

Section Files.
  Variable B : Type.                                   (* a chunk of bytes (opaque) *)

  Inductive op := Write (s : list B) | Flush | Seek0 | Truncate.
  Record fstate := { os : list B; buf : list B; pos0 : bool }.   (* pos0: the position is at offset 0 (after seek(0)), otherwise at the end *)
  Definition fempty := {| os := []; buf := []; pos0 := false |}.

  (* data written at offset 0 replaces what was there, chunk for chunk (exact after a truncate, when nothing is there) *)
  Definition overwrite (new old : list B) : list B := new ++ skipn (length new) old.
  Definition landed (f : fstate) (pushed : list B) : list B := if pos0 f then overwrite pushed (os f) else os f ++ pushed.

  Definition step (f : fstate) (o : op) : fstate :=
    match o with
    | Write s => {| os := os f; buf := buf f ++ s; pos0 := pos0 f |}
    | Flush => {| os := landed f (buf f); buf := []; pos0 := pos0 f && match buf f with [] => true | _ => false end |}
    | Seek0 => {| os := landed f (buf f); buf := []; pos0 := true |}                 (* seek flushes, then moves to offset 0: content unchanged *)
    | Truncate => let f' := {| os := landed f (buf f); buf := []; pos0 := pos0 f && match buf f with [] => true | _ => false end |} in
                  if pos0 f' then {| os := []; buf := []; pos0 := true |} else f'     (* truncate at the current position *)
    end.
  Definition run (ops : list op) (f : fstate) : fstate := fold_left step ops f.

  (* what can be found on disk if the process dies now: any prefix of the buffer may have been pushed *)
  Definition crash_states (f : fstate) : list (list B) :=
    map (fun k => landed f (firstn k (buf f))) (seq 0 (S (length (buf f)))).

  (* the observers, as emitters of operations *)
  Definition log_call (row : list B) : list op := [Write row; Flush].                 (* Logger.__call__ : one write of the whole line, flush *)
  Definition log_header (hdr : list B) : list op := [Write hdr].                      (* Logger.write_header: no flush of its own *)
  Definition traj_call (pieces : list (list B)) : list op := map Write pieces ++ [Flush].   (* write_xyz: several writes per frame, then flush *)
  Definition restart_call (doc : list B) : list op := [Seek0; Truncate; Write doc; Flush].  (* RestartObserver.__call__ *)
End Files.
Arguments Write {B}. Arguments Flush {B}. Arguments Seek0 {B}. Arguments Truncate {B}.
Arguments os {B}. Arguments buf {B}. Arguments pos0 {B}. Arguments Build_fstate {B}. Arguments fempty {B}.
Arguments overwrite {B}. Arguments landed {B}. Arguments step {B}. Arguments run {B}. Arguments crash_states {B}. Arguments log_call {B}. Arguments log_header {B}. Arguments traj_call {B}. Arguments restart_call {B}.
