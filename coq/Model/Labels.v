(* C05 — moves/displacement.py DisplacementMove.on_atoms_changed / set_labels (inherited by ExchangeMove),
   mc/gcmc.py GrandCanonical.save_state (each distinct move object is notified exactly once per accepted change). *)
From QV Require Export Model.Atoms Model.Displace.
Open Scope Z_scope.

Definition zmax (l : list Z) : Z := fold_right Z.max 0 l.
(* the label given to newly inserted atoms *)
Definition new_label (labels : list Z) (default : option Z) : Z :=
  match default with
  | Some d => d
  | None => match unique_labels labels with [] => 0 | _ => zmax (unique_labels labels) + 1 end
  end.
(* on_atoms_changed(added_indices, removed_indices): first append one label for all added atoms, then np.delete the removed ones *)
Definition on_atoms_changed (labels : list Z) (default : option Z) (n_added : nat) (removed : list nat) : list Z :=
  let l1 := match n_added with O => labels | _ => labels ++ repeat (new_label labels default) n_added end in
  match removed with [] => l1 | _ => delete l1 removed end.

(* the table: every distinct label-bearing move object (its labels and configured default) *)
Definition objects := list (list Z * option Z).
Definition notify_all (objs : objects) (n_added : nat) (removed : list nat) : objects :=
  map (fun o => (on_atoms_changed (fst o) (snd o) n_added removed, snd o)) objs.
