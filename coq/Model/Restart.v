(* C07 — restarting from a saved state: a simulation state S, a step function that reads only the step-relevant projection of the
   state (generator state, atoms, context reference values, labels, counters, move table - established by C06's tie), and a
   save / restore pair (to_dict -> JSON file -> from_dict, Model/Serial.v). *)
From Coq Require Export List.

Section Restart.
  Variables S D F : Type.
  Variable step : S -> S.
  Variable proj : S -> D.
  Variable save : S -> F.
  Variable restore : F -> option S.
  Fixpoint iter_steps (n : nat) (s : S) : S := match n with O => s | Datatypes.S k => iter_steps k (step s) end.
End Restart.
Arguments iter_steps {S}.
