(* C19 (and reused by C03) — rows of per-atom arrays: deletion, selection, re-insertion (utils/atoms.py reinsert_atoms,
   ase Atoms.__delitem__/__getitem__) and the label glue of search_molecules.  Polymorphic in the row type. *)
From Coq Require Export List ZArith Bool Arith.
Export ListNotations.

Section Rows.
  Variable A : Type.
  Variable d : A.   (* filler for out-of-range reads; excluded by the theorems' hypotheses *)

  Definition mem (k : nat) (I : list nat) : bool := existsb (Nat.eqb k) I.

  (* del atoms[I]: boolean mask, order of the kept rows preserved; k = absolute index of the head of l *)
  Fixpoint delete_from (k : nat) (l : list A) (I : list nat) : list A :=
    match l with
    | [] => []
    | x :: t => if mem k I then delete_from (S k) t I else x :: delete_from (S k) t I
    end.
  Definition delete (l : list A) (I : list nat) := delete_from 0 l I.

  (* atoms[I]: fancy indexing, in the order of I *)
  Definition select (l : list A) (I : list nat) : list A := map (fun i => nth i l d) I.

  Fixpoint index_of (p : nat) (I : list nat) : option nat :=
    match I with
    | [] => None
    | i :: t => if Nat.eqb i p then Some 0 else option_map S (index_of p t)
    end.

  (* reinsert_atoms: new_array[mask] = kept; new_array[I] = new  (n = len(kept) + len(new) positions) *)
  Fixpoint reinsert_from (k n : nat) (kept new : list A) (I : list nat) : list A :=
    match n with
    | O => []
    | S n' =>
        match index_of k I with
        | Some j => nth j new d :: reinsert_from (S k) n' kept new I
        | None => match kept with
                  | x :: kept' => x :: reinsert_from (S k) n' kept' new I
                  | [] => d :: reinsert_from (S k) n' [] new I
                  end
        end
    end.
  Definition reinsert (kept new : list A) (I : list nat) : list A :=
    reinsert_from 0 (length kept + length new) kept new I.
End Rows.

Arguments mem k I : simpl nomatch.
Arguments delete {A}. Arguments delete_from {A}. Arguments select {A}. Arguments reinsert {A}.
Arguments reinsert_from {A}. 

(* an array = dtype tag + rows; an Atoms object = named arrays *)
Definition array := (Z * list Z)%type.   (* rows tokenised as integers for execution *)
Definition delete_arr (a : array) (I : list nat) : array := (fst a, delete (snd a) I).
Definition select_arr (a : array) (I : list nat) : array := (fst a, select (-1)%Z (snd a) I).
(* dtype of the result = dtype of the array that stayed in `atoms` *)
Definition reinsert_arr (kept new : array) (I : list nat) : array := (fst kept, reinsert (-1)%Z (snd kept) (snd new) I).

(* ---------------- connected components of the within-cutoff pair list ----------------
   (the library asks scipy/networkx; the model merges labels edge by edge — naive union — and groups the atoms by label,
   enumerating the groups by their smallest member) *)
Definition relabel (a b : nat) (lab : list nat) : list nat := map (fun x => if x =? b then a else x) lab.
Definition merge (lab : list nat) (e : nat * nat) : list nat := relabel (nth (fst e) lab 0) (nth (snd e) lab 0) lab.
Definition comp_labels (n : nat) (edges : list (nat * nat)) : list nat := fold_left merge edges (seq 0 n).
Definition comp_of (n : nat) (lab : list nat) (i : nat) : list nat := filter (fun j => nth j lab 0 =? nth i lab 0) (seq 0 n).
Definition is_rep (lab : list nat) (i : nat) : bool := forallb (fun j => negb (nth j lab 0 =? nth i lab 0)) (seq 0 i).
Definition reps (n : nat) (lab : list nat) : list nat := filter (is_rep lab) (seq 0 n).
Definition group (n : nat) (lab : list nat) : list (list nat) := map (comp_of n lab) (reps n lab).
Definition components (n : nat) (edges : list (nat * nat)) : list (list nat) := group n (comp_labels n edges).

(* ---------- specification: the equivalence closure of the edge relation ---------- *)
Inductive conn (E : list (nat * nat)) : nat -> nat -> Prop :=
| c_refl i : conn E i i
| c_edge u v : In (u, v) E -> conn E u v
| c_sym i j : conn E i j -> conn E j i
| c_trans i k j : conn E i k -> conn E k j -> conn E i j.

Definition bounded (n : nat) (edges : list (nat * nat)) : Prop := forall u v, In (u, v) edges -> u < n /\ v < n.

(* ---------------- search_molecules' label glue ----------------
   components come from networkx (oracle); label n = position of the component in the enumeration;
   sequential assignment molecules[component] = n, for admitted sizes only *)
Open Scope Z_scope.
Definition admitted_size (lo hi : nat) (c : list nat) : bool := (Nat.leb lo (length c)) && (Nat.leb (length c) hi).

Fixpoint label_from (n : Z) (lo hi : nat) (comps : list (list nat)) (acc : Z) (i : nat) : Z :=
  match comps with
  | [] => acc
  | c :: cs => label_from (n + 1) lo hi cs (if mem i c && admitted_size lo hi c then n else acc) i
  end.

Definition labels (default : list Z) (lo hi : nat) (comps : list (list nat)) : list Z :=
  map (fun i => label_from 0 lo hi comps (nth i default (-1)) i) (seq 0 (length default)).

(* canonical renaming of the non-negative labels by first occurrence (harness comparison only) *)
Fixpoint canon_go (seen : list Z) (l : list Z) : list Z :=
  match l with
  | [] => []
  | x :: t => if x <? 0 then x :: canon_go seen t
              else match (fix pos (s : list Z) (k : Z) := match s with [] => None | y :: s' => if y =? x then Some k else pos s' (k + 1) end) seen 0 with
                   | Some k => k :: canon_go seen t
                   | None => Z.of_nat (length seen) :: canon_go (seen ++ [x]) t
                   end
  end.
Definition canon := canon_go [].

(* ---------------- harness encodings ---------------- *)
Definition enc_arr (a : array) : list Z := fst a :: Z.of_nat (length (snd a)) :: snd a.
Definition c19_reinsert_case (x : list array * list nat) : list Z :=
  let '(arrs, idx) := x in
  flat_map (fun a => enc_arr (delete_arr a idx) ++ enc_arr (select_arr a idx)
                     ++ enc_arr (reinsert_arr (delete_arr a idx) (select_arr a idx) idx)) arrs.
Definition c19_labels_case (x : list Z * nat * nat * list (list nat)) : list Z :=
  let '(default, lo, hi, comps) := x in canon (labels default lo hi comps).
(* from the pair list: components by the verified merging algorithm, then the label glue *)
Definition c19_molecules_case (x : list Z * nat * nat * list (nat * nat)) : list Z :=
  let '(default, lo, hi, edges) := x in canon (labels default lo hi (components (length default) edges)).
