(* C11 — moves/displacement.py: DisplacementMove.__call__ / attempt_displacement and CompositeDisplacementMove.__call__.
   Positions are opaque (any operation result): polymorphic in the position type P.  Labels are integers (numpy ints).
   Random choices and operation results are oracle answers. *)
From Coq Require Export List ZArith Bool Arith.
Export ListNotations.
Open Scope Z_scope.

(* np.unique(labels[labels >= 0]) : sorted, duplicate-free; as a duplicate-free list (order is irrelevant to the theorems,
   the harness compares sets) *)
Fixpoint dedup (l : list Z) : list Z :=
  match l with [] => [] | x :: t => if existsb (Z.eqb x) t then dedup t else x :: dedup t end.
Definition unique_labels (labels : list Z) : list Z := dedup (filter (fun x => 0 <=? x) labels).
Definition memz (x : Z) (l : list Z) : bool := existsb (Z.eqb x) l.

Section Disp.
  Variable P : Type.

  (* positions[labels == lab] = news (in order); rows with another label untouched.  [news] shorter than the group cannot
     happen (the operation returns one row per moving index or one row broadcast) - the leftover rows keep their value *)
  Fixpoint write_group (labels : list Z) (lab : Z) (pos : list P) (news : list P) : list P :=
    match labels, pos with
    | l :: ls, p :: ps =>
        if Z.eqb l lab then
          match news with n :: ns => n :: write_group ls lab ps ns | [] => p :: write_group ls lab ps [] end
        else p :: write_group ls lab ps news
    | _, _ => pos
    end.

  (* outcome of attempt_displacement: Some news = an attempt passed check_move; None = every attempt was vetoed (positions restored) *)
  Record dresult := { dpos : list P; dok : bool; dlabel : option Z }.

  (* DisplacementMove.__call__ with to_displace_labels = presel; [choice] = context.rng.choice(unique_labels) *)
  Definition displacement_call (labels : list Z) (presel : option Z) (choice : Z) (outcome : option (list P)) (pos : list P) : dresult :=
    let target := match presel with
                  | Some l => Some l
                  | None => if memz choice (unique_labels labels) then Some choice else None   (* None: no eligible particle *)
                  end in
    match target with
    | None => {| dpos := pos; dok := false; dlabel := None |}
    | Some lab =>
        match outcome with
        | Some news => {| dpos := write_group labels lab pos news; dok := true; dlabel := Some lab |}
        | None => {| dpos := pos; dok := false; dlabel := None |}
        end
    end.

  (* CompositeDisplacementMove.__call__: sub-move k has its own label array; answers per sub-move *)
  Record sub := { slabels : list Z; schoice : Z; soutcome : option (list P) }.
  Definition filtered (displaced : list (option Z)) : list Z := flat_map (fun o => match o with Some l => [l] | None => [] end) displaced.
  Definition candidates (labels : list Z) (displaced : list (option Z)) : list Z :=
    filter (fun l => negb (memz l (filtered displaced))) (unique_labels labels).
  Fixpoint composite_call (subs : list sub) (displaced : list (option Z)) (pos : list P) : list P * list (option Z) :=
    match subs with
    | [] => (pos, displaced)
    | s :: rest =>
        if memz (schoice s) (candidates (slabels s) displaced) then
          let r := displacement_call (slabels s) (Some (schoice s)) (schoice s) (soutcome s) pos in
          composite_call rest (displaced ++ [if dok r then dlabel r else None]) (dpos r)
        else
          (* no candidate left (admissible only when the candidate list is empty): register_failure *)
          composite_call rest (displaced ++ [None]) pos
    end.
  Definition number_moved (displaced : list (option Z)) : nat := length (filtered displaced).
End Disp.
Arguments write_group {P}. Arguments displacement_call {P}. Arguments composite_call {P}. Arguments dpos {P}. Arguments dok {P}. Arguments dlabel {P}.
Arguments Build_sub {P}. Arguments slabels {P}. Arguments schoice {P}. Arguments soutcome {P}.
