(* C17 — the + / * algebra of moves and operations.
   Transcribes BaseMove.__add__/__mul__ (moves/core.py), CompositeMove.__add__/__mul__ (moves/composite.py),
   BaseOperation.__add__/__mul__ (operations/core.py), CompositeOperation.__add__/__mul__ (operations/composite.py).
   Executable definitions only. *)
From Coq Require Export List ZArith Bool.
Export ListNotations.
Open Scope Z_scope.

(* leaf classes: DisplacementMove, ExchangeMove, CellMove, HamiltonianDisplacementMove, user subclass of BaseMove *)
Inductive kind := Disp | Exch | Cell | Ham | Gen.
(* type(result): CompositeMove, CompositeDisplacementMove, CompositeExchangeMove *)
Inductive ctype := Plain | CDisp | CExch.

Definition kind_eqb (a b : kind) : bool :=
  match a, b with Disp, Disp | Exch, Exch | Cell, Cell | Ham, Ham | Gen, Gen => true | _, _ => false end.
Definition ctype_eqb (a b : ctype) : bool :=
  match a, b with Plain, Plain | CDisp, CDisp | CExch, CExch => true | _, _ => false end.

(* move.composite_move_type, as far as type(result) is concerned: the generic aliases
   CompositeMove[BaseMove[..]] / CompositeMove[CellMove[..]] construct a plain CompositeMove *)
Definition comp_of (k : kind) : ctype := match k with Disp => CDisp | Exch => CExch | _ => Plain end.

Definition leaf := (Z * kind)%type.   (* object identity, class *)

Inductive value := VLeaf (l : leaf) | VComp (t : ctype) (ms : list leaf).

Inductive expr := Leaf (l : leaf) | Add (a b : expr) | Mul (a : expr) (n : Z).

Definition merge (t t' : ctype) : ctype := if ctype_eqb t t' then t' else Plain.

(* [bug] = the pinned tree's  `type(self.composite_move_type) is type(other)`  (compares a metaclass with a class:
   never true), i.e. leaf + composite is always plain.  bug = false is  `type(other) is self.composite_move_type`. *)
Definition add (bug : bool) (a b : value) : value :=
  match a, b with
  | VLeaf (i, k), VLeaf (j, k') => VComp (merge (comp_of k) (comp_of k')) [(i, k); (j, k')]
  | VLeaf (i, k), VComp t ms => VComp (if bug then Plain else merge t (comp_of k)) ((i, k) :: ms)
  | VComp t ms, VComp t' ms' => VComp (merge t' t) (ms ++ ms')
  | VComp t ms, VLeaf (j, k') => VComp (merge t (comp_of k')) (ms ++ [(j, k')])
  end.

Fixpoint rep {A} (n : nat) (l : list A) : list A := match n with O => [] | S n => l ++ rep n l end.

Definition mul (a : value) (n : Z) : option value :=
  if n <? 1 then None
  else match a with
       | VLeaf (i, k) => Some (VComp (comp_of k) (rep (Z.to_nat n) [(i, k)]))
       | VComp t ms => Some (VComp t (rep (Z.to_nat n) ms))
       end.

Fixpoint eval (bug : bool) (e : expr) : option value :=
  match e with
  | Leaf l => Some (VLeaf l)
  | Add a b => match eval bug a, eval bug b with Some x, Some y => Some (add bug x y) | _, _ => None end
  | Mul a n => match eval bug a with Some x => mul x n | None => None end
  end.

(* specification side *)
Fixpoint flatten (e : expr) : list leaf :=
  match e with
  | Leaf l => [l]
  | Add a b => flatten a ++ flatten b
  | Mul a n => rep (Z.to_nat n) (flatten a)
  end.

Definition leaves (v : value) : list leaf := match v with VLeaf l => [l] | VComp _ ms => ms end.

Definition all_kind (k : kind) (ms : list leaf) : bool := forallb (fun l => kind_eqb (snd l) k) ms.

(* the type the property prescribes for a composite with these elements *)
Definition spec_type (ms : list leaf) : ctype :=
  if all_kind Disp ms then CDisp else if all_kind Exch ms then CExch else Plain.

(* calling a plain composite: `any([move(context) for move in self.moves])` *)
Definition call_plain (ms : list leaf) (result_of : leaf -> bool) : list leaf * bool :=
  (ms, existsb result_of ms).

(* ---------------- operations: one composite class only ---------------- *)
Inductive ovalue := OLeaf (i : Z) | OComp (os : list Z).
Inductive oexpr := OL (i : Z) | OAdd (a b : oexpr) | OMul (a : oexpr) (n : Z).

Definition oadd (a b : ovalue) : ovalue :=
  match a, b with
  | OLeaf i, OLeaf j => OComp [i; j]
  | OLeaf i, OComp os => OComp (i :: os)
  | OComp os, OComp os' => OComp (os ++ os')
  | OComp os, OLeaf j => OComp (os ++ [j])
  end.
Definition omul (a : ovalue) (n : Z) : option ovalue :=
  if n <? 1 then None
  else Some (OComp (rep (Z.to_nat n) (match a with OLeaf i => [i] | OComp os => os end))).
Fixpoint oeval (e : oexpr) : option ovalue :=
  match e with
  | OL i => Some (OLeaf i)
  | OAdd a b => match oeval a, oeval b with Some x, Some y => Some (oadd x y) | _, _ => None end
  | OMul a n => match oeval a with Some x => omul x n | None => None end
  end.
Fixpoint oflatten (e : oexpr) : list Z :=
  match e with OL i => [i] | OAdd a b => oflatten a ++ oflatten b | OMul a n => rep (Z.to_nat n) (oflatten a) end.
Definition oleaves (v : ovalue) := match v with OLeaf i => [i] | OComp os => os end.
(* CompositeOperation.calculate: np.sum([op.calculate(ctx) ...], axis=0) over an abstract commutative monoid *)
Definition ocalc {V} (zero : V) (plus : V -> V -> V) (calc : Z -> V) (os : list Z) : V :=
  fold_left (fun acc o => plus acc (calc o)) os zero.

(* ---------------- encodings used by the correspondence harness ---------------- *)
Definition ctype_code (t : ctype) : Z := match t with Plain => 0 | CDisp => 1 | CExch => 2 end.
(* result code:  None -> [-1];  leaf -> [-2; id];  composite -> type code :: ids *)
Definition encode (r : option value) : list Z :=
  match r with
  | None => [-1]
  | Some (VLeaf (i, _)) => [-2; i]
  | Some (VComp t ms) => ctype_code t :: map fst ms
  end.
Definition oencode (r : option ovalue) : list Z :=
  match r with None => [-1] | Some (OLeaf i) => [-2; i] | Some (OComp os) => 0 :: os end.
Fixpoint zlist_eqb (a b : list Z) : bool :=
  match a, b with [] , [] => true | x :: a, y :: b => (x =? y) && zlist_eqb a b | _, _ => false end.
(* indices of the cases on which model and implementation disagree *)
Fixpoint disagreements {A} (f : A -> list Z) (cases : list (nat * A * list Z)) : list nat :=
  match cases with
  | [] => []
  | (n, a, expected) :: cs => if zlist_eqb (f a) expected then disagreements f cs else n :: disagreements f cs
  end.
