(* C03 — mc/contexts.py: the pending bookkeeping of a trial and the revert chain
   (ExchangeContext.revert_state -> DisplacementContext.revert_state -> Context.revert_state; DeformationContext; HamiltonianContext),
   moves/exchange.py bookkeeping of insertions / deletions.  Rows are opaque: (position, everything else). *)
From QV Require Export Model.Atoms.

Section Ctx.
  Variables P O : Type.                 (* position of an atom; all its other per-atom data (numbers, tags, momenta, custom arrays, identity) *)
  Variable dP : P. Variable dO : O.
  Definition row := (P * O)%type.
  Definition drow : row := (dP, dO).

  Record cstate := { rows : list row;               (* the live atoms *)
                     last_pos : list P;             (* context.last_positions *)
                     added : list nat;              (* context._added_indices   *)
                     deleted : list nat;            (* context._deleted_indices *)
                     deleted_rows : list row;       (* context._deleted_atoms   *)
                     pdelta : Z;                    (* context.particle_delta   *)
                     nexch : Z }.                   (* context.number_of_exchange_particles *)

  (* what a move does to the context during a trial *)
  Inductive act :=
  | Move (f : list row -> list P)                    (* displacement / integration: new positions for all rows, any function *)
  | Insert (new : list row)                          (* ExchangeMove addition that passed its check: rows appended *)
  | Delete (I : list nat) (dp : Z).                  (* deletion of the rows I (indices in the CURRENT frame); dp = particles removed *)

  Definition set_pos (ps : list P) (rs : list row) : list row := map (fun pr => (fst pr, snd (snd pr))) (combine ps rs).

  Definition apply_act (s : cstate) (a : act) : cstate :=
    match a with
    | Move f => {| rows := set_pos (f (rows s)) (rows s); last_pos := last_pos s; added := added s; deleted := deleted s;
                   deleted_rows := deleted_rows s; pdelta := pdelta s; nexch := nexch s |}
    | Insert new => {| rows := rows s ++ new; last_pos := last_pos s;
                       added := added s ++ seq (length (rows s)) (length new); deleted := deleted s;
                       deleted_rows := deleted_rows s; pdelta := (pdelta s + 1)%Z; nexch := nexch s |}
    | Delete Ix dp => {| rows := delete (rows s) Ix; last_pos := last_pos s; added := added s; deleted := deleted s ++ Ix;
                        deleted_rows := deleted_rows s ++ select drow (rows s) Ix; pdelta := (pdelta s - dp)%Z; nexch := nexch s |}
    end.
  Definition apply_trial (acts : list act) (s : cstate) : cstate := fold_left apply_act acts s.

  (* ExchangeContext.revert_state, then DisplacementContext.revert_state (atoms.positions = last_positions.copy()), then reset *)
  Definition revert_rows (s : cstate) : list row :=
    let r1 := match added s with [] => rows s | _ => delete (rows s) (added s) end in
    match deleted s with [] => r1 | _ => reinsert drow r1 (deleted_rows s) (deleted s) end.
  Definition revert (s : cstate) : cstate :=
    {| rows := set_pos (last_pos s) (revert_rows s); last_pos := last_pos s; added := []; deleted := []; deleted_rows := [];
       pdelta := 0; nexch := nexch s |}.
  (* ExchangeContext.save_state *)
  Definition save (s : cstate) : cstate :=
    {| rows := rows s; last_pos := map fst (rows s); added := []; deleted := []; deleted_rows := [];
       pdelta := 0; nexch := (nexch s + pdelta s)%Z |}.

  (* between trials: last_* equal the live values, nothing pending *)
  Definition Sync (s : cstate) : Prop :=
    last_pos s = map fst (rows s) /\ added s = [] /\ deleted s = [] /\ deleted_rows s = [] /\ pdelta s = 0%Z.
End Ctx.
Arguments rows {P O}. Arguments last_pos {P O}. Arguments added {P O}. Arguments deleted {P O}. Arguments deleted_rows {P O}.
Arguments pdelta {P O}. Arguments nexch {P O}. Arguments Move {P O}. Arguments Insert {P O}. Arguments Delete {P O}.
Arguments revert {P O}. Arguments revert_rows {P O}. Arguments save {P O}. Arguments apply_trial {P O}. Arguments apply_act {P O}.
Arguments set_pos {P O}. Arguments Sync {P O}. Arguments Build_cstate {P O}.
