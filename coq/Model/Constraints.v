(* C12 — ASE's FixAtoms / FixCom as used by the movers (Atoms.set_positions / set_momenta with apply_constraint=True),
   quansino.constraints.FixRot.adjust_momenta.  Atoms are lists of (mass, position); vectors from Model/Ops.v. *)
From QV Require Export Model.Ops.
Open Scope R_scope.

(* FixAtoms.adjust_positions(atoms, new):  new[index] = atoms.positions[index] *)
Fixpoint fixatoms_adjust (fixed : list bool) (old new : list v3) : list v3 :=
  match fixed, old, new with
  | f :: fs, o :: os, n :: ns => (if f then o else n) :: fixatoms_adjust fs os ns
  | _, _, _ => new
  end.
(* FixCom.adjust_positions(atoms, new):  new += old_com - new_com *)
Definition fixcom_adjust (ms : list R) (old new : list v3) : list v3 :=
  let d := vsub (com ms old) (com ms new) in map (vadd d) new.
(* FixCom.adjust_momenta: p_i -= m_i * (sum p / sum m) *)
Fixpoint fixcom_momenta_go (v : v3) (ms : list R) (ps : list v3) : list v3 :=
  match ms, ps with m :: ms', p :: ps' => vsub p (vscale m v) :: fixcom_momenta_go v ms' ps' | _, _ => ps end.
Definition fixcom_momenta (ms : list R) (ps : list v3) : list v3 := fixcom_momenta_go (vscale (/ summ ms) (sumv ps)) ms ps.

(* a simulation as seen by a constraint: current positions and the last accepted ones; every mover proposes through
   Atoms.set_positions(new, apply_constraint=True); a rejection restores the last accepted positions *)
Inductive cop := Propose (new : list v3) | Accept | Reject.
Record cstate := { cur : list v3; lastp : list v3 }.
Definition cstep (adjust : list v3 -> list v3 -> list v3) (s : cstate) (o : cop) : cstate :=
  match o with
  | Propose new => {| cur := adjust (cur s) new; lastp := lastp s |}
  | Accept => {| cur := cur s; lastp := cur s |}
  | Reject => {| cur := lastp s; lastp := lastp s |}
  end.
Definition crun (adjust : list v3 -> list v3 -> list v3) (ops : list cop) (s : cstate) : cstate := fold_left (cstep adjust) ops s.

(* ---------------- FixRot *)
Definition cross (a b : v3) : v3 := V3 (vy a * vz b - vz a * vy b) (vz a * vx b - vx a * vz b) (vx a * vy b - vy a * vx b).
Definition madd (a b : m3) : m3 :=
  M3 (a00 a + a00 b) (a01 a + a01 b) (a02 a + a02 b) (a10 a + a10 b) (a11 a + a11 b) (a12 a + a12 b) (a20 a + a20 b) (a21 a + a21 b) (a22 a + a22 b).
Definition mzero := M3 0 0 0 0 0 0 0 0 0.
(* m (|r|^2 1 - r r^T) *)
Definition inertia1 (m : R) (r : v3) : m3 :=
  M3 (m * (vy r * vy r + vz r * vz r)) (- m * vx r * vy r) (- m * vx r * vz r)
     (- m * vx r * vy r) (m * (vx r * vx r + vz r * vz r)) (- m * vy r * vz r)
     (- m * vx r * vz r) (- m * vy r * vz r) (m * (vx r * vx r + vy r * vy r)).
Fixpoint inertia (ms : list R) (rs : list v3) : m3 :=
  match ms, rs with m :: ms', r :: rs' => madd (inertia1 m r) (inertia ms' rs') | _, _ => mzero end.
Fixpoint angmom (rs ps : list v3) : v3 :=
  match rs, ps with r :: rs', p :: ps' => vadd (cross r p) (angmom rs' ps') | _, _ => vzero end.
(* momenta - cross(omega, r) * m *)
Fixpoint fixrot_go (omega : v3) (ms : list R) (rs ps : list v3) : list v3 :=
  match ms, rs, ps with
  | m :: ms', r :: rs', p :: ps' => vsub p (vscale m (cross omega r)) :: fixrot_go omega ms' rs' ps'
  | _, _, _ => []
  end.
(* positions relative to the centre of mass *)
Definition rel_com (ms : list R) (xs : list v3) : list v3 := map (fun x => vsub x (com ms xs)) xs.
