(* C20 — what a driver does with a user-supplied move / criteria (mc/core.py MonteCarlo.step, add_move, to_dict;
   mc/gcmc.py GrandCanonical.save_state; mc/isobaric.py Isobaric.save_state), as a trace over the documented protocol. *)
From Coq Require Export List ZArith Bool Arith.
Export ListNotations.

(* Python values a user move may return, and their truthiness *)
Inductive pyval := PyBool (b : bool) | PyInt (z : Z) | PyStr (len : nat) | PyList (len : nat) | PyNone.
Definition truthy (v : pyval) : bool :=
  match v with PyBool b => b | PyInt z => negb (Z.eqb z 0) | PyStr n => negb (Nat.eqb n 0) | PyList n => negb (Nat.eqb n 0) | PyNone => false end.

(* the only things a driver may do with a user object *)
Inductive event :=
| ECall (obj : nat)                                  (* move(context) *)
| EEvaluate (obj : nat)                              (* criteria.evaluate(context) *)
| EAtomsChanged (obj : nat) (added removed : list nat)
| ECellChanged (obj : nat) (cell : Z)                (* cell as a token *)
| EToDict (obj : nat).

(* what an accepted trial changed *)
Record change := { ch_added : list nat; ch_removed : list nat; ch_cell : option Z }.
Definition no_change := {| ch_added := []; ch_removed := []; ch_cell := None |}.

(* duplicate-free list of the move objects of the table (ids), in first-occurrence order *)
Fixpoint dedup_nat (l : list nat) (seen : list nat) : list nat :=
  match l with [] => [] | x :: t => if existsb (Nat.eqb x) seen then dedup_nat t seen else x :: dedup_nat t (x :: seen) end.

(* [gc]: GrandCanonical.save_state notifies on every acceptance, with the pending index lists (empty ones when the accepted
   trial did not change the atom count); the other drivers never send atom notifications *)
Definition notifications (gc : bool) (objs : list nat) (c : change) : list event :=
  (match ch_added c, ch_removed c with
   | [], [] => if gc then map (fun o => EAtomsChanged o [] []) (dedup_nat objs []) else []
   | _, _ => map (fun o => EAtomsChanged o (ch_added c) (ch_removed c)) (dedup_nat objs [])
   end) ++
  (match ch_cell c with None => [] | Some cell => map (fun o => ECellChanged o cell) (dedup_nat objs []) end).

(* one trial: the move object [m] with criteria object [k]; [ret] is what the move returned; [verdict] what the criteria said;
   [c] what the trial changed (only looked at when accepted) *)
Definition trial_trace (gc : bool) (objs : list nat) (m k : nat) (ret : pyval) (verdict : bool) (c : change) : list event * option bool :=
  if truthy ret then
    (ECall m :: EEvaluate k :: (if verdict then notifications gc objs c else []), Some verdict)
  else ([ECall m], None).

Definition is_protocol_event (e : event) : bool := true.   (* every constructor IS a protocol method: the alphabet is closed by typing *)
