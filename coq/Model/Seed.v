(* C06 — mc/driver.py Driver.__init__: the seed a simulation ends up with.  Everything stochastic in the other models takes its answers
   from the one oracle stream owned by the driver (there is no other stream in their types), so "no stray global randomness" is true of the
   models by construction; for the real code it is established by the tie (differential runs with trip-wired global generators). *)
From Coq Require Export ZArith Bool.
Open Scope Z_scope.

(* Python: `seed or fresh()` treats 0 like None; repaired: `seed if seed is not None else fresh()` *)
Definition init_seed (zero_is_falsy : bool) (seed : option Z) (fresh : Z) : Z :=
  match seed with
  | Some s => if zero_is_falsy && (s =? 0) then fresh else s
  | None => fresh
  end.
(* a run is a function of the configuration and of the generator stream alone *)
Definition run_with {Cfg Stream Traj : Type} (sim : Cfg -> Stream -> Traj) (stream_of : Z -> Stream) (cfg : Cfg) (seed : option Z) (fresh : Z) (zero_is_falsy : bool) : Traj :=
  sim cfg (stream_of (init_seed zero_is_falsy seed fresh)).
