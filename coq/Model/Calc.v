(* C04 — the energy bookkeeping of a trial: ASE Calculator.get_property caching, Context.save_state / revert_state (last_results,
   last_potential_energy, last_positions/last_cell) and the drivers' calculator resynchronisation
   (Canonical.revert_state, Isobaric.revert_state, GrandCanonical.revert_state; Canonical.validate_simulation).
   Configurations and energies are opaque; the calculator is ANY deterministic function E of the configuration. *)
From Coq Require Export List Bool Arith.
Export ListNotations.

Section Calc.
  Variables C V : Type.                      (* configuration (positions, cell, atom list); calculator result *)
  Variable E : C -> V.
  Variable ceq : C -> C -> bool.             (* ASE compare_atoms: has the system changed? *)

  Record cst := { cfg : C;                    (* the live atoms *)
                  catoms : option C;          (* calc.atoms : what the calculator believes it computed *)
                  cres : option V;            (* calc.results['energy'] *)
                  last_cfg : C;               (* context.last_positions / last_cell *)
                  last_e : option V;          (* context.last_potential_energy (None = nan, not yet set) *)
                  last_res : option V;        (* context.last_results *)
                  evals : nat }.              (* number of calculator evaluations so far *)

  (* atoms.get_potential_energy(): Calculator.get_property - recompute iff the system changed or nothing is cached *)
  Definition get_energy (s : cst) : V * cst :=
    match catoms s, cres s with
    | Some a, Some e => if ceq a (cfg s) then (e, s)
                        else (E (cfg s), {| cfg := cfg s; catoms := Some (cfg s); cres := Some (E (cfg s)); last_cfg := last_cfg s;
                                            last_e := last_e s; last_res := last_res s; evals := S (evals s) |})
    | _, _ => (E (cfg s), {| cfg := cfg s; catoms := Some (cfg s); cres := Some (E (cfg s)); last_cfg := last_cfg s;
                              last_e := last_e s; last_res := last_res s; evals := S (evals s) |})
    end.

  (* Canonical.validate_simulation (every irun): last_positions := positions; the reference energy is re-read (served from the calculator's
     cache when nothing changed: repo 010dea2 - the shipped code did so only while it was still nan); last_results := calc.results *)
  Definition validate (s : cst) : cst :=
    let s1 := {| cfg := cfg s; catoms := catoms s; cres := cres s; last_cfg := cfg s; last_e := last_e s; last_res := last_res s; evals := evals s |} in
    let (e, t) := get_energy s1 in
    {| cfg := cfg t; catoms := catoms t; cres := cres t; last_cfg := last_cfg t; last_e := Some e; last_res := cres t; evals := evals t |}.

  (* a trial: the move proposes cfg' (None = the move failed and restored the atoms itself); the criteria asks for the energy *)
  (* ... or, between two runs of the same driver, the USER sets the atoms to c' and the next run starts with validate_simulation *)
  Inductive outcome := Failed | Rejected (c' : C) | Accepted (c' : C) | Edited (c' : C).

  Definition propose (s : cst) (c' : C) : cst :=
    {| cfg := c'; catoms := catoms s; cres := cres s; last_cfg := last_cfg s; last_e := last_e s; last_res := last_res s; evals := evals s |}.
  (* save_state: last_positions/cell := current; last_potential_energy := atoms.get_potential_energy(); last_results := calc.results *)
  Definition save (s : cst) : cst :=
    let (e, t) := get_energy s in
    {| cfg := cfg t; catoms := catoms t; cres := cres t; last_cfg := cfg t; last_e := Some e; last_res := cres t; evals := evals t |}.
  (* revert_state: atoms := last geometry; calc.results := last_results; driver: calc.atoms := the restored geometry *)
  Definition revert (s : cst) : cst :=
    {| cfg := last_cfg s; catoms := Some (last_cfg s); cres := last_res s; last_cfg := last_cfg s; last_e := last_e s;
       last_res := last_res s; evals := evals s |}.

  Definition trial (s : cst) (o : outcome) : cst :=
    match o with
    | Failed => s
    | Rejected c' => revert (snd (get_energy (propose s c')))
    | Accepted c' => save (snd (get_energy (propose s c')))
    | Edited c' => validate (propose s c')
    end.
  Definition run (os : list outcome) (s : cst) : cst := fold_left trial os s.

  (* what the property asks between trials *)
  Definition Coherent (s : cst) : Prop :=
    cres s = Some (E (cfg s)) /\ (exists a, catoms s = Some a /\ ceq a (cfg s) = true) /\ last_e s = Some (E (cfg s)) /\
    last_cfg s = cfg s /\ last_res s = Some (E (cfg s)).
  Definition reached (o : outcome) : bool := match o with Failed | Edited _ => false | _ => true end.
  Definition edited (o : outcome) : bool := match o with Edited _ => true | _ => false end.
End Calc.
Arguments cfg {C V}. Arguments catoms {C V}. Arguments cres {C V}. Arguments last_cfg {C V}. Arguments last_e {C V}.
Arguments last_res {C V}. Arguments evals {C V}. Arguments Build_cst {C V}. Arguments Failed {C}. Arguments Rejected {C}. Arguments Accepted {C}. Arguments Edited {C}.
