(* C08 — Python's import protocol over the module-level import statements of the package (regenerated from the source on every run):
   modules are executed statement by statement; a module that is being imported is already in sys.modules, partially initialised;
   `from m import x` fails when x is not (yet) bound in m and is not a submodule of m.  Function bodies and TYPE_CHECKING blocks are not
   executed at import time and are dropped by the translator. *)
From Coq Require Export List Bool Arith.
Export ListNotations.

Inductive stmt := SImport (m : nat) | SFrom (m : nat) (names : list nat) | SDef (name : nat).
(* module id, parent package (if any), the name under which it is bound in its parent, body *)
Record module := { m_id : nat; m_parent : option nat; m_self_name : nat; m_body : list stmt }.
Definition graph := list module.

Inductive status := Loading (bound : list nat) | Loaded (bound : list nat).
Definition sysmodules := list (nat * status).

Fixpoint find_mod (g : graph) (m : nat) : option module :=
  match g with [] => None | h :: t => if Nat.eqb (m_id h) m then Some h else find_mod t m end.
Fixpoint get_status (s : sysmodules) (m : nat) : option status :=
  match s with [] => None | (k, v) :: t => if Nat.eqb k m then Some v else get_status t m end.
Fixpoint set_status (s : sysmodules) (m : nat) (v : status) : sysmodules :=
  match s with [] => [(m, v)] | (k, w) :: t => if Nat.eqb k m then (k, v) :: t else (k, w) :: set_status t m v end.
Definition bound_of (st : status) : list nat := match st with Loading b => b | Loaded b => b end.
Definition bind (s : sysmodules) (m name : nat) : sysmodules :=
  match get_status s m with
  | Some (Loading b) => set_status s m (Loading (name :: b))
  | Some (Loaded b) => set_status s m (Loaded (name :: b))
  | None => s
  end.
Definition memb (x : nat) (l : list nat) : bool := existsb (Nat.eqb x) l.
(* the submodule of package m that is called [name] *)
Definition submodule (g : graph) (m name : nat) : option nat :=
  option_map m_id (find (fun k => match m_parent k with Some p => Nat.eqb p m && Nat.eqb (m_self_name k) name | None => false end) g).

Section Interp.
  Variable g : graph.
  (* result: Some state = success, None = ImportError (or out of fuel: excluded by the obligations, which use ample fuel) *)
  Fixpoint import_mod (fuel : nat) (s : sysmodules) (m : nat) : option sysmodules :=
    match fuel with
    | O => None
    | S f =>
        match get_status s m with
        | Some _ => Some s                                  (* already in sys.modules (possibly partially initialised) *)
        | None =>
            match find_mod g m with
            | None => None
            | Some md =>
                (* the parent package is imported first *)
                let s0 := match m_parent md with Some p => import_mod f s p | None => Some s end in
                match s0 with
                | None => None
                | Some s1 =>
                    match get_status s1 m with
                    | Some _ => Some s1                      (* importing the parent already imported this module *)
                    | None =>
                        let s2 := set_status s1 m (Loading []) in
                        match exec f s2 m (m_body md) with
                        | None => None
                        | Some s3 =>
                            let s4 := set_status s3 m (Loaded (bound_of (match get_status s3 m with Some st => st | None => Loading [] end))) in
                            (* a loaded submodule becomes an attribute of its package *)
                            Some (match m_parent md with Some p => bind s4 p (m_self_name md) | None => s4 end)
                        end
                    end
                end
            end
        end
    end
  with exec (fuel : nat) (s : sysmodules) (cur : nat) (body : list stmt) : option sysmodules :=
    match fuel with
    | O => None
    | S f =>
        match body with
        | [] => Some s
        | SDef n :: rest => exec f (bind s cur n) cur rest
        | SImport m :: rest => match import_mod f s m with Some s' => exec f s' cur rest | None => None end
        | SFrom m names :: rest =>
            match import_mod f s m with
            | None => None
            | Some s1 =>
                let step := fun (acc : option sysmodules) (n : nat) =>
                  match acc with
                  | None => None
                  | Some sa =>
                      if memb n (match get_status sa m with Some st => bound_of st | None => [] end) then Some (bind sa cur n)
                      else match submodule g m n with
                           | Some sub => match import_mod f sa sub with Some sb => Some (bind sb cur n) | None => None end
                           | None => None                      (* ImportError: cannot import name *)
                           end
                  end in
                match fold_left step names (Some s1) with
                | Some s2 => exec f s2 cur rest
                | None => None
                end
            end
        end
    end.

  Definition imports_first (fuel : nat) (m : nat) : bool := match import_mod fuel [] m with Some _ => true | None => false end.
  (* after `import first` in a fresh interpreter, module m has been executed to the end (so the classes it registers are in the registry) *)
  Definition loaded_after (fuel : nat) (first m : nat) : bool :=
    match import_mod fuel [] first with
    | Some s => match get_status s m with Some (Loaded _) => true | _ => false end
    | None => false
    end.
End Interp.
