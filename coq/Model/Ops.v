(* C10 — operations/displacement.py, operations/cell.py, operations/composite.py over the reals.
   Vectors are triples, matrices 3x3 records.  Random draws are ARGUMENTS (oracle answers); each operation also states the
   law it requests for every answer (Uniform lo hi), which the harness compares with the recorded generator calls. *)
From Coq Require Export Reals List Bool.
Export ListNotations.
Open Scope R_scope.

Record v3 := V3 { vx : R; vy : R; vz : R }.
Definition vadd (a b : v3) := V3 (vx a + vx b) (vy a + vy b) (vz a + vz b).
Definition vsub (a b : v3) := V3 (vx a - vx b) (vy a - vy b) (vz a - vz b).
Definition vscale (k : R) (a : v3) := V3 (k * vx a) (k * vy a) (k * vz a).
Definition vzero := V3 0 0 0.
Definition norm2 (a : v3) : R := vx a * vx a + vy a * vy a + vz a * vz a.

Record m3 := M3 { a00 : R; a01 : R; a02 : R; a10 : R; a11 : R; a12 : R; a20 : R; a21 : R; a22 : R }.
Definition mident := M3 1 0 0 0 1 0 0 0 1.
Definition mmul (a b : m3) : m3 :=
  M3 (a00 a * a00 b + a01 a * a10 b + a02 a * a20 b) (a00 a * a01 b + a01 a * a11 b + a02 a * a21 b) (a00 a * a02 b + a01 a * a12 b + a02 a * a22 b)
     (a10 a * a00 b + a11 a * a10 b + a12 a * a20 b) (a10 a * a01 b + a11 a * a11 b + a12 a * a21 b) (a10 a * a02 b + a11 a * a12 b + a12 a * a22 b)
     (a20 a * a00 b + a21 a * a10 b + a22 a * a20 b) (a20 a * a01 b + a21 a * a11 b + a22 a * a21 b) (a20 a * a02 b + a21 a * a12 b + a22 a * a22 b).
Definition mtrans (a : m3) : m3 := M3 (a00 a) (a10 a) (a20 a) (a01 a) (a11 a) (a21 a) (a02 a) (a12 a) (a22 a).
Definition mapply (a : m3) (v : v3) : v3 :=
  V3 (a00 a * vx v + a01 a * vy v + a02 a * vz v) (a10 a * vx v + a11 a * vy v + a12 a * vz v) (a20 a * vx v + a21 a * vy v + a22 a * vz v).
(* row vector times matrix (numpy: frac @ cell) *)
Definition rowmul (v : v3) (a : m3) : v3 :=
  V3 (vx v * a00 a + vy v * a10 a + vz v * a20 a) (vx v * a01 a + vy v * a11 a + vz v * a21 a) (vx v * a02 a + vy v * a12 a + vz v * a22 a).
Definition mdet (a : m3) : R :=
  a00 a * (a11 a * a22 a - a12 a * a21 a) - a01 a * (a10 a * a22 a - a12 a * a20 a) + a02 a * (a10 a * a21 a - a11 a * a20 a).
Definition mtrace (a : m3) : R := a00 a + a11 a + a22 a.
Definition mscale (k : R) (a : m3) : m3 := M3 (k * a00 a) (k * a01 a) (k * a02 a) (k * a10 a) (k * a11 a) (k * a12 a) (k * a20 a) (k * a21 a) (k * a22 a).
Definition mneg (a : m3) : m3 := mscale (-1) a.

(* ---------------- displacement operations: one displacement for the whole group (numpy broadcasting) *)
(* Ball: r ~ U(0,step), phi ~ U(0,2pi), c = cos(theta) ~ U(-1,1) *)
Definition ball (r phi c : R) : v3 := let s := sqrt (1 - c * c) in V3 (r * s * cos phi) (r * s * sin phi) (r * c).
Definition sphere (step phi c : R) : v3 := let s := sqrt (1 - c * c) in V3 (step * (s * cos phi)) (step * (s * sin phi)) (step * c).
Definition box (t : v3) : v3 := t.                       (* each component ~ U(-step, step) *)

(* group = list of (mass, position) *)
Definition sumv (l : list v3) : v3 := fold_right vadd vzero l.
Definition centroid (ps : list v3) : v3 := vscale (/ INR (length ps)) (sumv ps).
Definition summ (ms : list R) : R := fold_right Rplus 0 ms.
Fixpoint wsum (ms : list R) (ps : list v3) : v3 :=
  match ms, ps with m :: ms', p :: ps' => vadd (vscale m p) (wsum ms' ps') | _, _ => vzero end.
Definition com (ms : list R) (ps : list v3) : v3 := vscale (/ summ ms) (wsum ms ps).

(* Translation: frac ~ U(0,1)^3 ; displacement = frac @ cell - centroid(group), the same for every atom of the group *)
Definition translation (frac : v3) (cell : m3) (ps : list v3) : v3 := vsub (rowmul frac cell) (centroid ps).

(* Rotation about the centre of mass with a rotation matrix A: p |-> A (p - c) + c ; the operation returns new - old *)
Definition rot_point (A : m3) (c p : v3) : v3 := vadd (mapply A (vsub p c)) c.
Definition rotation_disp (A : m3) (ms : list R) (ps : list v3) : list v3 :=
  map (fun p => vsub (rot_point A (com ms ps) p) p) ps.

(* ASE: R.from_euler('zxz', (-phi,-theta,-psi)) : intrinsic... as an explicit matrix  Rz(a) Rx(b) Rz(c) *)
Definition Rz (a : R) : m3 := M3 (cos a) (- sin a) 0 (sin a) (cos a) 0 0 0 1.
Definition Rx (b : R) : m3 := M3 1 0 0 0 (cos b) (- sin b) 0 (sin b) (cos b).
(* with cos(theta) = c drawn uniformly and sin(theta) = sqrt(1-c^2) >= 0 *)
Definition Rx_c (c : R) : m3 := let s := sqrt (1 - c * c) in M3 1 0 0 0 c (- s) 0 s c.
Definition euler (phi c psi : R) : m3 := mmul (Rz phi) (mmul (Rx_c c) (Rz psi)).
(* the law-preserving involution on (phi, c, psi) that produces the inverse rotation: angles modulo a full turn *)
Definition euler_inv_phi (psi : R) : R := PI - psi.
Definition euler_inv_psi (phi : R) : R := - phi - PI.

(* composite operation: sum of the parts *)
Definition composite (parts : list v3) : v3 := sumv parts.

(* ---------------- deformation operations *)
Definition bmask := nat -> nat -> bool.
Definition full_mask : bmask := fun _ _ => true.
Definition mget (a : m3) (i j : nat) : R :=
  match i, j with
  | 0%nat, 0%nat => a00 a | 0%nat, 1%nat => a01 a | 0%nat, 2%nat => a02 a
  | 1%nat, 0%nat => a10 a | 1%nat, 1%nat => a11 a | 1%nat, 2%nat => a12 a
  | 2%nat, 0%nat => a20 a | 2%nat, 1%nat => a21 a | 2%nat, 2%nat => a22 a
  | _, _ => 0 end.
Definition mbuild (f : nat -> nat -> R) : m3 :=
  M3 (f 0 0)%nat (f 0 1)%nat (f 0 2)%nat (f 1 0)%nat (f 1 1)%nat (f 1 2)%nat (f 2 0)%nat (f 2 1)%nat (f 2 2)%nat.
Definition delta (i j : nat) : R := if Nat.eqb i j then 1 else 0.
(* X * mask + eye * ~mask, elementwise *)
Definition masked (x : m3) (mk : bmask) : m3 := mbuild (fun i j => if mk i j then mget x i j else delta i j).

(* symmetric generator from six components (c0,c1,c2 diagonal; c3,c4,c5 = xy,xz,yz) *)
Definition sym6 (c0 c1 c2 c3 c4 c5 : R) : m3 := M3 c0 c3 c4 c3 c1 c5 c4 c5 c2.
Definition aniso_gen (c0 c1 c2 c3 c4 c5 : R) : m3 := sym6 c0 c1 c2 c3 c4 c5.
Definition shape_gen (c0 c1 c2 c3 c4 c5 : R) : m3 := let mu := (c0 + c1 + c2) / 3 in sym6 (c0 - mu) (c1 - mu) (c2 - mu) c3 c4 c5.

Definition iso_def (u : R) (mk : bmask) : m3 := masked (mscale (exp u) mident) mk.
Section Expm.
  Variable expm : m3 -> m3.          (* scipy.linalg.expm: an external with a stated contract (see Proofs/OpsProofs.v) *)
  Definition aniso_def (c0 c1 c2 c3 c4 c5 : R) (mk : bmask) : m3 := masked (expm (aniso_gen c0 c1 c2 c3 c4 c5)) mk.
  Definition shape_def (c0 c1 c2 c3 c4 c5 : R) (mk : bmask) : m3 := masked (expm (shape_gen c0 c1 c2 c3 c4 c5)) mk.
End Expm.

(* the matrix ASE applies for euler_rotate(phi, theta, psi) (angles here in radians, cos(theta) = c, sin(theta) >= 0):
   scipy R.from_euler('zxz', (-phi, -theta, -psi)) = Rz(-psi) Rx(-theta) Rz(-phi) *)
Definition ase_rot (phi c psi : R) : m3 := mmul (Rz (- psi)) (mmul (mtrans (Rx_c c)) (Rz (- phi))).
