(* C14 — integrators/displacement.py (Verlet.integrate), utils/dynamics.py (maxwell_boltzmann_distribution),
   moves/displacement.py (HamiltonianDisplacementMove.attempt_displacement) over the reals.
   Coordinates are indexed by naturals (atom i, component c  |->  3 i + c); the force field is an ARBITRARY function of
   the whole configuration (a Section variable in the proofs), so the theorems hold for every potential. *)
From Coq Require Export Reals List.
Export ListNotations.
Open Scope R_scope.

Definition vec := nat -> R.
Record phase := { qq : vec; pp : vec }.

(* one pass of the loop body of Verlet.integrate (no constraints):
     new_momenta = p + 0.5 f(q) dt ;  q' = q + new_momenta / m dt ;  p' = new_momenta + 0.5 f(q') dt *)
Definition vv (f : vec -> vec) (m : vec) (dt : R) (s : phase) : phase :=
  let ph := fun i => pp s i + / 2 * f (qq s) i * dt in
  let q' := fun i => qq s i + ph i / m i * dt in
  {| qq := q'; pp := fun i => ph i + / 2 * f q' i * dt |}.

Fixpoint iter {A} (n : nat) (g : A -> A) (x : A) : A := match n with O => x | S k => iter k g (g x) end.
(* Verlet(dt, max_steps = n).integrate *)
Definition integrate (f : vec -> vec) (m : vec) (dt : R) (n : nat) (s : phase) : phase := iter n (vv f m dt) s.

Definition flip (s : phase) : phase := {| qq := qq s; pp := fun i => - pp s i |}.
Definition eqst (s t : phase) : Prop := (forall i, qq s i = qq t i) /\ (forall i, pp s i = pp t i).

(* harmonic wells, one spring constant per coordinate:  f_i(q) = - k_i (q_i - r0_i) *)
Definition harmonic (k r0 : vec) : vec -> vec := fun q i => - k i * (q i - r0 i).
(* energies of one coordinate *)
Definition ham1 (k m q p : R) : R := p * p / (2 * m) + / 2 * k * q * q.
Definition shadow1 (k m dt q p : R) : R := p * p / (2 * m) + / 2 * k * q * q * (1 - k * dt * dt / (4 * m)).

(* Maxwell-Boltzmann refresh: xi requested StdNormal; kT = context.temperature * kB *)
Definition mb_p (m kT xi : R) : R := xi * sqrt (m * kT).
(* forced: real_temperature = 2 KE / dof ;  scale = sqrt(kT / real_temperature) when there is kinetic energy to rescale, 1 otherwise;  KE' = KE * scale^2 *)
Definition real_temp (ke dof : R) : R := 2 * ke / dof.
Definition forced_scale (kT ke dof : R) : R := if Rlt_dec 0 (real_temp ke dof) then sqrt (kT / real_temp ke dof) else 1.
Definition ke_after_forced (kT ke dof : R) : R := ke * (forced_scale kT ke dof * forced_scale kT ke dof).

(* the Hamiltonian move: per attempt  refresh -> record kinetic energy -> integrate -> check; on a failed check restore.
   [K] is any kinetic-energy functional, [refresh] any function of the attempt's normal draws. *)
Section HMove.
  Variable K : vec -> R.
  Variable refresh : nat -> phase -> phase.      (* attempt number selects the draws *)
  Variable integ : phase -> phase.
  Variable check : nat -> phase -> bool.
  Record hstate := { ph : phase; lastK : R }.
  Fixpoint hmove (attempts k : nat) (s : hstate) : hstate * bool :=
    match attempts with
    | O => (s, false)
    | S a => let fresh := refresh k (ph s) in
             let rec := {| ph := fresh; lastK := K (pp fresh) |} in
             let moved := integ fresh in
             if check k moved then ({| ph := moved; lastK := lastK rec |}, true)
             else hmove a (S k) {| ph := ph s; lastK := lastK rec |}
    end.
End HMove.
