(* C02 — the five acceptance rules of mc/criteria.py over the reals.
   Constants (ASE's kB, _hplanck, _Nav, _e) are arguments so that the theorems hold for any positive values;
   the case files instantiate them with the exact rational value of ASE's floats (Gen/Constants.v). *)
From Coq Require Export Reals ZArith List.
Export ListNotations.
Open Scope R_scope.

(* Python's math.exp raises OverflowError above ln(max double) ~ 709.78; [ovf] is that threshold *)
Inductive result (A : Type) := Ok (a : A) | Overflow.
Arguments Ok {A}. Arguments Overflow {A}.

Definition pexp (ovf x : R) : result R := if Rle_dec x ovf then Ok (exp x) else Overflow.

(* shipped tree: math.exp(x);  repaired: math.exp(min(x, 0.0)) *)
Definition acc_value (clamp : bool) (ovf x : R) : result R := pexp ovf (if clamp then Rmin x 0 else x).

(* `rng.random() < value` *)
Definition decide (u : R) (v : result R) : result bool :=
  match v with Ok a => Ok (if Rlt_dec u a then true else false) | Overflow => Overflow end.

Section Rules.
  Variable kB : R.

  (* canonical / Hamiltonian (dE = total energy change for the latter) *)
  Definition x_can (dE T : R) : R := - dE / (T * kB).

  (* isobaric: -(dE + P (V' - V)) / kT + (N + 1) ln (V'/V) *)
  Definition x_iso (dE P V V' T : R) (N : nat) : R :=
    - (dE + P * (V' - V)) / (T * kB) + (INR N + 1) * ln (V' / V).

  (* 3x3 matrices as functions of two indices in {0,1,2} *)
  Definition mat := nat -> nat -> R.
  Definition sum3 (f : nat -> R) : R := f 0%nat + f 1%nat + f 2%nat.
  Definition tr_prod (a b : mat) : R := sum3 (fun i => sum3 (fun j => a i j * b j i)).
  Definition ident : mat := fun i j => if Nat.eqb i j then 1 else 0.
  (* repaired: S - P*1;  shipped: S - P (numpy broadcasting subtracts the scalar from every entry) *)
  Definition stress_dev (scalar_bug : bool) (S : mat) (P : R) : mat :=
    fun i j => S i j - (if scalar_bug then P else P * ident i j).

  (* isotension: elastic = P (V'-V) + V tr((S - P 1) eps), with eps the strain the implementation publishes *)
  Definition x_tens (scalar_bug : bool) (dE P V V' T : R) (N : nat) (S eps : mat) : R :=
    - (dE + (P * (V' - V) + V * tr_prod (stress_dev scalar_bug S P) eps)) / (T * kB)
    + (INR N + 1) * ln (V' / V).

  (* grand canonical *)
  Variables hplanck Nav echarge : R.
  Definition debroglie (m T : R) : R :=
    sqrt (hplanck * hplanck / (2 * PI * m * kB * T / Nav * (1 / 1000) * echarge)) * 10000000000.

  (* the code's two loops *)
  Fixpoint fact_ins (N : nat) (k : nat) : R :=   (* prod_{i=N+1}^{N+k} 1/i *)
    match k with O => 1 | S k' => fact_ins N k' / INR (N + k) end.
  Fixpoint fact_del (N : nat) (k : nat) : R :=   (* prod_{i=N-k+1}^{N} i *)
    match k with O => 1 | S k' => fact_del N k' * INR (N - k') end.
  Definition factorial_term (N : nat) (delta : Z) : R :=
    match delta with Z0 => 1 | Zpos p => fact_ins N (Pos.to_nat p) | Zneg p => fact_del N (Pos.to_nat p) end.

  Definition prefactor (V m T : R) (N : nat) (delta : Z) : R :=
    powerRZ V delta * factorial_term N delta * powerRZ (debroglie m T) (-3 * delta).
  Definition x_gc (dE mu T : R) (delta : Z) : R := (IZR delta * mu - dE) / (T * kB).
  (* textbook value A = prefactor * exp(x);  repaired code evaluates exp(min(x + ln prefactor, 0)) *)
  Definition A_gc (dE mu V m T : R) (N : nat) (delta : Z) : R := prefactor V m T N delta * exp (x_gc dE mu T delta).
  Definition xlog_gc (dE mu V m T : R) (N : nat) (delta : Z) : R := x_gc dE mu T delta + ln (prefactor V m T N delta).
End Rules.
