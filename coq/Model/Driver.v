(* C15 / C09 — the run loop (mc/driver.py: Driver.irun, call_observers, converged) and the move scheduler
   (mc/core.py: MonteCarlo.yield_moves, add_move).  Executable definitions only. *)
From Coq Require Export List ZArith Bool.
Export ListNotations.
Open Scope Z_scope.

(* ------------------------------------------------------------------ C15: observers and the run loop *)
Record observer := { oname : Z; ointerval : Z }.
Inductive event := Header | Obs (name : Z) (k : Z) | Step (k : Z).

(* Driver.call_observers' test *)
Definition due (k : Z) (o : observer) : bool :=
  let i := ointerval o in ((0 <? i) && (k mod i =? 0)) || ((i <? 0) && (k =? Z.abs i)).

Definition call_observers (obs : list observer) (k : Z) : list event :=
  map (fun o => Obs (oname o) k) (filter (due k) obs).

(* while not converged: yield step(); step_count += 1; call_observers() *)
Fixpoint loop (obs : list observer) (fuel : nat) (count : Z) : list event :=
  match fuel with
  | O => []
  | S f => Step count :: call_observers obs (count + 1) ++ loop obs f (count + 1)
  end.

(* state of the driver as far as irun is concerned: step_count and the "initial call done" flag.
   zero_fires = true is the pinned tree (`if self.step_count == 0:` — the flag is ignored),
   false is `if self.step_count == 0 and not self._initial_call_done:` *)
Definition dstate := (Z * bool)%type.

Definition irun (zero_fires logger : bool) (obs : list observer) (st : dstate) (steps : Z) : list event * dstate :=
  let '(count, started) := st in
  let first := if (count =? 0) && (zero_fires || negb started)
               then (if logger then [Header] else []) ++ call_observers obs 0 else [] in
  (first ++ loop obs (Z.to_nat steps) count, (count + Z.max steps 0, true)).

Fixpoint runs (zf lg : bool) (obs : list observer) (st : dstate) (segments : list Z) : list event * dstate :=
  match segments with
  | [] => ([], st)
  | a :: rest => let '(e, c) := irun zf lg obs st a in
                 let '(e', c') := runs zf lg obs c rest in (e ++ e', c')
  end.

(* the same with the observers' intervals re-tuned by the user between two run calls (observer.interval is a public attribute) *)
Fixpoint runs_var (zf lg : bool) (st : dstate) (segments : list (list observer * Z)) : list event * dstate :=
  match segments with
  | [] => ([], st)
  | (obs, a) :: rest => let '(e, c) := irun zf lg obs st a in
                        let '(e', c') := runs_var zf lg c rest in (e ++ e', c')
  end.

Definition fresh : dstate := (0, false).

Fixpoint zseq (c : Z) (n : nat) : list Z := match n with O => [] | S n => c :: zseq (c + 1) n end.

Definition calls_of (nm : Z) (evs : list event) : list Z :=
  flat_map (fun e => match e with Obs n k => if n =? nm then [k] else [] | _ => [] end) evs.
Definition steps_of (evs : list event) : list Z :=
  flat_map (fun e => match e with Step k => [k] | _ => [] end) evs.
Definition is_header (e : event) : bool := match e with Header => true | _ => false end.

(* encoding for the harness: Header -> [0], Obs n k -> [1;n;k], Step k -> [2;k] *)
Definition enc_event (e : event) : list Z :=
  match e with Header => [0] | Obs n k => [1; n; k] | Step k => [2; k] end.
Definition enc_events (evs : list event) : list Z := flat_map enc_event evs.

(* ------------------------------------------------------------------ C09: scheduling *)
Record entry := { ename : Z; einterval : Z; eweight : Z (* probability, scaled to an integer *); emin : nat }.

Definition is_due (step : Z) (e : entry) : bool := step mod einterval e =? 0.
Definition due_moves (tbl : list entry) (step : Z) : list entry := filter (is_due step) tbl.
(* np.repeat(available_moves, counts) *)
Definition forced (dm : list entry) : list Z := flat_map (fun e => repeat (ename e) (emin e)) dm.

(* dict(zip(idx, names)): later key wins *)
Fixpoint lookup (idx : list nat) (names : list Z) (i : nat) : option Z :=
  match idx, names with
  | j :: idx', n :: names' => match lookup idx' names' i with
                              | Some x => Some x
                              | None => if Nat.eqb j i then Some n else None
                              end
  | _, _ => None
  end.

(* the slots loop; [free] are the oracle's answers for the free slots, in order *)
Fixpoint slots (idx : list nat) (fnames : list Z) (i : nat) (n : nat) (free : list Z) : list Z :=
  match n with
  | O => []
  | S n' => match lookup idx fnames i with
            | Some x => x :: slots idx fnames (S i) n' free
            | None => match free with
                      | f :: free' => f :: slots idx fnames (S i) n' free'
                      | [] => []   (* oracle exhausted: excluded by admissibility *)
                      end
            end
  end.

Definition yield_moves (tbl : list entry) (step : Z) (cycles : nat) (fidx : list nat) (free : list Z) : list Z :=
  let dm := due_moves tbl step in
  match dm with
  | [] => []
  | _ => slots fidx (forced dm) 0 cycles free
  end.

(* the weight vector requested from the generator for EVERY free slot (before normalisation by its sum) *)
Definition free_slot_law (tbl : list entry) (step : Z) : list (Z * Z) :=
  map (fun e => (ename e, eweight e)) (due_moves tbl step).

Definition sum_min (tbl : list entry) : nat := fold_right (fun e a => (emin e + a)%nat) 0%nat tbl.

(* self.moves[name] = ...: replace in place or append *)
Fixpoint set_entry (tbl : list entry) (e : entry) : list entry :=
  match tbl with
  | [] => [e]
  | x :: t => if ename x =? ename e then e :: t else x :: set_entry t e
  end.

Definition add_move (cycles : nat) (tbl : list entry) (e : entry) : option (list entry) :=
  if (cycles <? sum_min tbl + emin e)%nat then None else Some (set_entry tbl e).

Fixpoint add_moves (cycles : nat) (tbl : list entry) (es : list entry) : list entry :=
  match es with
  | [] => tbl
  | e :: es' => match add_move cycles tbl e with Some t => add_moves cycles t es' | None => add_moves cycles tbl es' end
  end.

Definition count_z (x : Z) (l : list Z) : nat := length (filter (Z.eqb x) l).

(* admissible oracle answers *)
Definition free_ok (tbl : list entry) (step : Z) (f : Z) : bool :=
  existsb (fun e => (ename e =? f) && (0 <? eweight e)) (due_moves tbl step).

(* counting helpers used by the theorems *)
Fixpoint count_some (x : Z) (g : nat -> option Z) (i n : nat) : nat :=
  match n with
  | O => 0
  | S n' => ((match g i with Some y => if Z.eqb y x then 1 else 0 | None => 0 end) + count_some x g (S i) n')%nat
  end.
Fixpoint free_needed (g : nat -> option Z) (i n : nat) : nat :=
  match n with
  | O => 0
  | S n' => ((match g i with Some _ => 0 | None => 1 end) + free_needed g (S i) n')%nat
  end.

(* boolean admissibility + harness encoding for C09 *)
Fixpoint nodup_nat (l : list nat) : bool :=
  match l with [] => true | x :: t => negb (existsb (Nat.eqb x) t) && nodup_nat t end.
Definition admissible_b (tbl : list entry) (step : Z) (cycles : nat) (fidx : list nat) (free : list Z) : bool :=
  let fn := forced (due_moves tbl step) in
  match due_moves tbl step with [] => true | _ => 
  nodup_nat fidx && forallb (fun j => (j <? cycles)%nat) fidx && Nat.eqb (length fidx) (length fn)
  && (free_needed (lookup fidx fn) 0 cycles <=? length free)%nat && forallb (free_ok tbl step) free end.
(* result: [1 if admissible else 0] ++ names ++ [-7] ++ (name, weight)* of the requested free-slot law (if asked) *)
Definition c09_case (x : nat * list entry * Z * list nat * list Z * bool) : list Z :=
  let '(cycles, es, step, fidx, free, want_law) := x in
  let tbl := add_moves cycles [] es in
  (if admissible_b tbl step cycles fidx free then 1 else 0)
    :: yield_moves tbl step cycles fidx free
    ++ [-7] ++ (if want_law then flat_map (fun p => [fst p; snd p]) (free_slot_law tbl step) else []).
Definition c09_table (x : nat * list entry) : list Z :=
  let '(cycles, es) := x in flat_map (fun e => [ename e; einterval e; eweight e; Z.of_nat (emin e)]) (add_moves cycles [] es).
