(* C18 proofs: the two update functions and the adapted step length. *)
From QV Require Import Model.ForceBias.
From Coq Require Import Lra.

Lemma tanh_form x : tanh x = 1 - 2 / (exp (2 * x) + 1).
Proof.
  unfold tanh, sinh, cosh. rewrite exp_Ropp. replace (2 * x) with (x + x) by ring. rewrite exp_plus.
  pose proof (exp_pos x) as H. assert (exp x * exp x + 1 <> 0) by nra.
  assert (exp x + / exp x <> 0). { pose proof (Rinv_0_lt_compat _ H). lra. }
  field. repeat split; lra || nra.
Qed.

Lemma exp2_ge1 x : 0 <= x -> 1 <= exp (2 * x).
Proof.
  intro H. destruct H as [H| <-]; [|rewrite Rmult_0_r, exp_0; lra].
  assert (0 < 2 * x) as P by lra. apply exp_increasing in P. rewrite exp_0 in P. lra.
Qed.

Lemma tanh_range x : 0 <= x -> 0 <= tanh x < 1.
Proof.
  intro H. rewrite tanh_form. pose proof (exp2_ge1 x H) as E.
  assert (0 < / (exp (2 * x) + 1) <= / 2).
  { split; [apply Rinv_0_lt_compat; lra|]. apply Rinv_le_contravar; lra. }
  unfold Rdiv. lra.
Qed.

Lemma tanh_incr x y : x <= y -> tanh x <= tanh y.
Proof.
  intro H. rewrite !tanh_form.
  assert (exp (2 * x) <= exp (2 * y)) as E.
  { destruct H as [H| ->]; [left; apply exp_increasing; lra|right; reflexivity]. }
  pose proof (exp_pos (2 * x)). pose proof (exp_pos (2 * y)).
  assert (/ (exp (2 * y) + 1) <= / (exp (2 * x) + 1)) by (apply Rinv_le_contravar; lra).
  unfold Rdiv. lra.
Qed.

Lemma tanh_zero : tanh 0 = 0.
Proof. rewrite tanh_form, Rmult_0_r, exp_0. field. Qed.

Lemma atanh_half : atanh (1 / 2) = / 2 * ln 3.
Proof. unfold atanh. f_equal. f_equal. field. Qed.

Lemma ln3_pos : 0 < ln 3.
Proof. rewrite <- ln_1. apply ln_increasing; lra. Qed.
Lemma ln2_pos : 0 < ln 2.
Proof. rewrite <- ln_1. apply ln_increasing; lra. Qed.

Lemma tanh_atanh_half : tanh (atanh (1 / 2)) = 1 / 2.
Proof.
  rewrite tanh_form, atanh_half. replace (2 * (/ 2 * ln 3)) with (ln 3) by field.
  rewrite exp_ln by lra. field.
Qed.

Lemma tanh_limit eps : 0 < eps -> exists y0, forall y, y0 <= y -> 1 - tanh y <= eps.
Proof.
  intro He. exists (ln (2 / eps) / 2). intros y Hy. rewrite tanh_form.
  assert (0 < 2 / eps) as Hq by (apply Rdiv_lt_0_compat; lra).
  assert (2 / eps <= exp (2 * y)) as E.
  { rewrite <- (exp_ln (2 / eps)) by assumption.
    assert (ln (2 / eps) <= 2 * y) as L by lra.
    destruct L as [L| ->]; [left; now apply exp_increasing|right; reflexivity]. }
  assert (0 < exp (2 * y) + 1) as Hp by (pose proof (exp_pos (2 * y)); lra).
  replace (1 - (1 - 2 / (exp (2 * y) + 1))) with (2 / (exp (2 * y) + 1)) by ring.
  apply Rmult_le_reg_r with (r := exp (2 * y) + 1); [assumption|].
  unfold Rdiv. rewrite Rmult_assoc, Rinv_l, Rmult_1_r by lra.
  assert (eps * (2 / eps) = 2) as Q by (field; lra). nra.
Qed.

Section Adaptive.
  Variable r : R.
  Hypothesis r_pos : 0 < r.

  Definition is_update (f : R -> R) : Prop :=
    f 0 = 1 /\ f r = 1 / 2 /\ (forall v, 0 <= v -> 0 <= f v <= 1) /\ (forall v v', 0 <= v -> v <= v' -> f v' <= f v)
    /\ (forall eps, 0 < eps -> exists v0, forall v, v0 <= v -> 0 <= v -> f v <= eps).

  Lemma arg_nonneg v c : 0 <= v -> 0 <= c -> 0 <= v / r * c.
  Proof.
    intros Hv Hc. apply Rmult_le_pos; [|assumption].
    apply Rmult_le_pos; [assumption|]. left. now apply Rinv_0_lt_compat.
  Qed.

  Lemma arg_mono v v' c : v <= v' -> 0 <= c -> v / r * c <= v' / r * c.
  Proof.
    intros H Hc. apply Rmult_le_compat_r; [assumption|]. apply Rmult_le_compat_r; [|assumption].
    left. now apply Rinv_0_lt_compat.
  Qed.

  Lemma tanh_is_update : is_update (upd_tanh r).
  Proof.
    assert (0 < atanh (1 / 2)) as Hc by (rewrite atanh_half; pose proof ln3_pos; lra).
    unfold is_update, upd_tanh. repeat split.
    - unfold Rdiv. rewrite !Rmult_0_l, tanh_zero. ring.
    - replace (r / r * atanh (1 / 2)) with (atanh (1 / 2)) by (field; lra). rewrite tanh_atanh_half. lra.
    - pose proof (tanh_range (v / r * atanh (1 / 2)) (arg_nonneg v _ H (Rlt_le _ _ Hc))). lra.
    - pose proof (tanh_range (v / r * atanh (1 / 2)) (arg_nonneg v _ H (Rlt_le _ _ Hc))). lra.
    - intros v v' Hv Hvv. pose proof (tanh_incr _ _ (arg_mono v v' _ Hvv (Rlt_le _ _ Hc))). lra.
    - intros eps He. destruct (tanh_limit eps He) as [y0 Hy0]. exists (y0 * r / atanh (1 / 2)). intros v Hv _.
      apply Hy0. apply Rmult_le_reg_r with (r := r / atanh (1 / 2)); [apply Rdiv_lt_0_compat; assumption|].
      replace (v / r * atanh (1 / 2) * (r / atanh (1 / 2))) with v by (field; split; lra).
      replace (y0 * (r / atanh (1 / 2))) with (y0 * r / atanh (1 / 2)) by (field; lra). assumption.
  Qed.

  Lemma exp_is_update : is_update (upd_exp r).
  Proof.
    pose proof ln2_pos as Hc. unfold is_update, upd_exp. repeat split.
    - replace (- 0 / r * ln 2) with 0 by (field; lra). apply exp_0.
    - replace (- r / r * ln 2) with (- ln 2) by (field; lra). rewrite exp_Ropp, exp_ln by lra. lra.
    - left. apply exp_pos.
    - replace (- v / r * ln 2) with (- (v / r * ln 2)) by (field; lra).
      pose proof (arg_nonneg v _ H (Rlt_le _ _ Hc)) as A. rewrite <- exp_0.
      destruct A as [A| <-]; [left; apply exp_increasing; lra|rewrite Ropp_0; lra].
    - intros v v' Hv Hvv. pose proof (arg_mono v v' _ Hvv (Rlt_le _ _ Hc)) as A.
      replace (- v' / r * ln 2) with (- (v' / r * ln 2)) by (field; lra).
      replace (- v / r * ln 2) with (- (v / r * ln 2)) by (field; lra).
      destruct A as [A| ->]; [left; apply exp_increasing; lra|right; reflexivity].
    - intros eps He. exists (- ln eps * r / ln 2). intros v Hv _.
      rewrite <- (exp_ln eps) by assumption.
      assert (- v / r * ln 2 <= ln eps) as L.
      { apply Rmult_le_reg_r with (r := r / ln 2); [apply Rdiv_lt_0_compat; assumption|].
        replace (- v / r * ln 2 * (r / ln 2)) with (- v) by (field; split; lra).
        replace (ln eps * (r / ln 2)) with (- (- ln eps * r / ln 2)) by (field; lra). lra. }
      destruct L as [L| ->]; [left; now apply exp_increasing|right; reflexivity].
  Qed.

  (* consequences for the adapted delta, for any update function with those five properties *)
  Variable f : R -> R.
  Hypothesis Hf : is_update f.
  Variables lo hi : R.
  Hypothesis lohi : lo <= hi.

  Lemma delta_range v : 0 <= v -> lo <= delta_of lo hi (f v) <= hi.
  Proof. intro H. destruct Hf as (_ & _ & R & _). specialize (R v H). unfold delta_of. nra. Qed.
  Lemma delta_at_zero : delta_of lo hi (f 0) = hi.
  Proof. destruct Hf as (-> & _). unfold delta_of. ring. Qed.
  Lemma delta_at_reference : delta_of lo hi (f r) = (lo + hi) / 2.
  Proof. destruct Hf as (_ & -> & _). unfold delta_of. field. Qed.
  Lemma delta_antitone v v' : 0 <= v -> v <= v' -> delta_of lo hi (f v') <= delta_of lo hi (f v).
  Proof. intros H H'. destruct Hf as (_ & _ & _ & M & _). specialize (M v v' H H'). unfold delta_of. nra. Qed.
  Lemma delta_limit eps : 0 < eps -> exists v0, forall v, v0 <= v -> 0 <= v -> delta_of lo hi (f v) - lo <= eps.
  Proof.
    intro He. destruct Hf as (_ & _ & R & _ & L).
    destruct (L (eps / (hi - lo + 1))) as [v0 H0]; [apply Rdiv_lt_0_compat; lra|].
    exists v0. intros v Hv Hv'. specialize (H0 v Hv Hv'). specialize (R v Hv'). unfold delta_of.
    assert (0 < hi - lo + 1) as Hp by lra.
    assert ((hi - lo) * f v <= (hi - lo) * (eps / (hi - lo + 1))) as A by (apply Rmult_le_compat_l; lra).
    assert ((hi - lo) * (eps / (hi - lo + 1)) <= eps) as B.
    { apply Rmult_le_reg_r with (r := hi - lo + 1); [assumption|].
      replace ((hi - lo) * (eps / (hi - lo + 1)) * (hi - lo + 1)) with ((hi - lo) * eps) by (field; lra). nra. }
    lra.
  Qed.
  (* used by the correspondence for variances far above the reference: the model value is squeezed between lo and
     its value at a moderate v0, so no huge exponent is ever evaluated numerically *)
  Lemma delta_squeeze v0 v impl tol : 0 <= v0 -> v0 <= v -> delta_of lo hi (f v0) - lo <= tol ->
    lo - tol <= impl -> impl <= lo + tol -> Rabs (delta_of lo hi (f v) - impl) <= 2 * tol.
  Proof.
    intros H0 Hv Hs Ha Hb. pose proof (delta_antitone v0 v H0 Hv). pose proof (delta_range v (Rle_trans _ _ _ H0 Hv)).
    apply Rabs_le. lra.
  Qed.
End Adaptive.
