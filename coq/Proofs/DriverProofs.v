From QV Require Import Model.Driver.
From Coq Require Import Lia.

(* ------------------------------------------------------------------ C15 *)
Lemma calls_of_app nm a b : calls_of nm (a ++ b) = calls_of nm a ++ calls_of nm b.
Proof. unfold calls_of. apply flat_map_app. Qed.
Lemma steps_of_app a b : steps_of (a ++ b) = steps_of a ++ steps_of b.
Proof. unfold steps_of. apply flat_map_app. Qed.

Lemma calls_of_absent nm obs k :
  ~ In nm (map oname obs) -> calls_of nm (call_observers obs k) = [].
Proof.
  induction obs as [|x obs IH]; simpl; intro H; [reflexivity|].
  unfold call_observers in *. simpl. destruct (due k x); simpl.
  - destruct (Z.eqb_spec (oname x) nm) as [E|E]; [exfalso; apply H; now left|].
    apply IH. intro; apply H; now right.
  - apply IH. intro; apply H; now right.
Qed.

Lemma calls_of_call_observers obs o k :
  NoDup (map oname obs) -> In o obs ->
  calls_of (oname o) (call_observers obs k) = if due k o then [k] else [].
Proof.
  induction obs as [|x obs IH]; simpl; intros ND HI; [contradiction|].
  inversion ND as [|? ? Hx ND']; subst. unfold call_observers in *. simpl.
  destruct HI as [->|HI].
  - destruct (due k o); simpl.
    + rewrite Z.eqb_refl. simpl. f_equal.
      now apply (calls_of_absent (oname o) obs k).
    + now apply (calls_of_absent (oname o) obs k).
  - assert (oname x <> oname o) as NE.
    { intro E. apply Hx. rewrite E. now apply in_map. }
    destruct (due k x); simpl.
    + destruct (Z.eqb_spec (oname x) (oname o)); [contradiction|]. now apply IH.
    + now apply IH.
Qed.

Lemma steps_of_call_observers obs k : steps_of (call_observers obs k) = [].
Proof. unfold call_observers. induction (filter (due k) obs); simpl; auto. Qed.

Lemma calls_of_loop obs o f c :
  NoDup (map oname obs) -> In o obs ->
  calls_of (oname o) (loop obs f c) = filter (fun k => due k o) (zseq (c + 1) f).
Proof.
  intros ND HI. revert c. induction f as [|f IH]; intro c; simpl; [reflexivity|].
  rewrite calls_of_app, calls_of_call_observers by assumption. rewrite IH.
  destruct (due (c + 1) o); reflexivity.
Qed.

Lemma steps_of_loop obs f c : steps_of (loop obs f c) = zseq c f.
Proof.
  revert c. induction f as [|f IH]; intro c; simpl; [reflexivity|].
  rewrite steps_of_app, steps_of_call_observers, IH. reflexivity.
Qed.

(* every observer is called exactly at the steps its interval test selects, in order, once each *)
Lemma obs_schedule lg obs o n :
  NoDup (map oname obs) -> In o obs -> 0 <= n ->
  calls_of (oname o) (fst (irun false lg obs fresh n)) = filter (fun k => due k o) (zseq 0 (S (Z.to_nat n))).
Proof.
  intros ND HI Hn. unfold irun, fresh. cbn [fst]. cbn [Z.eqb andb orb negb].
  rewrite !calls_of_app. rewrite calls_of_call_observers, calls_of_loop by assumption.
  assert (calls_of (oname o) (if lg then [Header] else []) = []) as -> by (destruct lg; reflexivity).
  simpl. destruct (due 0 o); reflexivity.
Qed.

Lemma in_zseq k c n : In k (zseq c n) <-> c <= k < c + Z.of_nat n.
Proof.
  revert c. induction n as [|n IH]; intro c; simpl; [lia|].
  rewrite IH. lia.
Qed.

Lemma nodup_zseq c n : NoDup (zseq c n).
Proof.
  revert c. induction n as [|n IH]; intro c; simpl; constructor; [|apply IH].
  rewrite in_zseq. lia.
Qed.

Lemma due_positive k o : 0 < ointerval o -> due k o = (k mod ointerval o =? 0).
Proof.
  intro H. unfold due. replace (0 <? ointerval o) with true by (symmetry; now apply Z.ltb_lt).
  replace (ointerval o <? 0) with false by (symmetry; apply Z.ltb_ge; lia). simpl. apply orb_false_r.
Qed.

Lemma due_negative k o : ointerval o < 0 -> due k o = (k =? - ointerval o).
Proof.
  intro H. unfold due. replace (0 <? ointerval o) with false by (symmetry; apply Z.ltb_ge; lia).
  replace (ointerval o <? 0) with true by (symmetry; now apply Z.ltb_lt). simpl.
  now rewrite Z.abs_neq by lia.
Qed.

Lemma obs_positive_l lg obs o n k :
  NoDup (map oname obs) -> In o obs -> 0 <= n -> 0 < ointerval o ->
  (In k (calls_of (oname o) (fst (irun false lg obs fresh n))) <-> 0 <= k <= n /\ k mod ointerval o = 0)
  /\ NoDup (calls_of (oname o) (fst (irun false lg obs fresh n))).
Proof.
  intros ND HI Hn Hi. rewrite obs_schedule by assumption. split.
  - rewrite filter_In, in_zseq, due_positive by assumption. rewrite Z.eqb_eq. lia.
  - apply NoDup_filter, nodup_zseq.
Qed.

Lemma filter_none (f : Z -> bool) l : (forall k, In k l -> f k = false) -> filter f l = [].
Proof.
  induction l as [|y l IH]; simpl; intro H; [reflexivity|].
  rewrite (H y) by now left. apply IH. intros; apply H; now right.
Qed.

Lemma filter_single (f : Z -> bool) (x : Z) l :
  NoDup l -> In x l -> (forall k, f k = true <-> k = x) -> filter f l = [x].
Proof.
  induction l as [|y l IH]; simpl; intros ND HI Hf; [contradiction|].
  inversion ND as [|? ? Hy ND']; subst. destruct HI as [->|HI].
  - replace (f x) with true by (symmetry; now apply Hf). f_equal.
    apply filter_none. intros k Hk. destruct (f k) eqn:E; [|reflexivity].
    apply Hf in E. subst. contradiction.
  - destruct (f y) eqn:Fy.
    + apply Hf in Fy. subst. contradiction.
    + now apply IH.
Qed.

Lemma obs_negative_l lg obs o n :
  NoDup (map oname obs) -> In o obs -> 0 <= n -> ointerval o < 0 ->
  calls_of (oname o) (fst (irun false lg obs fresh n)) = if - ointerval o <=? n then [- ointerval o] else [].
Proof.
  intros ND HI Hn Hi. rewrite obs_schedule by assumption.
  destruct (Z.leb_spec (- ointerval o) n) as [L|L].
  - apply filter_single; [apply nodup_zseq| rewrite in_zseq; lia |].
    intro k. rewrite due_negative by assumption. apply Z.eqb_eq.
  - apply filter_none. intros k Hk. rewrite in_zseq in Hk. rewrite due_negative by assumption.
    apply Z.eqb_neq. lia.
Qed.

Lemma loop_app obs a b c : loop obs (a + b) c = loop obs a c ++ loop obs b (c + Z.of_nat a).
Proof.
  revert c. induction a as [|a IH]; intro c.
  - simpl. now rewrite Z.add_0_r.
  - change (S a + b)%nat with (S (a + b)). cbn [loop app]. rewrite IH. f_equal. rewrite <- app_assoc.
    replace (c + Z.of_nat (S a)) with (c + 1 + Z.of_nat a) by lia. reflexivity.
Qed.

Lemma irun_split lg obs c st a b :
  0 <= c -> 0 <= a -> 0 <= b ->
  fst (irun false lg obs (c, st) (a + b)) = fst (irun false lg obs (c, st) a) ++ fst (irun false lg obs (c + a, true) b).
Proof.
  intros Hc Ha Hb. unfold irun. cbn [fst orb negb]. rewrite andb_false_r. cbn [app].
  rewrite Z2Nat.inj_add, loop_app, Z2Nat.id by assumption. now rewrite <- app_assoc.
Qed.

Definition zsum (l : list Z) : Z := fold_right Z.add 0 l.

Lemma irun_snd zf lg obs c st a : 0 <= a -> snd (irun zf lg obs (c, st) a) = (c + a, true).
Proof. intro H. unfold irun. cbn [snd]. now rewrite Z.max_l. Qed.

Lemma runs_cons zf lg obs st a segs :
  runs zf lg obs st (a :: segs) =
  (fst (irun zf lg obs st a) ++ fst (runs zf lg obs (snd (irun zf lg obs st a)) segs),
   snd (runs zf lg obs (snd (irun zf lg obs st a)) segs)).
Proof. cbn [runs]. destruct (irun zf lg obs st a) as [e c1]. cbn [fst snd]. destruct (runs zf lg obs c1 segs). reflexivity. Qed.

Lemma irun_zero_started lg obs c : fst (irun false lg obs (c, true) 0) = [].
Proof. unfold irun. cbn [fst orb negb]. rewrite andb_false_r. reflexivity. Qed.

(* any non-empty split (zero-length segments anywhere) = the unsplit run; from any state *)
Lemma split_equal_l lg obs segs : forall a c st,
  0 <= c -> 0 <= a -> Forall (fun x => 0 <= x) segs ->
  fst (runs false lg obs (c, st) (a :: segs)) = fst (irun false lg obs (c, st) (a + zsum segs))
  /\ snd (runs false lg obs (c, st) (a :: segs)) = (c + (a + zsum segs), true).
Proof.
  induction segs as [|b segs IH]; intros a c st Hc Ha HF.
  - rewrite runs_cons, irun_snd by assumption. cbn [runs fst snd zsum fold_right]. rewrite Z.add_0_r, app_nil_r.
    split; [reflexivity|]. reflexivity.
  - inversion HF as [|? ? Hb HF']; subst. rewrite runs_cons. rewrite irun_snd by assumption. cbn [fst snd].
    assert (0 <= zsum segs) as Hs by (clear -HF'; induction HF'; simpl; lia).
    destruct (IH b (c + a) true) as [F S]; [lia|assumption|assumption|]. rewrite F, S.
    change (zsum (b :: segs)) with (b + zsum segs). rewrite (irun_split lg obs c st a (b + zsum segs)) by lia.
    split; [reflexivity|f_equal; lia].
Qed.

Lemma exact_steps_l zf lg obs c st n : 0 <= n ->
  steps_of (fst (irun zf lg obs (c, st) n)) = zseq c (Z.to_nat n).
Proof.
  intro Hn. unfold irun. cbn [fst]. rewrite steps_of_app, steps_of_loop.
  destruct ((c =? 0) && (zf || negb st)); [|reflexivity].
  rewrite steps_of_app, steps_of_call_observers. destruct lg; reflexivity.
Qed.

Lemma zseq_length c n : length (zseq c n) = n.
Proof. revert c. induction n; intro c; simpl; auto. Qed.

Lemma no_header_call obs k : existsb is_header (call_observers obs k) = false.
Proof. unfold call_observers. induction (filter (due k) obs); simpl; auto. Qed.
Lemma no_header_loop obs f c : existsb is_header (loop obs f c) = false.
Proof.
  revert c. induction f as [|f IH]; intro c; simpl; [reflexivity|].
  rewrite existsb_app, no_header_call, IH. reflexivity.
Qed.

Lemma header_once_l obs n :
  exists rest, fst (irun false true obs fresh n) = Header :: rest /\ existsb is_header rest = false.
Proof.
  unfold irun, fresh. cbn [fst]. cbn [Z.eqb andb orb negb].
  eexists. split; [reflexivity|]. rewrite existsb_app, no_header_call, no_header_loop. reflexivity.
Qed.

Lemma no_header_later_l lg obs c st n : 0 < c \/ st = true -> existsb is_header (fst (irun false lg obs (c, st) n)) = false.
Proof.
  intro H. unfold irun. cbn [fst orb].
  assert ((c =? 0) && negb st = false) as ->.
  { destruct H as [H| ->]; [|apply andb_false_r]. replace (c =? 0) with false by (symmetry; apply Z.eqb_neq; lia). reflexivity. }
  apply no_header_loop.
Qed.

(* with the intervals left alone, the re-tunable form is the plain one *)
Lemma runs_var_const zf lg obs : forall segments st, runs_var zf lg st (map (fun a => (obs, a)) segments) = runs zf lg obs st segments.
Proof.
  induction segments as [|a rest IH]; intro st; cbn [map runs_var runs]; [reflexivity|].
  destruct (irun zf lg obs st a) as [e c]. rewrite IH. reflexivity.
Qed.
(* every observer call of a re-tuned run is decided by the interval in force in ITS segment *)
Lemma runs_var_app zf lg : forall s1 s2 st,
  runs_var zf lg st (s1 ++ s2) = let '(e1, c1) := runs_var zf lg st s1 in let '(e2, c2) := runs_var zf lg c1 s2 in (e1 ++ e2, c2).
Proof.
  induction s1 as [|[obs a] rest IH]; intros s2 st; cbn [app runs_var].
  - destruct (runs_var zf lg st s2). reflexivity.
  - destruct (irun zf lg obs st a) as [e c]. rewrite IH. destruct (runs_var zf lg c rest) as [e1 c1].
    destruct (runs_var zf lg c1 s2) as [e2 c2]. now rewrite app_assoc.
Qed.
