From QV Require Import Model.Algebra.
From Coq Require Import Lia.

Lemma kind_eqb_eq a b : kind_eqb a b = true <-> a = b.
Proof. destruct a, b; simpl; split; intro H; try reflexivity; try discriminate. Qed.

Lemma ctype_eqb_eq a b : ctype_eqb a b = true <-> a = b.
Proof. destruct a, b; simpl; split; intro H; try reflexivity; try discriminate. Qed.

Lemma all_kind_app k a b : all_kind k (a ++ b) = all_kind k a && all_kind k b.
Proof. unfold all_kind. apply forallb_app. Qed.

Lemma all_kind_excl ms : ms <> [] -> all_kind Disp ms = true -> all_kind Exch ms = false.
Proof.
  destruct ms as [|[i k] ms]; [congruence|]. intros _. simpl.
  destruct k; simpl; intro H; try discriminate; reflexivity.
Qed.

Lemma rep_nil {A} n : @rep A n [] = [].
Proof. induction n; simpl; auto. Qed.

Lemma rep_nonempty {A} n (l : list A) : (0 < n)%nat -> l <> [] -> rep n l <> [].
Proof. destruct n; [lia|]. intros _ H. simpl. destruct l; [congruence|]. simpl. discriminate. Qed.

Lemma all_kind_rep k n ms : (0 < n)%nat -> all_kind k (rep n ms) = all_kind k ms.
Proof.
  induction n as [|n IH]; [lia|]. intros _. simpl. rewrite all_kind_app.
  destruct n as [|n].
  - simpl. unfold all_kind at 2. simpl. apply andb_true_r.
  - rewrite IH by lia. apply andb_diag.
Qed.

Lemma spec_type_rep n ms : (0 < n)%nat -> spec_type (rep n ms) = spec_type ms.
Proof. intro H. unfold spec_type. now rewrite !all_kind_rep. Qed.

Lemma spec_type_app ms ms' :
  ms <> [] -> ms' <> [] -> spec_type (ms ++ ms') = merge (spec_type ms') (spec_type ms).
Proof.
  intros H H'. unfold spec_type. rewrite !all_kind_app.
  pose proof (all_kind_excl ms H) as E. pose proof (all_kind_excl ms' H') as E'.
  destruct (all_kind Disp ms) eqn:D, (all_kind Disp ms') eqn:D'; simpl;
    try (rewrite (E eq_refl)); try (rewrite (E' eq_refl)); simpl;
    destruct (all_kind Exch ms) eqn:X, (all_kind Exch ms') eqn:X'; simpl; try reflexivity;
    try (specialize (E eq_refl); discriminate); try (specialize (E' eq_refl); discriminate).
Qed.

Lemma spec_type_single i k : spec_type [(i, k)] = comp_of k.
Proof. destruct k; reflexivity. Qed.

(* well-formed values: non-empty composites whose type is the one the property prescribes *)
Definition wf (v : value) : Prop :=
  match v with VLeaf _ => True | VComp t ms => ms <> [] /\ t = spec_type ms end.

Lemma merge_sym t t' : merge t t' = merge t' t.
Proof. destruct t, t'; reflexivity. Qed.

Lemma add_wf a b : wf a -> wf b -> wf (add false a b).
Proof.
  destruct a as [[i k]|t ms], b as [[j k']|t' ms']; simpl.
  - intros _ _. split; [discriminate|].
    change [(i, k); (j, k')] with ([(i, k)] ++ [(j, k')]).
    rewrite spec_type_app by discriminate. rewrite !spec_type_single. apply merge_sym.
  - intros _ [H' ->]. split; [discriminate|].
    change ((i, k) :: ms') with ([(i, k)] ++ ms').
    rewrite spec_type_app by (assumption || discriminate). now rewrite spec_type_single.
  - intros [H ->] _. split; [destruct ms; [congruence | discriminate]|].
    rewrite spec_type_app by (assumption || discriminate). rewrite spec_type_single. apply merge_sym.
  - intros [H ->] [H' ->]. split; [destruct ms; [congruence | discriminate]|].
    now rewrite spec_type_app.
Qed.

Lemma mul_wf a n v : wf a -> mul a n = Some v -> wf v.
Proof.
  unfold mul. destruct (n <? 1) eqn:Hn; [discriminate|]. apply Z.ltb_ge in Hn.
  assert (0 < Z.to_nat n)%nat by lia.
  destruct a as [[i k]|t ms]; simpl; intros W E; inversion E; subst; simpl.
  - split; [apply rep_nonempty; [assumption|discriminate]|].
    rewrite spec_type_rep by assumption. now rewrite spec_type_single.
  - destruct W as [W ->]. split; [now apply rep_nonempty|]. now rewrite spec_type_rep.
Qed.

Lemma eval_wf e v : eval false e = Some v -> wf v.
Proof.
  revert v. induction e as [l|a IHa b IHb|a IHa n]; simpl; intros v E.
  - inversion E; exact I.
  - destruct (eval false a) as [x|]; [|discriminate]. destruct (eval false b) as [y|]; [|discriminate].
    inversion E; subst. apply add_wf; auto.
  - destruct (eval false a) as [x|]; [|discriminate]. eapply mul_wf; eauto.
Qed.

Lemma leaves_add bug a b : leaves (add bug a b) = leaves a ++ leaves b.
Proof. destruct a as [[i k]|t ms], b as [[j k']|t' ms']; reflexivity. Qed.

Lemma leaves_mul a n v : mul a n = Some v -> leaves v = rep (Z.to_nat n) (leaves a).
Proof.
  unfold mul. destruct (n <? 1); [discriminate|].
  destruct a as [[i k]|t ms]; intro E; inversion E; reflexivity.
Qed.

Lemma flatten_faithful_l bug e v : eval bug e = Some v -> leaves v = flatten e.
Proof.
  revert v. induction e as [l|a IHa b IHb|a IHa n]; simpl; intros v E.
  - inversion E; reflexivity.
  - destruct (eval bug a) as [x|]; [|discriminate]. destruct (eval bug b) as [y|]; [|discriminate].
    inversion E; subst. rewrite leaves_add. now rewrite (IHa x), (IHb y).
  - destruct (eval bug a) as [x|]; [|discriminate]. rewrite (leaves_mul _ _ _ E). now rewrite (IHa x).
Qed.

Lemma mul_guard_l bug e n : eval bug (Mul e n) = None <-> eval bug e = None \/ n < 1.
Proof.
  simpl. destruct (eval bug e) as [x|]; [|tauto]. unfold mul.
  destruct (Z.ltb_spec n 1) as [H|H].
  - tauto.
  - destruct x as [[i k]|t ms]; split; intro E; try discriminate; destruct E as [E|E]; try discriminate; lia.
Qed.

Lemma specialised_l e t ms : eval false e = Some (VComp t ms) -> ms <> [] /\ t = spec_type ms.
Proof. intro E. exact (eval_wf _ _ E). Qed.

Lemma all_kind_forall k ms : all_kind k ms = true <-> forall l, In l ms -> snd l = k.
Proof.
  unfold all_kind. rewrite forallb_forall. split; intros H l Hl.
  - now apply kind_eqb_eq, H. - now apply kind_eqb_eq, H.
Qed.

Lemma spec_disp ms : ms <> [] -> (spec_type ms = CDisp <-> forall l, In l ms -> snd l = Disp).
Proof.
  intro H. rewrite <- all_kind_forall. unfold spec_type.
  destruct (all_kind Disp ms); [tauto|]. destruct (all_kind Exch ms); split; intro; discriminate.
Qed.

Lemma spec_exch ms : ms <> [] -> (spec_type ms = CExch <-> forall l, In l ms -> snd l = Exch).
Proof.
  intro H. rewrite <- all_kind_forall. unfold spec_type. pose proof (all_kind_excl ms H) as E.
  destruct (all_kind Disp ms).
  - rewrite (E eq_refl). split; intro; discriminate.
  - destruct (all_kind Exch ms); split; intro; congruence.
Qed.

Lemma assoc_free_l e1 e2 t1 m1 t2 m2 :
  eval false e1 = Some (VComp t1 m1) -> eval false e2 = Some (VComp t2 m2) ->
  flatten e1 = flatten e2 -> t1 = t2 /\ m1 = m2.
Proof.
  intros E1 E2 F.
  pose proof (flatten_faithful_l _ _ _ E1) as L1. pose proof (flatten_faithful_l _ _ _ E2) as L2.
  simpl in L1, L2. assert (M : m1 = m2) by congruence. rewrite <- M in E2. split; [|exact M].
  destruct (specialised_l _ _ _ E1) as [_ ->]. destruct (specialised_l _ _ _ E2) as [_ ->]. reflexivity.
Qed.

Lemma call_plain_l ms f : fst (call_plain ms f) = ms /\ (snd (call_plain ms f) = true <-> exists l, In l ms /\ f l = true).
Proof. unfold call_plain; simpl. split; [reflexivity|]. apply existsb_exists. Qed.

(* operations *)
Lemma oleaves_add a b : oleaves (oadd a b) = oleaves a ++ oleaves b.
Proof. destruct a, b; reflexivity. Qed.

Lemma oflatten_faithful_l e v : oeval e = Some v -> oleaves v = oflatten e.
Proof.
  revert v. induction e as [i|a IHa b IHb|a IHa n]; simpl; intros v E.
  - inversion E; reflexivity.
  - destruct (oeval a) as [x|]; [|discriminate]. destruct (oeval b) as [y|]; [|discriminate].
    inversion E; subst. rewrite oleaves_add. now rewrite (IHa x), (IHb y).
  - destruct (oeval a) as [x|]; [|discriminate]. unfold omul in E. destruct (n <? 1); [discriminate|].
    inversion E; subst. simpl. rewrite <- (IHa x eq_refl). destruct x; reflexivity.
Qed.

Lemma oassoc_free_l e1 e2 o1 o2 :
  oeval e1 = Some (OComp o1) -> oeval e2 = Some (OComp o2) -> oflatten e1 = oflatten e2 -> o1 = o2.
Proof.
  intros E1 E2 F. pose proof (oflatten_faithful_l _ _ E1) as L1. pose proof (oflatten_faithful_l _ _ E2) as L2.
  simpl in *. congruence.
Qed.

Lemma omul_guard_l e n : oeval (OMul e n) = None <-> oeval e = None \/ n < 1.
Proof.
  simpl. destruct (oeval e) as [x|]; [|tauto]. unfold omul. destruct (Z.ltb_spec n 1) as [H|H]; [tauto|].
  split; intro E; [discriminate|]. destruct E as [E|E]; [discriminate|lia].
Qed.

Section Sum.
  Variable V : Type.
  Variable zero : V.
  Variable plus : V -> V -> V.
  Hypothesis plus_assoc : forall a b c, plus (plus a b) c = plus a (plus b c).
  Hypothesis plus_zero_l : forall a, plus zero a = a.
  Hypothesis plus_zero_r : forall a, plus a zero = a.
  Variable calc : Z -> V.

  Lemma fold_plus_acc os acc :
    fold_left (fun a o => plus a (calc o)) os acc = plus acc (fold_left (fun a o => plus a (calc o)) os zero).
  Proof.
    revert acc. induction os as [|o os IH]; simpl; intro acc.
    - now rewrite plus_zero_r.
    - rewrite IH. rewrite (IH (plus zero (calc o))). rewrite plus_zero_l. apply plus_assoc.
  Qed.

  Lemma ocalc_app_l os os' :
    ocalc zero plus calc (os ++ os') = plus (ocalc zero plus calc os) (ocalc zero plus calc os').
  Proof. unfold ocalc. rewrite fold_left_app. apply fold_plus_acc. Qed.
End Sum.
