(* C01 — the analytic averages as integration-by-parts identities that hold for EVERY cut-off L (the boundary terms are explicit and
   vanish as L -> infinity: that limit is the only cited step). *)
From Coq Require Import Reals Lra.
From Coquelicot Require Import Coquelicot.
Open Scope R_scope.

(* ideal gas at constant pressure: weight V^N exp(-a V), a = P/kT (scaled coordinates); int V^(N+1) e^(-aV) = (N+1)/a int V^N e^(-aV) - boundary *)
Section IdealGasVolume.
  Variable a : R.
  Hypothesis a_nz : a <> 0.
  Variable N : nat.
  Definition gw (V : R) : R := V ^ N * exp (- a * V).
  Definition gvw (V : R) : R := V ^ (S N) * exp (- a * V).
  Definition GB (V : R) : R := - (V ^ (S N) * exp (- a * V)) / a.
  Lemma GB_derive V : is_derive GB V (gvw V - INR (S N) / a * gw V).
  Proof.
    unfold GB, gvw, gw. auto_derive; [exact I|].
    change (match N with 0%nat => 1 | S _ => INR N + 1 end) with (INR (S N)). change (V ^ S N) with (V * V ^ N). field. exact a_nz.
  Qed.
  Lemma gw_cont V : continuous gw V.
  Proof. apply (ex_derive_continuous gw V). unfold gw. auto_derive. exact I. Qed.
  Lemma gvw_cont V : continuous gvw V.
  Proof. apply (ex_derive_continuous gvw V). unfold gvw. auto_derive. exact I. Qed.
  Theorem ideal_gas_volume_identity (L Z M : R) : is_RInt gw 0 L Z -> is_RInt gvw 0 L M ->
    M = INR (S N) / a * Z - L ^ (S N) * exp (- a * L) / a.
  Proof.
    intros HZ HM.
    assert (is_RInt (fun V => gvw V - INR (S N) / a * gw V) 0 L (GB L - GB 0)) as HB.
    { apply (is_RInt_derive GB); intros; [apply GB_derive|].
      apply (continuous_minus gvw (fun V => INR (S N) / a * gw V)); [apply gvw_cont|].
      apply (continuous_scal_r (INR (S N) / a) gw). apply gw_cont. }
    assert (is_RInt (fun V => gvw V - INR (S N) / a * gw V) 0 L (M - INR (S N) / a * Z)) as HC.
    { apply (is_RInt_minus gvw (fun V => INR (S N) / a * gw V)); [exact HM|]. apply (is_RInt_scal gw 0 L (INR (S N) / a) Z HZ). }
    pose proof (is_RInt_unique _ _ _ _ HB) as U1. pose proof (is_RInt_unique _ _ _ _ HC) as U2. rewrite U1 in U2.
    unfold GB in U2. replace (0 ^ S N) with 0 in U2 by (simpl; ring).
    assert (M = INR (S N) / a * Z + (- (L ^ S N * exp (- a * L)) / a - - (0 * exp (- a * 0)) / a)) as E by lra.
    rewrite E. field. exact a_nz.
  Qed.
End IdealGasVolume.

(* one harmonic coordinate: weight exp(-b q^2), b = k/(2kT); int q^2 e^(-b q^2) = 1/(2b) int e^(-b q^2) - boundary, i.e. <k q^2/2> = kT/2 *)
Section Equipartition.
  Variable b : R.
  Hypothesis b_nz : b <> 0.
  Definition hw (q : R) : R := exp (- b * (q * q)).
  Definition hqw (q : R) : R := q * q * exp (- b * (q * q)).
  Definition HB (q : R) : R := - (q * exp (- b * (q * q))) / (2 * b).
  Lemma HB_derive q : is_derive HB q (hqw q - / (2 * b) * hw q).
  Proof. unfold HB, hqw, hw. auto_derive; [exact I|]. field. exact b_nz. Qed.
  Lemma hw_cont q : continuous hw q.
  Proof. apply (ex_derive_continuous hw q). unfold hw. auto_derive. exact I. Qed.
  Lemma hqw_cont q : continuous hqw q.
  Proof. apply (ex_derive_continuous hqw q). unfold hqw. auto_derive. exact I. Qed.
  Theorem equipartition_identity (L Z M : R) : is_RInt hw (- L) L Z -> is_RInt hqw (- L) L M ->
    M = / (2 * b) * Z - L * exp (- b * (L * L)) / b.
  Proof.
    intros HZ HM.
    assert (is_RInt (fun q => hqw q - / (2 * b) * hw q) (- L) L (HB L - HB (- L))) as HBd.
    { apply (is_RInt_derive HB); intros; [apply HB_derive|].
      apply (continuous_minus hqw (fun q => / (2 * b) * hw q)); [apply hqw_cont|].
      apply (continuous_scal_r (/ (2 * b)) hw). apply hw_cont. }
    assert (is_RInt (fun q => hqw q - / (2 * b) * hw q) (- L) L (M - / (2 * b) * Z)) as HC.
    { apply (is_RInt_minus hqw (fun q => / (2 * b) * hw q)); [exact HM|]. apply (is_RInt_scal hw (- L) L (/ (2 * b)) Z HZ). }
    pose proof (is_RInt_unique _ _ _ _ HBd) as U1. pose proof (is_RInt_unique _ _ _ _ HC) as U2. rewrite U1 in U2.
    unfold HB in U2. replace (- L * - L) with (L * L) in U2 by ring.
    assert (M = / (2 * b) * Z + (- (L * exp (- b * (L * L))) / (2 * b) - - (- L * exp (- b * (L * L))) / (2 * b))) as E by lra.
    rewrite E. field. exact b_nz.
  Qed.
End Equipartition.
