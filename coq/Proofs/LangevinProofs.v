(* C01 — the rigid dipole in a uniform field: with u = cos(theta) uniform on [-1,1] under the proposal (C10) and Boltzmann weight exp(x u),
   x = field energy / kT, the mean orientation is the Langevin function coth x - 1/x. *)
From Coq Require Import Reals Lra.
From Coquelicot Require Import Coquelicot.
Open Scope R_scope.

Section Langevin.
  Variable x : R.
  Hypothesis x_nz : x <> 0.

  Definition w (u : R) : R := exp (x * u).                       (* Boltzmann weight of orientation u *)
  Definition W (u : R) : R := exp (x * u) / x.                   (* antiderivative of w *)
  Definition uw (u : R) : R := u * exp (x * u).
  Definition UW (u : R) : R := exp (x * u) * (u / x - / (x * x)). (* antiderivative of u w *)

  Lemma W_derive u : is_derive W u (w u).
  Proof. unfold W, w. auto_derive; [exact I|]. field. exact x_nz. Qed.
  Lemma UW_derive u : is_derive UW u (uw u).
  Proof. unfold UW, uw. auto_derive; [exact I|]. field. exact x_nz. Qed.
  Lemma w_cont u : continuous w u.
  Proof. apply (ex_derive_continuous w u). unfold w. auto_derive. exact I. Qed.
  Lemma uw_cont u : continuous uw u.
  Proof. apply (ex_derive_continuous uw u). unfold uw. auto_derive. exact I. Qed.

  Lemma partition_function : is_RInt w (-1) 1 ((exp x - exp (- x)) / x).
  Proof.
    replace ((exp x - exp (- x)) / x) with (W 1 - W (-1)).
    - apply (is_RInt_derive W w); intros; [apply W_derive|apply w_cont].
    - unfold W. replace (x * 1) with x by ring. replace (x * -1) with (- x) by ring. field. exact x_nz.
  Qed.
  Lemma first_moment : is_RInt uw (-1) 1 ((exp x + exp (- x)) / x - (exp x - exp (- x)) / (x * x)).
  Proof.
    replace ((exp x + exp (- x)) / x - (exp x - exp (- x)) / (x * x)) with (UW 1 - UW (-1)).
    - apply (is_RInt_derive UW uw); intros; [apply UW_derive|apply uw_cont].
    - unfold UW. replace (x * 1) with x by ring. replace (x * -1) with (- x) by ring. field. exact x_nz.
  Qed.

  Definition coth (t : R) : R := (exp t + exp (- t)) / (exp t - exp (- t)).
  Lemma sinh_nz : exp x - exp (- x) <> 0.
  Proof.
    intro E. assert (exp x = exp (- x)) as E' by lra. apply exp_inv in E'. lra.
  Qed.
  (* <cos theta> = (int u e^{xu} du) / (int e^{xu} du) = coth x - 1/x *)
  Theorem langevin_mean : forall Z M, is_RInt w (-1) 1 Z -> is_RInt uw (-1) 1 M -> M / Z = coth x - / x.
  Proof.
    intros Z M HZ HM.
    assert (Z = (exp x - exp (- x)) / x) as ->.
    { rewrite <- (is_RInt_unique _ _ _ _ HZ). apply is_RInt_unique, partition_function. }
    assert (M = (exp x + exp (- x)) / x - (exp x - exp (- x)) / (x * x)) as ->.
    { rewrite <- (is_RInt_unique _ _ _ _ HM). apply is_RInt_unique, first_moment. }
    unfold coth. pose proof sinh_nz. field. split; assumption.
  Qed.
End Langevin.
