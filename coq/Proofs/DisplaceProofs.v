From QV Require Import Model.Displace.
From Coq Require Import Lia Permutation.

Lemma memz_in x l : memz x l = true <-> In x l.
Proof.
  unfold memz. rewrite existsb_exists. split.
  - intros [y [H E]]. apply Z.eqb_eq in E. subst. exact H.
  - intro H. exists x. split; [exact H|apply Z.eqb_refl].
Qed.
Lemma dedup_in x l : In x (dedup l) <-> In x l.
Proof.
  induction l as [|a t IH]; simpl; [tauto|].
  destruct (existsb (Z.eqb a) t) eqn:E.
  - rewrite IH. split; [auto|]. intros [->|H]; [|exact H]. apply existsb_exists in E. destruct E as [y [Hy Ey]]. apply Z.eqb_eq in Ey. now subst.
  - simpl. rewrite IH. tauto.
Qed.
Lemma dedup_nodup l : NoDup (dedup l).
Proof.
  induction l as [|a t IH]; simpl; [constructor|].
  destruct (existsb (Z.eqb a) t) eqn:E; [exact IH|]. constructor; [|exact IH].
  rewrite dedup_in. intro H. assert (existsb (Z.eqb a) t = true) as C by (apply existsb_exists; exists a; split; [exact H|apply Z.eqb_refl]). congruence.
Qed.
Lemma unique_in x labels : In x (unique_labels labels) <-> In x labels /\ 0 <= x.
Proof. unfold unique_labels. rewrite dedup_in, filter_In. rewrite Z.leb_le. tauto. Qed.
Lemma unique_nodup labels : NoDup (unique_labels labels).
Proof. apply dedup_nodup. Qed.

Lemma nodup_snoc (x : Z) l : NoDup l -> ~ In x l -> NoDup (l ++ [x]).
Proof.
  induction l as [|a l IH]; intros H N; simpl; [constructor; [intros []|constructor]|].
  inversion H; subst. constructor.
  - rewrite in_app_iff. simpl. intros [A|[A|[]]]; [contradiction|]. subst. apply N. now left.
  - apply IH; [assumption|intro A; apply N; now right].
Qed.

Section P.
  Variable P : Type.
  Variable d : P.

  Lemma write_group_length labels lab : forall (pos news : list P), length (write_group labels lab pos news) = length pos.
  Proof.
    induction labels as [|l ls IH]; intros [|p ps] news; simpl; try reflexivity.
    destruct (Z.eqb l lab); [destruct news|]; simpl; now rewrite IH.
  Qed.
  (* rows whose label is not the selected one keep their value: only the chosen group can change *)
  Lemma write_group_other labels lab : forall (pos news : list P) i, nth i labels (lab + 1) <> lab -> nth i (write_group labels lab pos news) d = nth i pos d.
  Proof.
    induction labels as [|l ls IH]; intros [|p ps] news i H; simpl; try reflexivity.
    destruct i as [|i]; simpl in H.
    - destruct (Z.eqb_spec l lab) as [E|E]; [contradiction|reflexivity].
    - destruct (Z.eqb l lab); [destruct news|]; simpl; now apply IH.
  Qed.
  (* the rows of the group receive the operation's rows, in order *)
  Definition group_indices (labels : list Z) (lab : Z) : list nat :=
    map fst (filter (fun ix => Z.eqb (snd ix) lab) (combine (seq 0 (length labels)) labels)).
  Fixpoint count_lab (labels : list Z) (lab : Z) : nat :=
    match labels with [] => O | l :: ls => if Z.eqb l lab then S (count_lab ls lab) else count_lab ls lab end.
  Lemma write_group_group labels lab : forall (pos news : list P), length pos = length labels -> length news = count_lab labels lab ->
    map snd (filter (fun lp => Z.eqb (fst lp) lab) (combine labels (write_group labels lab pos news))) = news.
  Proof.
    induction labels as [|l ls IH]; intros [|p ps] news Lp Ln; try discriminate.
    - simpl in *. destruct news; [reflexivity|discriminate].
    - cbn [write_group count_lab] in *. destruct (Z.eqb l lab) eqn:E.
      + destruct news as [|n ns]; [discriminate|]. cbn [combine filter fst snd map]. rewrite E. cbn [map snd]. f_equal.
        apply IH; simpl in *; lia.
      + cbn [combine filter fst snd map]. rewrite E. apply IH; simpl in *; lia.
  Qed.

  (* ---- single move *)
  Theorem call_changes_only_group labels presel choice outcome (pos : list P) i :
    let r := displacement_call labels presel choice outcome pos in
    nth i (dpos r) d <> nth i pos d -> dok r = true /\ exists lab, dlabel r = Some lab /\ nth i labels (lab + 1) = lab.
  Proof.
    intro r. unfold r, displacement_call. clear r.
    destruct (match presel with Some l => Some l | None => if memz choice (unique_labels labels) then Some choice else None end) as [lab|]; simpl; [|congruence].
    destruct outcome as [news|]; simpl; [|congruence].
    intro H. split; [reflexivity|]. exists lab. split; [reflexivity|].
    destruct (Z.eq_dec (nth i labels (lab + 1)) lab) as [E|E]; [exact E|]. exfalso. apply H. now apply write_group_other.
  Qed.
  (* a label chosen by the move itself is non-negative and carried by some atom *)
  Theorem call_random_label_eligible labels choice outcome (pos : list P) lab :
    dlabel (displacement_call labels None choice outcome pos) = Some lab -> 0 <= lab /\ In lab labels.
  Proof.
    unfold displacement_call. destruct (memz choice (unique_labels labels)) eqn:E; simpl; [|discriminate].
    destruct outcome; simpl; [|discriminate]. intro H. inversion H; subst. apply memz_in in E. apply unique_in in E. tauto.
  Qed.
  Theorem call_no_eligible_fails labels choice outcome (pos : list P) :
    unique_labels labels = [] -> let r := displacement_call labels None choice outcome pos in dok r = false /\ dpos r = pos /\ dlabel r = None.
  Proof. intro H. unfold displacement_call. rewrite H. simpl. auto. Qed.
  Theorem call_veto_restores labels presel choice (pos : list P) :
    let r := displacement_call labels presel choice None pos in dok r = false /\ dpos r = pos.
  Proof.
    unfold displacement_call.
    destruct (match presel with Some l => Some l | None => if memz choice (unique_labels labels) then Some choice else None end); simpl; auto.
  Qed.
  Theorem call_negative_never_moved labels choice outcome (pos : list P) i :
    nth i labels 0 < 0 -> (i < length labels)%nat -> nth i (dpos (displacement_call labels None choice outcome pos)) d = nth i pos d.
  Proof.
    intros Hn Hi.
    unfold displacement_call. destruct (memz choice (unique_labels labels)) eqn:E; simpl; [|reflexivity].
    destruct outcome as [news|]; simpl; [|reflexivity].
    apply write_group_other. apply memz_in in E. apply unique_in in E. destruct E as [_ E].
    rewrite (nth_indep labels (choice + 1) 0) by assumption. lia.
  Qed.

  (* ---- composite *)
  Lemma filtered_app a b : filtered (a ++ b) = filtered a ++ filtered b.
  Proof. unfold filtered. apply flat_map_app. Qed.
  Lemma candidates_spec labels displaced x : In x (candidates labels displaced) <-> In x (unique_labels labels) /\ ~ In x (filtered displaced).
  Proof.
    unfold candidates. rewrite filter_In, negb_true_iff. split; intros [A B]; split; auto.
    - intro H. apply memz_in in H. congruence.
    - destruct (memz x (filtered displaced)) eqn:E; [|reflexivity]. apply memz_in in E. contradiction.
  Qed.

  (* never the same particle twice in one call *)
  Theorem composite_nodup (subs : list (sub P)) : forall displaced pos, NoDup (filtered displaced) -> NoDup (filtered (snd (composite_call subs displaced pos))).
  Proof.
    induction subs as [|s rest IH]; intros displaced pos H; simpl; [exact H|].
    destruct (memz (schoice s) (candidates (slabels s) displaced)) eqn:E.
    - apply IH. rewrite filtered_app. apply memz_in in E. apply candidates_spec in E. destruct E as [_ N].
      unfold displacement_call. destruct (soutcome s); simpl; [|rewrite app_nil_r; exact H].
      apply nodup_snoc; assumption.
    - apply IH. rewrite filtered_app. simpl. rewrite app_nil_r. exact H.
  Qed.
  (* number of moved particles = number of successful sub-moves; reported count matches the log *)
  Theorem number_moved_counts displaced : number_moved displaced = length (filter (fun o => match o with Some _ => true | None => false end) displaced).
  Proof. unfold number_moved, filtered. induction displaced as [|[l|] t IH]; simpl; auto. Qed.

  (* when nothing vetoes and all sub-moves share one label array, min(n, eligible) particles are displaced *)
  Definition all_pass (subs : list (sub P)) : Prop := Forall (fun s => soutcome s <> None) subs.
  Lemma filter_partition_len (f : Z -> bool) (l : list Z) : (length (filter f l) + length (filter (fun x => negb (f x)) l) = length l)%nat.
  Proof. induction l as [|a l IH]; simpl; [reflexivity|]. destruct (f a); simpl; lia. Qed.
  Lemma remaining_count (U dl : list Z) : NoDup U -> NoDup dl -> incl dl U ->
    length (filter (fun l => negb (memz l dl)) U) = (length U - length dl)%nat.
  Proof.
    intros HU Hd Hi. pose proof (filter_partition_len (fun l => memz l dl) U) as Hp.
    assert (length (filter (fun l => memz l dl) U) = length dl) as E.
    { apply Permutation.Permutation_length. apply Permutation.NoDup_Permutation; [now apply NoDup_filter|assumption|].
      intro x. rewrite filter_In, memz_in. split; [tauto|]. intro H. split; [now apply Hi|exact H]. }
    cbv beta in Hp. lia.
  Qed.
  Theorem composite_moves_min labels (subs : list (sub P)) : Forall (fun s => slabels s = labels /\ soutcome s <> None) subs ->
    forall displaced pos, NoDup (filtered displaced) -> incl (filtered displaced) (unique_labels labels) ->
    (* admissibility of the oracle: a choice outside the candidate list is only given when the list is empty *)
    (forall s dl, In s subs -> candidates labels dl <> [] -> memz (schoice s) (candidates labels dl) = true) ->
    number_moved (snd (composite_call subs displaced pos)) =
      (number_moved displaced + Nat.min (length subs) (length (unique_labels labels) - number_moved displaced))%nat.
  Proof.
    induction subs as [|s rest IH]; intros F displaced pos ND Inc Adm; cbn [composite_call snd]; [cbn [length]; rewrite Nat.min_0_l; lia|].
    inversion F as [|? ? [Hl Ho] F']; subst. change (length (s :: rest)) with (S (length rest)).
    assert (length (candidates (slabels s) displaced) = (length (unique_labels (slabels s)) - number_moved displaced)%nat) as Cnt.
    { unfold candidates, number_moved. apply remaining_count; [apply unique_nodup|assumption|assumption]. }
    destruct (memz (schoice s) (candidates (slabels s) displaced)) eqn:E.
    - unfold displacement_call. destruct (soutcome s) as [news|] eqn:Os; [|contradiction]. cbn [dok dlabel dpos].
      apply memz_in in E. pose proof E as E'. apply candidates_spec in E'. destruct E' as [Eu En].
      rewrite IH; try assumption.
      + unfold number_moved. rewrite filtered_app, app_length. cbn [filtered flat_map app length].
        assert (length (filtered displaced) < length (unique_labels (slabels s)))%nat.
        { assert (length (candidates (slabels s) displaced) > 0)%nat by (destruct (candidates (slabels s) displaced); [destruct E|simpl; lia]).
          unfold number_moved in Cnt. lia. }
        lia.
      + rewrite filtered_app. simpl. apply nodup_snoc; assumption.
      + rewrite filtered_app. intros x Hx. rewrite in_app_iff in Hx. destruct Hx as [Hx|[<-|[]]]; [now apply Inc|exact Eu].
      + intros s' dl Hs'. apply Adm. now right.
    - assert (candidates (slabels s) displaced = []) as Emp.
      { pose proof (Adm s displaced (or_introl eq_refl)) as A. destruct (candidates (slabels s) displaced) eqn:C; [reflexivity|].
        rewrite A in E; [discriminate|discriminate]. }
      rewrite IH; try assumption.
      + unfold number_moved in *. rewrite filtered_app, app_length. cbn [filtered flat_map app length]. rewrite Emp in Cnt. cbn [length] in Cnt. lia.
      + rewrite filtered_app. simpl. now rewrite app_nil_r.
      + rewrite filtered_app. simpl. now rewrite app_nil_r.
      + intros s' dl Hs'. apply Adm. now right.
  Qed.
End P.
