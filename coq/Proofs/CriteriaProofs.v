From QV Require Import Model.Criteria.
From Coq Require Import Lra Lia.

Lemma exp_Rmin0 x : exp (Rmin x 0) = Rmin 1 (exp x).
Proof.
  unfold Rmin. destruct (Rle_dec x 0) as [H|H]; destruct (Rle_dec 1 (exp x)) as [H'|H'].
  - destruct H as [H|H]; [|subst; now rewrite exp_0].
    pose proof (exp_increasing _ _ H) as E. rewrite exp_0 in E. lra.
  - reflexivity.
  - now rewrite exp_0.
  - exfalso. assert (0 < x) as P by lra. apply exp_increasing in P. rewrite exp_0 in P. lra.
Qed.

(* the repaired acceptance value never overflows and equals min(1, exp x) *)
Lemma acc_value_clamped ovf x : 0 <= ovf -> acc_value true ovf x = Ok (Rmin 1 (exp x)).
Proof.
  intro H. unfold acc_value, pexp. destruct (Rle_dec (Rmin x 0) ovf) as [L|L].
  - now rewrite exp_Rmin0.
  - exfalso. apply L. pose proof (Rmin_r x 0). lra.
Qed.

Lemma decide_textbook ovf x u : 0 <= ovf ->
  decide u (acc_value true ovf x) = Ok (if Rlt_dec u (Rmin 1 (exp x)) then true else false).
Proof. intro H. now rewrite acc_value_clamped. Qed.

(* for a uniform number u < 1, "u < min(1,A)" and "u < A" are the same test *)
Lemma below_one_min u A : u < 1 -> (u < Rmin 1 A <-> u < A).
Proof. intro H. unfold Rmin. destruct (Rle_dec 1 A); lra. Qed.

Lemma favourable_accepted ovf x u : 0 <= ovf -> 0 <= x -> u < 1 -> decide u (acc_value true ovf x) = Ok true.
Proof.
  intros Ho Hx Hu. rewrite decide_textbook by assumption.
  destruct (Rlt_dec u (Rmin 1 (exp x))) as [L|L]; [reflexivity|]. exfalso. apply L.
  apply below_one_min; [assumption|]. destruct Hx as [Hx|<-]; [|rewrite exp_0; lra].
  apply exp_increasing in Hx. rewrite exp_0 in Hx. lra.
Qed.

Lemma never_raises ovf x u : 0 <= ovf -> exists b, decide u (acc_value true ovf x) = Ok b.
Proof. intro H. rewrite decide_textbook by assumption. eexists; reflexivity. Qed.

(* the shipped form raises for favourable trials beyond the overflow threshold *)
Lemma shipped_overflows ovf x u : ovf < x -> decide u (acc_value false ovf x) = Overflow.
Proof. intro H. unfold acc_value, pexp. destruct (Rle_dec x ovf); [lra|reflexivity]. Qed.

Section RulesProofs.
  Variable kB : R.
  Hypothesis kB_pos : 0 < kB.

  (* canonical: exp(x_can) is the Boltzmann factor *)
  Lemma can_value dE T : T <> 0 -> exp (x_can kB dE T) = exp (- dE / (kB * T)).
  Proof. intro. unfold x_can. f_equal. field. split; lra. Qed.

  (* isobaric: exp(x_iso) = exp(-(dE + P dV)/kT) * (V'/V)^(N+1) *)
  Lemma iso_value dE P V V' T N : 0 < V -> 0 < V' ->
    exp (x_iso kB dE P V V' T N) = exp (- (dE + P * (V' - V)) / (T * kB)) * (V' / V) ^ (N + 1).
  Proof.
    intros HV HV'. unfold x_iso. rewrite exp_plus. f_equal.
    assert (0 < V' / V) as Hr by (apply Rdiv_lt_0_compat; assumption).
    replace (INR N + 1) with (INR (N + 1)) by (rewrite plus_INR; simpl; ring).
    rewrite <- (exp_ln (V' / V)) at 2 by assumption.
    induction (N + 1)%nat as [|n IH]; simpl.
    - rewrite Rmult_0_l. apply exp_0.
    - destruct n; [simpl; rewrite Rmult_1_l, Rmult_1_r; reflexivity|].
      rewrite <- IH. rewrite <- exp_plus. f_equal. ring.
  Qed.

  (* isotension with a purely hydrostatic stress S = P*1 is isobaric, for every strain tensor and cell *)
  Lemma tens_hydrostatic dE P V V' T N (S eps : mat) :
    (forall i j, S i j = P * ident i j) ->
    x_tens kB false dE P V V' T N S eps = x_iso kB dE P V V' T N.
  Proof.
    intro H. unfold x_tens, x_iso, tr_prod, stress_dev, sum3. rewrite !H.
    f_equal. f_equal. f_equal. ring.
  Qed.

  (* in general the isotension exponent is the isobaric one minus the stress work over kT *)
  Lemma tens_value dE P V V' T N (S eps : mat) : T <> 0 ->
    x_tens kB false dE P V V' T N S eps
    = x_iso kB dE P V V' T N - V * tr_prod (stress_dev false S P) eps / (T * kB).
  Proof. intro HT. unfold x_tens, x_iso. field. split; lra. Qed.

  (* the shipped subtraction differs under shear with P <> 0 *)
  Lemma tens_scalar_bug_differs dE P V V' T N (eps : mat) :
    T <> 0 -> V <> 0 -> P <> 0 ->
    eps 0%nat 1%nat + eps 1%nat 0%nat + eps 0%nat 2%nat + eps 2%nat 0%nat + eps 1%nat 2%nat + eps 2%nat 1%nat <> 0 ->
    x_tens kB true dE P V V' T N (fun i j => P * ident i j) eps <> x_iso kB dE P V V' T N.
  Proof.
    intros HT HV HP He E. apply He. unfold x_tens, x_iso, tr_prod, stress_dev, sum3, ident in E. simpl in E.
    assert (T * kB <> 0) as Hk by (apply Rmult_integral_contrapositive; split; lra).
    apply Rplus_eq_reg_r in E. apply (f_equal (fun z => z * (T * kB))) in E.
    unfold Rdiv in E. rewrite !Rmult_assoc, Rinv_l, !Rmult_1_r in E by assumption.
    apply Rmult_eq_reg_l with (r := P * V); [|apply Rmult_integral_contrapositive; split; assumption]. lra.
  Qed.

  Variables hplanck Nav echarge : R.

  Lemma fact_ins_closed N k : fact_ins N k * INR (fact (N + k)) = INR (fact N).
  Proof.
    induction k as [|k IH]; simpl.
    - rewrite Nat.add_0_r. ring.
    - replace (N + S k)%nat with (S (N + k)) by lia. rewrite fact_simpl, mult_INR.
      assert (INR (S (N + k)) <> 0) by (apply not_0_INR; lia).
      rewrite <- IH. field. assumption.
  Qed.

  Lemma fact_del_closed N k : (k <= N)%nat -> fact_del N k * INR (fact (N - k)) = INR (fact N).
  Proof.
    induction k as [|k IH]; simpl; intro H.
    - rewrite Nat.sub_0_r. ring.
    - rewrite <- IH by lia. replace (N - k)%nat with (S (N - S k)) by lia.
      rewrite fact_simpl, mult_INR. replace (S (N - S k) - 0)%nat with (S (N - S k)) by lia. ring.
  Qed.

  (* insertion (delta = 1) and deletion (delta = -1): the textbook prefactors *)
  Lemma gc_insert_value dE mu V m T N :
    A_gc kB hplanck Nav echarge dE mu V m T N 1 =
    V / (debroglie kB hplanck Nav echarge m T ^ 3 * (INR N + 1)) * exp ((mu - dE) / (T * kB))
    \/ debroglie kB hplanck Nav echarge m T = 0.
  Proof.
    destruct (Req_dec (debroglie kB hplanck Nav echarge m T) 0) as [Z|NZ]; [now right|left].
    unfold A_gc, prefactor, x_gc, factorial_term. simpl fact_ins.
    change (-3 * 1)%Z with (-3)%Z. rewrite powerRZ_1. replace (N + 1)%nat with (S N) by lia. rewrite S_INR.
    unfold powerRZ. change (Pos.to_nat 3) with 3%nat. rewrite Rmult_1_l.
    assert (INR N + 1 <> 0) by (pose proof (pos_INR N); lra).
    assert (debroglie kB hplanck Nav echarge m T ^ 3 <> 0) by (now apply pow_nonzero).
    field. auto.
  Qed.

  Lemma gc_delete_value dE mu V m T N : V <> 0 ->
    A_gc kB hplanck Nav echarge dE mu V m T N (-1) =
    debroglie kB hplanck Nav echarge m T ^ 3 * INR N / V * exp ((- mu - dE) / (T * kB)).
  Proof.
    intro HV. unfold A_gc, prefactor, x_gc, factorial_term. simpl fact_del.
    change (-3 * -1)%Z with 3%Z. unfold powerRZ. change (Pos.to_nat 3) with 3%nat. change (Pos.to_nat 1) with 1%nat.
    rewrite Nat.sub_0_r. simpl pow at 1. replace (IZR (-1) * mu - dE) with (- mu - dE) by ring. field. assumption.
  Qed.

  (* the log-space evaluation of the repaired code is the same number whenever the prefactor is positive *)
  Lemma gc_log_form dE mu V m T N delta :
    0 < prefactor kB hplanck Nav echarge V m T N delta ->
    exp (xlog_gc kB hplanck Nav echarge dE mu V m T N delta) = A_gc kB hplanck Nav echarge dE mu V m T N delta.
  Proof. intro H. unfold xlog_gc, A_gc. rewrite exp_plus, exp_ln by assumption. ring. Qed.
End RulesProofs.
