From QV Require Import Model.Files.
From Coq Require Import Lia.

Section FP.
  Variable B : Type.
  Notation fstate := (fstate B).

  Definition settled (f : fstate) : Prop := buf f = [] /\ pos0 f = false.

  Lemma run_app ops1 ops2 (f : fstate) : run (ops1 ++ ops2) f = run ops2 (run ops1 f).
  Proof. unfold run. apply fold_left_app. Qed.

  Lemma crash_states_spec (f : fstate) d : In d (crash_states f) <-> exists j, (j <= length (buf f))%nat /\ d = landed f (firstn j (buf f)).
  Proof.
    unfold crash_states. rewrite in_map_iff. split.
    - intros [j [<- Hj]]. exists j. apply in_seq in Hj. split; [lia|reflexivity].
    - intros [j [Hj ->]]. exists j. split; [reflexivity|]. apply in_seq. lia.
  Qed.

  (* ---- log: header, then one complete flushed line per call *)
  Lemma log_call_settled (f : fstate) row : settled f -> settled (run (log_call row) f) /\ os (run (log_call row) f) = os f ++ row.
  Proof. intros [Bf Pf]. unfold run, log_call, settled. cbn. unfold landed. cbn. rewrite Bf, Pf. cbn. auto. Qed.
  Fixpoint log_ops (rows : list (list B)) : list (op B) := match rows with [] => [] | r :: t => log_call r ++ log_ops t end.
  Theorem log_after_calls rows : forall f : fstate, settled f -> settled (run (log_ops rows) f) /\ os (run (log_ops rows) f) = os f ++ concat rows.
  Proof.
    induction rows as [|r t IH]; intros f S; cbn [log_ops concat]; [rewrite app_nil_r; split; [exact S|reflexivity]|].
    rewrite run_app. destruct (log_call_settled f r S) as [S1 E1]. destruct (IH _ S1) as [S2 E2]. split; [exact S2|]. rewrite E2, E1, app_assoc. reflexivity.
  Qed.
  (* a crash at any point inside the next call: every completed line is intact, followed by a prefix of the line being written *)
  Theorem log_crash (f : fstate) row k d : settled f -> (k <= length (log_call row))%nat -> In d (crash_states (run (firstn k (log_call row)) f)) ->
    exists p, d = os f ++ p /\ exists q, row = p ++ q.
  Proof.
    intros [Bf Pf] Hk Hd. apply crash_states_spec in Hd. destruct Hd as [j [Hj ->]]. unfold log_call in *.
    destruct k as [|[|[|k]]]; cbn in Hk; try lia; unfold run in *; cbn in *; unfold landed in *; cbn in *; rewrite ?Bf, ?Pf in *; cbn in *.
    - exists []. split; [destruct j; reflexivity|]. exists row. reflexivity.
    - exists (firstn j row). split; [reflexivity|]. exists (skipn j row). symmetry. apply firstn_skipn.
    - exists row. split; [destruct j; cbn; now rewrite ?app_nil_r|]. exists []. now rewrite app_nil_r.
  Qed.

  (* ---- trajectory: several writes per frame *)
  Lemma traj_call_settled (f : fstate) pieces : settled f -> settled (run (traj_call pieces) f) /\ os (run (traj_call pieces) f) = os f ++ concat pieces.
  Proof.
    intros [Bf Pf]. unfold traj_call. rewrite run_app.
    assert (forall ps (g : fstate), pos0 g = false -> os (run (map Write ps) g) = os g /\ buf (run (map Write ps) g) = buf g ++ concat ps /\ pos0 (run (map Write ps) g) = false) as W.
    { induction ps as [|p ps IH]; intros g Pg; cbn; [rewrite app_nil_r; auto|].
      destruct (IH (step g (Write p)) Pg) as (A & Bq & Cq). unfold run in *. cbn in *. rewrite A, Bq, Cq, app_assoc. auto. }
    destruct (W pieces f Pf) as (A & Bq & Cq). unfold run at 1. cbn. unfold settled, landed. cbn. rewrite Cq, A, Bq, Bf. cbn. auto.
  Qed.
  Theorem traj_crash (f : fstate) pieces k d : settled f -> (k <= length (traj_call pieces))%nat -> In d (crash_states (run (firstn k (traj_call pieces)) f)) ->
    exists p, d = os f ++ p /\ exists q, concat pieces = p ++ q.
  Proof.
    intros [Bf Pf] Hk Hd. unfold traj_call in *.
    assert (forall ps (g : fstate), pos0 g = false -> os (run (map Write ps) g) = os g /\ buf (run (map Write ps) g) = buf g ++ concat ps /\ pos0 (run (map Write ps) g) = false) as W.
    { induction ps as [|p ps IH]; intros g Pg; cbn; [rewrite app_nil_r; auto|].
      destruct (IH (step g (Write p)) Pg) as (A & Bq & Cq). unfold run in *. cbn in *. rewrite A, Bq, Cq, app_assoc. auto. }
    destruct (Nat.le_gt_cases k (length pieces)) as [Hle|Hgt].
    - (* only writes so far: the first k pieces are buffered *)
      rewrite firstn_app in Hd. rewrite map_length in Hd. replace (k - length pieces)%nat with 0%nat in Hd by lia. cbn [firstn] in Hd. rewrite app_nil_r, firstn_map in Hd.
      destruct (W (firstn k pieces) f Pf) as (A & Bq & Cq). apply crash_states_spec in Hd. destruct Hd as [j [Hj ->]].
      unfold landed. rewrite Cq, A, Bq, Bf. cbn [app].
      exists (firstn j (concat (firstn k pieces))). split; [reflexivity|].
      exists (skipn j (concat (firstn k pieces)) ++ concat (skipn k pieces)).
      rewrite app_assoc, firstn_skipn, <- concat_app, firstn_skipn. reflexivity.
    - (* the flush has happened *)
      assert (k = S (length pieces)) as -> by (rewrite app_length, map_length in Hk; simpl in Hk; lia).
      rewrite firstn_all2 in Hd by (rewrite app_length, map_length; simpl; lia).
      destruct (traj_call_settled f pieces (conj Bf Pf)) as [[B1 P1] E1]. unfold traj_call in *. apply crash_states_spec in Hd. destruct Hd as [j [Hj ->]].
      unfold landed. rewrite B1, P1, E1. exists (concat pieces). split; [destruct j; cbn; now rewrite ?app_nil_r|]. exists []. now rewrite app_nil_r.
  Qed.

  (* ---- restart: exactly the latest document after each call, also when it is shorter than the previous one *)
  Theorem restart_after_call (f : fstate) doc : settled f -> doc <> [] -> settled (run (restart_call doc) f) /\ os (run (restart_call doc) f) = doc.
  Proof.
    intros [Bf Pf] Hd. unfold run, restart_call, settled. cbn. unfold landed, overwrite. cbn. rewrite skipn_nil, app_nil_r.
    destruct doc; [contradiction|auto].
  Qed.
  (* ... but a crash between the truncate and the flush leaves an empty (or partial) file: no saved state can be loaded from it *)
  Theorem restart_crash_window (f : fstate) doc : settled f -> In [] (crash_states (run (firstn 2 (restart_call doc)) f)).
  Proof. intros [Bf Pf]. apply crash_states_spec. exists 0%nat. unfold run, restart_call. cbn. unfold landed, overwrite. cbn. split; [lia|reflexivity]. Qed.
  Theorem restart_crash_partial (f : fstate) doc j : settled f -> In (firstn j doc) (crash_states (run (firstn 3 (restart_call doc)) f)).
  Proof.
    intros [Bf Pf]. apply crash_states_spec. unfold run, restart_call. cbn. unfold landed, overwrite. cbn.
    destruct (Nat.le_gt_cases j (length doc)) as [H|H].
    - exists j. split; [exact H|]. now rewrite skipn_nil, app_nil_r.
    - exists (length doc). split; [lia|]. rewrite skipn_nil, app_nil_r, firstn_all2 by lia. now rewrite firstn_all.
  Qed.
End FP.
