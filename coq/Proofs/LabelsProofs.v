From QV Require Import Model.Labels Proofs.DisplaceProofs Proofs.AtomsProofs.
From Coq Require Import Lia.
Open Scope Z_scope.

Lemma zmax_ge l x : In x l -> x <= zmax l.
Proof. induction l as [|a l IH]; simpl; [intros []|]. intros [->|H]; [lia|]. specialize (IH H). lia. Qed.

(* a fresh label: non-negative and different from every label in use *)
Lemma new_label_fresh labels : 0 <= new_label labels None /\ ~ In (new_label labels None) (filter (fun x => 0 <=? x) labels).
Proof.
  unfold new_label. destruct (unique_labels labels) as [|u us] eqn:E.
  - split; [lia|]. intro H. apply filter_In in H. destruct H as [H1 H2]. apply Z.leb_le in H2.
    assert (In 0 (unique_labels labels)) as C by (apply unique_in; split; [exact H1|lia]). rewrite E in C. destruct C.
  - rewrite <- E. split.
    + assert (0 <= zmax (unique_labels labels)) by (unfold zmax; clear; induction (unique_labels labels); simpl; lia). lia.
    + intro H. apply filter_In in H. destruct H as [H1 H2]. apply Z.leb_le in H2.
      assert (In (zmax (unique_labels labels) + 1) (unique_labels labels)) as C by (apply unique_in; split; assumption).
      apply zmax_ge in C. lia.
Qed.
Lemma new_label_default labels d : new_label labels (Some d) = d.
Proof. reflexivity. Qed.

Lemma delete_length_z (l : list Z) I : NoDup I -> (forall i, In i I -> (i < length l)%nat) -> (length (delete l I) + length I = length l)%nat.
Proof.
  intros ND R. unfold delete. pose proof (delete_from_count Z l 0 I) as C.
  rewrite (count_in_nodup I 0 (length l) ND) in C by (intros i Hi; split; [lia|simpl; now apply R]). exact C.
Qed.

(* one label per atom, always: the label array follows the atom count *)
Theorem on_changed_length labels default n_added removed : NoDup removed ->
  (forall i, In i removed -> (i < length labels + n_added)%nat) ->
  (length (on_atoms_changed labels default n_added removed) + length removed = length labels + n_added)%nat.
Proof.
  intros ND R. unfold on_atoms_changed.
  set (l1 := match n_added with O => labels | _ => labels ++ repeat (new_label labels default) n_added end).
  assert (length l1 = (length labels + n_added)%nat) as L1.
  { unfold l1. destruct n_added; [lia|]. rewrite app_length, repeat_length. reflexivity. }
  destruct removed as [|r rs]; [simpl; lia|]. rewrite <- L1. apply delete_length_z; [assumption|]. intros i Hi. rewrite L1. now apply R.
Qed.
(* insertion only: old labels untouched, all new atoms carry the same label (the configured one, or a fresh one) *)
Theorem on_changed_insert labels default n_added : (0 < n_added)%nat ->
  on_atoms_changed labels default n_added [] = labels ++ repeat (new_label labels default) n_added.
Proof. intro H. unfold on_atoms_changed. destruct n_added; [lia|reflexivity]. Qed.
(* deletion only: exactly the deleted atoms' entries disappear, survivors keep their label and order *)
Theorem on_changed_delete labels default removed : on_atoms_changed labels default 0 removed = delete labels removed.
Proof.
  unfold on_atoms_changed. destruct removed; [|reflexivity]. unfold delete. clear. generalize 0%nat.
  induction labels as [|x t IH]; intro k; simpl; [reflexivity|]. now rewrite <- IH.
Qed.
(* every object is updated by the same rule, exactly once *)
Theorem notify_all_each objs n_added removed k o : nth_error objs k = Some o ->
  nth_error (notify_all objs n_added removed) k = Some (on_atoms_changed (fst o) (snd o) n_added removed, snd o).
Proof. intro H. unfold notify_all. rewrite nth_error_map, H. reflexivity. Qed.
