From QV Require Import Model.Labels Proofs.DisplaceProofs Proofs.AtomsProofs.
From Coq Require Import Lia.
Open Scope Z_scope.

Lemma zmax_ge l x : In x l -> x <= zmax l.
Proof. induction l as [|a l IH]; simpl; [intros []|]. intros [->|H]; [lia|]. specialize (IH H). lia. Qed.

(* a fresh label: non-negative and different from every label in use *)
Lemma new_label_fresh labels : 0 <= new_label labels None /\ ~ In (new_label labels None) (filter (fun x => 0 <=? x) labels).
Proof.
  unfold new_label. destruct (unique_labels labels) as [|u us] eqn:E.
  - split; [lia|]. intro H. apply filter_In in H. destruct H as [H1 H2]. apply Z.leb_le in H2.
    assert (In 0 (unique_labels labels)) as C by (apply unique_in; split; [exact H1|lia]). rewrite E in C. destruct C.
  - rewrite <- E. split.
    + assert (0 <= zmax (unique_labels labels)) by (unfold zmax; clear; induction (unique_labels labels); simpl; lia). lia.
    + intro H. apply filter_In in H. destruct H as [H1 H2]. apply Z.leb_le in H2.
      assert (In (zmax (unique_labels labels) + 1) (unique_labels labels)) as C by (apply unique_in; split; assumption).
      apply zmax_ge in C. lia.
Qed.
Lemma new_label_default labels d : new_label labels (Some d) = d.
Proof. reflexivity. Qed.

Lemma delete_length_z (l : list Z) I : NoDup I -> (forall i, In i I -> (i < length l)%nat) -> (length (delete l I) + length I = length l)%nat.
Proof.
  intros ND R. unfold delete. pose proof (delete_from_count Z l 0 I) as C.
  rewrite (count_in_nodup I 0 (length l) ND) in C by (intros i Hi; split; [lia|simpl; now apply R]). exact C.
Qed.

(* one label per atom, always: the label array follows the atom count *)
Theorem on_changed_length labels default n_added removed : NoDup removed ->
  (forall i, In i removed -> (i < length labels + n_added)%nat) ->
  (length (on_atoms_changed labels default n_added removed) + length removed = length labels + n_added)%nat.
Proof.
  intros ND R. unfold on_atoms_changed.
  set (l1 := match n_added with O => labels | _ => labels ++ repeat (new_label labels default) n_added end).
  assert (length l1 = (length labels + n_added)%nat) as L1.
  { unfold l1. destruct n_added; [lia|]. rewrite app_length, repeat_length. reflexivity. }
  destruct removed as [|r rs]; [simpl; lia|]. rewrite <- L1. apply delete_length_z; [assumption|]. intros i Hi. rewrite L1. now apply R.
Qed.
(* insertion only: old labels untouched, all new atoms carry the same label (the configured one, or a fresh one) *)
Theorem on_changed_insert labels default n_added : (0 < n_added)%nat ->
  on_atoms_changed labels default n_added [] = labels ++ repeat (new_label labels default) n_added.
Proof. intro H. unfold on_atoms_changed. destruct n_added; [lia|reflexivity]. Qed.
(* deletion only: exactly the deleted atoms' entries disappear, survivors keep their label and order *)
Theorem on_changed_delete labels default removed : on_atoms_changed labels default 0 removed = delete labels removed.
Proof.
  unfold on_atoms_changed. destruct removed; [|reflexivity]. unfold delete. clear. generalize 0%nat.
  induction labels as [|x t IH]; intro k; simpl; [reflexivity|]. now rewrite <- IH.
Qed.
(* every object is updated by the same rule, exactly once *)
Theorem notify_all_each objs n_added removed k o : nth_error objs k = Some o ->
  nth_error (notify_all objs n_added removed) k = Some (on_atoms_changed (fst o) (snd o) n_added removed, snd o).
Proof. intro H. unfold notify_all. rewrite nth_error_map, H. reflexivity. Qed.

(* ---- the labels of a move against the TRUE particles, through any history of accepted insertions and deletions.
   An atom is (label, true particle id).  Atoms with a negative label are outside the bookkeeping. *)
Definition tracked := list (Z * nat).
Definition Part (lp : tracked) : Prop :=
  forall a b, In a lp -> In b lp -> 0 <= fst a -> 0 <= fst b -> (fst a = fst b <-> snd a = snd b).

Inductive ev := Ins (k q : nat) | Del (J : list nat).
(* what really happens to the atoms: one particle q of k atoms appended / the rows I removed *)
Definition truth_step (lp : tracked) (e : ev) : tracked :=
  match e with
  | Ins k q => lp ++ repeat (new_label (map fst lp) None, q) k
  | Del J => delete lp J
  end.
(* what the move does to its labels on the notification *)
Definition label_step (labels : list Z) (e : ev) : list Z :=
  match e with Ins k _ => on_atoms_changed labels None k [] | Del J => on_atoms_changed labels None 0 J end.
Fixpoint ev_ok (lp : tracked) (es : list ev) : Prop :=
  match es with
  | [] => True
  | e :: es' => match e with Ins k q => ~ In q (map snd lp) | Del _ => True end /\ ev_ok (truth_step lp e) es'
  end.

Lemma in_delete_from {A} (x : A) l I : forall k, In x (delete_from k l I) -> In x l.
Proof. induction l as [|y t IH]; intros k H; simpl in *; [exact H|]. destruct (mem k I); [right; eapply IH; eauto|destruct H as [->|H]; [now left|right; eapply IH; eauto]]. Qed.
Lemma delete_from_map_fst (l : tracked) I : forall k, map fst (delete_from k l I) = delete_from k (map fst l) I.
Proof. induction l as [|x t IH]; intro k; simpl; [reflexivity|]. destruct (mem k I); simpl; now rewrite IH. Qed.

(* the move's label array is exactly the first component of the truth, step by step *)
Lemma label_step_tracks lp e : label_step (map fst lp) e = map fst (truth_step lp e).
Proof.
  destruct e as [k q|J]; cbn [label_step truth_step].
  - unfold on_atoms_changed. destruct k; [cbn [repeat]; now rewrite app_nil_r|]. rewrite map_app. f_equal.
    generalize (S k). intro n. induction n as [|n IHn]; cbn [repeat map fst]; [reflexivity|]. now rewrite <- IHn.
  - rewrite on_changed_delete. unfold delete. symmetry. apply delete_from_map_fst.
Qed.

Lemma in_nonneg_filter x l : In x l -> 0 <= x -> In x (filter (fun y => 0 <=? y) l).
Proof. intros H Hx. apply filter_In. split; [exact H|]. now apply Z.leb_le. Qed.

Lemma part_step lp e : Part lp -> match e with Ins k q => ~ In q (map snd lp) | Del _ => True end -> Part (truth_step lp e).
Proof.
  intros HP Hok. destruct e as [k q|J]; cbn [truth_step].
  - destruct (new_label_fresh (map fst lp)) as [Hnn Hfresh]. set (nl := new_label (map fst lp) None) in *.
    intros a b Ha Hb Hna Hnb. apply in_app_or in Ha. apply in_app_or in Hb.
    destruct Ha as [Ha|Ha], Hb as [Hb|Hb].
    + now apply HP.
    + apply repeat_spec in Hb. subst b. simpl in *. split; intro E.
      * exfalso. apply Hfresh. rewrite <- E. apply in_nonneg_filter; [apply in_map; exact Ha|exact Hna].
      * exfalso. apply Hok. rewrite <- E. apply in_map. exact Ha.
    + apply repeat_spec in Ha. subst a. simpl in *. split; intro E.
      * exfalso. apply Hfresh. rewrite E. apply in_nonneg_filter; [apply in_map; exact Hb|exact Hnb].
      * exfalso. apply Hok. rewrite E. apply in_map. exact Hb.
    + apply repeat_spec in Ha. apply repeat_spec in Hb. subst a b. simpl. tauto.
  - intros a b Ha Hb. apply HP; eapply in_delete_from; eauto.
Qed.

(* every history of accepted insertions (any particle size) and deletions (any index sets): at every point two tracked atoms carry the
   same label exactly when they belong to the same particle, and the label array the move holds is the one the truth carries *)
Theorem labels_track_particles es : forall lp, Part lp -> ev_ok lp es ->
  Part (fold_left truth_step es lp) /\ fold_left label_step es (map fst lp) = map fst (fold_left truth_step es lp).
Proof.
  induction es as [|e es IH]; intros lp HP Hok; simpl; [split; [exact HP|reflexivity]|].
  destruct Hok as [H1 H2]. rewrite label_step_tracks. apply IH; [now apply part_step|exact H2].
Qed.
(* inserted atoms are tracked (non-negative label) when no default is configured *)
Lemma inserted_tracked (lp : tracked) k (q : nat) : Forall (fun a : Z * nat => 0 <= fst a) (repeat (new_label (map fst lp) None, q) k).
Proof. destruct (new_label_fresh (map fst lp)) as [Hnn _]. induction k; simpl; constructor; [exact Hnn|exact IHk]. Qed.

Example labels_track_nonvacuous :
  let lp := [(0, 0%nat); (0, 0%nat); (-1, 7%nat); (3, 1%nat)] in
  Part lp /\ ev_ok lp [Ins 2 2; Del [0%nat; 1%nat]; Ins 1 3] /\
  map fst (fold_left truth_step [Ins 2 2; Del [0%nat; 1%nat]; Ins 1 3] lp) = [-1; 3; 4; 4; 5].
Proof.
  cbv zeta. split; [|split; [|reflexivity]].
  - intros a b Ha Hb. simpl in Ha, Hb. intuition (subst; simpl in *; try lia; split; intro; try lia; try discriminate; try reflexivity).
  - simpl. intuition discriminate.
Qed.
