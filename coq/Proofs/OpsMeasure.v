(* C10, "symmetric" clause read as a statement about laws: the involutions of Props/C10.v
   (u -> -u on a box coordinate or on the cosine of the polar angle, phi -> phi + PI on the azimuth)
   preserve the uniform law from which the operations draw, i.e. the expectation of every continuous
   test function is unchanged.  One coordinate at a time: the product over coordinates is Fubini,
   which stays cited (DESIGN 5.6). *)
From Coq Require Import Reals Lra.
From Coquelicot Require Import Coquelicot.
Open Scope R_scope.

(* u ~ U[-s, s]  =>  -u ~ U[-s, s]   (Box: every coordinate; Ball / Sphere: c = cos(theta), s = 1) *)
Lemma uniform_reflection : forall (f : R -> R) (s : R),
  (forall z, - s <= z <= s -> continuous f z) -> 0 <= s ->
  RInt (fun u : R => f (- u)) (- s) s = RInt f (- s) s.
Proof.
  intros f s Hc Hs.
  assert (Hex : ex_RInt f (- s) s).
  { apply (@ex_RInt_continuous R_CompleteNormedModule). intros z Hz. apply Hc.
    rewrite Rmin_left in Hz by lra. rewrite Rmax_right in Hz by lra. exact Hz. }
  apply is_RInt_unique.
  assert (H1 : is_RInt f (- - s) (- s) (opp (RInt f (- s) s))).
  { rewrite Ropp_involutive. apply (@is_RInt_swap R_NormedModule). apply (@RInt_correct R_CompleteNormedModule). exact Hex. }
  apply (@is_RInt_comp_opp R_NormedModule) in H1.
  apply (@is_RInt_opp R_NormedModule) in H1.
  rewrite opp_opp in H1.
  apply (is_RInt_ext (fun y : R => opp (opp (f (- y))))); [|exact H1].
  intros x _. apply opp_opp.
Qed.

(* phi ~ U[0, 2 PI), g a function on the circle (2 PI-periodic)  =>  phi + PI has the same law *)
Lemma uniform_half_turn : forall (g : R -> R),
  (forall z, continuous g z) -> (forall z, g (z + 2 * PI) = g z) ->
  RInt (fun phi : R => g (phi + PI)) 0 (2 * PI) = RInt g 0 (2 * PI).
Proof.
  intros g Hc Hp.
  assert (Hpi := PI_RGT_0).
  assert (Hex : forall a b, ex_RInt g a b).
  { intros a b. apply (@ex_RInt_continuous R_CompleteNormedModule). intros z _. apply Hc. }
  assert (Hshift : forall v a b, RInt (fun y : R => g (y + v)) a b = RInt g (a + v) (b + v)).
  { intros v a b.
    replace (a + v) with (1 * a + v) by ring. replace (b + v) with (1 * b + v) by ring.
    rewrite <- (@RInt_comp_lin R_CompleteNormedModule g 1 v a b) by apply Hex.
    apply RInt_ext. intros x _. replace (1 * x + v) with (x + v) by ring. symmetry. apply Rmult_1_l. }
  rewrite Hshift.
  replace (0 + PI) with PI by ring.
  rewrite <- (RInt_Chasles g PI (2 * PI) (2 * PI + PI)) by apply Hex.
  rewrite <- (RInt_Chasles g 0 PI (2 * PI)) by apply Hex.
  assert (Hper : RInt g (2 * PI) (2 * PI + PI) = RInt g 0 PI).
  { rewrite <- (RInt_ext (fun y : R => g (y + 2 * PI)) g 0 PI).
    - rewrite Hshift. f_equal; ring.
    - intros x _. apply Hp. }
  rewrite Hper. apply plus_comm.
Qed.

(* non-vacuity: the identity on [-1, 1] and a constant on the circle meet the hypotheses *)
Example uniform_reflection_nonvacuous :
  RInt (fun u : R => (fun x : R => x * x) (- u)) (- 1) 1 = RInt (fun x : R => x * x) (- 1) 1.
Proof.
  apply uniform_reflection; [|lra].
  intros z _. apply (ex_derive_continuous (fun x : R => x * x) z). auto_derive. exact I.
Qed.
