From QV Require Import Model.CalcKeys.

Section KeysProofs.
  Variables C K V : Type.
  Variable E : K -> C -> V.
  Variable ceq : C -> C -> bool.
  Variable keq : K -> K -> bool.
  Variable ke : K.
  Hypothesis ceq_spec : forall a b, ceq a b = true <-> a = b.
  Hypothesis keq_spec : forall a b, keq a b = true <-> a = b.

  Notation kst := (kst C K V).
  Notation good := (good C K V E keq).
  Notation lookup := (lookup K V keq).
  Notation in_sync := (in_sync C K V ceq).
  Notation request := (request C K V E ceq keq).
  Notation ksave := (ksave C K V E ceq keq ke).
  Notation krevert := (krevert C K V).
  Notation kstep := (kstep C K V E ceq keq ke).
  Notation ktrial := (ktrial C K V E ceq keq ke).
  Notation krun := (krun C K V E ceq keq ke).
  Notation KCoherent := (KCoherent C K V E ceq keq).

  (* what holds at EVERY point of every operation sequence: whatever the calculator holds belongs to calc.atoms, whatever the context
     saved belongs to the saved geometry, and while the two dictionaries are one object calc.atoms is the saved geometry *)
  Definition KInv (s : kst) : Prop :=
    (forall a, kcatoms s = Some a -> good a (kres s)) /\ good (klast_cfg s) (klast_res s) /\
    (kalias s = true -> kcatoms s = Some (klast_cfg s)).

  Lemma good_nil : forall c, good c [].
  Proof. intros c k v H. discriminate H. Qed.

  Lemma good_cons : forall c k d, good c d -> good c ((k, E k c) :: d).
  Proof.
    intros c k d Hd k0 v H. cbn [CalcKeys.lookup] in H.
    destruct (keq k0 k) eqn:Hk.
    - apply keq_spec in Hk. subst k0. inversion H. reflexivity.
    - apply Hd. exact H.
  Qed.

  Lemma in_sync_eq : forall (s : kst) a, kcatoms s = Some a -> in_sync s = true -> a = kcfg s.
  Proof. intros s a Ha Hs. unfold CalcKeys.in_sync in Hs. rewrite Ha in Hs. apply ceq_spec. exact Hs. Qed.

  Lemma request_catoms : forall s k, kcatoms (request s k) = Some (kcfg (request s k)) /\ kcfg (request s k) = kcfg s.
  Proof. intros s k. unfold CalcKeys.request. destruct (lookup k _); cbn; auto. Qed.

  Lemma request_inv : forall s k, KInv s -> KInv (request s k).
  Proof.
    intros s k [H1 [H2 H3]].
    assert (Hres : good (kcfg s) (if in_sync s then kres s else [])).
    { destruct (in_sync s) eqn:Hs; [|apply good_nil].
      unfold CalcKeys.in_sync in Hs. destruct (kcatoms s) as [a|] eqn:Ha; [|discriminate Hs].
      apply ceq_spec in Hs. subst a. apply H1. reflexivity. }
    assert (Hal : (if in_sync s then kalias s else false) = true -> klast_cfg s = kcfg s).
    { destruct (in_sync s) eqn:Hs; [|discriminate]. intros Ha. specialize (H3 Ha).
      apply (in_sync_eq s _ H3 Hs). }
    unfold CalcKeys.request.
    destruct (lookup k (if in_sync s then kres s else [])) eqn:Hl; unfold KInv; cbn.
    - split; [|split].
      + intros a Ha. inversion Ha. subst a. exact Hres.
      + exact H2.
      + intros Ha. rewrite (Hal Ha). reflexivity.
    - split; [|split].
      + intros a Ha. inversion Ha. subst a. apply good_cons. exact Hres.
      + destruct (if in_sync s then kalias s else false) eqn:Ha; [|exact H2].
        rewrite (Hal eq_refl). apply good_cons. rewrite <- (Hal eq_refl). exact H2.
      + intros Ha. rewrite (Hal Ha). reflexivity.
  Qed.

  Lemma requests_inv : forall ks s, KInv s -> KInv (fold_left request ks s).
  Proof. induction ks as [|k ks IH]; cbn [fold_left]; intros s H; [exact H|]. apply IH. apply request_inv. exact H. Qed.

  Lemma propose_inv : forall s c', KInv s -> KInv (kpropose C K V s c').
  Proof. intros s c' H. exact H. Qed.

  Lemma save_inv : forall s, KInv s -> KInv (ksave s) /\ KCoherent (ksave s).
  Proof.
    intros s H. pose proof (request_inv s ke H) as [T1 [T2 T3]]. destruct (request_catoms s ke) as [Hc _].
    unfold CalcKeys.ksave, KInv, CalcKeys.KCoherent, CalcKeys.in_sync; cbn.
    rewrite Hc. repeat split.
    - intros a Ha. inversion Ha. subst a. apply T1. exact Hc.
    - apply T1. exact Hc.
    - apply ceq_spec. reflexivity.
    - apply T1. exact Hc.
    - apply T1. exact Hc.
  Qed.

  Lemma revert_inv : forall s, KInv s -> KInv (krevert false s) /\ KCoherent (krevert false s).
  Proof.
    intros s [H1 [H2 H3]]. unfold CalcKeys.krevert, KInv, CalcKeys.KCoherent, CalcKeys.in_sync; cbn. repeat split.
    - intros a Ha. inversion Ha. subst a. exact H2.
    - exact H2.
    - apply ceq_spec. reflexivity.
    - exact H2.
    - exact H2.
  Qed.

  Lemma kstep_inv : forall s o, KInv s -> KInv (kstep false s o).
  Proof.
    intros s [c'|k| |] H; cbn.
    - apply propose_inv. exact H.
    - apply request_inv. exact H.
    - apply save_inv. exact H.
    - apply revert_inv. exact H.
  Qed.

  Lemma ksteps_inv : forall os s, KInv s -> KInv (fold_left (kstep false) os s).
  Proof. induction os as [|o os IH]; cbn [fold_left]; intros s H; [exact H|]. apply IH. apply kstep_inv. exact H. Qed.

  Lemma ktrial_inv : forall s o, KInv s -> KInv (ktrial false s o) /\ KCoherent (ktrial false s o).
  Proof.
    intros s [c' ks|c' ks] H; cbn.
    - apply revert_inv. apply request_inv. apply requests_inv. apply propose_inv. exact H.
    - apply save_inv. apply requests_inv. apply propose_inv. exact H.
  Qed.

  Lemma krun_inv : forall os s, KInv s -> KInv (krun false os s) /\ (os <> [] -> KCoherent (krun false os s)).
  Proof.
    intros os. induction os as [|o os IH] using rev_ind; intros s H.
    - split; [exact H|]. intros Hn. exfalso. apply Hn. reflexivity.
    - unfold CalcKeys.krun. rewrite fold_left_app. cbn [fold_left].
      destruct (IH s H) as [Hi _]. destruct (ktrial_inv _ o Hi) as [A B]. split; [exact A|]. intros _. exact B.
  Qed.

  Lemma coherent_held : forall s k v, KCoherent s -> lookup k (kres s) = Some v -> v = E k (kcfg s).
  Proof. intros s k v [_ [Hg _]] Hl. apply Hg. exact Hl. Qed.
End KeysProofs.

(* the variant `calc.results.update(last_results)`: a rejected trial that asked for a key the saved dictionary does not hold leaves it behind.
   Keys: 0 = energy, 1 = forces; configurations and values are tokens: E k c = (k, c). *)
Definition tokE (k c : nat) : nat * nat := (k, c).
Definition kinit : kst nat nat (nat * nat) :=
  {| kcfg := 0; kcatoms := Some 0; kres := [(0, tokE 0 0)]; kalias := true; klast_cfg := 0; klast_res := [(0, tokE 0 0)] |}.

Lemma update_variant_stale :
  lookup nat (nat * nat) Nat.eqb 1 (kres (krun nat nat (nat * nat) tokE Nat.eqb Nat.eqb 0 true [KRejected 7 [1]] kinit)) = Some (tokE 1 7) /\
  kcfg (krun nat nat (nat * nat) tokE Nat.eqb Nat.eqb 0 true [KRejected 7 [1]] kinit) = 0.
Proof. vm_compute. split; reflexivity. Qed.

Lemma kinit_inv : KInv nat nat (nat * nat) tokE Nat.eqb kinit /\ KCoherent nat nat (nat * nat) tokE Nat.eqb Nat.eqb kinit.
Proof.
  assert (G : good nat nat (nat * nat) tokE Nat.eqb 0 [(0, tokE 0 0)]).
  { intros k v H. cbn in H. destruct (Nat.eqb k 0) eqn:Hk; [|discriminate H]. apply Nat.eqb_eq in Hk. subst k. inversion H. reflexivity. }
  unfold KInv, KCoherent; cbn. repeat split; try exact G; try reflexivity.
  intros a Ha. inversion Ha. subst a. exact G.
Qed.
