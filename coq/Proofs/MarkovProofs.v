(* C01 — finite-state Markov kernels: detailed balance implies stationarity; mixtures (random choice of a move), sequences (the cycles of
   one step, steps of a run) and arbitrary histories of invariant kernels leave the target invariant; the Metropolis-Hastings kernel
   built from ANY proposal with the acceptance min(1, pi(y) q(y,x) / (pi(x) q(x,y))) is reversible. *)
From Coq Require Import Reals List Lra Lia.
From QV Require Import Proofs.BalanceProofs.
Import ListNotations.
Open Scope R_scope.

Section Finite.
  Context {A : Type}.
  Variable S : list A.                                   (* the (finite) state space, as a list of states *)

  Definition rsum (f : A -> R) : R := fold_right (fun a s => f a + s) 0 S.

  Definition kernel := A -> A -> R.
  Definition stochastic (K : kernel) : Prop := forall x, In x S -> rsum (K x) = 1.
  Definition reversible (pi : A -> R) (K : kernel) : Prop := forall x y, In x S -> In y S -> pi x * K x y = pi y * K y x.
  Definition stationary (pi : A -> R) (K : kernel) : Prop := forall y, In y S -> rsum (fun x => pi x * K x y) = pi y.
  (* one step of the chain on a distribution *)
  Definition push (mu : A -> R) (K : kernel) : A -> R := fun y => rsum (fun x => mu x * K x y).
  Definition comp (K1 K2 : kernel) : kernel := fun x z => rsum (fun y => K1 x y * K2 y z).
  Definition mix (w : R) (K1 K2 : kernel) : kernel := fun x y => w * K1 x y + (1 - w) * K2 x y.
  Definition ident (eqb : A -> A -> bool) : kernel := fun x y => if eqb x y then 1 else 0.
End Finite.

Section Sums.
  Context {A : Type}.
  Lemma rsum_ext_in (S : list A) f g : (forall x, In x S -> f x = g x) -> rsum S f = rsum S g.
  Proof.
    unfold rsum. induction S as [|a S IH]; intro H; cbn [fold_right]; [reflexivity|].
    rewrite (H a (or_introl eq_refl)), IH; [reflexivity|]. intros x Hx. apply H. now right.
  Qed.
  Lemma rsum_scal (S : list A) c f : rsum S (fun x => c * f x) = c * rsum S f.
  Proof. unfold rsum. induction S as [|a S IH]; cbn [fold_right]; [ring|]. rewrite IH. ring. Qed.
  Lemma rsum_scal_r (S : list A) c f : rsum S (fun x => f x * c) = rsum S f * c.
  Proof. unfold rsum. induction S as [|a S IH]; cbn [fold_right]; [ring|]. rewrite IH. ring. Qed.
  Lemma rsum_plus (S : list A) f g : rsum S (fun x => f x + g x) = rsum S f + rsum S g.
  Proof. unfold rsum. induction S as [|a S IH]; cbn [fold_right]; [ring|]. rewrite IH. ring. Qed.
  Lemma rsum_zero (S : list A) : rsum S (fun _ => 0) = 0.
  Proof. unfold rsum. induction S as [|a S IH]; cbn [fold_right]; [reflexivity|]. rewrite IH. ring. Qed.
  Lemma rsum_cons (a : A) (S : list A) f : rsum (a :: S) f = f a + rsum S f.
  Proof. reflexivity. Qed.
  Lemma rsum_nil (f : A -> R) : rsum [] f = 0.
  Proof. reflexivity. Qed.
  Lemma rsum_swap (S T : list A) (f : A -> A -> R) : rsum S (fun x => rsum T (fun y => f x y)) = rsum T (fun y => rsum S (fun x => f x y)).
  Proof.
    induction S as [|a S IH].
    - rewrite rsum_nil. symmetry. rewrite (rsum_ext_in T _ (fun _ => 0)) by (intros; apply rsum_nil). apply rsum_zero.
    - rewrite rsum_cons, IH, <- rsum_plus. apply rsum_ext_in. intros y _. now rewrite rsum_cons.
  Qed.
  Lemma rsum_nonneg (S : list A) f : (forall x, In x S -> 0 <= f x) -> 0 <= rsum S f.
  Proof.
    unfold rsum. induction S as [|a S IH]; intro H; cbn [fold_right]; [lra|].
    assert (0 <= f a) by (apply H; now left). assert (0 <= fold_right (fun a s => f a + s) 0 S) by (apply IH; intros; apply H; now right). lra.
  Qed.
End Sums.

Section Chains.
  Context {A : Type}.
  Variable S : list A.
  Variable pi : A -> R.

  (* detailed balance + rows summing to one => the target is invariant *)
  Theorem reversible_stationary K : stochastic S K -> reversible S pi K -> stationary S pi K.
  Proof.
    intros HS HR y Hy. rewrite (rsum_ext_in S _ (fun x => pi y * K y x)).
    - rewrite rsum_scal, (HS y Hy). ring.
    - intros x Hx. now apply HR.
  Qed.

  (* choosing between two moves at random (the weighted choice of the scheduler) *)
  Theorem reversible_mix w K1 K2 : reversible S pi K1 -> reversible S pi K2 -> reversible S pi (mix w K1 K2).
  Proof.
    intros H1 H2 x y Hx Hy. unfold mix. specialize (H1 x y Hx Hy). specialize (H2 x y Hx Hy).
    replace (pi x * (w * K1 x y + (1 - w) * K2 x y)) with (w * (pi x * K1 x y) + (1 - w) * (pi x * K2 x y)) by ring.
    rewrite H1, H2. ring.
  Qed.
  Theorem stationary_mix w K1 K2 : stationary S pi K1 -> stationary S pi K2 -> stationary S pi (mix w K1 K2).
  Proof.
    intros H1 H2 y Hy. unfold mix.
    rewrite (rsum_ext_in S _ (fun x => w * (pi x * K1 x y) + (1 - w) * (pi x * K2 x y))) by (intros; ring).
    rewrite rsum_plus, !rsum_scal, (H1 y Hy), (H2 y Hy). ring.
  Qed.
  Theorem stochastic_mix w K1 K2 : stochastic S K1 -> stochastic S K2 -> stochastic S (mix w K1 K2).
  Proof. intros H1 H2 x Hx. unfold mix. rewrite rsum_plus, !rsum_scal, (H1 x Hx), (H2 x Hx). ring. Qed.

  (* doing one move after another (the cycles of a step; a composite move): NOT reversible in general, but still invariant *)
  Theorem stationary_comp K1 K2 : stationary S pi K1 -> stationary S pi K2 -> stationary S pi (comp S K1 K2).
  Proof.
    intros H1 H2 z Hz. unfold comp.
    rewrite (rsum_ext_in S _ (fun x => rsum S (fun y => pi x * K1 x y * K2 y z))).
    2:{ intros x _. rewrite <- rsum_scal. apply rsum_ext_in. intros; ring. }
    rewrite rsum_swap.
    rewrite (rsum_ext_in S _ (fun y => pi y * K2 y z)); [now apply H2|].
    intros y Hy. rewrite rsum_scal_r. now rewrite (H1 y Hy).
  Qed.
  Theorem stochastic_comp K1 K2 : stochastic S K1 -> stochastic S K2 -> stochastic S (comp S K1 K2).
  Proof.
    intros H1 H2 x Hx. unfold comp. rewrite rsum_swap.
    rewrite (rsum_ext_in S _ (fun y => K1 x y)); [now apply H1|].
    intros y Hy. rewrite rsum_scal. rewrite (H2 y Hy). ring.
  Qed.

  (* any history: a list of kernels applied one after another to a distribution that is the target stays the target, whatever its length *)
  Theorem history_invariant Ks mu : Forall (stationary S pi) Ks -> (forall y, In y S -> mu y = pi y) ->
    forall y, In y S -> fold_left (push S) Ks mu y = pi y.
  Proof.
    revert mu. induction Ks as [|K Ks IH]; intros mu HK Hmu y Hy; cbn [fold_left]; [now apply Hmu|].
    inversion HK as [|? ? HK1 HK2]; subst. apply IH; [assumption| |assumption].
    intros z Hz. unfold push. rewrite (rsum_ext_in S _ (fun x => pi x * K x z)); [now apply HK1|].
    intros x Hx. now rewrite Hmu.
  Qed.

  (* the scheduler's weighted choice among any number of moves: sum_i w_i K_i with weights summing to one *)
  Definition mixl (wk : list (R * @kernel A)) : @kernel A := fun x y => fold_right (fun p s => fst p * snd p x y + s) 0 wk.
  Theorem stationary_mixl wk : Forall (fun p => stationary S pi (snd p)) wk -> fold_right (fun p s => fst p + s) 0 wk = 1 ->
    stationary S pi (mixl wk).
  Proof.
    intros HK Hw y Hy. rewrite <- (Rmult_1_l (pi y)), <- Hw. clear Hw.
    induction wk as [|[w K] wk IH]; unfold mixl; cbn [fold_right fst snd].
    - rewrite (rsum_ext_in S _ (fun _ => 0)) by (intros; ring). rewrite rsum_zero. ring.
    - inversion HK as [|? ? HK1 HK2]; subst. cbn [snd] in HK1.
      rewrite (rsum_ext_in S _ (fun x => w * (pi x * K x y) + pi x * mixl wk x y)) by (intros; unfold mixl; ring).
      rewrite rsum_plus, rsum_scal, (HK1 y Hy), (IH HK2). ring.
  Qed.
  (* a trial that fails or is vetoed changes nothing: the identity kernel *)
  Theorem stationary_ident eqb : (forall x y, eqb x y = true <-> x = y) -> NoDup S -> stationary S pi (ident eqb).
  Proof.
    intros Heq ND y Hy. unfold ident. induction S as [|a T IH]; [destruct Hy|].
    rewrite rsum_cons. inversion ND as [|? ? Hn ND']; subst. destruct Hy as [->|Hy].
    - assert (eqb y y = true) as -> by now apply Heq.
      rewrite (rsum_ext_in T _ (fun _ => 0)).
      + rewrite rsum_zero. ring.
      + intros x Hx. destruct (eqb x y) eqn:E; [|ring]. apply Heq in E. subst. contradiction.
    - destruct (eqb a y) eqn:E; [apply Heq in E; subst; contradiction|]. rewrite (IH ND' Hy). ring.
  Qed.

  (* Metropolis-Hastings from an arbitrary proposal q with symmetric support: off the diagonal
     K x y = q x y * min(1, pi y q y x / (pi x q x y)); the diagonal is whatever makes rows sum to one. *)
  Theorem mh_reversible (q K : kernel) :
    (forall x, In x S -> 0 < pi x) -> (forall x y, 0 <= q x y) -> (forall x y, q x y = 0 -> q y x = 0) ->
    (forall x y, In x S -> In y S -> x <> y -> K x y = q x y * Rmin 1 (pi y * q y x / (pi x * q x y))) ->
    (forall x y : A, x = y \/ x <> y) ->
    reversible S pi K.
  Proof.
    intros Hpi Hq Hsup HK Hdec x y Hx Hy. destruct (Hdec x y) as [->|Hne]; [reflexivity|].
    rewrite (HK x y Hx Hy Hne), (HK y x Hy Hx (fun e => Hne (eq_sym e))).
    destruct (Req_dec (q x y) 0) as [Z|NZ].
    - rewrite Z, (Hsup x y Z). ring.
    - assert (q y x <> 0) as NZ' by (intro Z; apply NZ; now apply Hsup).
      assert (0 < q x y) by (specialize (Hq x y); lra). assert (0 < q y x) by (specialize (Hq y x); lra).
      pose proof (Hpi x Hx). pose proof (Hpi y Hy).
      pose proof (mh_detailed_balance (pi x * q x y) (pi y * q y x)) as DB.
      assert (0 < pi x * q x y) by (apply Rmult_lt_0_compat; assumption).
      assert (0 < pi y * q y x) by (apply Rmult_lt_0_compat; assumption).
      specialize (DB ltac:(assumption) ltac:(assumption)). lra.
  Qed.
End Chains.

(* non-vacuity: the two-state chain with weights (1, 2) and the symmetric proposal "flip" *)
Example two_state_reversible :
  let S := [true; false] in
  let pi := fun b : bool => if b then 1 else 2 in
  let K := fun x y : bool => if Bool.eqb x y then (if x then 0 else 1 / 2) else (if x then 1 else 1 / 2) in
  stochastic S K /\ reversible S pi K /\ stationary S pi K.
Proof.
  cbv zeta. assert (stochastic [true; false] (fun x y : bool => if Bool.eqb x y then (if x then 0 else 1 / 2) else (if x then 1 else 1 / 2))) as HS.
  { intros [|] _; unfold rsum; simpl; lra. }
  assert (reversible [true; false] (fun b : bool => if b then 1 else 2) (fun x y : bool => if Bool.eqb x y then (if x then 0 else 1 / 2) else (if x then 1 else 1 / 2))) as HR.
  { intros [|] [|] _ _; simpl; lra. }
  split; [exact HS|]. split; [exact HR|]. now apply reversible_stationary.
Qed.
