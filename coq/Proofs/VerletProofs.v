From QV Require Import Model.Verlet.
From Coq Require Import Lra Lia.

Section Rev.
  Variable f : vec -> vec.
  Variable m : vec.
  Variable dt : R.
  Hypothesis m_nz : forall i, m i <> 0.
  (* the force depends on the configuration only through its values *)
  Hypothesis f_ext : forall q q', (forall i, q i = q' i) -> forall i, f q i = f q' i.

  Lemma eqst_refl s : eqst s s.
  Proof. split; reflexivity. Qed.
  Lemma eqst_trans s t u : eqst s t -> eqst t u -> eqst s u.
  Proof. intros [A B] [C D]. split; intro i; [rewrite A; apply C|rewrite B; apply D]. Qed.

  Lemma vv_ext s t : eqst s t -> eqst (vv f m dt s) (vv f m dt t).
  Proof.
    intros [Q P].
    assert (forall i, f (qq s) i = f (qq t) i) as F by (apply f_ext; exact Q).
    assert (forall i, qq (vv f m dt s) i = qq (vv f m dt t) i) as Q'.
    { intro i. simpl. rewrite Q, P, F. reflexivity. }
    split; [exact Q'|]. intro i.
    assert (f (qq (vv f m dt s)) i = f (qq (vv f m dt t)) i) as F' by (apply f_ext; exact Q').
    simpl in F'. simpl. rewrite P, F, F'. reflexivity.
  Qed.

  Lemma iter_ext n : forall s t, eqst s t -> eqst (iter n (vv f m dt) s) (iter n (vv f m dt) t).
  Proof. induction n as [|n IH]; intros s t H; simpl; [exact H|]. apply IH. now apply vv_ext. Qed.

  (* the kernel of the matter: one step, flip, one step, is the flipped start - exactly, for any force field *)
  Lemma vv_reversible_1 s : eqst (vv f m dt (flip (vv f m dt s))) (flip s).
  Proof.
    assert (forall i, qq (vv f m dt (flip (vv f m dt s))) i = qq s i) as Q.
    { intro i. simpl. field. apply m_nz. }
    split; [exact Q|]. intro i.
    change (pp (vv f m dt (flip (vv f m dt s))) i) with
      ((- pp (vv f m dt s) i + / 2 * f (qq (vv f m dt s)) i * dt)
       + / 2 * f (qq (vv f m dt (flip (vv f m dt s)))) i * dt).
    rewrite (f_ext _ _ Q i). simpl. lra.
  Qed.

  Lemma flip_flip s : eqst (flip (flip s)) s.
  Proof. split; intro i; simpl; lra. Qed.
  Lemma flip_ext s t : eqst s t -> eqst (flip s) (flip t).
  Proof. intros [Q P]. split; intro i; simpl; [apply Q|rewrite P; reflexivity]. Qed.

  Lemma iter_S_out n (g : phase -> phase) x : iter (S n) g x = g (iter n g x).
  Proof. revert x. induction n as [|n IH]; intro x; [reflexivity|]. simpl in *. apply IH. Qed.

  Theorem vv_reversible n : forall s, eqst (integrate f m dt n (flip (integrate f m dt n s))) (flip s).
  Proof.
    unfold integrate. induction n as [|n IH]; intro s; [apply eqst_refl|].
    (* iter (S n) g (flip (iter (S n) g s)) : peel the innermost step of the second leg and the outermost of the first *)
    rewrite (iter_S_out n _ s). simpl.
    apply eqst_trans with (iter n (vv f m dt) (flip (iter n (vv f m dt) s))); [|apply IH].
    apply iter_ext. apply vv_reversible_1.
  Qed.

  (* each sub-step is a shear: the kick changes only p (by a function of q), the drift only q (by a function of p) *)
  Definition kick (h : R) (s : phase) : phase := {| qq := qq s; pp := fun i => pp s i + h * f (qq s) i |}.
  Definition drift (h : R) (s : phase) : phase := {| qq := fun i => qq s i + h * pp s i / m i; pp := pp s |}.
  Lemma vv_shear_form s : eqst (vv f m dt s) (kick (dt / 2) (drift dt (kick (dt / 2) s))).
  Proof.
    assert (forall i, qq (vv f m dt s) i = qq (kick (dt / 2) (drift dt (kick (dt / 2) s))) i) as Q.
    { intro i. simpl. field. apply m_nz. }
    split; [exact Q|]. intro i. simpl.
    assert (f (fun i0 => qq s i0 + (pp s i0 + / 2 * f (qq s) i0 * dt) / m i0 * dt) i =
            f (fun i0 => qq s i0 + dt * (pp s i0 + dt / 2 * f (qq s) i0) / m i0) i) as ->.
    { apply f_ext. intro j. field. apply m_nz. }
    lra.
  Qed.
End Rev.

(* ---------------- harmonic wells: exact shadow invariant and the O(dt^2) energy-error law for all step counts *)
Section Harmonic.
  Variables k r0 m : vec.
  Variable dt : R.
  Hypothesis m_pos : forall i, 0 < m i.

  Lemma harmonic_ext q q' : (forall i, q i = q' i) -> forall i, harmonic k r0 q i = harmonic k r0 q' i.
  Proof. intros H i. unfold harmonic. now rewrite H. Qed.

  Definition sh (s : phase) (i : nat) : R := shadow1 (k i) (m i) dt (qq s i - r0 i) (pp s i).
  Definition hm (s : phase) (i : nat) : R := ham1 (k i) (m i) (qq s i - r0 i) (pp s i).

  Lemma shadow_step s i : sh (vv (harmonic k r0) m dt s) i = sh s i.
  Proof. unfold sh, shadow1, harmonic. simpl. field. pose proof (m_pos i). lra. Qed.

  Lemma shadow_conserved n : forall s i, sh (integrate (harmonic k r0) m dt n s) i = sh s i.
  Proof.
    unfold integrate. induction n as [|n IH]; intros s i; [reflexivity|]. simpl. rewrite IH. apply shadow_step.
  Qed.

  (* a_i = k_i dt^2 / (4 m_i) < 1 is the stability range of coordinate i *)
  Definition aa (i : nat) : R := k i * dt * dt / (4 * m i).

  Lemma ham_shadow s i : hm s i = sh s i + aa i * (/ 2 * k i * (qq s i - r0 i) * (qq s i - r0 i)).
  Proof. unfold hm, sh, ham1, shadow1, aa. field. pose proof (m_pos i). lra. Qed.

  Lemma pot_le_shadow s i : 0 <= k i -> aa i < 1 ->
    / 2 * k i * (qq s i - r0 i) * (qq s i - r0 i) <= sh s i / (1 - aa i).
  Proof.
    intros Hk Ha. set (x := qq s i - r0 i). set (U := / 2 * k i * x * x).
    assert (0 <= U) as HU by (unfold U; assert (0 <= x * x) by nra; nra).
    assert (sh s i = pp s i * pp s i / (2 * m i) + U * (1 - aa i)) as E.
    { unfold sh, shadow1, U, aa, x. field. pose proof (m_pos i). lra. }
    assert (0 <= pp s i * pp s i / (2 * m i)) as HK.
    { apply Rmult_le_pos; [nra|]. left. apply Rinv_0_lt_compat. pose proof (m_pos i). lra. }
    apply Rmult_le_reg_r with (r := 1 - aa i); [lra|].
    unfold Rdiv. rewrite Rmult_assoc, Rinv_l by lra. lra.
  Qed.

  (* total-energy error after ANY number of steps, per coordinate: at most a/(1-a) times the (conserved) shadow energy,
     i.e. quadratic in dt *)
  Theorem harmonic_energy_error n s i : 0 <= k i -> aa i < 1 ->
    Rabs (hm (integrate (harmonic k r0) m dt n s) i - hm s i) <= aa i / (1 - aa i) * sh s i.
  Proof.
    intros Hk Ha.
    assert (0 <= aa i) as Ha0.
    { unfold aa. apply Rmult_le_pos; [replace (k i * dt * dt) with (k i * (dt * dt)) by ring; apply Rmult_le_pos; [assumption|nra]|]. left. apply Rinv_0_lt_compat. pose proof (m_pos i). lra. }
    set (s' := integrate (harmonic k r0) m dt n s).
    rewrite (ham_shadow s' i), (ham_shadow s i). unfold s'. rewrite shadow_conserved. fold s'.
    pose proof (pot_le_shadow s i Hk Ha) as B0. pose proof (pot_le_shadow s' i Hk Ha) as B1.
    unfold s' in B1. rewrite shadow_conserved in B1. fold s' in B1.
    set (U0 := / 2 * k i * (qq s i - r0 i) * (qq s i - r0 i)) in *.
    set (U1 := / 2 * k i * (qq s' i - r0 i) * (qq s' i - r0 i)) in *.
    assert (forall x, 0 <= / 2 * k i * x * x) as Hsq.
    { intro x. replace (/ 2 * k i * x * x) with (/ 2 * (k i * (x * x))) by ring.
      apply Rmult_le_pos; [lra|]. apply Rmult_le_pos; [assumption|nra]. }
    assert (0 <= U0) by apply Hsq. assert (0 <= U1) by apply Hsq.
    replace (aa i / (1 - aa i) * sh s i) with (aa i * (sh s i / (1 - aa i))) by (field; lra).
    apply Rabs_le. split; nra.
  Qed.
End Harmonic.

(* ---------------- Maxwell-Boltzmann refresh *)
Lemma mb_variance m kT xi : 0 <= m * kT -> mb_p m kT xi * mb_p m kT xi = (xi * xi) * (m * kT).
Proof. intro H. unfold mb_p. replace (xi * sqrt (m * kT) * (xi * sqrt (m * kT))) with (xi * xi * (sqrt (m * kT) * sqrt (m * kT))) by ring.
  now rewrite sqrt_sqrt. Qed.
(* zero draw -> zero momentum, sign of the draw kept, scaling linear in the draw: a StdNormal draw (mean 0, variance 1)
   therefore yields mean 0 and variance m kT *)
Lemma mb_linear m kT a xi : mb_p m kT (a * xi) = a * mb_p m kT xi.
Proof. unfold mb_p. ring. Qed.
Lemma mb_kinetic m kT xi : 0 < m -> 0 <= kT -> mb_p m kT xi * mb_p m kT xi / (2 * m) = xi * xi * kT / 2.
Proof. intros Hm Hk. rewrite mb_variance by nra. field. lra. Qed.

Lemma forced_temperature_exact kT ke dof : 0 <= kT -> 0 < ke -> 0 < dof -> 2 * ke_after_forced kT ke dof / dof = kT.
Proof.
  intros Hk He Hd. unfold ke_after_forced, forced_scale.
  assert (0 < real_temp ke dof) as Hr by (unfold real_temp; apply Rmult_lt_0_compat; [lra|now apply Rinv_0_lt_compat]).
  destruct (Rlt_dec 0 (real_temp ke dof)) as [_|N]; [|contradiction].
  rewrite sqrt_sqrt by (apply Rmult_le_pos; [lra|left; now apply Rinv_0_lt_compat]).
  unfold real_temp in *. field. split; lra.
Qed.
(* nothing to rescale (every draw zero, or every atom constrained): the momenta are left alone - no division by zero *)
Lemma forced_scale_zero kT dof : forced_scale kT 0 dof = 1.
Proof.
  unfold forced_scale, real_temp. destruct (Rlt_dec 0 (2 * 0 / dof)) as [H|_]; [|reflexivity].
  exfalso. unfold Rdiv in H. rewrite Rmult_0_r, Rmult_0_l in H. lra.
Qed.

(* ---------------- the kinetic energy entering the acceptance test is that of the freshly drawn momenta *)
Section Fresh.
  Variable K : vec -> R.
  Variable refresh : nat -> phase -> phase.
  Variable integ : phase -> phase.
  Variable check : nat -> phase -> bool.

  (* on success at attempt j: positions/momenta are integ(refresh j (start)), recorded K is K of refresh j (start) *)
  Lemma hmove_fresh attempts : forall k s s' ,
    hmove K refresh integ check attempts k s = (s', true) ->
    exists j, (k <= j < k + attempts)%nat /\ check j (integ (refresh j (ph s))) = true /\
              ph s' = integ (refresh j (ph s)) /\ lastK s' = K (pp (refresh j (ph s))) /\
              forall i, (k <= i < j)%nat -> check i (integ (refresh i (ph s))) = false.
  Proof.
    induction attempts as [|a IH]; intros k s s' H; simpl in H; [inversion H|].
    destruct (check k (integ (refresh k (ph s)))) eqn:C.
    - inversion H; subst. exists k. simpl. repeat split; try lia; try assumption.
    - apply IH in H. simpl in H. destruct H as (j & Hj & Cj & P & L & A). exists j. repeat split; try lia; try assumption.
      intros i Hi. destruct (Nat.eq_dec i k) as [->|N]; [assumption|]. apply A. lia.
  Qed.
  (* on failure the configuration is the starting one *)
  Lemma hmove_fail attempts : forall k s s', hmove K refresh integ check attempts k s = (s', false) -> ph s' = ph s.
  Proof.
    induction attempts as [|a IH]; intros k s s' H; simpl in H; [inversion H; reflexivity|].
    destruct (check k (integ (refresh k (ph s)))); [inversion H|]. apply IH in H. exact H.
  Qed.
End Fresh.
