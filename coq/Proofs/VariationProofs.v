(* C18 — the forces variation coefficient std / mean|F| of a committee is scale-free: residual forces of 1e-9 eV/A with a relative spread count exactly
   like forces of 1 eV/A with the same relative spread. *)
From Coq Require Import Reals List Lra.
Import ListNotations.
Open Scope R_scope.

Definition lsum (l : list R) : R := fold_right Rplus 0 l.
Definition lmean (l : list R) : R := lsum l / INR (length l).
Definition lvar (l : list R) : R := lmean (map (fun x => (x - lmean l) * (x - lmean l)) l).      (* two-pass: deviations from the mean *)
Definition lstd (l : list R) : R := sqrt (lvar l).
Definition variation (l : list R) : R := lstd l / lmean (map Rabs l).

Lemma lsum_scale c l : lsum (map (fun x => c * x) l) = c * lsum l.
Proof. induction l as [|x l IH]; simpl; [ring|]. unfold lsum in *. simpl. rewrite IH. ring. Qed.
Lemma lmean_scale c l : lmean (map (fun x => c * x) l) = c * lmean l.
Proof. unfold lmean. rewrite lsum_scale, map_length. unfold Rdiv. ring. Qed.
Lemma lvar_scale c l : lvar (map (fun x => c * x) l) = c * c * lvar l.
Proof.
  unfold lvar. rewrite lmean_scale, map_map.
  rewrite (map_ext (fun x => (c * x - c * lmean l) * (c * x - c * lmean l)) (fun x => (c * c) * ((x - lmean l) * (x - lmean l)))) by (intro; ring).
  rewrite <- (map_map (fun x => (x - lmean l) * (x - lmean l)) (fun y => c * c * y)). apply lmean_scale.
Qed.
Lemma lsum_sq_nonneg m l : 0 <= lsum (map (fun x => (x - m) * (x - m)) l).
Proof. induction l as [|x l IH]; unfold lsum in *; cbn [map fold_right]; [lra|]. pose proof (Rle_0_sqr (x - m)) as Hs. unfold Rsqr in Hs. lra. Qed.
Lemma lvar_nonneg l : 0 <= lvar l.
Proof.
  unfold lvar. unfold lmean at 1. rewrite map_length. destruct l as [|a l]; [simpl; unfold Rdiv; rewrite Rmult_0_l; lra|].
  apply Rmult_le_pos; [apply lsum_sq_nonneg|]. left. apply Rinv_0_lt_compat, lt_0_INR. simpl. apply Nat.lt_0_succ.
Qed.
Lemma labs_scale c l : 0 <= c -> map Rabs (map (fun x => c * x) l) = map (fun x => c * x) (map Rabs l).
Proof. intro H. rewrite !map_map. apply map_ext. intro x. rewrite Rabs_mult, (Rabs_pos_eq c H). reflexivity. Qed.

Theorem variation_scale_free c l : 0 < c -> lmean (map Rabs l) <> 0 -> variation (map (fun x => c * x) l) = variation l.
Proof.
  intros Hc Hm. unfold variation, lstd. rewrite lvar_scale, labs_scale, lmean_scale by lra.
  rewrite sqrt_mult by (try apply lvar_nonneg; nra). rewrite sqrt_square by lra. field. split; [exact Hm|lra].
Qed.
(* identical committee members: zero variation (so delta = max_delta, C18_at_zero) *)
Theorem variation_zero_when_unanimous a n : variation (repeat a (S n)) = 0.
Proof.
  unfold variation, lstd.
  assert (forall k, lsum (repeat a k) = INR k * a) as S1.
  { induction k as [|k IH]; [simpl; ring|]. unfold lsum in *. cbn [repeat fold_right]. rewrite IH, S_INR. ring. }
  assert (lmean (repeat a (S n)) = a) as M.
  { unfold lmean. rewrite S1, repeat_length. field. apply not_0_INR. discriminate. }
  assert (lvar (repeat a (S n)) = 0) as V.
  { unfold lvar. rewrite M. assert (forall k, map (fun x => (x - a) * (x - a)) (repeat a k) = repeat 0 k) as R0.
    { induction k as [|k IH]; [reflexivity|]. cbn [repeat map]. rewrite IH. f_equal. ring. }
    rewrite R0. unfold lmean. assert (forall k, lsum (repeat 0 k) = 0) as Z by (induction k as [|k IH]; [reflexivity|]; unfold lsum in *; cbn [repeat fold_right]; rewrite IH; ring).
    rewrite Z. unfold Rdiv. ring. }
  rewrite V, sqrt_0. unfold Rdiv. ring.
Qed.

(* energies scheme: std / N — a common offset of the committee energies does not matter *)
Lemma lsum_shift c l : lsum (map (fun x => x + c) l) = lsum l + INR (length l) * c.
Proof. induction l as [|x l IH]; [simpl; ring|]. unfold lsum in *. cbn [map fold_right length]. rewrite IH, S_INR. ring. Qed.
Theorem lstd_shift_free c l : l <> [] -> lstd (map (fun x => x + c) l) = lstd l.
Proof.
  intro Hl. unfold lstd. f_equal. unfold lvar.
  assert (lmean (map (fun x => x + c) l) = lmean l + c) as M.
  { unfold lmean. rewrite lsum_shift, map_length. field. apply not_0_INR. destruct l; [congruence|discriminate]. }
  rewrite M, map_map. f_equal. apply map_ext. intro x. ring.
Qed.
Lemma lmean_abs_nonneg l : 0 <= lmean (map Rabs l).
Proof.
  unfold lmean. rewrite map_length. destruct l as [|a l]; [simpl; unfold Rdiv; rewrite Rmult_0_l; lra|].
  apply Rmult_le_pos; [|left; apply Rinv_0_lt_compat, lt_0_INR; simpl; apply Nat.lt_0_succ].
  generalize (a :: l). intro l0. induction l0 as [|x l0 IH]; unfold lsum in *; cbn [map fold_right]; [lra|]. pose proof (Rabs_pos x). lra.
Qed.
(* the argument handed to the update function is never negative: the hypothesis 0 <= v of C18_range is met *)
Theorem variation_nonneg l : lmean (map Rabs l) <> 0 -> 0 <= variation l.
Proof.
  intro H. unfold variation. apply Rmult_le_pos; [apply sqrt_pos|]. left. apply Rinv_0_lt_compat. pose proof (lmean_abs_nonneg l). lra.
Qed.
