From QV Require Import Model.ForceBias Proofs.ForceBiasProofs.
From Coq Require Import Lra Lia.
From Coquelicot Require Import Coquelicot.
Open Scope R_scope.

Lemma exp_sum_ge_2 t : 2 <= exp t + exp (- t).
Proof. pose proof (exp_ineq1_le t). pose proof (exp_ineq1_le (- t)). lra. Qed.

Lemma exp_inv_prod t : exp t * exp (- t) = 1.
Proof. rewrite <- exp_plus. replace (t + - t) with 0 by ring. apply exp_0. Qed.

(* 4 [cosh(a g) cosh g - a sinh(a g) sinh g - 1] >= 0 *)
Lemma bias_num_nonneg a g : 0 <= g -> -1 <= a <= 1 ->
  4 <= (exp (a * g) + exp (- (a * g))) * (exp g + exp (- g)) - a * ((exp (a * g) - exp (- (a * g))) * (exp g - exp (- g))).
Proof.
  intros Hg Ha.
  set (X := exp (a * g)). set (Xi := exp (- (a * g))). set (Y := exp g). set (Yi := exp (- g)).
  assert (X * Xi = 1) as HX by apply exp_inv_prod. assert (Y * Yi = 1) as HY by apply exp_inv_prod.
  assert (0 < X) by apply exp_pos. assert (0 < Xi) by apply exp_pos. assert (0 < Y) by apply exp_pos. assert (0 < Yi) by apply exp_pos.
  assert (Yi <= Y) as HYY by (apply exp_le; lra).
  destruct (Rle_dec 0 a) as [P0|N0].
  - assert (Xi <= X) as HXX by (apply exp_le; nra).
    assert (2 <= X * Yi + Xi * Y) as Hsum.
    { unfold X, Xi, Y, Yi. rewrite <- !exp_plus. replace (- (a * g) + g) with (- (a * g + - g)) by ring. apply exp_sum_ge_2. }
    assert (a * ((X - Xi) * (Y - Yi)) <= (X - Xi) * (Y - Yi)) by (assert (0 <= (X - Xi) * (Y - Yi)) by (apply Rmult_le_pos; lra); nra).
    nra.
  - assert (X <= Xi) as HXX by (apply exp_le; nra).
    assert (2 <= X * Y + Xi * Yi) as Hsum.
    { unfold X, Xi, Y, Yi. rewrite <- !exp_plus. replace (- (a * g) + - g) with (- (a * g + g)) by ring. apply exp_sum_ge_2. }
    assert (a * ((X - Xi) * (Y - Yi)) <= (Xi - X) * (Y - Yi)).
    { assert (0 <= (Xi - X) * (Y - Yi)) by (apply Rmult_le_pos; lra). replace (a * ((X - Xi) * (Y - Yi))) with ((- a) * ((Xi - X) * (Y - Yi))) by ring. nra. }
    nra.
Qed.

(* the excess probability of a move of size z ALONG the force over the same move AGAINST it *)
Definition bias (z g : R) : R := P z g - P (- z) g.
Definition biasf (a g : R) : R := (exp g + exp (- g) - exp (a * g) - exp (- (a * g))) / (exp g - exp (- g)).

Lemma bias_closed z g : 0 < g -> 0 < z -> bias z g = biasf (2 * z - 1) g.
Proof.
  intros Hg Hz. unfold bias, biasf. rewrite P_plus, P_minus by lra. unfold den.
  replace (g * (2 * - z + 1)) with (- ((2 * z - 1) * g)) by ring. replace (g * (2 * z - 1)) with ((2 * z - 1) * g) by ring.
  pose proof (den_pos g Hg) as D. unfold den in D. field. lra.
Qed.

Lemma biasf_mono a g1 g2 : -1 <= a <= 1 -> 0 < g1 <= g2 -> biasf a g1 <= biasf a g2.
Proof.
  intros Ha [H1 H12]. destruct (Req_dec g1 g2) as [->|Hne]; [lra|]. assert (g1 < g2) as Hlt by lra.
  set (df := fun g => (((exp (a * g) + exp (- (a * g))) * (exp g + exp (- g)) - a * ((exp (a * g) - exp (- (a * g))) * (exp g - exp (- g)))) - 4) / (exp g - exp (- g)) ^ 2).
  destruct (MVT_gen (biasf a) g1 g2 df) as [c [Hc Heq]].
  - intros x Hx. rewrite Rmin_left, Rmax_right in Hx by lra. assert (0 < x) as X0 by lra. pose proof (den_pos x X0) as D. unfold den in D.
    unfold biasf, df. auto_derive; [lra|]. pose proof (exp_inv_prod x) as E1.
    replace 4 with (4 * (exp x * exp (- x))) by (rewrite E1; ring). field. lra.
  - intros x Hx. rewrite Rmin_left, Rmax_right in Hx by lra. assert (0 < x) as X0 by lra. pose proof (den_pos x X0) as D. unfold den in D.
    apply continuity_pt_filterlim. apply (ex_derive_continuous (biasf a) x). unfold biasf. auto_derive. lra.
  - rewrite Rmin_left, Rmax_right in Hc by lra. assert (0 < c) as C0 by lra. pose proof (den_pos c C0) as D. unfold den in D.
    assert (0 <= df c).
    { unfold df. apply Rmult_le_pos; [pose proof (bias_num_nonneg a c ltac:(lra) Ha); lra|]. left. apply Rinv_0_lt_compat. apply pow_lt. lra. }
    assert (0 <= df c * (g2 - g1)) by (apply Rmult_le_pos; lra). lra.
Qed.

(* "displacement along the force is favoured, INCREASINGLY with |F| delta / 2kT" *)
Theorem bias_increasing z g1 g2 : 0 < z <= 1 -> 0 < g1 <= g2 -> bias z g1 <= bias z g2.
Proof. intros Hz Hg. rewrite !bias_closed by lra. apply biasf_mono; lra. Qed.
(* for forces pointing the other way: P(z, -g) = P(-z, g) *)
Lemma P_flip z g : P (- z) (- g) = P z g.
Proof.
  destruct (Req_dec g 0) as [->|Hg]; [rewrite Ropp_0, !P_at_zero_force; reflexivity|].
  assert (exp g - exp (- g) <> 0) as Hd by (intro E; apply Hg, den_zero_iff; exact E).
  destruct (Rtotal_order z 0) as [Hz|[->|Hz]].
  - rewrite (P_plus (- z) (- g)) by lra. rewrite (P_minus z g) by lra. unfold den. rewrite Ropp_involutive.
    replace (- g * (2 * - z - 1)) with (g * (2 * z + 1)) by ring. field. lra.
  - rewrite Ropp_0. rewrite !P_zero_zeta by lra. reflexivity.
  - rewrite (P_minus (- z) (- g)) by lra. rewrite (P_plus z g) by lra. unfold den. rewrite Ropp_involutive.
    replace (- g * (2 * - z + 1)) with (g * (2 * z - 1)) by ring. field. lra.
Qed.
Theorem bias_increasing_neg z g1 g2 : 0 < z <= 1 -> 0 < g1 <= g2 -> P (- z) (- g1) - P z (- g1) <= P (- z) (- g2) - P z (- g2).
Proof.
  intros Hz Hg. rewrite !P_flip. replace z with (- - z) at 2 4 by ring. rewrite !P_flip. apply (bias_increasing z g1 g2 Hz Hg).
Qed.
(* weak force: the bias vanishes (the uniform limit), strong force: moves against the force die out *)
Lemma bias_nonneg z g : 0 < g -> 0 < z <= 1 -> 0 <= bias z g.
Proof. intros. unfold bias. pose proof (favours_force_pos z g). lra. Qed.

