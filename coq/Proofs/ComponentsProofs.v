(* C19 — the connected-components algorithm of Model/Atoms.v computes exactly the classes of the equivalence closure of the pair list,
   and, composed with the label glue, gives the second sentence of the property over an arbitrary pair list. *)
From QV Require Import Model.Atoms Proofs.AtomsProofs.
From Coq Require Import List Arith Lia Bool ZArith.
Import ListNotations.
Close Scope Z_scope.

Lemma conn_mono E E' i j : (forall e, In e E -> In e E') -> conn E i j -> conn E' i j.
Proof. intros H C. induction C as [i|u v Huv|i j _ IH|i k j _ IH1 _ IH2]; [apply c_refl|apply c_edge, H, Huv|apply c_sym, IH|eapply c_trans; eassumption]. Qed.

Lemma conn_add_fwd E u v i j : conn ((u, v) :: E) i j -> conn E i j \/ (conn E i u /\ conn E v j) \/ (conn E i v /\ conn E u j).
Proof.
  intro C. induction C as [i|a b Hab|i j _ IH|i k j _ IH1 _ IH2].
  - left. apply c_refl.
  - destruct Hab as [Heq|Hin]; [inversion Heq; subst; right; left; split; apply c_refl|left; apply c_edge, Hin].
  - destruct IH as [H|[[H1 H2]|[H1 H2]]]; [left; apply c_sym, H| right; right; split; apply c_sym; assumption | right; left; split; apply c_sym; assumption].
  - assert (S := c_sym E). assert (T := c_trans E).
    destruct IH1 as [H|[[H1 H2]|[H1 H2]]]; destruct IH2 as [K|[[K1 K2]|[K1 K2]]].
    + left. exact (T _ _ _ H K).
    + right; left; split; [exact (T _ _ _ H K1)|exact K2].
    + right; right; split; [exact (T _ _ _ H K1)|exact K2].
    + right; left; split; [exact H1|exact (T _ _ _ H2 K)].
    + left. apply (T _ _ _ H1). apply (T _ _ _ (S _ _ K1)). apply (T _ _ _ (S _ _ H2)). exact K2.
    + left. exact (T _ _ _ H1 K2).
    + right; right; split; [exact H1|exact (T _ _ _ H2 K)].
    + left. exact (T _ _ _ H1 K2).
    + left. apply (T _ _ _ H1). apply (T _ _ _ (S _ _ K1)). apply (T _ _ _ (S _ _ H2)). exact K2.
Qed.

Lemma conn_add E u v i j : conn ((u, v) :: E) i j <-> conn E i j \/ (conn E i u /\ conn E v j) \/ (conn E i v /\ conn E u j).
Proof.
  split; [apply conn_add_fwd|].
  assert (M : forall a b, conn E a b -> conn ((u, v) :: E) a b) by (intros a b; apply conn_mono; intros e He; right; exact He).
  assert (Euv : conn ((u, v) :: E) u v) by (apply c_edge; left; reflexivity).
  intros [H|[[H1 H2]|[H1 H2]]].
  - apply M, H.
  - apply (c_trans _ _ _ _ (M _ _ H1)). apply (c_trans _ _ _ _ Euv). apply M, H2.
  - apply (c_trans _ _ _ _ (M _ _ H1)). apply (c_trans _ _ _ _ (c_sym _ _ _ Euv)). apply M, H2.
Qed.

(* ---------- the invariant of the merging loop ---------- *)
Definition Inv (n : nat) (E : list (nat * nat)) (lab : list nat) : Prop :=
  length lab = n /\ forall i j, i < n -> j < n -> (nth i lab 0 = nth j lab 0 <-> conn E i j).

Lemma nth_relabel a b lab i : i < length lab -> nth i (relabel a b lab) 0 = if nth i lab 0 =? b then a else nth i lab 0.
Proof.
  intro H. unfold relabel. rewrite (nth_indep _ 0 ((fun x => if x =? b then a else x) 0)) by (rewrite map_length; exact H).
  apply (map_nth (fun x => if x =? b then a else x)).
Qed.

Lemma conn_nil i j : conn [] i j -> i = j.
Proof. intro C. induction C as [i|a b Hab|i j _ IH|i k j _ IH1 _ IH2]; [reflexivity|destruct Hab|symmetry; exact IH|congruence]. Qed.
Lemma conn_lt_init n i j : i < n -> j < n -> (nth i (seq 0 n) 0 = nth j (seq 0 n) 0 <-> conn [] i j).
Proof. intros Hi Hj. rewrite !seq_nth by assumption. simpl. split; [intros ->; apply c_refl|apply conn_nil]. Qed.

Lemma Inv_init n : Inv n [] (seq 0 n).
Proof. split; [apply seq_length|]. intros i j Hi Hj. apply conn_lt_init; assumption. Qed.

Lemma Inv_step n E lab u v : Inv n E lab -> u < n -> v < n -> Inv n ((u, v) :: E) (merge lab (u, v)).
Proof.
  intros [L I] Hu Hv. split; [unfold merge, relabel; rewrite map_length; exact L|].
  intros i j Hi Hj. unfold merge. cbn [fst snd]. rewrite !nth_relabel by (rewrite L; assumption).
  rewrite conn_add. rewrite <- (I i j Hi Hj), <- (I i u Hi Hu), <- (I v j Hv Hj), <- (I i v Hi Hv), <- (I u j Hu Hj).
  set (a := nth u lab 0). set (b := nth v lab 0). set (x := nth i lab 0). set (y := nth j lab 0).
  destruct (x =? b) eqn:Exb; destruct (y =? b) eqn:Eyb; rewrite ?Nat.eqb_eq, ?Nat.eqb_neq in *; split; intro H; lia.
Qed.

Lemma Inv_fold n edges : forall E lab, Inv n E lab -> bounded n edges -> Inv n (rev edges ++ E) (fold_left merge edges lab).
Proof.
  induction edges as [|[u v] edges IH]; intros E lab HI B; [exact HI|].
  cbn [fold_left rev]. rewrite <- app_assoc. cbn [app]. apply IH.
  - destruct (B u v (or_introl eq_refl)) as [Hu Hv]. apply Inv_step; assumption.
  - intros a b Hab. apply B. right. exact Hab.
Qed.

Theorem comp_labels_spec n edges : bounded n edges ->
  length (comp_labels n edges) = n /\
  forall i j, i < n -> j < n -> (nth i (comp_labels n edges) 0 = nth j (comp_labels n edges) 0 <-> conn edges i j).
Proof.
  intro B. destruct (Inv_fold n edges [] (seq 0 n) (Inv_init n) B) as [L I]. split; [exact L|].
  intros i j Hi Hj. rewrite (I i j Hi Hj). rewrite app_nil_r.
  split; apply conn_mono; intros e He; [apply in_rev in He; exact He|apply in_rev; rewrite rev_involutive; exact He].
Qed.

Lemma in_comp_of n lab i j : In j (comp_of n lab i) <-> j < n /\ nth j lab 0 = nth i lab 0.
Proof. unfold comp_of. rewrite filter_In, in_seq, Nat.eqb_eq. intuition lia. Qed.

Lemma is_rep_spec lab i : is_rep lab i = true <-> forall j, j < i -> nth j lab 0 <> nth i lab 0.
Proof.
  unfold is_rep. rewrite forallb_forall. split; intros H j Hj.
  - assert (In j (seq 0 i)) as Hin by (apply in_seq; lia). specialize (H j Hin). apply negb_true_iff, Nat.eqb_neq in H. exact H.
  - apply in_seq in Hj. apply negb_true_iff, Nat.eqb_neq. apply H. lia.
Qed.

Lemma forallb_false {A} (f : A -> bool) l : forallb f l = false -> exists x, In x l /\ f x = false.
Proof.
  induction l as [|x l IH]; simpl; [discriminate|]. destruct (f x) eqn:E; simpl.
  - intro H. destruct (IH H) as [y [Hy Fy]]. exists y. split; [right; exact Hy|exact Fy].
  - intros _. exists x. split; [left; reflexivity|exact E].
Qed.

Lemma has_rep lab : forall i, exists r, r <= i /\ nth r lab 0 = nth i lab 0 /\ is_rep lab r = true.
Proof.
  intro i. induction i as [i IH] using lt_wf_ind. destruct (is_rep lab i) eqn:E.
  - exists i. split; [lia|split; [reflexivity|exact E]].
  - unfold is_rep in E. apply forallb_false in E. destruct E as [j [Hj Fj]]. apply in_seq in Hj.
    apply negb_false_iff, Nat.eqb_eq in Fj. destruct (IH j ltac:(lia)) as [r [Hr [Lr Rr]]].
    exists r. split; [lia|split; [congruence|exact Rr]].
Qed.

Lemma in_reps n lab r : In r (reps n lab) <-> r < n /\ is_rep lab r = true.
Proof. unfold reps. rewrite filter_In, in_seq. intuition lia. Qed.

Lemma rep_unique lab r1 r2 : is_rep lab r1 = true -> is_rep lab r2 = true -> nth r1 lab 0 = nth r2 lab 0 -> r1 = r2.
Proof.
  intros H1 H2 E. rewrite is_rep_spec in H1, H2. destruct (Nat.lt_trichotomy r1 r2) as [L|[L|L]]; [|exact L|].
  - exfalso. exact (H2 r1 L E).
  - exfalso. apply (H1 r2 L). symmetry. exact E.
Qed.

Lemma reps_NoDup n lab : NoDup (reps n lab).
Proof. unfold reps. apply NoDup_filter, seq_NoDup. Qed.

Lemma group_length n lab : length (group n lab) = length (reps n lab).
Proof. unfold group. apply map_length. Qed.

Lemma nth_group n lab a : a < length (reps n lab) -> nth a (group n lab) [] = comp_of n lab (nth a (reps n lab) 0).
Proof.
  intro H. unfold group. rewrite (nth_indep _ [] (comp_of n lab 0)) by (rewrite map_length; exact H). apply map_nth.
Qed.

Lemma group_disjoint n lab : disjoint_comps (group n lab).
Proof.
  intros a b i Ha Hb La Lb. rewrite group_length in La, Lb. rewrite nth_group in Ha, Hb by assumption.
  apply in_comp_of in Ha, Hb. destruct Ha as [_ Ha], Hb as [_ Hb].
  assert (In (nth a (reps n lab) 0) (reps n lab)) as Ia by (apply nth_In; exact La).
  assert (In (nth b (reps n lab) 0) (reps n lab)) as Ib by (apply nth_In; exact Lb).
  apply in_reps in Ia, Ib. destruct Ia as [_ Ra], Ib as [_ Rb].
  assert (nth a (reps n lab) 0 = nth b (reps n lab) 0) as E by (apply (rep_unique lab); [exact Ra|exact Rb|congruence]).
  apply (proj1 (NoDup_nth (reps n lab) 0) (reps_NoDup n lab) a b La Lb E).
Qed.

Lemma group_covers n lab i : i < n -> exists a, a < length (group n lab) /\ In i (nth a (group n lab) []) /\ nth a (group n lab) [] = comp_of n lab i.
Proof.
  intro Hi. destruct (has_rep lab i) as [r [Hr [Lr Rr]]].
  assert (In r (reps n lab)) as Ir by (apply in_reps; split; [lia|exact Rr]).
  destruct (In_nth _ _ 0 Ir) as [a [La Ea]]. exists a. rewrite group_length. split; [exact La|].
  rewrite nth_group by exact La. rewrite Ea. split.
  - apply in_comp_of. split; [exact Hi|symmetry; exact Lr].
  - unfold comp_of. apply filter_ext. intro j. rewrite Lr. reflexivity.
Qed.

(* ---------- the components of the merging algorithm are the classes of the connectivity relation ---------- *)
Theorem components_spec n edges : bounded n edges ->
  disjoint_comps (components n edges)
  /\ (forall i, i < n -> exists a, a < length (components n edges) /\ In i (nth a (components n edges) []))
  /\ (forall a i j, a < length (components n edges) -> In i (nth a (components n edges) []) ->
        (In j (nth a (components n edges) []) <-> j < n /\ conn edges i j)).
Proof.
  intro B. destruct (comp_labels_spec n edges B) as [L I]. unfold components. set (lab := comp_labels n edges) in *.
  split; [apply group_disjoint|]. split.
  - intros i Hi. destruct (group_covers n lab i Hi) as [a [La [Ia _]]]. exists a. split; assumption.
  - intros a i j La Ia. rewrite group_length in La. rewrite nth_group in * by exact La.
    set (r := nth a (reps n lab) 0) in *. apply in_comp_of in Ia. destruct Ia as [Hi Ei].
    assert (r < n) as Hr by (assert (In r (reps n lab)) as Ir by (apply nth_In; exact La); apply in_reps in Ir; tauto).
    rewrite in_comp_of. split.
    + intros [Hj Ej]. split; [exact Hj|]. apply I; [exact Hi|exact Hj|congruence].
    + intros [Hj C]. split; [exact Hj|]. apply I in C; [congruence|exact Hi|exact Hj].
Qed.

(* ---------- composed with the label glue: the statement of C19's second sentence over the pair list ---------- *)
Open Scope Z_scope.
Theorem molecules_connected default lo hi edges i j :
  let n := length default in let lab := comp_labels n edges in let out := labels default lo hi (components n edges) in
  bounded n edges -> (i < n)%nat -> (j < n)%nat ->
  admitted_size lo hi (comp_of n lab i) = true -> admitted_size lo hi (comp_of n lab j) = true ->
  (nth i out (-1) = nth j out (-1) <-> conn edges i j) /\ 0 <= nth i out (-1).
Proof.
  intros n lab out B Hi Hj Ai Aj. destruct (comp_labels_spec n edges B) as [L I].
  destruct (group_covers n lab i Hi) as [a [La [Ia Ea]]]. destruct (group_covers n lab j Hj) as [b [Lb [Ib Eb]]].
  change (components n edges) with (group n lab) in *.
  destruct (labels_same_iff_l default lo hi (group n lab) i j a b (group_disjoint n lab) Hi Hj La Lb Ia Ib) as [S P];
    [rewrite Ea; exact Ai|rewrite Eb; exact Aj|].
  change (labels default lo hi (group n lab)) with out in S, P. split; [|exact P]. rewrite S. split.
  - intros ->. rewrite Ea in Ia. rewrite Ea in Ib. apply in_comp_of in Ib. apply I; [exact Hi|exact Hj|]. symmetry. tauto.
  - intro C. apply I in C; [|exact Hi|exact Hj]. apply (group_disjoint n lab a b j); [|exact Ib|exact La|exact Lb].
    rewrite Ea. apply in_comp_of. split; [exact Hj|symmetry; exact C].
Qed.
Theorem molecules_default_kept default lo hi edges i :
  let n := length default in let lab := comp_labels n edges in
  bounded n edges -> (i < n)%nat -> admitted_size lo hi (comp_of n lab i) = false ->
  nth i (labels default lo hi (components n edges)) (-1) = nth i default (-1).
Proof.
  intros n lab B Hi Ai. apply labels_default_l; [exact Hi|]. intros c Hc Ic.
  destruct (In_nth _ _ [] Hc) as [a [La Ea]]. destruct (group_covers n lab i Hi) as [b [Lb [Ib Eb]]].
  change (components n edges) with (group n lab) in *. subst c.
  assert (a = b) as -> by (apply (group_disjoint n lab a b i); assumption). rewrite Eb. exact Ai.
Qed.
