From QV Require Import Model.Context Proofs.AtomsProofs.
From Coq Require Import Lia.

Section CP.
  Variables P O : Type.
  Variable dP : P. Variable dO : O.
  Notation row := (P * O)%type.
  Notation drow := (dP, dO).
  Notation cstate := (cstate P O).

  Lemma set_pos_self (rs : list row) : set_pos (map fst rs) rs = rs.
  Proof. unfold set_pos. induction rs as [|[p o] rs IH]; simpl; [reflexivity|]. now rewrite IH. Qed.
  Lemma set_pos_others (ps : list P) (rs : list row) : length ps = length rs -> map snd (set_pos ps rs) = map snd rs.
  Proof. unfold set_pos. revert rs. induction ps as [|p ps IH]; intros [|r rs] L; simpl in *; try discriminate; [reflexivity|]. f_equal. apply IH. lia. Qed.
  Lemma set_pos_pos (ps : list P) (rs : list row) : length ps = length rs -> map fst (set_pos ps rs) = ps.
  Proof. unfold set_pos. revert rs. induction ps as [|p ps IH]; intros [|r rs] L; simpl in *; try discriminate; [reflexivity|]. f_equal. apply IH. lia. Qed.
  Lemma set_pos_length (ps : list P) (rs : list row) : length ps = length rs -> length (set_pos ps rs) = length rs.
  Proof. intro L. unfold set_pos. rewrite map_length, combine_length, L. apply Nat.min_id. Qed.
  (* two row lists with the same "everything else" become equal once the saved positions are written back *)
  Lemma set_pos_ext (ps : list P) (r1 r2 : list row) : map snd r1 = map snd r2 -> set_pos ps r1 = set_pos ps r2.
  Proof.
    unfold set_pos. revert r1 r2. induction ps as [|p ps IH]; intros [|a r1] [|b r2] H; simpl in *; try discriminate; try reflexivity.
    inversion H as [[H1 H2]]. rewrite H1. f_equal. now apply IH.
  Qed.

  (* ---- deletion of index ranges *)
  Lemma mem_seq k a n : mem k (seq a n) = ((a <=? k) && (k <? a + n))%nat.
  Proof.
    revert a. induction n as [|n IH]; intro a.
    - simpl. apply Bool.eq_true_iff_eq. rewrite andb_true_iff, Nat.leb_le, Nat.ltb_lt. split; [discriminate|lia].
    - cbn [seq]. unfold mem in *. cbn [existsb]. rewrite IH. apply Bool.eq_true_iff_eq.
      rewrite orb_true_iff, !andb_true_iff, Nat.eqb_eq, !Nat.leb_le, !Nat.ltb_lt. lia.
  Qed.
  Lemma delete_from_app (l1 l2 : list row) I : forall k, delete_from k (l1 ++ l2) I = delete_from k l1 I ++ delete_from (k + length l1) l2 I.
  Proof.
    induction l1 as [|x t IH]; intro k; simpl; [now rewrite Nat.add_0_r|].
    rewrite IH. replace (S k + length t)%nat with (k + S (length t))%nat by lia. destruct (mem k I); reflexivity.
  Qed.
  Lemma delete_from_none (l : list row) I : forall k, (forall j, (k <= j < k + length l)%nat -> mem j I = false) -> delete_from k l I = l.
  Proof.
    induction l as [|x t IH]; intros k H; simpl; [reflexivity|]. rewrite (H k) by (simpl; lia). f_equal. apply IH. intros j Hj. apply H. simpl. lia.
  Qed.
  Lemma delete_from_all (l : list row) I : forall k, (forall j, (k <= j < k + length l)%nat -> mem j I = true) -> delete_from k l I = [].
  Proof.
    induction l as [|x t IH]; intros k H; simpl; [reflexivity|]. rewrite (H k) by (simpl; lia). apply IH. intros j Hj. apply H. simpl. lia.
  Qed.
  (* appended rows are removed again by deleting their indices *)
  Lemma delete_appended (L new : list row) : delete (L ++ new) (seq (length L) (length new)) = L.
  Proof.
    unfold delete. rewrite delete_from_app.
    rewrite (delete_from_none L) by (intros j Hj; rewrite mem_seq; apply andb_false_iff; left; apply Nat.leb_gt; lia).
    rewrite (delete_from_all new) by (intros j Hj; rewrite mem_seq; apply andb_true_iff; split; [apply Nat.leb_le|apply Nat.ltb_lt]; lia).
    apply app_nil_r.
  Qed.
  (* several insertions in one trial (composite exchange): all appended blocks are removed together *)
  Lemma delete_appended_blocks (L : list row) (blocks : list (list row)) :
    delete (fold_left (fun acc b => acc ++ b) blocks L)
           (snd (fold_left (fun st b => (fst st + length b, snd st ++ seq (fst st) (length b))%nat) blocks (length L, []))) = L.
  Proof.
    assert (forall blocks acc idx, (forall j, mem j idx = true <-> (length L <= j < length (L ++ acc))%nat) ->
              forall j, mem j (snd (fold_left (fun st b => (fst st + length b, snd st ++ seq (fst st) (length b))%nat) blocks (length (L ++ acc), idx))) = true
                        <-> (length L <= j < length (fold_left (fun a b => a ++ b) blocks (L ++ acc)))%nat) as G.
    { induction blocks0 as [|b bs IH]; intros acc idx H j; simpl; [apply H|].
      replace (length (L ++ acc) + length b)%nat with (length (L ++ (acc ++ b))) by (rewrite !app_length; lia).
      rewrite <- app_assoc. apply IH. intro i. unfold mem. rewrite existsb_app. fold (mem i idx). fold (mem i (seq (length (L ++ acc)) (length b))).
      rewrite orb_true_iff, H, mem_seq, andb_true_iff, Nat.leb_le, Nat.ltb_lt, !app_length. lia. }
    specialize (G blocks [] []). rewrite app_nil_r in G.
    assert (forall j, mem j [] = true <-> (length L <= j < length L)%nat) as H0 by (intro j; simpl; split; [discriminate|lia]).
    specialize (G H0).
    set (I := snd (fold_left (fun st b => (fst st + length b, snd st ++ seq (fst st) (length b))%nat) blocks (length L, []))) in *.
    assert (exists tail, fold_left (fun acc b => acc ++ b) blocks L = L ++ tail) as [tail E].
    { clear. revert L. induction blocks as [|b bs IH]; intro L; simpl; [exists []; now rewrite app_nil_r|].
      destruct (IH (L ++ b)) as [t E]. exists (b ++ t). now rewrite E, app_assoc. }
    rewrite E in *. unfold delete. rewrite delete_from_app.
    rewrite (delete_from_none L) by (intros j Hj; destruct (mem j I) eqn:M; [apply G in M; lia|reflexivity]).
    rewrite (delete_from_all tail) by (intros j Hj; apply G; rewrite app_length; lia).
    apply app_nil_r.
  Qed.

  Lemma idx_fold (bs : list (list row)) : forall pre n0,
    snd (fold_left (fun st b => (fst st + length b, snd st ++ seq (fst st) (length b))%nat) bs (n0, pre)) =
    pre ++ snd (fold_left (fun st b => (fst st + length b, snd st ++ seq (fst st) (length b))%nat) bs (n0, [])).
  Proof.
    induction bs as [|c cs IH]; intros pre n0; simpl; [now rewrite app_nil_r|].
    rewrite (IH (pre ++ seq n0 (length c))), (IH (seq n0 (length c))). now rewrite app_assoc.
  Qed.

  Lemma delete_nil (l : list row) : delete l [] = l.
  Proof. unfold delete. apply delete_from_none. reflexivity. Qed.
  Lemma guarded_delete (l : list row) I : match I with [] => l | _ => delete l I end = delete l I.
  Proof. destruct I; [now rewrite delete_nil|reflexivity]. Qed.

  (* ---- C03: a rejected trial is undone exactly *)
  Definition others (s : cstate) : list O := map snd (rows s).

  Lemma revert_sync (t : cstate) : last_pos t = map fst (rows (revert dP dO t)) -> Sync (revert dP dO t).
  Proof. intro H. unfold Sync. split; [exact H|]. unfold revert. cbn. auto. Qed.

  (* (a) displacement-type trials (any number of moves, any new positions): rows come back bit for bit *)
  Lemma move_only acts (s : cstate) : Forall (fun a => exists f, a = Move f /\ forall rs, length (f rs) = length rs) acts ->
    let t := apply_trial dP dO acts s in
    map snd (rows t) = map snd (rows s) /\ length (rows t) = length (rows s) /\ added t = added s /\ deleted t = deleted s /\
    deleted_rows t = deleted_rows s /\ last_pos t = last_pos s /\ pdelta t = pdelta s /\ nexch t = nexch s.
  Proof.
    revert s. induction acts as [|a acts IH]; intros s F; simpl; [repeat split; reflexivity|].
    inversion F as [|? ? [f [-> Hf]] F']; subst. specialize (IH (apply_act dP dO s (Move f)) F'). simpl in IH.
    destruct IH as (A & B & C & D & E & G & H & I). unfold apply_trial in *. simpl.
    repeat split; try assumption.
    - rewrite A. apply set_pos_others. apply Hf.
    - rewrite B. apply set_pos_length. apply Hf.
  Qed.
  Theorem reject_restores_moves acts (s : cstate) : Sync s ->
    Forall (fun a => exists f, a = Move f /\ forall rs, length (f rs) = length rs) acts ->
    rows (revert dP dO (apply_trial dP dO acts s)) = rows s /\ Sync (revert dP dO (apply_trial dP dO acts s)).
  Proof.
    intros (L & A & D & R & Pd) F. destruct (move_only acts s F) as (Ho & Hl & Ha & Hd & Hr & Hp & _ & _).
    assert (rows (revert dP dO (apply_trial dP dO acts s)) = rows s) as E.
    { unfold revert, revert_rows. cbn [rows]. rewrite Ha, Hd, A, D, Hp, L.
      rewrite (set_pos_ext (map fst (rows s)) (rows (apply_trial dP dO acts s)) (rows s) Ho). apply set_pos_self. }
    split; [exact E|]. unfold Sync. rewrite E. unfold revert. cbn. rewrite Hp. auto.
  Qed.

  (* (b) insertion trials: displacements and any number of insertions (ExchangeMove, CompositeExchangeMove, e * n) *)
  Theorem reject_restores_insertions (s : cstate) (news : list (list row)) : Sync s ->
    let t := apply_trial dP dO (map Insert news) s in
    rows (revert dP dO t) = rows s /\ Sync (revert dP dO t) /\ nexch (revert dP dO t) = nexch s.
  Proof.
    intros (L & A & D & R & Pd) t.
    assert (forall news (s0 : cstate), let t0 := apply_trial dP dO (map Insert news) s0 in
              rows t0 = fold_left (fun acc b => acc ++ b) news (rows s0) /\
              added t0 = added s0 ++ snd (fold_left (fun st b => (fst st + length b, snd st ++ seq (fst st) (length b))%nat) news (length (rows s0), [])) /\
              deleted t0 = deleted s0 /\ deleted_rows t0 = deleted_rows s0 /\ last_pos t0 = last_pos s0 /\ nexch t0 = nexch s0) as G.
    { induction news0 as [|b bs IH]; intros s0; simpl; [rewrite app_nil_r; repeat split; reflexivity|].
      specialize (IH (apply_act dP dO s0 (Insert b))). simpl in IH. destruct IH as (A1 & A2 & A3 & A4 & A5 & A6).
      unfold apply_trial in *. simpl. repeat split; try assumption. rewrite A2, app_length, <- app_assoc. f_equal.
      symmetry. apply idx_fold. }
    destruct (G news s) as (Hr & Ha & Hd & Hdr & Hp & Hn). fold t in Hr, Ha, Hd, Hdr, Hp, Hn.
    assert (rows (revert dP dO t) = rows s) as E.
    { unfold revert, revert_rows. cbn [rows]. rewrite Hd, D, Hp, L, guarded_delete, Ha, A. cbn [app].
      rewrite Hr, delete_appended_blocks. apply set_pos_self. }
    split; [exact E|]. split; [|unfold revert; cbn; exact Hn]. unfold Sync. rewrite E. unfold revert. cbn. rewrite Hp. auto.
  Qed.

  (* (c) one deletion batch in one index frame (ExchangeMove deletion; CompositeExchangeMove collects all its deletions first) *)
  Theorem reject_restores_deletion (s : cstate) I dp : Sync s -> NoDup I -> (forall i, In i I -> (i < length (rows s))%nat) ->
    let t := apply_trial dP dO [Delete I dp] s in
    rows (revert dP dO t) = rows s /\ Sync (revert dP dO t) /\ nexch (revert dP dO t) = nexch s.
  Proof.
    intros (L & A & D & R & Pd) ND Rg t. unfold t, apply_trial. simpl.
    assert (rows (revert dP dO (apply_act dP dO s (Delete I dp))) = rows s) as E.
    { unfold revert, revert_rows. cbn [rows apply_act added deleted deleted_rows last_pos]. rewrite A, D, R, L. cbn [app].
      destruct I as [|i I'].
      - rewrite delete_nil. apply set_pos_self.
      - cbn [app].
        assert (reinsert (Context.drow P O dP dO) (delete (rows s) (i :: I')) (select (Context.drow P O dP dO) (rows s) (i :: I')) (i :: I') = rows s) as Q
          by exact (reinsert_delete_l _ _ (rows s) (i :: I') ND Rg).
        rewrite Q. apply set_pos_self. }
    split; [exact E|]. split; [|reflexivity]. apply revert_sync.
    change (last_pos s = map fst (rows (revert dP dO (apply_act dP dO s (Delete I dp))))). rewrite E. exact L.
  Qed.

  (* accept keeps the context synchronised and moves the counter by the pending change *)
  Theorem accept_syncs (t : cstate) : Sync (save t) /\ rows (save t) = rows t /\ nexch (save t) = (nexch t + pdelta t)%Z.
  Proof. unfold Sync, save. cbn. repeat split; reflexivity. Qed.

  (* ---- every position of any accept/reject history *)
  Definition admissible (s : cstate) (acts : list (act P O)) : Prop :=
    Forall (fun a => exists f, a = Move f /\ forall rs, length (f rs) = length rs) acts
    \/ (exists news, acts = map Insert news)
    \/ (exists I dp, acts = [Delete I dp] /\ NoDup I /\ forall i, In i I -> (i < length (rows s))%nat).
  Definition run1 (s : cstate) (tr : list (act P O) * bool) : cstate :=
    if snd tr then save (apply_trial dP dO (fst tr) s) else revert dP dO (apply_trial dP dO (fst tr) s).
  Fixpoint adm_run (hist : list (list (act P O) * bool)) (s : cstate) : Prop :=
    match hist with [] => True | tr :: h => admissible s (fst tr) /\ adm_run h (run1 s tr) end.
  Fixpoint rejected_restored (hist : list (list (act P O) * bool)) (s : cstate) : Prop :=
    match hist with
    | [] => True
    | tr :: h => (snd tr = false -> rows (run1 s tr) = rows s /\ nexch (run1 s tr) = nexch s) /\ rejected_restored h (run1 s tr)
    end.
  Lemma reject_one (s : cstate) acts : Sync s -> admissible s acts ->
    rows (revert dP dO (apply_trial dP dO acts s)) = rows s /\ Sync (revert dP dO (apply_trial dP dO acts s)) /\
    nexch (revert dP dO (apply_trial dP dO acts s)) = nexch s.
  Proof.
    intros Hs [F|[[news ->]|(I & dp & -> & ND & Rg)]].
    - destruct (reject_restores_moves acts s Hs F) as [A B]. destruct (move_only acts s F) as (_ & _ & _ & _ & _ & _ & _ & N).
      split; [exact A|]. split; [exact B|]. unfold revert. cbn. exact N.
    - apply reject_restores_insertions. exact Hs.
    - apply reject_restores_deletion; assumption.
  Qed.
  Theorem history_restores hist : forall s, Sync s -> adm_run hist s -> rejected_restored hist s /\ Sync (fold_left run1 hist s).
  Proof.
    induction hist as [|[acts acc] h IH]; intros s Hs Ha; simpl; [split; [exact I|exact Hs]|].
    destruct Ha as [A1 A2]. simpl in A1.
    assert (Sync (run1 s (acts, acc))) as Hn.
    { unfold run1. simpl. destruct acc; [apply accept_syncs|]. now destruct (reject_one s acts Hs A1) as (_ & B & _). }
    destruct (IH _ Hn A2) as [R S']. split; [|exact S']. split; [|exact R].
    simpl. intro E. subst acc. unfold run1. simpl. destruct (reject_one s acts Hs A1) as (B1 & _ & B3). split; assumption.
  Qed.

  (* ---- the particle counter: initial value + accepted insertions - accepted deletions *)
  Definition act_delta (a : act P O) : Z := match a with Move _ => 0 | Insert _ => 1 | Delete _ dp => - dp end%Z.
  Definition trial_delta (acts : list (act P O)) : Z := fold_right (fun a z => (act_delta a + z)%Z) 0%Z acts.
  Lemma apply_trial_pdelta acts : forall s : cstate, pdelta (apply_trial dP dO acts s) = (pdelta s + trial_delta acts)%Z /\ nexch (apply_trial dP dO acts s) = nexch s.
  Proof.
    induction acts as [|a acts IH]; intro s; [unfold apply_trial, trial_delta; simpl; split; [now rewrite Z.add_0_r|reflexivity]|].
    destruct (IH (apply_act dP dO s a)) as [A B]. unfold apply_trial in *. cbn [fold_left map]. rewrite A, B.
    unfold trial_delta. cbn [fold_right]. fold (trial_delta acts). destruct a; cbn [apply_act pdelta nexch act_delta]; split; try reflexivity; lia.
  Qed.
  Fixpoint accepted_delta (hist : list (list (act P O) * bool)) : Z :=
    match hist with [] => 0 | tr :: h => ((if snd tr then trial_delta (fst tr) else 0) + accepted_delta h) end%Z.
  Theorem counter_history hist : forall s : cstate, pdelta s = 0%Z ->
    nexch (fold_left run1 hist s) = (nexch s + accepted_delta hist)%Z /\ pdelta (fold_left run1 hist s) = 0%Z.
  Proof.
    induction hist as [|[acts acc] h IH]; intros s Hp; simpl; [split; [lia|exact Hp]|].
    destruct (apply_trial_pdelta acts s) as [A B].
    assert (pdelta (run1 s (acts, acc)) = 0%Z) as Hz by (unfold run1; simpl; destruct acc; reflexivity).
    destruct (IH _ Hz) as [C D]. split; [|exact D]. rewrite C. unfold run1. simpl. destruct acc; simpl; [rewrite A, B, Hp|rewrite B]; lia.
  Qed.
End CP.

(* ---- maps commute with deletion / selection / re-insertion: the bookkeeping never looks inside a row *)
Section Maps.
  Variables A B : Type.
  Variable f : A -> B.
  Variable d : A.
  Lemma delete_from_map (l : list A) I : forall k, map f (delete_from k l I) = delete_from k (map f l) I.
  Proof. induction l as [|x t IH]; intro k; simpl; [reflexivity|]. destruct (mem k I); simpl; now rewrite IH. Qed.
  Lemma delete_map (l : list A) I : map f (delete l I) = delete (map f l) I.
  Proof. apply delete_from_map. Qed.
  Lemma select_map (l : list A) I : map f (select d l I) = select (f d) (map f l) I.
  Proof. unfold select. rewrite map_map. apply map_ext. intro i. symmetry. apply map_nth. Qed.
  Lemma reinsert_from_map n : forall k (kept new : list A) I,
    map f (reinsert_from d k n kept new I) = reinsert_from (f d) k n (map f kept) (map f new) I.
  Proof.
    induction n as [|n IH]; intros k kept new I; simpl; [reflexivity|].
    destruct (index_of k I) as [j|]; simpl.
    - rewrite IH. f_equal. symmetry. apply map_nth.
    - destruct kept as [|x kept']; simpl; now rewrite IH.
  Qed.
  Lemma reinsert_map (kept new : list A) I : map f (reinsert d kept new I) = reinsert (f d) (map f kept) (map f new) I.
  Proof. unfold reinsert. rewrite !map_length. apply reinsert_from_map. Qed.
End Maps.

Section DelGen.
  Variable A : Type.
  Lemma gdelete_from_app (l1 l2 : list A) I : forall k, delete_from k (l1 ++ l2) I = delete_from k l1 I ++ delete_from (k + length l1) l2 I.
  Proof.
    induction l1 as [|x t IH]; intro k; simpl; [now rewrite Nat.add_0_r|].
    rewrite IH. replace (S k + length t)%nat with (k + S (length t))%nat by lia. destruct (mem k I); reflexivity.
  Qed.
  Lemma gdelete_from_none (l : list A) I : forall k, (forall j, (k <= j < k + length l)%nat -> mem j I = false) -> delete_from k l I = l.
  Proof.
    induction l as [|x t IH]; intros k H; simpl; [reflexivity|]. rewrite (H k) by (simpl; lia). f_equal. apply IH. intros j Hj. apply H. simpl. lia.
  Qed.
  Lemma gdelete_from_all (l : list A) I : forall k, (forall j, (k <= j < k + length l)%nat -> mem j I = true) -> delete_from k l I = [].
  Proof.
    induction l as [|x t IH]; intros k H; simpl; [reflexivity|]. rewrite (H k) by (simpl; lia). apply IH. intros j Hj. apply H. simpl. lia.
  Qed.
  Lemma gmem_seq k a n : mem k (seq a n) = ((a <=? k) && (k <? a + n))%nat.
  Proof.
    revert a. induction n as [|n IH]; intro a.
    - simpl. apply Bool.eq_true_iff_eq. rewrite andb_true_iff, Nat.leb_le, Nat.ltb_lt. split; [discriminate|lia].
    - cbn [seq]. unfold mem in *. cbn [existsb]. rewrite IH. apply Bool.eq_true_iff_eq.
      rewrite orb_true_iff, !andb_true_iff, Nat.eqb_eq, !Nat.leb_le, !Nat.ltb_lt. lia.
  Qed.
  Lemma gdelete_appended (L new : list A) : delete (L ++ new) (seq (length L) (length new)) = L.
  Proof.
    unfold delete. rewrite gdelete_from_app.
    rewrite (gdelete_from_none L) by (intros j Hj; rewrite gmem_seq; apply andb_false_iff; left; apply Nat.leb_gt; lia).
    rewrite (gdelete_from_all new) by (intros j Hj; rewrite gmem_seq; apply andb_true_iff; split; [apply Nat.leb_le|apply Nat.ltb_lt]; lia).
    apply app_nil_r.
  Qed.
  Lemma gdelete_nil (l : list A) : delete l [] = l.
  Proof. unfold delete. apply gdelete_from_none. reflexivity. Qed.
End DelGen.

Section General.
  Variables P O : Type.
  Variable dP : P. Variable dO : O.
  Notation row := (P * O)%type.
  Notation cstate := (cstate P O).
  Notation act := (act P O).

  Definition is_move (a : act) : Prop := exists f, a = Move f /\ forall rs, length (f rs) = length rs.
  Definition is_insert (a : act) : Prop := exists new, a = Insert new.

  (* a trial the shipped bookkeeping can undo: displacements anywhere, at most ONE deletion batch (one index frame), and no insertion before it.
     Covers every elementary move, composite displacement / exchange moves, and plain composites d + e, e + d, d + e + c ... with one exchange part *)
  Definition undoable (s : cstate) (acts : list act) : Prop :=
    exists pre del post, acts = pre ++ del ++ post /\ Forall is_move pre /\ Forall (fun a => is_move a \/ is_insert a) post /\
      (del = [] \/ exists I dp, del = [Delete I dp] /\ NoDup I /\ forall i, In i I -> (i < length (rows s))%nat).

  (* invariant of the tail (moves and insertions) relative to the state u it started from *)
  Definition TailInv (u t : cstate) : Prop :=
    exists extra : list O, map snd (rows t) = map snd (rows u) ++ extra /\ added t = seq (length (rows u)) (length extra) /\
      deleted t = deleted u /\ deleted_rows t = deleted_rows u /\ last_pos t = last_pos u /\ nexch t = nexch u.

  Lemma tail_inv (u : cstate) acts : forall t, TailInv u t -> Forall (fun a => is_move a \/ is_insert a) acts -> TailInv u (apply_trial dP dO acts t).
  Proof.
    induction acts as [|a acts IH]; intros t Ht F; [exact Ht|]. inversion F as [|? ? Fa F']; subst.
    unfold apply_trial. cbn [fold_left]. apply IH; [|exact F']. destruct Ht as (ex & H1 & H2 & H3 & H4 & H5 & H6).
    destruct Fa as [[f [-> Hf]]|[new ->]].
    - exists ex. cbn [apply_act rows added deleted deleted_rows last_pos nexch]. repeat split; try assumption.
      rewrite (set_pos_others P O) by apply Hf. exact H1.
    - exists (ex ++ map snd new). cbn [apply_act rows added deleted deleted_rows last_pos nexch]. repeat split; try assumption.
      + rewrite map_app, app_assoc. f_equal. exact H1.
      + rewrite H2. assert (length (rows t) = length (rows u) + length ex)%nat as L.
        { transitivity (length (map snd (rows t))); [symmetry; apply map_length|]. transitivity (length (map snd (rows u) ++ ex)); [f_equal; exact H1|]. rewrite app_length, map_length. reflexivity. }
        rewrite L, app_length, map_length. symmetry. apply seq_app.
  Qed.

  Theorem reject_restores_general (s : cstate) acts : Sync s -> undoable s acts ->
    let t := apply_trial dP dO acts s in
    rows (revert dP dO t) = rows s /\ Sync (revert dP dO t) /\ nexch (revert dP dO t) = nexch s.
  Proof.
    intros (L & A & D & R & Pd) (pre & del & post & -> & Fpre & Fpost & Hdel) t.
    destruct (move_only P O dP dO pre s Fpre) as (Ho & Hl & Ha & Hd & Hr & Hp & _ & Hn).
    set (t1 := apply_trial dP dO pre s) in *.
    set (u := apply_trial dP dO del t1).
    assert (t = apply_trial dP dO post u) as Et by (unfold t, u, t1, apply_trial; now rewrite !fold_left_app).
    assert (TailInv u u) as Hu.
    { exists []. rewrite app_nil_r. repeat split; try reflexivity. cbn [length seq].
      destruct Hdel as [->|(I & dp & -> & _)]; unfold u, apply_trial; cbn [fold_left apply_act added]; rewrite Ha; exact A. }
    pose proof (tail_inv u post u Hu Fpost) as (ex & T1 & T2 & T3 & T4 & T5 & T6). rewrite <- Et in T1, T2, T3, T4, T5, T6.
    assert (map snd (revert_rows dP dO t) = map snd (rows s)) as Key.
    { unfold revert_rows. rewrite guarded_delete. unfold Context.drow, Context.row in *.
      assert (@map (P * O) O snd (@delete (P * O) (rows t) (added t)) = @map (P * O) O snd (rows u)) as K1.
      { rewrite delete_map. unfold Context.row. rewrite T1, T2. rewrite <- (map_length snd (rows u)). apply gdelete_appended. }
      destruct Hdel as [->|(I & dp & -> & ND & Rg)].
      - assert (u = t1) as -> by reflexivity. rewrite T3, Hd, D. rewrite K1. exact Ho.
      - unfold u, apply_trial in T3, T4, K1. cbn [fold_left apply_act deleted deleted_rows rows] in T3, T4, K1.
        rewrite T3, T4, Hd, Hr, D, R. cbn [app].
        destruct I as [|i I'].
        + rewrite K1. rewrite gdelete_nil. exact Ho.
        + rewrite (reinsert_map row O snd (dP, dO)). rewrite K1, delete_map, (select_map row O snd (dP, dO)). cbn [snd]. unfold Context.row in *. rewrite !Ho.
          apply (reinsert_delete_l O dO (map snd (rows s)) (i :: I') ND). intros j Hj. rewrite map_length. now apply Rg. }
    assert (last_pos t = map fst (rows s)) as Lp.
    { rewrite T5. destruct Hdel as [->|(I & dp & -> & _)]; unfold u, apply_trial; cbn [fold_left apply_act last_pos]; rewrite Hp; exact L. }
    assert (rows (revert dP dO t) = rows s) as E.
    { unfold revert. cbn [rows]. rewrite Lp. rewrite (set_pos_ext P O (map fst (rows s)) (revert_rows dP dO t) (rows s) Key). apply set_pos_self. }
    split; [exact E|]. split.
    - apply revert_sync. rewrite E. exact Lp.
    - unfold revert. cbn [nexch]. rewrite T6. destruct Hdel as [->|(I & dp & -> & _)]; unfold u, apply_trial; cbn [fold_left apply_act nexch]; exact Hn.
  Qed.

  (* the three elementary forms are instances *)
  Lemma admissible_undoable (s : cstate) acts : admissible P O s acts -> undoable s acts.
  Proof.
    intros [F|[[news ->]|(Ix & dp & -> & ND & Rg)]].
    - exists acts, [], []. rewrite !app_nil_r. repeat split; [exact F|constructor|now left].
    - exists [], [], (map Insert news). repeat split; [constructor| |now left].
      apply Forall_forall. intros a Ha. apply in_map_iff in Ha. destruct Ha as [n [<- _]]. right. now exists n.
    - exists [], [Delete Ix dp], []. repeat split; [constructor|constructor|]. right. exists Ix, dp. repeat split; assumption.
  Qed.

  (* every position of any accept / reject history of undoable trials *)
  Fixpoint und_run (hist : list (list act * bool)) (s : cstate) : Prop :=
    match hist with [] => True | tr :: h => undoable s (fst tr) /\ und_run h (run1 P O dP dO s tr) end.
  Theorem history_restores_general hist : forall s, Sync s -> und_run hist s ->
    rejected_restored P O dP dO hist s /\ Sync (fold_left (run1 P O dP dO) hist s).
  Proof.
    induction hist as [|[acts acc] h IH]; intros s Hs Ha; simpl; [split; [exact I|exact Hs]|].
    destruct Ha as [A1 A2]. simpl in A1.
    destruct (reject_restores_general s acts Hs A1) as (B1 & B2 & B3).
    assert (Sync (run1 P O dP dO s (acts, acc))) as Hn.
    { unfold run1. simpl. destruct acc; [apply accept_syncs|exact B2]. }
    destruct (IH _ Hn A2) as [R S']. split; [|exact S']. split; [|exact R].
    simpl. intro E. subst acc. unfold run1. simpl. split; assumption.
  Qed.
End General.

(* The order inside ExchangeContext.revert_state matters: the appended rows are removed FIRST (their indices refer to the frame after the
   deletion), then the deleted rows are put back.  A relocation (delete + insert in one trial) separates the two orders. *)
Definition revert_rows_swapped {P O} (dP : P) (dO : O) (s : cstate P O) : list (row P O) :=
  let r1 := match deleted s with [] => rows s | _ => reinsert (drow P O dP dO) (rows s) (deleted_rows s) (deleted s) end in
  match added s with [] => r1 | _ => delete r1 (added s) end.
Definition undo_s0 : cstate nat nat := {| rows := [(10, 1); (20, 2)]%nat; last_pos := [10; 20]%nat; added := []; deleted := []; deleted_rows := []; pdelta := 0%Z; nexch := 2%Z |}.
Definition undo_relocation : list (act nat nat) := [Delete [0%nat] 1%Z; Insert [(30, 3)%nat]].
Theorem undo_order_matters :
  Sync undo_s0 /\ revert_rows 0%nat 0%nat (apply_trial 0%nat 0%nat undo_relocation undo_s0) = rows undo_s0 /\ revert_rows_swapped 0%nat 0%nat (apply_trial 0%nat 0%nat undo_relocation undo_s0) <> rows undo_s0.
Proof. repeat split; try reflexivity. vm_compute. discriminate. Qed.
