From QV Require Import Model.Ops.
From Coq Require Import Lra Lia.

Lemma v3_eq a b : vx a = vx b -> vy a = vy b -> vz a = vz b -> a = b.
Proof. destruct a, b; simpl; intros; subst; reflexivity. Qed.
Lemma m3_eq a b : a00 a = a00 b -> a01 a = a01 b -> a02 a = a02 b -> a10 a = a10 b -> a11 a = a11 b -> a12 a = a12 b ->
  a20 a = a20 b -> a21 a = a21 b -> a22 a = a22 b -> a = b.
Proof. destruct a, b; simpl; intros; subst; reflexivity. Qed.

Lemma sc2 phi : sin phi * sin phi + cos phi * cos phi = 1.
Proof. pose proof (sin2_cos2 phi) as H. unfold Rsqr in H. lra. Qed.
Lemma sq_sqrt1 c : -1 <= c <= 1 -> sqrt (1 - c * c) * sqrt (1 - c * c) = 1 - c * c.
Proof. intro H. apply sqrt_sqrt. nra. Qed.

(* ---------------- ball / sphere / box *)
Lemma ball_norm r phi c : -1 <= c <= 1 -> norm2 (ball r phi c) = r * r.
Proof.
  intro H. unfold norm2, ball. simpl. pose proof (sq_sqrt1 c H) as S. pose proof (sc2 phi) as T.
  set (s := sqrt (1 - c * c)) in *.
  replace (r * s * cos phi * (r * s * cos phi) + r * s * sin phi * (r * s * sin phi) + r * c * (r * c))
    with (r * r * ((s * s) * (sin phi * sin phi + cos phi * cos phi) + c * c)) by ring.
  rewrite S, T. ring.
Qed.
Lemma ball_within r step phi c : -1 <= c <= 1 -> 0 <= r <= step -> norm2 (ball r phi c) <= step * step.
Proof. intros H [A B]. rewrite ball_norm by assumption. nra. Qed.
Lemma sphere_norm step phi c : -1 <= c <= 1 -> norm2 (sphere step phi c) = step * step.
Proof.
  intro H. unfold norm2, sphere. simpl. pose proof (sq_sqrt1 c H) as S. pose proof (sc2 phi) as T.
  set (s := sqrt (1 - c * c)) in *.
  replace (step * (s * cos phi) * (step * (s * cos phi)) + step * (s * sin phi) * (step * (s * sin phi)) + step * c * (step * c))
    with (step * step * ((s * s) * (sin phi * sin phi + cos phi * cos phi) + c * c)) by ring.
  rewrite S, T. ring.
Qed.
Lemma box_bound step t : - step <= vx t <= step -> - step <= vy t <= step -> - step <= vz t <= step ->
  Rabs (vx (box t)) <= step /\ Rabs (vy (box t)) <= step /\ Rabs (vz (box t)) <= step.
Proof. intros. unfold box. repeat split; apply Rabs_le; lra. Qed.

(* symmetry as law-preserving involutions of the draws: (r, phi, c) |-> (r, phi + pi, -c) negates the displacement *)
Lemma ball_antipode r phi c : ball r (phi + PI) (- c) = vscale (-1) (ball r phi c).
Proof.
  unfold ball, vscale. simpl. replace (1 - - c * - c) with (1 - c * c) by ring.
  rewrite neg_cos, neg_sin. apply v3_eq; simpl; ring.
Qed.
Lemma sphere_antipode step phi c : sphere step (phi + PI) (- c) = vscale (-1) (sphere step phi c).
Proof.
  unfold sphere, vscale. simpl. replace (1 - - c * - c) with (1 - c * c) by ring.
  rewrite neg_cos, neg_sin. apply v3_eq; simpl; ring.
Qed.
Lemma box_antipode t : box (vscale (-1) t) = vscale (-1) (box t).
Proof. reflexivity. Qed.

(* ---------------- translation *)
Lemma sumv_map_add t ps : sumv (map (vadd t) ps) = vadd (vscale (INR (length ps)) t) (sumv ps).
Proof.
  induction ps as [|p ps IH].
  - simpl. apply v3_eq; simpl; ring.
  - cbn [map sumv fold_right length]. fold (sumv (map (vadd t) ps)). fold (sumv ps). rewrite IH. rewrite S_INR.
    apply v3_eq; simpl; ring.
Qed.
Lemma centroid_shift t ps : ps <> [] -> centroid (map (vadd t) ps) = vadd t (centroid ps).
Proof.
  intro H. unfold centroid. rewrite map_length, sumv_map_add.
  assert (INR (length ps) <> 0) as N.
  { apply not_0_INR. destruct ps; [contradiction|simpl; lia]. }
  apply v3_eq; simpl; field; assumption.
Qed.
(* after the move the centroid of the group sits at frac @ cell, frac being the uniform draw on [0,1)^3 *)
Lemma translation_centroid frac cell ps : ps <> [] ->
  centroid (map (vadd (translation frac cell ps)) ps) = rowmul frac cell.
Proof.
  intro H. rewrite centroid_shift by assumption. unfold translation. apply v3_eq; simpl; ring.
Qed.
Lemma translation_rigid t p q : norm2 (vsub (vadd t p) (vadd t q)) = norm2 (vsub p q).
Proof. unfold norm2. simpl. ring. Qed.

(* ---------------- rotation *)
Definition orthogonal (A : m3) : Prop := mmul (mtrans A) A = mident.
Lemma mmul_assoc a b c : mmul (mmul a b) c = mmul a (mmul b c).
Proof. apply m3_eq; simpl; ring. Qed.
Lemma mtrans_mmul a b : mtrans (mmul a b) = mmul (mtrans b) (mtrans a).
Proof. apply m3_eq; simpl; ring. Qed.
Lemma mmul_ident_l a : mmul mident a = a.
Proof. apply m3_eq; simpl; ring. Qed.
Lemma mmul_ident_r a : mmul a mident = a.
Proof. apply m3_eq; simpl; ring. Qed.
Lemma orthogonal_mmul a b : orthogonal a -> orthogonal b -> orthogonal (mmul a b).
Proof.
  unfold orthogonal. intros Ha Hb. rewrite mtrans_mmul, mmul_assoc, <- (mmul_assoc (mtrans a) a b), Ha, mmul_ident_l. exact Hb.
Qed.
Lemma Rz_orth a : orthogonal (Rz a).
Proof. unfold orthogonal. pose proof (sc2 a). apply m3_eq; simpl; nra. Qed.
Lemma Rx_c_orth c : -1 <= c <= 1 -> orthogonal (Rx_c c).
Proof. intro H. unfold orthogonal, Rx_c. pose proof (sq_sqrt1 c H). set (s := sqrt (1 - c * c)) in *. apply m3_eq; simpl; nra. Qed.
Lemma euler_orth phi c psi : -1 <= c <= 1 -> orthogonal (euler phi c psi).
Proof. intro H. unfold euler. apply orthogonal_mmul; [apply Rz_orth|]. apply orthogonal_mmul; [now apply Rx_c_orth|apply Rz_orth]. Qed.

Lemma orth_norm A v : orthogonal A -> norm2 (mapply A v) = norm2 v.
Proof.
  unfold orthogonal. intro H.
  assert (a00 (mmul (mtrans A) A) = 1 /\ a01 (mmul (mtrans A) A) = 0 /\ a02 (mmul (mtrans A) A) = 0 /\
          a11 (mmul (mtrans A) A) = 1 /\ a12 (mmul (mtrans A) A) = 0 /\ a22 (mmul (mtrans A) A) = 1) as (E0 & E1 & E2 & E3 & E4 & E5)
    by (rewrite H; simpl; repeat split; reflexivity).
  simpl in *. unfold norm2. simpl.
  set (x := vx v). set (y := vy v). set (z := vz v).
  replace ((a00 A * x + a01 A * y + a02 A * z) * (a00 A * x + a01 A * y + a02 A * z) +
           (a10 A * x + a11 A * y + a12 A * z) * (a10 A * x + a11 A * y + a12 A * z) +
           (a20 A * x + a21 A * y + a22 A * z) * (a20 A * x + a21 A * y + a22 A * z))
    with ((a00 A * a00 A + a10 A * a10 A + a20 A * a20 A) * (x * x) + (a01 A * a01 A + a11 A * a11 A + a21 A * a21 A) * (y * y)
          + (a02 A * a02 A + a12 A * a12 A + a22 A * a22 A) * (z * z)
          + 2 * (a00 A * a01 A + a10 A * a11 A + a20 A * a21 A) * (x * y) + 2 * (a00 A * a02 A + a10 A * a12 A + a20 A * a22 A) * (x * z)
          + 2 * (a01 A * a02 A + a11 A * a12 A + a21 A * a22 A) * (y * z)) by ring.
  rewrite E0, E1, E2, E3, E4, E5. ring.
Qed.
Lemma mapply_sub A p q : mapply A (vsub p q) = vsub (mapply A p) (mapply A q).
Proof. apply v3_eq; simpl; ring. Qed.
(* rigid: pairwise distances of the group are preserved, about any centre *)
Lemma rotation_rigid A c p q : orthogonal A -> norm2 (vsub (rot_point A c p) (rot_point A c q)) = norm2 (vsub p q).
Proof.
  intro H. unfold rot_point.
  replace (vsub (vadd (mapply A (vsub p c)) c) (vadd (mapply A (vsub q c)) c)) with (mapply A (vsub p q)).
  - now apply orth_norm.
  - apply v3_eq; simpl; ring.
Qed.
(* the centre of mass is kept (any matrix A, rotation or not, as long as the centre IS the centre of mass) *)
Lemma wsum_rot A c : forall ms ps, length ms = length ps ->
  wsum ms (map (rot_point A c) ps) = vadd (mapply A (vsub (wsum ms ps) (vscale (summ ms) c))) (vscale (summ ms) c).
Proof.
  induction ms as [|m ms IH]; intros [|p ps] L; try discriminate.
  - simpl. apply v3_eq; simpl; ring.
  - cbn [map wsum summ fold_right]. fold (summ ms). rewrite IH by (simpl in L; lia).
    apply v3_eq; simpl; ring.
Qed.
Lemma rotation_keeps_com A ms ps : length ms = length ps -> summ ms <> 0 ->
  com ms (map (rot_point A (com ms ps)) ps) = com ms ps.
Proof.
  intros L N. unfold com at 1. rewrite wsum_rot by assumption. unfold com.
  apply v3_eq; simpl; field; assumption.
Qed.

(* inverse rotation from the involution on the draws; the uniform laws on full turns are invariant under it *)
Lemma Rz_add a b : mmul (Rz a) (Rz b) = Rz (a + b).
Proof. unfold Rz. rewrite cos_plus, sin_plus. apply m3_eq; simpl; ring. Qed.
Definition Dz := M3 (-1) 0 0 0 (-1) 0 0 0 1.
Lemma Rz_pi : Rz PI = Dz.
Proof. unfold Rz, Dz. rewrite cos_PI, sin_PI. apply m3_eq; simpl; ring. Qed.
Lemma Rz_2pi : Rz (2 * PI) = mident.
Proof. unfold Rz, mident. rewrite cos_2PI, sin_2PI. apply m3_eq; simpl; ring. Qed.
Lemma Rz_neg_pi : Rz (- PI) = Dz.
Proof. unfold Rz, Dz. rewrite cos_neg, sin_neg, cos_PI, sin_PI. apply m3_eq; simpl; ring. Qed.
Lemma Rx_Dz_Rx c : -1 <= c <= 1 -> mmul (Rx_c c) (mmul Dz (Rx_c c)) = Dz.
Proof. intro H. unfold Rx_c, Dz. pose proof (sq_sqrt1 c H) as S. set (s := sqrt (1 - c * c)) in *. apply m3_eq; simpl; nra. Qed.
Lemma euler_inverse phi c psi : -1 <= c <= 1 ->
  mmul (euler (euler_inv_phi psi) c (euler_inv_psi phi)) (euler phi c psi) = mident.
Proof.
  intro H. unfold euler, euler_inv_phi, euler_inv_psi.
  rewrite !mmul_assoc. rewrite <- (mmul_assoc (Rz (- phi - PI)) (Rz phi)), Rz_add.
  replace (- phi - PI + phi) with (- PI) by ring. rewrite Rz_neg_pi.
  rewrite <- (mmul_assoc Dz (Rx_c c) (Rz psi)), <- (mmul_assoc (Rx_c c) (mmul Dz (Rx_c c)) (Rz psi)).
  rewrite Rx_Dz_Rx by assumption. rewrite <- Rz_pi, !Rz_add.
  replace (PI - psi + (PI + psi)) with (2 * PI) by ring. apply Rz_2pi.
Qed.

(* composite = sum of its parts *)
Lemma composite_sum parts : composite parts = fold_right vadd vzero parts.
Proof. reflexivity. Qed.
Lemma composite_app a b : composite (a ++ b) = vadd (composite a) (composite b).
Proof.
  unfold composite, sumv. induction a as [|x a IH]; cbn [app fold_right]; [apply v3_eq; simpl; ring|].
  rewrite IH. apply v3_eq; simpl; ring.
Qed.

(* ---------------- deformations *)
Lemma masked_identity x mk i j : (i < 3)%nat -> (j < 3)%nat -> mk i j = false -> mget (masked x mk) i j = delta i j.
Proof.
  intros Hi Hj H. unfold masked, mbuild.
  destruct i as [|[|[|i]]]; try lia; destruct j as [|[|[|j]]]; try lia; simpl; rewrite H; reflexivity.
Qed.
Lemma masked_full x : masked x full_mask = x.
Proof. destruct x. reflexivity. Qed.
Lemma iso_scalar u : iso_def u full_mask = mscale (exp u) mident.
Proof. unfold iso_def. apply masked_full. Qed.
Lemma iso_inverse u : mmul (iso_def (- u) full_mask) (iso_def u full_mask) = mident.
Proof.
  rewrite !iso_scalar. assert (exp (- u) * exp u = 1) as E by (rewrite <- exp_plus; replace (- u + u) with 0 by ring; apply exp_0).
  apply m3_eq; simpl; try ring; nra.
Qed.
Lemma iso_spd u v : v <> vzero ->
  mtrans (iso_def u full_mask) = iso_def u full_mask /\ 0 < vx v * vx (mapply (iso_def u full_mask) v) + vy v * vy (mapply (iso_def u full_mask) v) + vz v * vz (mapply (iso_def u full_mask) v).
Proof.
  intro N. rewrite iso_scalar. split; [apply m3_eq; simpl; ring|]. simpl.
  pose proof (exp_pos u) as E.
  assert (0 < vx v * vx v + vy v * vy v + vz v * vz v) as Q.
  { destruct v as [x y z]. simpl.
    destruct (Req_dec x 0) as [->|]; [destruct (Req_dec y 0) as [->|]; [destruct (Req_dec z 0) as [->|]; [exfalso; apply N; reflexivity|]|]|]; nra. }
  nra.
Qed.

Lemma shape_gen_tracefree c0 c1 c2 c3 c4 c5 : mtrace (shape_gen c0 c1 c2 c3 c4 c5) = 0.
Proof. unfold mtrace, shape_gen, sym6. simpl. field. Qed.
Lemma gen_symmetric c0 c1 c2 c3 c4 c5 : mtrans (sym6 c0 c1 c2 c3 c4 c5) = sym6 c0 c1 c2 c3 c4 c5.
Proof. reflexivity. Qed.
Lemma aniso_gen_neg c0 c1 c2 c3 c4 c5 : aniso_gen (- c0) (- c1) (- c2) (- c3) (- c4) (- c5) = mneg (aniso_gen c0 c1 c2 c3 c4 c5).
Proof. apply m3_eq; simpl; ring. Qed.
Lemma shape_gen_neg c0 c1 c2 c3 c4 c5 : shape_gen (- c0) (- c1) (- c2) (- c3) (- c4) (- c5) = mneg (shape_gen c0 c1 c2 c3 c4 c5).
Proof. apply m3_eq; simpl; field. Qed.

Section ExpmFacts.
  Variable expm : m3 -> m3.
  (* the contract of scipy.linalg.expm used here (standard facts about the matrix exponential; validated numerically on
     every run against scipy on the matrices the operations actually build) *)
  Hypothesis expm_inverse : forall E, mmul (expm (mneg E)) (expm E) = mident.
  Hypothesis expm_transpose : forall E, expm (mtrans E) = mtrans (expm E).
  Hypothesis expm_det : forall E, mdet (expm E) = exp (mtrace E).
  Hypothesis expm_half : forall E, expm E = mmul (expm (mscale (/ 2) E)) (expm (mscale (/ 2) E)).
  Hypothesis expm_regular : forall E v, mapply (expm E) v = vzero -> v = vzero.

  Lemma shape_volume c0 c1 c2 c3 c4 c5 : mdet (shape_def expm c0 c1 c2 c3 c4 c5 full_mask) = 1.
  Proof. unfold shape_def. rewrite masked_full, expm_det, shape_gen_tracefree. apply exp_0. Qed.
  Lemma aniso_symmetric c0 c1 c2 c3 c4 c5 : mtrans (aniso_def expm c0 c1 c2 c3 c4 c5 full_mask) = aniso_def expm c0 c1 c2 c3 c4 c5 full_mask.
  Proof. unfold aniso_def. rewrite !masked_full, <- expm_transpose. reflexivity. Qed.
  Lemma shape_symmetric c0 c1 c2 c3 c4 c5 : mtrans (shape_def expm c0 c1 c2 c3 c4 c5 full_mask) = shape_def expm c0 c1 c2 c3 c4 c5 full_mask.
  Proof. unfold shape_def. rewrite !masked_full, <- expm_transpose. reflexivity. Qed.
  Lemma aniso_inverse c0 c1 c2 c3 c4 c5 :
    mmul (aniso_def expm (- c0) (- c1) (- c2) (- c3) (- c4) (- c5) full_mask) (aniso_def expm c0 c1 c2 c3 c4 c5 full_mask) = mident.
  Proof. unfold aniso_def. rewrite !masked_full, aniso_gen_neg. apply expm_inverse. Qed.
  Lemma shape_inverse c0 c1 c2 c3 c4 c5 :
    mmul (shape_def expm (- c0) (- c1) (- c2) (- c3) (- c4) (- c5) full_mask) (shape_def expm c0 c1 c2 c3 c4 c5 full_mask) = mident.
  Proof. unfold shape_def. rewrite !masked_full, shape_gen_neg. apply expm_inverse. Qed.

  (* positive-definite: for symmetric E, expm E = B^T B with B = expm(E/2) regular, so v^T (expm E) v = |B v|^2 > 0 *)
  Definition quad (A : m3) (v : v3) : R := vx v * vx (mapply A v) + vy v * vy (mapply A v) + vz v * vz (mapply A v).
  Lemma quad_gram B v : quad (mmul (mtrans B) B) v = norm2 (mapply B v).
  Proof. unfold quad, norm2. simpl. ring. Qed.
  Lemma norm2_pos v : v <> vzero -> 0 < norm2 v.
  Proof.
    intro N. destruct v as [x y z]. unfold norm2. simpl.
    destruct (Req_dec x 0) as [->|]; [destruct (Req_dec y 0) as [->|]; [destruct (Req_dec z 0) as [->|]; [exfalso; apply N; reflexivity|]|]|]; nra.
  Qed.
  Lemma expm_sym_pd E v : mtrans E = E -> v <> vzero -> 0 < quad (expm E) v.
  Proof.
    intros S N. rewrite (expm_half E).
    assert (mtrans (mscale (/ 2) E) = mscale (/ 2) E) as S2.
    { rewrite <- S at 2. apply m3_eq; simpl; reflexivity. }
    rewrite <- (expm_transpose (mscale (/ 2) E)) at 1 || idtac.
    replace (mmul (expm (mscale (/ 2) E)) (expm (mscale (/ 2) E)))
      with (mmul (mtrans (expm (mscale (/ 2) E))) (expm (mscale (/ 2) E))) by (rewrite <- expm_transpose, S2; reflexivity).
    rewrite quad_gram. apply norm2_pos. intro Z. apply N. now apply (expm_regular (mscale (/ 2) E)).
  Qed.
  Lemma aniso_pd c0 c1 c2 c3 c4 c5 v : v <> vzero -> 0 < quad (aniso_def expm c0 c1 c2 c3 c4 c5 full_mask) v.
  Proof. intro N. unfold aniso_def. rewrite masked_full. apply expm_sym_pd; [reflexivity|assumption]. Qed.
  Lemma shape_pd c0 c1 c2 c3 c4 c5 v : v <> vzero -> 0 < quad (shape_def expm c0 c1 c2 c3 c4 c5 full_mask) v.
  Proof. intro N. unfold shape_def. rewrite masked_full. apply expm_sym_pd; [reflexivity|assumption]. Qed.
End ExpmFacts.

(* ---------------- the matrix ASE applies *)
Lemma Rz_neg_trans a : Rz (- a) = mtrans (Rz a).
Proof. unfold Rz. rewrite cos_neg, sin_neg. apply m3_eq; simpl; ring. Qed.
Lemma ase_rot_is_transpose phi c psi : ase_rot phi c psi = mtrans (euler phi c psi).
Proof. unfold ase_rot, euler. rewrite !mtrans_mmul, !Rz_neg_trans, mmul_assoc. reflexivity. Qed.
Lemma Rx_c_trans_orth c : -1 <= c <= 1 -> orthogonal (mtrans (Rx_c c)).
Proof. intro H. unfold orthogonal, Rx_c. pose proof (sq_sqrt1 c H). set (s := sqrt (1 - c * c)) in *. apply m3_eq; simpl; nra. Qed.
Lemma ase_rot_orth phi c psi : -1 <= c <= 1 -> orthogonal (ase_rot phi c psi).
Proof. intro H. unfold ase_rot. apply orthogonal_mmul; [apply Rz_orth|]. apply orthogonal_mmul; [now apply Rx_c_trans_orth|apply Rz_orth]. Qed.
Lemma mtrans_ident : mtrans mident = mident.
Proof. reflexivity. Qed.
(* drawing (pi - psi, c, -phi - pi) instead of (phi, c, psi) gives the inverse rotation *)
Lemma ase_rot_inverse phi c psi : -1 <= c <= 1 ->
  mmul (ase_rot phi c psi) (ase_rot (euler_inv_phi psi) c (euler_inv_psi phi)) = mident.
Proof.
  intro H. rewrite !ase_rot_is_transpose, <- mtrans_mmul, euler_inverse by assumption. apply mtrans_ident.
Qed.
(* the involution maps the support to itself modulo a full turn and is its own inverse modulo a full turn *)
Lemma euler_involution phi psi :
  euler_inv_phi (euler_inv_psi phi) = phi + 2 * PI /\ euler_inv_psi (euler_inv_phi psi) = psi - 2 * PI.
Proof. unfold euler_inv_phi, euler_inv_psi. split; ring. Qed.
Lemma Rz_period a : Rz (a + 2 * PI) = Rz a.
Proof. unfold Rz. rewrite cos_plus, sin_plus, cos_2PI, sin_2PI. apply m3_eq; simpl; ring. Qed.

(* ---------------- the contract assumed of expm is consistent: a (toy) function satisfying all five hypotheses exists *)
Definition expm_toy (E : m3) : m3 := mscale (exp (mtrace E / 3)) mident.
Lemma toy_inverse E : mmul (expm_toy (mneg E)) (expm_toy E) = mident.
Proof.
  unfold expm_toy. replace (mtrace (mneg E) / 3) with (- (mtrace E / 3)) by (unfold mtrace, mneg, mscale; simpl; field).
  assert (exp (- (mtrace E / 3)) * exp (mtrace E / 3) = 1) as X by (rewrite <- exp_plus; replace (- (mtrace E / 3) + mtrace E / 3) with 0 by ring; apply exp_0).
  apply m3_eq; simpl; try ring; nra.
Qed.
Lemma toy_transpose E : expm_toy (mtrans E) = mtrans (expm_toy E).
Proof. unfold expm_toy. replace (mtrace (mtrans E)) with (mtrace E) by reflexivity. apply m3_eq; simpl; ring. Qed.
Lemma toy_det E : mdet (expm_toy E) = exp (mtrace E).
Proof.
  unfold expm_toy, mdet. simpl. set (t := mtrace E / 3).
  replace (mtrace E) with (t + t + t) by (unfold t; field). rewrite !exp_plus. ring.
Qed.
Lemma toy_half E : expm_toy E = mmul (expm_toy (mscale (/ 2) E)) (expm_toy (mscale (/ 2) E)).
Proof.
  unfold expm_toy. replace (mtrace (mscale (/ 2) E) / 3) with (mtrace E / 3 / 2) by (unfold mtrace, mscale; simpl; field).
  set (t := mtrace E / 3). assert (exp t = exp (t / 2) * exp (t / 2)) as X by (rewrite <- exp_plus; f_equal; field).
  apply m3_eq; simpl; try ring; rewrite X; ring.
Qed.
Lemma toy_regular E v : mapply (expm_toy E) v = vzero -> v = vzero.
Proof.
  unfold expm_toy, vzero. destruct v as [x y z]. simpl. intro H.
  pose proof (exp_pos (mtrace E / 3)) as P. set (e := exp (mtrace E / 3)) in *.
  assert (e * 1 * x + e * 0 * y + e * 0 * z = 0) as H1 by (apply (f_equal vx) in H; exact H).
  assert (e * 0 * x + e * 1 * y + e * 0 * z = 0) as H2 by (apply (f_equal vy) in H; exact H).
  assert (e * 0 * x + e * 0 * y + e * 1 * z = 0) as H3 by (apply (f_equal vz) in H; exact H).
  assert (x = 0) by nra. assert (y = 0) by nra. assert (z = 0) by nra. subst. reflexivity.
Qed.
