From QV Require Import Model.Constraints Proofs.OpsProofs.
From Coq Require Import Lra Lia.

(* ---------------- FixAtoms: a fixed row keeps its old value, whatever is proposed *)
Lemma fixatoms_fixed fixed : forall old new i, length old = length fixed -> length new = length fixed ->
  nth i fixed false = true -> nth i (fixatoms_adjust fixed old new) vzero = nth i old vzero.
Proof.
  induction fixed as [|f fs IH]; intros old new i Lo Ln H; [destruct i; discriminate|].
  destruct old as [|o os]; [discriminate|]. destruct new as [|n ns]; [discriminate|].
  destruct i as [|i]; simpl in *.
  - rewrite H. reflexivity.
  - apply IH; auto.
Qed.
Lemma fixatoms_free fixed : forall old new i, length old = length fixed -> length new = length fixed ->
  nth i fixed false = false -> nth i (fixatoms_adjust fixed old new) vzero = nth i new vzero.
Proof.
  induction fixed as [|f fs IH]; intros old new i Lo Ln H; [reflexivity|].
  destruct old as [|o os]; [discriminate|]. destruct new as [|n ns]; [discriminate|].
  destruct i as [|i]; simpl in *.
  - rewrite H. reflexivity.
  - apply IH; auto.
Qed.
Lemma fixatoms_length fixed : forall old new, length old = length fixed -> length new = length fixed ->
  length (fixatoms_adjust fixed old new) = length fixed.
Proof.
  induction fixed as [|f fs IH]; intros old new Lo Ln; [destruct new; [reflexivity|discriminate]|].
  destruct old as [|o os]; [discriminate|]. destruct new as [|n ns]; [discriminate|]. simpl in *. f_equal. apply IH; lia.
Qed.

(* ---------------- FixCom: the centre of mass of the adjusted positions is the old one *)
Lemma wsum_map_add d : forall ms ps, length ms = length ps -> wsum ms (map (vadd d) ps) = vadd (vscale (summ ms) d) (wsum ms ps).
Proof.
  induction ms as [|m ms IH]; intros [|p ps] L; try discriminate.
  - apply v3_eq; simpl; ring.
  - cbn [map wsum summ fold_right]. fold (summ ms). rewrite IH by (simpl in L; lia). apply v3_eq; simpl; ring.
Qed.
Lemma com_shift d ms ps : length ms = length ps -> summ ms <> 0 -> com ms (map (vadd d) ps) = vadd d (com ms ps).
Proof. intros L N. unfold com. rewrite wsum_map_add by assumption. apply v3_eq; simpl; field; assumption. Qed.
Lemma fixcom_keeps_com ms old new : length ms = length new -> summ ms <> 0 -> com ms (fixcom_adjust ms old new) = com ms old.
Proof. intros L N. unfold fixcom_adjust. rewrite com_shift by assumption. apply v3_eq; simpl; ring. Qed.
Lemma fixcom_length ms old new : length (fixcom_adjust ms old new) = length new.
Proof. unfold fixcom_adjust. apply map_length. Qed.

(* FixCom.adjust_momenta: zero total momentum afterwards *)
Lemma fixcom_momenta_go_sum v : forall ms ps, length ms = length ps ->
  sumv (fixcom_momenta_go v ms ps) = vsub (sumv ps) (vscale (summ ms) v).
Proof.
  induction ms as [|m ms IH]; intros [|p ps] L; try discriminate.
  - apply v3_eq; simpl; ring.
  - cbn [fixcom_momenta_go sumv fold_right summ]. fold (sumv (fixcom_momenta_go v ms ps)). fold (sumv ps). fold (summ ms).
    rewrite IH by (simpl in L; lia). apply v3_eq; simpl; ring.
Qed.
Lemma fixcom_momenta_zero ms ps : length ms = length ps -> summ ms <> 0 -> sumv (fixcom_momenta ms ps) = vzero.
Proof. intros L N. unfold fixcom_momenta. rewrite fixcom_momenta_go_sum by assumption. apply v3_eq; simpl; field; assumption. Qed.

(* ---------------- any history of proposals / acceptances / rejections *)
Section History.
  Variable adjust : list v3 -> list v3 -> list v3.
  Variable Inv : list v3 -> Prop.                       (* what the constraint conserves, relative to the start *)
  Hypothesis adjust_keeps : forall old new, Inv old -> Inv (adjust old new).
  Lemma cstep_inv s o : Inv (cur s) -> Inv (lastp s) -> Inv (cur (cstep adjust s o)) /\ Inv (lastp (cstep adjust s o)).
  Proof. intros A B. destruct o; simpl; split; auto. Qed.
  Theorem crun_inv ops : forall s, Inv (cur s) -> Inv (lastp s) -> Inv (cur (crun adjust ops s)) /\ Inv (lastp (crun adjust ops s)).
  Proof.
    unfold crun. induction ops as [|o ops IH]; intros s A B; simpl; [split; assumption|].
    destruct (cstep_inv s o A B) as [A' B']. apply IH; assumption.
  Qed.
End History.

(* instances: fixed atoms never move; a fixed centre of mass never drifts - for every history and every proposal *)
Theorem fixed_never_move fixed x0 ops : forall s,
  (length (cur s) = length fixed /\ forall i, nth i fixed false = true -> nth i (cur s) vzero = nth i x0 vzero) ->
  (length (lastp s) = length fixed /\ forall i, nth i fixed false = true -> nth i (lastp s) vzero = nth i x0 vzero) ->
  forall i, nth i fixed false = true ->
    nth i (cur (crun (fun old new => if Nat.eqb (length new) (length fixed) then fixatoms_adjust fixed old new else old) ops s)) vzero = nth i x0 vzero.
Proof.
  intros s A B.
  pose proof (crun_inv (fun old new => if Nat.eqb (length new) (length fixed) then fixatoms_adjust fixed old new else old)
                (fun xs => length xs = length fixed /\ forall i, nth i fixed false = true -> nth i xs vzero = nth i x0 vzero)) as H.
  assert (forall old new, (length old = length fixed /\ forall i, nth i fixed false = true -> nth i old vzero = nth i x0 vzero) ->
            (length (if Nat.eqb (length new) (length fixed) then fixatoms_adjust fixed old new else old) = length fixed /\
             forall i, nth i fixed false = true -> nth i (if Nat.eqb (length new) (length fixed) then fixatoms_adjust fixed old new else old) vzero = nth i x0 vzero)) as K.
  { intros old new [L F]. destruct (Nat.eqb (length new) (length fixed)) eqn:E; [|split; assumption].
    apply Nat.eqb_eq in E. split; [now apply fixatoms_length|]. intros i Hi. rewrite fixatoms_fixed by assumption. now apply F. }
  destruct (H K ops s A B) as [[_ R] _]. exact R.
Qed.
Theorem com_never_drifts ms c0 ops : summ ms <> 0 -> forall s,
  (length (cur s) = length ms /\ com ms (cur s) = c0) -> (length (lastp s) = length ms /\ com ms (lastp s) = c0) ->
  com ms (cur (crun (fun old new => if Nat.eqb (length new) (length ms) then fixcom_adjust ms old new else old) ops s)) = c0.
Proof.
  intros N s A B.
  pose proof (crun_inv (fun old new => if Nat.eqb (length new) (length ms) then fixcom_adjust ms old new else old)
                (fun xs => length xs = length ms /\ com ms xs = c0)) as H.
  assert (forall old new, (length old = length ms /\ com ms old = c0) ->
            (length (if Nat.eqb (length new) (length ms) then fixcom_adjust ms old new else old) = length ms /\
             com ms (if Nat.eqb (length new) (length ms) then fixcom_adjust ms old new else old) = c0)) as K.
  { intros old new [L F]. destruct (Nat.eqb (length new) (length ms)) eqn:E; [|split; assumption].
    apply Nat.eqb_eq in E. split; [rewrite fixcom_length; assumption|]. rewrite fixcom_keeps_com by (auto; lia). assumption. }
  destruct (H K ops s A B) as [[_ R] _]. exact R.
Qed.

(* ---------------- FixRot *)
Lemma cross_lin_l a b c : cross (vadd a b) c = vadd (cross a c) (cross b c).
Proof. apply v3_eq; simpl; ring. Qed.
(* sum_i m_i r_i x (omega x r_i) = I omega *)
Lemma triple_sum omega : forall ms rs, length ms = length rs ->
  angmom rs (map (fun mr => vscale (fst mr) (cross omega (snd mr))) (combine ms rs)) = mapply (inertia ms rs) omega.
Proof.
  induction ms as [|m ms IH]; intros [|r rs] L; try discriminate.
  - apply v3_eq; simpl; ring.
  - cbn [combine map angmom inertia fst snd]. rewrite IH by (simpl in L; lia). apply v3_eq; simpl; ring.
Qed.
Lemma angmom_fixrot omega : forall ms rs ps, length ms = length rs -> length rs = length ps ->
  angmom rs (fixrot_go omega ms rs ps) = vsub (angmom rs ps) (mapply (inertia ms rs) omega).
Proof.
  induction ms as [|m ms IH]; intros [|r rs] [|p ps] L1 L2; try discriminate.
  - apply v3_eq; simpl; ring.
  - cbn [fixrot_go angmom inertia]. rewrite IH by (simpl in *; lia). apply v3_eq; simpl; ring.
Qed.
(* zero total angular momentum afterwards, whenever omega solves I omega = L (the code computes omega = I^-1 L) *)
Theorem fixrot_zero_L omega ms rs ps : length ms = length rs -> length rs = length ps ->
  mapply (inertia ms rs) omega = angmom rs ps -> angmom rs (fixrot_go omega ms rs ps) = vzero.
Proof. intros L1 L2 H. rewrite angmom_fixrot by assumption. rewrite H. apply v3_eq; simpl; ring. Qed.
(* total linear momentum unchanged, because positions are taken relative to the centre of mass: sum m_i r_i = 0 *)
Lemma sum_fixrot omega : forall ms rs ps, length ms = length rs -> length rs = length ps ->
  sumv (fixrot_go omega ms rs ps) = vsub (sumv ps) (cross omega (wsum ms rs)).
Proof.
  induction ms as [|m ms IH]; intros [|r rs] [|p ps] L1 L2; try discriminate.
  - apply v3_eq; simpl; ring.
  - cbn [fixrot_go sumv fold_right wsum]. fold (sumv (fixrot_go omega ms rs ps)). fold (sumv ps).
    rewrite IH by (simpl in *; lia). apply v3_eq; simpl; ring.
Qed.
Lemma wsum_rel_com ms xs : length ms = length xs -> summ ms <> 0 -> wsum ms (rel_com ms xs) = vzero.
Proof.
  intros L N. unfold rel_com.
  assert (forall c ms xs, length ms = length xs -> wsum ms (map (fun x => vsub x c) xs) = vsub (wsum ms xs) (vscale (summ ms) c)) as G.
  { intro c. induction ms0 as [|m ms0 IH]; intros [|x xs0] L0; try discriminate.
    - apply v3_eq; simpl; ring.
    - cbn [map wsum summ fold_right]. fold (summ ms0). rewrite IH by (simpl in L0; lia). apply v3_eq; simpl; ring. }
  rewrite G by assumption. unfold com. apply v3_eq; simpl; field; assumption.
Qed.
Theorem fixrot_keeps_P omega ms xs ps : length ms = length xs -> length xs = length ps -> summ ms <> 0 ->
  sumv (fixrot_go omega ms (rel_com ms xs) ps) = sumv ps.
Proof.
  intros L1 L2 N. rewrite sum_fixrot by (unfold rel_com; rewrite ?map_length; assumption).
  rewrite wsum_rel_com by assumption. apply v3_eq; simpl; ring.
Qed.

(* ================= FixRot: the angular velocity exists (and is unique) for every non-collinear geometry ================= *)
Definition dot (a b : v3) : R := vx a * vx b + vy a * vy b + vz a * vz b.
Definition qf (A : m3) (v : v3) : R := dot v (mapply A v).
Definition msym (A : m3) : Prop := a01 A = a10 A /\ a02 A = a20 A /\ a12 A = a21 A.

(* ---- the quadratic form of the inertia tensor: v . I v = sum_i m_i |r_i x v|^2 *)
Lemma inertia1_qf m r v : qf (inertia1 m r) v = m * norm2 (cross r v).
Proof. unfold qf, dot, norm2. simpl. ring. Qed.
Lemma qf_madd A B v : qf (madd A B) v = qf A v + qf B v.
Proof. unfold qf, dot. simpl. ring. Qed.
Lemma qf_mzero v : qf mzero v = 0.
Proof. unfold qf, dot. simpl. ring. Qed.
Fixpoint sum_cross (ms : list R) (rs : list v3) (v : v3) : R :=
  match ms, rs with m :: ms', r :: rs' => m * norm2 (cross r v) + sum_cross ms' rs' v | _, _ => 0 end.
Lemma inertia_qf : forall ms rs v, qf (inertia ms rs) v = sum_cross ms rs v.
Proof.
  induction ms as [|m ms IH]; intros [|r rs] v; cbn [inertia sum_cross]; try apply qf_mzero.
  rewrite qf_madd, inertia1_qf, IH. reflexivity.
Qed.
Lemma inertia_sym : forall ms rs, msym (inertia ms rs).
Proof.
  induction ms as [|m ms IH]; intros [|r rs]; cbn [inertia]; try (repeat split; reflexivity).
  destruct (IH rs) as (A & B & C). unfold msym. simpl. rewrite A, B, C. repeat split; ring.
Qed.

Lemma norm2_nonneg a : 0 <= norm2 a.
Proof. unfold norm2. nra. Qed.
Lemma norm2_zero a : norm2 a = 0 -> a = vzero.
Proof. unfold norm2. intro H. apply v3_eq; simpl; nra. Qed.

(* two vectors parallel to a common non-zero vector are parallel to each other *)
Lemma parallel_trans a b v : v <> vzero -> cross a v = vzero -> cross b v = vzero -> cross a b = vzero.
Proof.
  intros Hv Ha Hb.
  assert (norm2 v <> 0) as Hn by (intro E; apply Hv, norm2_zero, E).
  (* |v|^2 a = (a.v) v  when a x v = 0 *)
  assert (forall c, cross c v = vzero -> vscale (norm2 v) c = vscale (dot c v) v) as G.
  { intros c Hc. injection Hc as C1 C2 C3. apply v3_eq; unfold norm2, dot; simpl.
    - replace ((vx v * vx v + vy v * vy v + vz v * vz v) * vx c) with
        ((vx c * vx v + vy c * vy v + vz c * vz v) * vx v + vy v * (vx c * vy v - vy c * vx v) - vz v * (vz c * vx v - vx c * vz v)) by ring.
      rewrite C3, C2. ring.
    - replace ((vx v * vx v + vy v * vy v + vz v * vz v) * vy c) with
        ((vx c * vx v + vy c * vy v + vz c * vz v) * vy v + vz v * (vy c * vz v - vz c * vy v) - vx v * (vx c * vy v - vy c * vx v)) by ring.
      rewrite C1, C3. ring.
    - replace ((vx v * vx v + vy v * vy v + vz v * vz v) * vz c) with
        ((vx c * vx v + vy c * vy v + vz c * vz v) * vz v + vx v * (vz c * vx v - vx c * vz v) - vy v * (vy c * vz v - vz c * vy v)) by ring.
      rewrite C2, C1. ring. }
  pose proof (G a Ha) as Ea. pose proof (G b Hb) as Eb.
  injection Ea as A1 A2 A3. injection Eb as B1 B2 B3.
  apply v3_eq; simpl.
  - apply Rmult_eq_reg_l with (r := norm2 v * norm2 v); [|nra].
    replace (norm2 v * norm2 v * (vy a * vz b - vz a * vy b)) with ((norm2 v * vy a) * (norm2 v * vz b) - (norm2 v * vz a) * (norm2 v * vy b)) by ring.
    rewrite A2, A3, B2, B3. ring.
  - apply Rmult_eq_reg_l with (r := norm2 v * norm2 v); [|nra].
    replace (norm2 v * norm2 v * (vz a * vx b - vx a * vz b)) with ((norm2 v * vz a) * (norm2 v * vx b) - (norm2 v * vx a) * (norm2 v * vz b)) by ring.
    rewrite A1, A3, B1, B3. ring.
  - apply Rmult_eq_reg_l with (r := norm2 v * norm2 v); [|nra].
    replace (norm2 v * norm2 v * (vx a * vy b - vy a * vx b)) with ((norm2 v * vx a) * (norm2 v * vy b) - (norm2 v * vy a) * (norm2 v * vx b)) by ring.
    rewrite A1, A2, B1, B2. ring.
Qed.

Lemma sum_cross_nonneg : forall ms rs v, Forall (fun m => 0 < m) ms -> 0 <= sum_cross ms rs v.
Proof.
  induction ms as [|m ms IH]; intros [|r rs] v F; cbn [sum_cross]; try lra.
  inversion F as [|? ? Hm F']; subst. pose proof (norm2_nonneg (cross r v)). specialize (IH rs v F'). nra.
Qed.
Lemma sum_cross_zero : forall ms rs v, Forall (fun m => 0 < m) ms -> length ms = length rs -> sum_cross ms rs v = 0 ->
  forall r, In r rs -> cross r v = vzero.
Proof.
  induction ms as [|m ms IH]; intros [|r rs] v F L H x Hx; try discriminate; [destruct Hx|].
  inversion F as [|? ? Hm F']; subst. cbn [sum_cross] in H.
  pose proof (norm2_nonneg (cross r v)). pose proof (sum_cross_nonneg ms rs v F').
  destruct Hx as [->|Hx].
  - apply norm2_zero. nra.
  - apply (IH rs v F'); [simpl in L; lia|nra|exact Hx].
Qed.

(* positive masses, two positions (relative to the centre of mass) that are not parallel: the inertia tensor is positive definite *)
Theorem inertia_pd ms rs r1 r2 : Forall (fun m => 0 < m) ms -> length ms = length rs -> In r1 rs -> In r2 rs -> cross r1 r2 <> vzero ->
  forall v, v <> vzero -> 0 < qf (inertia ms rs) v.
Proof.
  intros F L H1 H2 NC v Hv. rewrite inertia_qf. pose proof (sum_cross_nonneg ms rs v F) as P.
  destruct (Req_dec (sum_cross ms rs v) 0) as [Z|NZ]; [|lra].
  exfalso. apply NC. apply (parallel_trans r1 r2 v Hv); apply (sum_cross_zero ms rs v F L Z); assumption.
Qed.

(* ---- a symmetric positive-definite 3x3 matrix has a positive determinant (leading minors), hence I omega = L is solvable (Cramer) *)
Lemma pd_det_pos A : msym A -> (forall v, v <> vzero -> 0 < qf A v) -> 0 < mdet A.
Proof.
  intros (S1 & S2 & S3) PD.
  assert (0 < a00 A) as H0.
  { specialize (PD (V3 1 0 0)). unfold qf, dot in PD. simpl in PD. assert (V3 1 0 0 <> vzero) by (intro E; injection E; lra). specialize (PD H). lra. }
  set (m2 := a00 A * a11 A - a01 A * a01 A).
  assert (0 < m2) as H1.
  { specialize (PD (V3 (a01 A) (- a00 A) 0)). assert (V3 (a01 A) (- a00 A) 0 <> vzero) as NZ by (intro E; injection E; lra).
    specialize (PD NZ). unfold qf, dot in PD. simpl in PD. unfold m2.
    assert (a01 A * (a00 A * a01 A + a01 A * - a00 A + a02 A * 0) + - a00 A * (a10 A * a01 A + a11 A * - a00 A + a12 A * 0) + 0 * (a20 A * a01 A + a21 A * - a00 A + a22 A * 0)
            = a00 A * (a00 A * a11 A - a01 A * a01 A)) as E by (rewrite <- S1; ring).
    rewrite E in PD. nra. }
  set (w := V3 (a01 A * a12 A - a02 A * a11 A) (a02 A * a01 A - a00 A * a12 A) m2).
  assert (w <> vzero) as NZ by (intro E; injection E; intros; lra).
  specialize (PD w NZ).
  assert (qf A w = m2 * mdet A) as E.
  { unfold qf, dot, w, m2, mdet. simpl. rewrite <- S1, <- S2, <- S3. ring. }
  rewrite E in PD. nra.
Qed.

Definition madj (A : m3) : m3 :=
  M3 (a11 A * a22 A - a12 A * a21 A) (a02 A * a21 A - a01 A * a22 A) (a01 A * a12 A - a02 A * a11 A)
     (a12 A * a20 A - a10 A * a22 A) (a00 A * a22 A - a02 A * a20 A) (a02 A * a10 A - a00 A * a12 A)
     (a10 A * a21 A - a11 A * a20 A) (a01 A * a20 A - a00 A * a21 A) (a00 A * a11 A - a01 A * a10 A).
Definition msolve (A : m3) (b : v3) : v3 := vscale (/ mdet A) (mapply (madj A) b).
Lemma msolve_solves A b : mdet A <> 0 -> mapply A (msolve A b) = b.
Proof. intro D. unfold msolve. apply v3_eq; unfold mdet in *; simpl; field; exact D. Qed.
Lemma msolve_unique A b x : mdet A <> 0 -> mapply A x = b -> x = msolve A b.
Proof.
  intros D E. subst b. unfold msolve. apply v3_eq; unfold mdet in *; simpl; field; exact D.
Qed.

(* FixRot for ANY non-collinear geometry, any positive masses, any momenta: the angular velocity the code solves for exists, is unique,
   and removing omega x r leaves zero total angular momentum *)
Theorem fixrot_any_noncollinear ms rs ps r1 r2 : Forall (fun m => 0 < m) ms -> length ms = length rs -> length rs = length ps ->
  In r1 rs -> In r2 rs -> cross r1 r2 <> vzero ->
  exists omega, mapply (inertia ms rs) omega = angmom rs ps /\ (forall o', mapply (inertia ms rs) o' = angmom rs ps -> o' = omega) /\
                angmom rs (fixrot_go omega ms rs ps) = vzero.
Proof.
  intros F L1 L2 H1 H2 NC.
  assert (0 < mdet (inertia ms rs)) as D by (apply pd_det_pos; [apply inertia_sym|apply (inertia_pd ms rs r1 r2); assumption]).
  exists (msolve (inertia ms rs) (angmom rs ps)).
  assert (mapply (inertia ms rs) (msolve (inertia ms rs) (angmom rs ps)) = angmom rs ps) as S by (apply msolve_solves; lra).
  split; [exact S|]. split; [intros o' Ho; apply msolve_unique; [lra|exact Ho]|].
  apply fixrot_zero_L; assumption.
Qed.
Example noncollinear_example : cross (V3 1 0 0) (V3 0 1 0) <> vzero.
Proof. intro E. injection E. intros. lra. Qed.
