From QV Require Import Model.Constraints Proofs.OpsProofs.
From Coq Require Import Lra Lia.

(* ---------------- FixAtoms: a fixed row keeps its old value, whatever is proposed *)
Lemma fixatoms_fixed fixed : forall old new i, length old = length fixed -> length new = length fixed ->
  nth i fixed false = true -> nth i (fixatoms_adjust fixed old new) vzero = nth i old vzero.
Proof.
  induction fixed as [|f fs IH]; intros old new i Lo Ln H; [destruct i; discriminate|].
  destruct old as [|o os]; [discriminate|]. destruct new as [|n ns]; [discriminate|].
  destruct i as [|i]; simpl in *.
  - rewrite H. reflexivity.
  - apply IH; auto.
Qed.
Lemma fixatoms_free fixed : forall old new i, length old = length fixed -> length new = length fixed ->
  nth i fixed false = false -> nth i (fixatoms_adjust fixed old new) vzero = nth i new vzero.
Proof.
  induction fixed as [|f fs IH]; intros old new i Lo Ln H; [reflexivity|].
  destruct old as [|o os]; [discriminate|]. destruct new as [|n ns]; [discriminate|].
  destruct i as [|i]; simpl in *.
  - rewrite H. reflexivity.
  - apply IH; auto.
Qed.
Lemma fixatoms_length fixed : forall old new, length old = length fixed -> length new = length fixed ->
  length (fixatoms_adjust fixed old new) = length fixed.
Proof.
  induction fixed as [|f fs IH]; intros old new Lo Ln; [destruct new; [reflexivity|discriminate]|].
  destruct old as [|o os]; [discriminate|]. destruct new as [|n ns]; [discriminate|]. simpl in *. f_equal. apply IH; lia.
Qed.

(* ---------------- FixCom: the centre of mass of the adjusted positions is the old one *)
Lemma wsum_map_add d : forall ms ps, length ms = length ps -> wsum ms (map (vadd d) ps) = vadd (vscale (summ ms) d) (wsum ms ps).
Proof.
  induction ms as [|m ms IH]; intros [|p ps] L; try discriminate.
  - apply v3_eq; simpl; ring.
  - cbn [map wsum summ fold_right]. fold (summ ms). rewrite IH by (simpl in L; lia). apply v3_eq; simpl; ring.
Qed.
Lemma com_shift d ms ps : length ms = length ps -> summ ms <> 0 -> com ms (map (vadd d) ps) = vadd d (com ms ps).
Proof. intros L N. unfold com. rewrite wsum_map_add by assumption. apply v3_eq; simpl; field; assumption. Qed.
Lemma fixcom_keeps_com ms old new : length ms = length new -> summ ms <> 0 -> com ms (fixcom_adjust ms old new) = com ms old.
Proof. intros L N. unfold fixcom_adjust. rewrite com_shift by assumption. apply v3_eq; simpl; ring. Qed.
Lemma fixcom_length ms old new : length (fixcom_adjust ms old new) = length new.
Proof. unfold fixcom_adjust. apply map_length. Qed.

(* FixCom.adjust_momenta: zero total momentum afterwards *)
Lemma fixcom_momenta_go_sum v : forall ms ps, length ms = length ps ->
  sumv (fixcom_momenta_go v ms ps) = vsub (sumv ps) (vscale (summ ms) v).
Proof.
  induction ms as [|m ms IH]; intros [|p ps] L; try discriminate.
  - apply v3_eq; simpl; ring.
  - cbn [fixcom_momenta_go sumv fold_right summ]. fold (sumv (fixcom_momenta_go v ms ps)). fold (sumv ps). fold (summ ms).
    rewrite IH by (simpl in L; lia). apply v3_eq; simpl; ring.
Qed.
Lemma fixcom_momenta_zero ms ps : length ms = length ps -> summ ms <> 0 -> sumv (fixcom_momenta ms ps) = vzero.
Proof. intros L N. unfold fixcom_momenta. rewrite fixcom_momenta_go_sum by assumption. apply v3_eq; simpl; field; assumption. Qed.

(* ---------------- any history of proposals / acceptances / rejections *)
Section History.
  Variable adjust : list v3 -> list v3 -> list v3.
  Variable Inv : list v3 -> Prop.                       (* what the constraint conserves, relative to the start *)
  Hypothesis adjust_keeps : forall old new, Inv old -> Inv (adjust old new).
  Lemma cstep_inv s o : Inv (cur s) -> Inv (lastp s) -> Inv (cur (cstep adjust s o)) /\ Inv (lastp (cstep adjust s o)).
  Proof. intros A B. destruct o; simpl; split; auto. Qed.
  Theorem crun_inv ops : forall s, Inv (cur s) -> Inv (lastp s) -> Inv (cur (crun adjust ops s)) /\ Inv (lastp (crun adjust ops s)).
  Proof.
    unfold crun. induction ops as [|o ops IH]; intros s A B; simpl; [split; assumption|].
    destruct (cstep_inv s o A B) as [A' B']. apply IH; assumption.
  Qed.
End History.

(* instances: fixed atoms never move; a fixed centre of mass never drifts - for every history and every proposal *)
Theorem fixed_never_move fixed x0 ops : forall s,
  (length (cur s) = length fixed /\ forall i, nth i fixed false = true -> nth i (cur s) vzero = nth i x0 vzero) ->
  (length (lastp s) = length fixed /\ forall i, nth i fixed false = true -> nth i (lastp s) vzero = nth i x0 vzero) ->
  forall i, nth i fixed false = true ->
    nth i (cur (crun (fun old new => if Nat.eqb (length new) (length fixed) then fixatoms_adjust fixed old new else old) ops s)) vzero = nth i x0 vzero.
Proof.
  intros s A B.
  pose proof (crun_inv (fun old new => if Nat.eqb (length new) (length fixed) then fixatoms_adjust fixed old new else old)
                (fun xs => length xs = length fixed /\ forall i, nth i fixed false = true -> nth i xs vzero = nth i x0 vzero)) as H.
  assert (forall old new, (length old = length fixed /\ forall i, nth i fixed false = true -> nth i old vzero = nth i x0 vzero) ->
            (length (if Nat.eqb (length new) (length fixed) then fixatoms_adjust fixed old new else old) = length fixed /\
             forall i, nth i fixed false = true -> nth i (if Nat.eqb (length new) (length fixed) then fixatoms_adjust fixed old new else old) vzero = nth i x0 vzero)) as K.
  { intros old new [L F]. destruct (Nat.eqb (length new) (length fixed)) eqn:E; [|split; assumption].
    apply Nat.eqb_eq in E. split; [now apply fixatoms_length|]. intros i Hi. rewrite fixatoms_fixed by assumption. now apply F. }
  destruct (H K ops s A B) as [[_ R] _]. exact R.
Qed.
Theorem com_never_drifts ms c0 ops : summ ms <> 0 -> forall s,
  (length (cur s) = length ms /\ com ms (cur s) = c0) -> (length (lastp s) = length ms /\ com ms (lastp s) = c0) ->
  com ms (cur (crun (fun old new => if Nat.eqb (length new) (length ms) then fixcom_adjust ms old new else old) ops s)) = c0.
Proof.
  intros N s A B.
  pose proof (crun_inv (fun old new => if Nat.eqb (length new) (length ms) then fixcom_adjust ms old new else old)
                (fun xs => length xs = length ms /\ com ms xs = c0)) as H.
  assert (forall old new, (length old = length ms /\ com ms old = c0) ->
            (length (if Nat.eqb (length new) (length ms) then fixcom_adjust ms old new else old) = length ms /\
             com ms (if Nat.eqb (length new) (length ms) then fixcom_adjust ms old new else old) = c0)) as K.
  { intros old new [L F]. destruct (Nat.eqb (length new) (length ms)) eqn:E; [|split; assumption].
    apply Nat.eqb_eq in E. split; [rewrite fixcom_length; assumption|]. rewrite fixcom_keeps_com by (auto; lia). assumption. }
  destruct (H K ops s A B) as [[_ R] _]. exact R.
Qed.

(* ---------------- FixRot *)
Lemma cross_lin_l a b c : cross (vadd a b) c = vadd (cross a c) (cross b c).
Proof. apply v3_eq; simpl; ring. Qed.
(* sum_i m_i r_i x (omega x r_i) = I omega *)
Lemma triple_sum omega : forall ms rs, length ms = length rs ->
  angmom rs (map (fun mr => vscale (fst mr) (cross omega (snd mr))) (combine ms rs)) = mapply (inertia ms rs) omega.
Proof.
  induction ms as [|m ms IH]; intros [|r rs] L; try discriminate.
  - apply v3_eq; simpl; ring.
  - cbn [combine map angmom inertia fst snd]. rewrite IH by (simpl in L; lia). apply v3_eq; simpl; ring.
Qed.
Lemma angmom_fixrot omega : forall ms rs ps, length ms = length rs -> length rs = length ps ->
  angmom rs (fixrot_go omega ms rs ps) = vsub (angmom rs ps) (mapply (inertia ms rs) omega).
Proof.
  induction ms as [|m ms IH]; intros [|r rs] [|p ps] L1 L2; try discriminate.
  - apply v3_eq; simpl; ring.
  - cbn [fixrot_go angmom inertia]. rewrite IH by (simpl in *; lia). apply v3_eq; simpl; ring.
Qed.
(* zero total angular momentum afterwards, whenever omega solves I omega = L (the code computes omega = I^-1 L) *)
Theorem fixrot_zero_L omega ms rs ps : length ms = length rs -> length rs = length ps ->
  mapply (inertia ms rs) omega = angmom rs ps -> angmom rs (fixrot_go omega ms rs ps) = vzero.
Proof. intros L1 L2 H. rewrite angmom_fixrot by assumption. rewrite H. apply v3_eq; simpl; ring. Qed.
(* total linear momentum unchanged, because positions are taken relative to the centre of mass: sum m_i r_i = 0 *)
Lemma sum_fixrot omega : forall ms rs ps, length ms = length rs -> length rs = length ps ->
  sumv (fixrot_go omega ms rs ps) = vsub (sumv ps) (cross omega (wsum ms rs)).
Proof.
  induction ms as [|m ms IH]; intros [|r rs] [|p ps] L1 L2; try discriminate.
  - apply v3_eq; simpl; ring.
  - cbn [fixrot_go sumv fold_right wsum]. fold (sumv (fixrot_go omega ms rs ps)). fold (sumv ps).
    rewrite IH by (simpl in *; lia). apply v3_eq; simpl; ring.
Qed.
Lemma wsum_rel_com ms xs : length ms = length xs -> summ ms <> 0 -> wsum ms (rel_com ms xs) = vzero.
Proof.
  intros L N. unfold rel_com.
  assert (forall c ms xs, length ms = length xs -> wsum ms (map (fun x => vsub x c) xs) = vsub (wsum ms xs) (vscale (summ ms) c)) as G.
  { intro c. induction ms0 as [|m ms0 IH]; intros [|x xs0] L0; try discriminate.
    - apply v3_eq; simpl; ring.
    - cbn [map wsum summ fold_right]. fold (summ ms0). rewrite IH by (simpl in L0; lia). apply v3_eq; simpl; ring. }
  rewrite G by assumption. unfold com. apply v3_eq; simpl; field; assumption.
Qed.
Theorem fixrot_keeps_P omega ms xs ps : length ms = length xs -> length xs = length ps -> summ ms <> 0 ->
  sumv (fixrot_go omega ms (rel_com ms xs) ps) = sumv ps.
Proof.
  intros L1 L2 N. rewrite sum_fixrot by (unfold rel_com; rewrite ?map_length; assumption).
  rewrite wsum_rel_com by assumption. apply v3_eq; simpl; ring.
Qed.
