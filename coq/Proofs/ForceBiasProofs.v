(* C13 proofs (algebraic part): the trial probability is the Bal-Neyts density, lies in [0,1], favours the force;
   displacement bound; clip range; rejection-loop bookkeeping. *)
From QV Require Import Model.ForceBias.
From Coq Require Import Lra Lia.

Lemma exp_le a b : a <= b -> exp a <= exp b.
Proof. intros [H| ->]; [left; now apply exp_increasing|right; reflexivity]. Qed.

Lemma den_zero_iff g : den g = 0 <-> g = 0.
Proof.
  unfold den. split.
  - intro H. assert (exp g = exp (- g)) as E by lra. apply exp_inv in E. lra.
  - intros ->. rewrite Ropp_0. lra.
Qed.

Lemma den_pos g : 0 < g -> 0 < den g.
Proof. intro H. unfold den. assert (- g < g) as L by lra. apply exp_increasing in L. lra. Qed.
Lemma den_neg g : g < 0 -> den g < 0.
Proof. intro H. unfold den. assert (g < - g) as L by lra. apply exp_increasing in L. lra. Qed.

Lemma sgn_pos z : 0 < z -> sgn z = 1.
Proof. intro H. unfold sgn. destruct (Rlt_dec 0 z); [reflexivity|lra]. Qed.
Lemma sgn_neg z : z < 0 -> sgn z = -1.
Proof. intro H. unfold sgn. destruct (Rlt_dec 0 z); [lra|]. destruct (Rlt_dec z 0); [reflexivity|lra]. Qed.
Lemma sgn_zero : sgn 0 = 0.
Proof. unfold sgn. destruct (Rlt_dec 0 0); [lra|reflexivity]. Qed.

(* the published force-biased density (Bal & Neyts), both branches *)
Lemma P_plus z g : g <> 0 -> 0 < z -> P z g = (exp g - exp (g * (2 * z - 1))) / den g.
Proof.
  intros Hg Hz. unfold P. destruct (Req_EM_T (den g) 0) as [E|E]; [exfalso; apply Hg; now apply den_zero_iff|].
  rewrite sgn_pos by assumption. rewrite !Rmult_1_l. reflexivity.
Qed.

Lemma P_minus z g : g <> 0 -> z < 0 -> P z g = (exp (g * (2 * z + 1)) - exp (- g)) / den g.
Proof.
  intros Hg Hz. unfold P. destruct (Req_EM_T (den g) 0) as [E|E]; [exfalso; apply Hg; now apply den_zero_iff|].
  rewrite sgn_neg by assumption. replace (-1 * g) with (- g) by ring. replace (2 * z - -1) with (2 * z + 1) by ring.
  unfold Rdiv. ring.
Qed.

Lemma P_at_zero_force z : P z 0 = 1.
Proof. unfold P. destruct (Req_EM_T (den 0) 0) as [E|E]; [reflexivity|]. exfalso. apply E. now apply den_zero_iff. Qed.

Lemma exp_between_pos g t : 0 <= g -> -1 <= t <= 1 -> exp (- g) <= exp (g * t) <= exp g.
Proof. intros Hg Ht. split; apply exp_le; nra. Qed.
Lemma exp_between_neg g t : g <= 0 -> -1 <= t <= 1 -> exp g <= exp (g * t) <= exp (- g).
Proof. intros Hg Ht. split; apply exp_le; nra. Qed.

Lemma ratio01_pos n d : 0 < d -> 0 <= n <= d -> 0 <= n / d <= 1.
Proof.
  intros Hd Hn. pose proof (Rinv_0_lt_compat _ Hd) as Hi. unfold Rdiv. split; [nra|].
  apply Rmult_le_reg_r with (r := d); [assumption|]. rewrite Rmult_assoc, Rinv_l by lra. lra.
Qed.
Lemma ratio01_neg n d : d < 0 -> d <= n <= 0 -> 0 <= n / d <= 1.
Proof.
  intros Hd Hn. replace (n / d) with ((- n) / (- d)) by (field; lra). apply ratio01_pos; lra.
Qed.

(* 0 <= P <= 1 on [-1,1] for every gamma: rejection sampling against a uniform envelope is valid *)
Lemma P_range z g : -1 <= z <= 1 -> 0 <= P z g <= 1.
Proof.
  intro Hz. destruct (Req_dec g 0) as [->|Hg]; [rewrite P_at_zero_force; lra|].
  destruct (Rtotal_order z 0) as [Zn|[->|Zp]].
  - rewrite P_minus by assumption. destruct (Rtotal_order g 0) as [Gn|[G0|Gp]]; [|contradiction|].
    + apply ratio01_neg; [now apply den_neg|]. unfold den.
      pose proof (exp_between_neg g (2 * z + 1) (Rlt_le _ _ Gn)). lra.
    + apply ratio01_pos; [now apply den_pos|]. unfold den.
      pose proof (exp_between_pos g (2 * z + 1) (Rlt_le _ _ Gp)). lra.
  - unfold P. destruct (Req_EM_T (den g) 0); [lra|]. rewrite sgn_zero. unfold Rdiv. rewrite !Rmult_0_l. lra.
  - rewrite P_plus by assumption. destruct (Rtotal_order g 0) as [Gn|[G0|Gp]]; [|contradiction|].
    + apply ratio01_neg; [now apply den_neg|]. unfold den.
      pose proof (exp_between_neg g (2 * z - 1) (Rlt_le _ _ Gn)). lra.
    + apply ratio01_pos; [now apply den_pos|]. unfold den.
      pose proof (exp_between_pos g (2 * z - 1) (Rlt_le _ _ Gp)). lra.
Qed.

(* displacement along the force is favoured: P(z) >= P(-z) for z on the side of the force *)
Lemma cosh_like a b : b <= a -> 0 <= a + b -> exp b + exp (- b) <= exp a + exp (- a).
Proof.
  intros H1 H2.
  assert ((exp a - exp b) * (1 - exp (- a) * exp (- b)) = exp a + exp (- a) - exp b - exp (- b)) as Id.
  { rewrite !exp_Ropp. pose proof (exp_pos a). pose proof (exp_pos b). field. split; lra. }
  assert (0 <= exp a - exp b) by (pose proof (exp_le _ _ H1); lra).
  assert (exp (- a) * exp (- b) <= 1).
  { rewrite <- exp_plus. rewrite <- exp_0. apply exp_le. lra. }
  nra.
Qed.

Lemma favours_force_pos z g : 0 < g -> 0 < z <= 1 -> P (- z) g <= P z g.
Proof.
  intros Hg Hz. rewrite (P_plus z g), (P_minus (- z) g) by lra. pose proof (den_pos g Hg) as D.
  apply Rmult_le_compat_r; [left; now apply Rinv_0_lt_compat|].
  pose proof (cosh_like g (g * (2 * z - 1))) as C.
  replace (g * (2 * - z + 1)) with (- (g * (2 * z - 1))) by ring.
  assert (g * (2 * z - 1) <= g) by nra. assert (0 <= g + g * (2 * z - 1)) by nra. lra.
Qed.

Lemma favours_force_neg z g : g < 0 -> 0 < z <= 1 -> P z g <= P (- z) g.
Proof.
  intros Hg Hz. rewrite (P_plus z g), (P_minus (- z) g) by lra. pose proof (den_neg g Hg) as D.
  replace (g * (2 * - z + 1)) with (- (g * (2 * z - 1))) by ring.
  pose proof (cosh_like (- g) (g * (2 * z - 1))) as C. rewrite Ropp_involutive in C.
  assert (g * (2 * z - 1) <= - g) by nra. assert (0 <= - g + g * (2 * z - 1)) by nra.
  assert (/ den g < 0) as Hi by (apply Rinv_lt_0_compat; lra). unfold Rdiv. nra.
Qed.

(* clip keeps gamma inside [-gmax, gmax]; hence every exponential the code forms is at most exp gmax *)
Lemma clip_range x m : 0 <= m -> - m <= clip x m <= m.
Proof.
  intro H. unfold clip. split; [apply Rmax_l|]. apply Rmax_lub; [lra|apply Rmin_r].
Qed.

Lemma no_overflow_l g z m : - m <= g <= m -> -1 <= z <= 1 ->
  exp (sgn z * g) <= exp m /\ exp (g * (2 * z - sgn z)) <= exp m /\ exp g <= exp m /\ exp (- g) <= exp m.
Proof.
  intros Hg Hz. repeat split; apply exp_le; try lra.
  - unfold sgn. destruct (Rlt_dec 0 z); [lra|]. destruct (Rlt_dec z 0); lra.
  - unfold sgn. destruct (Rlt_dec 0 z); [nra|]. destruct (Rlt_dec z 0); nra.
Qed.

(* every Cartesian displacement component is bounded by delta * (m_min/m)^p *)
Lemma disp_bound z delta scale : -1 <= z <= 1 -> 0 <= delta -> 0 <= scale -> Rabs (disp z delta scale) <= delta * scale.
Proof.
  intros Hz Hd Hs. unfold disp. apply Rabs_le. assert (0 <= delta * scale) by nra. nra.
Qed.

(* ------------- rejection loop bookkeeping ------------- *)
Definition accepted (verdict : nat -> nat -> bool) (s : slot) : Prop := verdict (fst s) (snd s) = true.

Lemma fbloop_all_accepted fuel verdict : forall cur consumed out n,
  fbloop fuel verdict cur consumed = Some (out, n) -> Forall (accepted verdict) out /\ length out = length cur.
Proof.
  induction fuel as [|f IH]; intros cur consumed out n; simpl.
  - destruct (forallb (fun b => b) (map (fun s => verdict (fst s) (snd s)) cur)) eqn:E; [|discriminate].
    intro H; inversion H; subst. split; [|reflexivity]. apply Forall_forall. intros s Hs.
    rewrite forallb_forall in E. apply E. apply in_map_iff. now exists s.
  - destruct (forallb (fun b => b) (map (fun s => verdict (fst s) (snd s)) cur)) eqn:E.
    + intro H; inversion H; subst. split; [|reflexivity]. apply Forall_forall. intros s Hs.
      rewrite forallb_forall in E. apply E. apply in_map_iff. now exists s.
    + intro H. apply IH in H. destruct H as [H L]. split; [assumption|]. rewrite L.
      clear. generalize consumed as nx. generalize (count_false (map (fun s => verdict (fst s) (snd s)) cur)) as k.
      induction cur as [|x xs IHc]; intros k nx; simpl; [reflexivity|].
      destruct (verdict (fst x) (snd x)); simpl; now rewrite IHc.
Qed.

(* a converged coordinate keeps its (zeta, u): it is never redrawn *)
Lemma refill_keeps conv cur next k i s :
  nth_error conv i = Some true -> nth_error cur i = Some s -> nth_error (refill conv cur next k) i = Some s.
Proof.
  revert cur next i. induction conv as [|c cs IH]; intros cur next i; [destruct i; discriminate|].
  destruct cur as [|x xs]; [destruct i; discriminate|]. destruct i as [|i]; simpl.
  - intros H1 H2. inversion H1; subst. assumption.
  - intros H1 H2. destruct c; simpl; now apply IH.
Qed.

(* ------------- helpers for the per-case correspondence (which branch of the clip is taken) ------------- *)
Lemma clip_mid x m : - m <= x <= m -> clip x m = x.
Proof. intros [A B]. unfold clip. rewrite Rmin_left by lra. apply Rmax_right. lra. Qed.
Lemma clip_hi x m : 0 <= m -> m <= x -> clip x m = m.
Proof. intros A B. unfold clip. rewrite Rmin_right by lra. apply Rmax_right. lra. Qed.
Lemma clip_lo x m : 0 <= m -> x <= - m -> clip x m = - m.
Proof. intros A B. unfold clip. rewrite Rmin_left by lra. apply Rmax_left. lra. Qed.

Lemma P_zero_zeta g : g <> 0 -> P 0 g = 0.
Proof.
  intro Hg. unfold P. destruct (Req_EM_T (den g) 0) as [E|_]; [exfalso; apply Hg; now apply den_zero_iff|].
  rewrite sgn_zero. unfold Rdiv. ring.
Qed.

(* mass scaling: with p >= 0 and m_min <= m the bound delta*(m_min/m)^p is itself at most delta *)
Lemma scale_range mmin m p : 0 < mmin <= m -> 0 <= p -> 0 < scale_of mmin m p <= 1.
Proof.
  intros [A B] Hp. unfold scale_of, Rpower. split; [apply exp_pos|].
  rewrite <- exp_0. apply exp_le.
  assert (0 < mmin / m <= 1) as [C D].
  { split; [apply Rdiv_lt_0_compat; lra|]. apply Rmult_le_reg_r with (r := m); [lra|].
    unfold Rdiv. rewrite Rmult_assoc, Rinv_l by lra. lra. }
  assert (ln (mmin / m) <= 0).
  { rewrite <- ln_1. destruct D as [D|D]; [left; apply ln_increasing; lra|rewrite D; lra]. }
  nra.
Qed.
Lemma disp_bound_scaled z delta mmin m p : -1 <= z <= 1 -> 0 <= delta -> 0 < mmin <= m -> 0 <= p ->
  Rabs (disp z delta (scale_of mmin m p)) <= delta * scale_of mmin m p <= delta.
Proof.
  intros Hz Hd Hm Hp. pose proof (scale_range mmin m p Hm Hp) as [S1 S2]. split.
  - apply disp_bound; lra.
  - nra.
Qed.
