From QV Require Import Model.Protocol.
From Coq Require Import Lia.

Lemma dedup_nat_nodup l : forall seen, NoDup (dedup_nat l seen) /\ forall x, In x (dedup_nat l seen) -> ~ In x seen.
Proof.
  induction l as [|a t IH]; intro seen; simpl; [split; [constructor|intros x []]|].
  destruct (existsb (Nat.eqb a) seen) eqn:E.
  - apply IH.
  - destruct (IH (a :: seen)) as [N S]. split.
    + constructor; [|exact N]. intro H. apply S in H. apply H. now left.
    + intros x [<-|H].
      * intro H. assert (existsb (Nat.eqb a) seen = true) as C by (apply existsb_exists; exists a; split; [exact H|apply Nat.eqb_refl]). congruence.
      * intro Hs. apply S in H. apply H. now right.
Qed.
Lemma dedup_nat_in l : forall seen x, In x (dedup_nat l seen) <-> In x l /\ ~ In x seen.
Proof.
  induction l as [|a t IH]; intros seen x; simpl; [tauto|].
  destruct (existsb (Nat.eqb a) seen) eqn:E.
  - rewrite IH. apply existsb_exists in E. destruct E as [y [Hy Ey]]. apply Nat.eqb_eq in Ey. subst y.
    split; [tauto|]. intros [[<-|H] N]; [contradiction|tauto].
  - simpl. rewrite IH. simpl.
    assert (~ In a seen) as Na.
    { intro H. assert (existsb (Nat.eqb a) seen = true) as C by (apply existsb_exists; exists a; split; [exact H|apply Nat.eqb_refl]). congruence. }
    split.
    + intros [<-|[H N]]; [tauto|]. split; [tauto|]. intro Hs. apply N. now right.
    + intros [[<-|H] N]; [now left|]. destruct (Nat.eq_dec a x) as [->|D]; [now left|]. right. split; [exact H|]. intros [Q|Q]; [contradiction|contradiction].
Qed.

(* truthy result -> the criteria is consulted next; falsy -> the trial is recorded as not attempted and nothing else happens *)
Theorem truthy_to_criteria gc objs m k ret verdict c : truthy ret = true ->
  exists rest, fst (trial_trace gc objs m k ret verdict c) = ECall m :: EEvaluate k :: rest /\ snd (trial_trace gc objs m k ret verdict c) = Some verdict.
Proof. intro H. unfold trial_trace. rewrite H. eexists. split; reflexivity. Qed.
Theorem falsy_not_attempted gc objs m k ret verdict c : truthy ret = false ->
  trial_trace gc objs m k ret verdict c = ([ECall m], None).
Proof. intro H. unfold trial_trace. now rewrite H. Qed.
(* a rejected trial notifies nobody *)
Theorem rejected_no_notification gc objs m k ret c : fst (trial_trace gc objs m k ret false c) = if truthy ret then [ECall m; EEvaluate k] else [ECall m].
Proof. unfold trial_trace. destruct (truthy ret); reflexivity. Qed.

Definition count_atoms_notif (o : nat) (tr : list event) : nat :=
  length (filter (fun e => match e with EAtomsChanged o' _ _ => Nat.eqb o o' | _ => false end) tr).
Definition count_cell_notif (o : nat) (tr : list event) : nat :=
  length (filter (fun e => match e with ECellChanged o' _ => Nat.eqb o o' | _ => false end) tr).

Lemma count_map_nodup (f : nat -> event) (p : nat -> event -> bool) (l : list nat) o :
  (forall x, p o (f x) = Nat.eqb o x) -> NoDup l -> length (filter (p o) (map f l)) = if existsb (Nat.eqb o) l then 1 else 0.
Proof.
  intros Hp. induction l as [|a t IH]; intro N; simpl; [reflexivity|]. inversion N; subst. rewrite Hp.
  destruct (Nat.eqb_spec o a) as [->|D]; simpl.
  - rewrite IH by assumption. destruct (existsb (Nat.eqb a) t) eqn:E; [|reflexivity].
    apply existsb_exists in E. destruct E as [y [Hy Ey]]. apply Nat.eqb_eq in Ey. subst. contradiction.
  - now apply IH.
Qed.

(* after an accepted trial that changed the atom count, every move object of the table hears about it exactly once, with exactly
   the added / removed indices - however often the object occurs in the table *)
Theorem atoms_notified gc objs m k ret c o : truthy ret = true -> In o objs -> (ch_added c <> [] \/ ch_removed c <> []) ->
  count_atoms_notif o (fst (trial_trace gc objs m k ret true c)) = 1 /\
  forall a r, In (EAtomsChanged o a r) (fst (trial_trace gc objs m k ret true c)) -> a = ch_added c /\ r = ch_removed c.
Proof.
  intros T Hin Hc. unfold trial_trace. rewrite T. cbn [fst]. unfold count_atoms_notif. cbn [filter].
  unfold notifications.
  assert (forall l : list event, (forall e, In e l -> match e with EAtomsChanged _ _ _ => False | _ => True end) ->
            filter (fun e => match e with EAtomsChanged o' _ _ => Nat.eqb o o' | _ => false end) l = []) as Z.
  { induction l as [|e l IH]; intro H; simpl; [reflexivity|]. pose proof (H e (or_introl eq_refl)) as He. destruct e; try contradiction; apply IH; intros; apply H; now right. }
  set (uniq := dedup_nat objs []).
  assert (NoDup uniq) as ND by apply dedup_nat_nodup.
  assert (In o uniq) as Io by (apply dedup_nat_in; split; [exact Hin|intros []]).
  assert (existsb (Nat.eqb o) uniq = true) as Eo by (apply existsb_exists; exists o; split; [exact Io|apply Nat.eqb_refl]).
  destruct (ch_added c) as [|a0 al] eqn:A; [destruct (ch_removed c) as [|r0 rl] eqn:R; [destruct Hc; congruence|]|];
    (split;
     [ rewrite filter_app, app_length, (count_map_nodup _ (fun o e => match e with EAtomsChanged o' _ _ => Nat.eqb o o' | _ => false end)) by (auto; intro; reflexivity);
       rewrite Eo, Z; [reflexivity|]; intros e He; destruct (ch_cell c); [apply in_map_iff in He; destruct He as [x [<- _]]; exact I|destruct He]
     | intros a r [H|[H|H]]; try discriminate; apply in_app_iff in H; destruct H as [H|H];
       [apply in_map_iff in H; destruct H as [x [Hx _]]; inversion Hx; subst; split; reflexivity
       | destruct (ch_cell c); [apply in_map_iff in H; destruct H as [x [Hx _]]; discriminate|destruct H]] ]).
Qed.
Theorem cell_notified gc objs m k ret c o cell : truthy ret = true -> In o objs -> ch_cell c = Some cell ->
  count_cell_notif o (fst (trial_trace gc objs m k ret true c)) = 1 /\
  forall cl, In (ECellChanged o cl) (fst (trial_trace gc objs m k ret true c)) -> cl = cell.
Proof.
  intros T Hin Hc. unfold trial_trace. rewrite T. cbn [fst]. unfold count_cell_notif. cbn [filter].
  unfold notifications. rewrite Hc.
  set (uniq := dedup_nat objs []).
  assert (NoDup uniq) as ND by apply dedup_nat_nodup.
  assert (In o uniq) as Io by (apply dedup_nat_in; split; [exact Hin|intros []]).
  assert (existsb (Nat.eqb o) uniq = true) as Eo by (apply existsb_exists; exists o; split; [exact Io|apply Nat.eqb_refl]).
  assert (forall l : list event, (forall e, In e l -> match e with ECellChanged _ _ => False | _ => True end) ->
            filter (fun e => match e with ECellChanged o' _ => Nat.eqb o o' | _ => false end) l = []) as Z.
  { induction l as [|e l IH]; intro H; simpl; [reflexivity|]. pose proof (H e (or_introl eq_refl)) as He. destruct e; try contradiction; apply IH; intros; apply H; now right. }
  split.
  - rewrite filter_app, app_length, (count_map_nodup _ (fun o e => match e with ECellChanged o' _ => Nat.eqb o o' | _ => false end)) by (auto; intro; reflexivity).
    rewrite Eo, Z; [reflexivity|]. intros e He.
    destruct (ch_added c); [destruct (ch_removed c); [destruct gc; [|destruct He]|]|]; apply in_map_iff in He; destruct He as [x [<- _]]; exact I.
  - intros cl [H|[H|H]]; try discriminate. apply in_app_iff in H. destruct H as [H|H].
    + destruct (ch_added c); [destruct (ch_removed c); [destruct gc; [|destruct H]|]|]; apply in_map_iff in H; destruct H as [x [Hx _]]; discriminate.
    + apply in_map_iff in H. destruct H as [x [Hx _]]. inversion Hx. reflexivity.
Qed.
