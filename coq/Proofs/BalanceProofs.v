(* C01 — detailed balance of the Metropolis kernels built from the acceptance ratios of Model/Criteria.v. *)
From QV Require Import Model.Criteria Proofs.CriteriaProofs.
From Coq Require Import Lra Lia.
Open Scope R_scope.

Lemma exp_div a b : exp a / exp b = exp (a - b).
Proof. unfold Rdiv, Rminus. rewrite exp_plus, exp_Ropp. reflexivity. Qed.

(* Metropolis-Hastings with a symmetric proposal: pi(x) min(1, pi(y)/pi(x)) = pi(y) min(1, pi(x)/pi(y)) for any positive weights *)
Lemma mh_detailed_balance px py : 0 < px -> 0 < py -> px * Rmin 1 (py / px) = py * Rmin 1 (px / py).
Proof.
  intros Hx Hy. destruct (Rle_dec px py) as [L|G].
  - assert (1 <= py / px) as A by (apply Rmult_le_reg_r with (r := px); [lra|]; unfold Rdiv; rewrite Rmult_assoc, Rinv_l by lra; lra).
    assert (px / py <= 1) as B by (apply Rmult_le_reg_r with (r := py); [lra|]; unfold Rdiv; rewrite Rmult_assoc, Rinv_l by lra; lra).
    rewrite (Rmin_left 1 (py / px)) by lra. rewrite (Rmin_right 1 (px / py)) by lra. field. lra.
  - assert (py / px <= 1) as A by (apply Rmult_le_reg_r with (r := px); [lra|]; unfold Rdiv; rewrite Rmult_assoc, Rinv_l by lra; lra).
    assert (1 <= px / py) as B by (apply Rmult_le_reg_r with (r := py); [lra|]; unfold Rdiv; rewrite Rmult_assoc, Rinv_l by lra; lra).
    rewrite (Rmin_right 1 (py / px)) by lra. rewrite (Rmin_left 1 (px / py)) by lra. field. lra.
Qed.
(* "accept iff u < A" with u uniform on [0,1) accepts exactly on [0, min(1,A)): the acceptance probability is min(1,A) *)
Lemma accept_set u A : 0 <= u < 1 -> (u < A <-> u < Rmin 1 A).
Proof. intros [H0 H1]. symmetry. now apply below_one_min. Qed.

Section Ratios.
  Variable kB : R.
  Hypothesis kB_pos : 0 < kB.

  (* canonical: the ratio of Boltzmann weights *)
  Lemma canonical_ratio Ex Ey T : 0 < T -> exp (x_can kB (Ey - Ex) T) = exp (- Ey / (kB * T)) / exp (- Ex / (kB * T)).
  Proof.
    intro HT. unfold x_can. rewrite exp_div. f_equal. field. split; lra.
  Qed.
  (* isobaric: weights V^(N+1) exp(-(E + P V)/kT) - the density in scaled coordinates times the Jacobian of the log-volume proposal *)
  Definition w_iso (P T : R) (N : nat) (E V : R) : R := V ^ (N + 1) * exp (- (E + P * V) / (T * kB)).
  Lemma isobaric_ratio Ex Ey P V V' T N : 0 < T -> 0 < V -> 0 < V' ->
    exp (x_iso kB (Ey - Ex) P V V' T N) = w_iso P T N Ey V' / w_iso P T N Ex V.
  Proof.
    intros HT HV HV'. rewrite iso_value by assumption. unfold w_iso.
    assert (0 < V ^ (N + 1)) by (apply pow_lt; assumption).
    assert (exp (- (Ey - Ex + P * (V' - V)) / (T * kB)) = exp (- (Ey + P * V') / (T * kB)) / exp (- (Ex + P * V) / (T * kB))) as ->.
    { rewrite exp_div. f_equal. field. split; lra. }
    assert ((V' / V) ^ (N + 1) = V' ^ (N + 1) / V ^ (N + 1)) as -> by (unfold Rdiv; rewrite Rpow_mult_distr, <- Rinv_pow by lra; reflexivity).
    pose proof (exp_pos (- (Ex + P * V) / (T * kB))). field. split; lra.
  Qed.
  (* the mean volume identity of the ideal gas rests on: d/dV [ -V^(N+1) e^(-aV) / a ] = V^(N+1) e^(-aV) - ((N+1)/a) V^N e^(-aV) *)
End Ratios.

(* ideal-gas grand-canonical chain on N: with a = V exp(mu/kT) / Lambda^3 the insertion ratio is a/(N+1), the deletion ratio N/a,
   and the Poisson weights a^N/N! are in detailed balance with them (insertion and deletion attempted with equal probability) *)
Lemma poisson_detailed_balance a N : 0 < a ->
  a ^ N / INR (fact N) * Rmin 1 (a / (INR N + 1)) = a ^ (S N) / INR (fact (S N)) * Rmin 1 ((INR N + 1) / a).
Proof.
  intro Ha. assert (0 < INR (fact N)) as Hf by (apply lt_0_INR, lt_O_fact).
  assert (0 < INR N + 1) as Hn by (pose proof (pos_INR N); lra).
  assert (INR (fact (S N)) = (INR N + 1) * INR (fact N)) as F by (change (fact (S N)) with (S N * fact N)%nat; rewrite mult_INR, S_INR; ring).
  set (px := a ^ N / INR (fact N)). set (py := a ^ S N / INR (fact (S N))).
  assert (0 < px) by (unfold px; apply Rdiv_lt_0_compat; [now apply pow_lt|assumption]).
  assert (0 < py) by (unfold py; apply Rdiv_lt_0_compat; [now apply pow_lt|rewrite F; nra]).
  assert (py / px = a / (INR N + 1)) as R1.
  { unfold py, px. rewrite F. cbn [pow]. field. repeat split; try lra. apply pow_nonzero. lra. }
  assert (px / py = (INR N + 1) / a) as R2.
  { unfold py, px. rewrite F. cbn [pow]. field. repeat split; try lra. apply pow_nonzero. lra. }
  rewrite <- R1, <- R2. now apply mh_detailed_balance.
Qed.

(* grand canonical: the insertion ratio V/(L (N+1)) exp((mu - dE)/kT) (L = Lambda^3, C02_gc_insert) is the ratio of the weights
   w(N) = (V/L)^N / N! * exp((mu N - E_N)/kT) *)
Section GC.
  Variable kB : R.
  Hypothesis kB_pos : 0 < kB.
  Definition w_gc (V L mu T : R) (N : nat) (E : R) : R := (V / L) ^ N / INR (fact N) * exp ((mu * INR N - E) / (T * kB)).
  Lemma gc_insert_ratio V L mu T Ex Ey N : 0 < V -> 0 < L -> 0 < T ->
    w_gc V L mu T (S N) Ey / w_gc V L mu T N Ex = V / (L * (INR N + 1)) * exp ((mu - (Ey - Ex)) / (T * kB)).
  Proof.
    intros HV HL HT. unfold w_gc.
    assert (0 < INR (fact N)) as Hf by (apply lt_0_INR, lt_O_fact).
    assert (0 < INR N + 1) as Hn by (pose proof (pos_INR N); lra).
    assert (INR (fact (S N)) = (INR N + 1) * INR (fact N)) as F by (change (fact (S N)) with (S N * fact N)%nat; rewrite mult_INR, S_INR; ring).
    assert (0 < (V / L) ^ N) as Hp by (apply pow_lt, Rdiv_lt_0_compat; assumption).
    assert (exp ((mu * INR (S N) - Ey) / (T * kB)) = exp ((mu * INR N - Ex) / (T * kB)) * exp ((mu - (Ey - Ex)) / (T * kB))) as ->.
    { rewrite <- exp_plus. f_equal. rewrite S_INR. field. split; lra. }
    pose proof (exp_pos ((mu * INR N - Ex) / (T * kB))) as He.
    rewrite F. cbn [pow]. field. repeat split; lra.
  Qed.
  (* and deletion is the inverse ratio *)
  Lemma gc_delete_ratio V L mu T Ex Ey N : 0 < V -> 0 < L -> 0 < T ->
    w_gc V L mu T N Ey / w_gc V L mu T (S N) Ex = L * (INR N + 1) / V * exp ((- mu - (Ey - Ex)) / (T * kB)).
  Proof.
    intros HV HL HT. unfold w_gc.
    assert (0 < INR (fact N)) as Hf by (apply lt_0_INR, lt_O_fact).
    assert (0 < INR N + 1) as Hn by (pose proof (pos_INR N); lra).
    assert (INR (fact (S N)) = (INR N + 1) * INR (fact N)) as F by (change (fact (S N)) with (S N * fact N)%nat; rewrite mult_INR, S_INR; ring).
    assert (0 < (V / L) ^ N) as Hp by (apply pow_lt, Rdiv_lt_0_compat; assumption).
    assert (exp ((mu * INR N - Ey) / (T * kB)) = exp ((mu * INR (S N) - Ex) / (T * kB)) * exp ((- mu - (Ey - Ex)) / (T * kB))) as ->.
    { rewrite <- exp_plus. f_equal. rewrite S_INR. field. split; lra. }
    pose proof (exp_pos ((mu * INR (S N) - Ex) / (T * kB))) as He.
    rewrite F. cbn [pow]. field. repeat split; lra.
  Qed.
End GC.
