From QV Require Import Model.Driver.
From Coq Require Import Lia.

Lemma count_z_cons x y l : count_z x (y :: l) = ((if Z.eqb x y then 1 else 0) + count_z x l)%nat.
Proof. unfold count_z. simpl. destruct (x =? y); reflexivity. Qed.
Lemma count_z_app x a b : count_z x (a ++ b) = (count_z x a + count_z x b)%nat.
Proof. unfold count_z. now rewrite filter_app, app_length. Qed.
Lemma count_z_repeat x y k : count_z x (repeat y k) = if x =? y then k else 0%nat.
Proof.
  induction k as [|k IH]; simpl; [now destruct (x =? y)|].
  rewrite count_z_cons, IH. destruct (x =? y); reflexivity.
Qed.

Lemma lookup_in idx fn i x : lookup idx fn i = Some x -> In x fn /\ In i idx.
Proof.
  revert fn. induction idx as [|j idx IH]; intros [|m fn]; simpl; try discriminate.
  destruct (lookup idx fn i) eqn:E.
  - intro H; inversion H; subst. destruct (IH _ E). split; now right.
  - destruct (Nat.eqb_spec j i); [|discriminate]. intro H; inversion H; subst. split; now left.
Qed.

Lemma lookup_none idx fn i : ~ In i idx -> lookup idx fn i = None.
Proof.
  intro H. destruct (lookup idx fn i) eqn:E; [|reflexivity]. apply lookup_in in E. tauto.
Qed.

Lemma slots_in idx fn i n free y : In y (slots idx fn i n free) -> In y fn \/ In y free.
Proof.
  revert i free. induction n as [|n IH]; intros i free; simpl; [tauto|].
  destruct (lookup idx fn i) eqn:E.
  - intros [<-|H]; [left; now apply (lookup_in _ _ _ _ E)|now apply IH in H].
  - destruct free as [|f free]; simpl; [tauto|].
    intros [<-|H]; [right; now left|]. apply IH in H. destruct H; [now left|right; now right].
Qed.

Lemma slots_length idx fn i n free :
  (free_needed (lookup idx fn) i n <= length free)%nat -> length (slots idx fn i n free) = n.
Proof.
  revert i free. induction n as [|n IH]; intros i free; simpl; [reflexivity|].
  destruct (lookup idx fn i); simpl; intro H.
  - f_equal. apply IH. lia.
  - destruct free as [|f free]; simpl in *; [lia|]. f_equal. apply IH. lia.
Qed.

Lemma slots_count x idx fn i n free :
  (free_needed (lookup idx fn) i n <= length free)%nat ->
  (count_some x (lookup idx fn) i n <= count_z x (slots idx fn i n free))%nat.
Proof.
  revert i free. induction n as [|n IH]; intros i free; simpl; [lia|].
  destruct (lookup idx fn i) as [y|]; simpl; intro H.
  - rewrite count_z_cons. specialize (IH (S i) free). rewrite (Z.eqb_sym x y).
    destruct (y =? x); lia.
  - destruct free as [|f free]; simpl in *; [lia|]. rewrite count_z_cons.
    specialize (IH (S i) free). destruct (x =? f); lia.
Qed.

Lemma count_some_ext x g g' i n : (forall k, g k = g' k) -> count_some x g i n = count_some x g' i n.
Proof. intro H. revert i. induction n as [|n IH]; intro i; simpl; [reflexivity|]. now rewrite H, IH. Qed.

Lemma count_some_none x i n : count_some x (fun _ => None) i n = 0%nat.
Proof. revert i. induction n as [|n IH]; intro i; simpl; auto. Qed.

Lemma count_some_update x g j m i n : g j = None ->
  count_some x (fun k => match g k with Some v => Some v | None => if Nat.eqb j k then Some m else None end) i n
  = (count_some x g i n + if (i <=? j)%nat && (j <? i + n)%nat then (if Z.eqb m x then 1 else 0) else 0)%nat.
Proof.
  intro Hj. revert i. induction n as [|n IH]; intro i.
  - simpl. destruct (Nat.leb_spec i j), (Nat.ltb_spec j (i + 0)); simpl; lia.
  - cbn [count_some]. rewrite IH. destruct (Nat.eqb_spec j i) as [->|NE].
    + rewrite Hj.
      destruct (Nat.leb_spec i i), (Nat.ltb_spec i (i + S n)), (Nat.leb_spec (S i) i), (Nat.ltb_spec i (S i + n)); simpl; try lia.
    + destruct (g i) as [y|];
        destruct (Nat.leb_spec i j), (Nat.ltb_spec j (i + S n)), (Nat.leb_spec (S i) j), (Nat.ltb_spec j (S i + n)); simpl; try lia.
Qed.

Lemma count_some_lookup x n idx : forall fn,
  NoDup idx -> (forall j, In j idx -> (j < n)%nat) -> length idx = length fn ->
  count_some x (lookup idx fn) 0 n = count_z x fn.
Proof.
  induction idx as [|j idx IH]; intros [|m fn] ND R L; try discriminate.
  - simpl. apply count_some_none.
  - inversion ND as [|? ? Hj ND']; subst.
    rewrite (count_some_ext x _ (fun k => match lookup idx fn k with Some v => Some v | None => if Nat.eqb j k then Some m else None end)) by reflexivity.
    rewrite count_some_update by now apply lookup_none.
    rewrite IH; [|assumption|intros; apply R; now right|simpl in L; lia].
    rewrite count_z_cons. assert (j < n)%nat by (apply R; now left).
    destruct (Nat.leb_spec 0 j), (Nat.ltb_spec j (0 + n)); simpl; try lia.
    rewrite (Z.eqb_sym x m). destruct (m =? x); lia.
Qed.

Lemma forced_absent nm dm : ~ In nm (map ename dm) -> count_z nm (forced dm) = 0%nat.
Proof.
  induction dm as [|e dm IH]; simpl; intro H; [reflexivity|].
  unfold forced in *. simpl. rewrite count_z_app, count_z_repeat, IH by tauto.
  destruct (Z.eqb_spec nm (ename e)); [exfalso; apply H; now left|reflexivity].
Qed.

Lemma forced_count e dm : NoDup (map ename dm) -> In e dm -> count_z (ename e) (forced dm) = emin e.
Proof.
  induction dm as [|x dm IH]; simpl; intros ND HI; [contradiction|].
  inversion ND as [|? ? Hx ND']; subst. unfold forced in *. simpl. rewrite count_z_app, count_z_repeat.
  destruct HI as [->|HI].
  - rewrite Z.eqb_refl. fold (forced dm). rewrite forced_absent by assumption. lia.
  - destruct (Z.eqb_spec (ename e) (ename x)) as [E|E].
    + exfalso. apply Hx. rewrite <- E. now apply in_map.
    + now rewrite IH.
Qed.

Lemma forced_in y dm : In y (forced dm) -> exists e, In e dm /\ ename e = y /\ (0 < emin e)%nat.
Proof.
  unfold forced. rewrite in_flat_map. intros [e [He Hr]]. apply repeat_spec in Hr as Hy.
  exists e. repeat split; auto. destruct (emin e); [simpl in Hr; contradiction|lia].
Qed.

(* admissible oracle answers for one step *)
Definition admissible (tbl : list entry) (step : Z) (cycles : nat) (fidx : list nat) (free : list Z) : Prop :=
  let fn := forced (due_moves tbl step) in
  NoDup fidx /\ (forall j, In j fidx -> (j < cycles)%nat) /\ length fidx = length fn /\
  (free_needed (lookup fidx fn) 0 cycles <= length free)%nat /\
  (forall f, In f free -> free_ok tbl step f = true).

Lemma yield_empty tbl step cycles fidx free : due_moves tbl step = [] -> yield_moves tbl step cycles fidx free = [].
Proof. unfold yield_moves. now intros ->. Qed.

Lemma yield_length tbl step cycles fidx free :
  due_moves tbl step <> [] -> admissible tbl step cycles fidx free ->
  length (yield_moves tbl step cycles fidx free) = cycles.
Proof.
  intros D (ND & R & L & F & A). unfold yield_moves. destruct (due_moves tbl step) as [|d0 dl] eqn:E; [congruence|].
  now apply slots_length.
Qed.

Lemma yield_only_due tbl step cycles fidx free y :
  admissible tbl step cycles fidx free -> In y (yield_moves tbl step cycles fidx free) ->
  exists e, In e tbl /\ ename e = y /\ step mod einterval e = 0 /\ ((0 < emin e)%nat \/ 0 < eweight e).
Proof.
  intros (ND & R & L & F & A) H. unfold yield_moves in H.
  destruct (due_moves tbl step) as [|d0 dl] eqn:E; [contradiction|]. rewrite <- E in *.
  apply slots_in in H. destruct H as [H|H].
  - apply forced_in in H. destruct H as [e [He [Hn Hm]]]. unfold due_moves in He. apply filter_In in He.
    exists e. unfold is_due in He. rewrite Z.eqb_eq in He. tauto.
  - apply A in H. unfold free_ok in H. apply existsb_exists in H. destruct H as [e [He Hb]].
    unfold due_moves in He. apply filter_In in He. unfold is_due in He. rewrite Z.eqb_eq in He.
    apply andb_true_iff in Hb. rewrite Z.eqb_eq, Z.ltb_lt in Hb. exists e. tauto.
Qed.

Lemma yield_min_count tbl step cycles fidx free e :
  NoDup (map ename tbl) -> admissible tbl step cycles fidx free ->
  In e tbl -> step mod einterval e = 0 ->
  (emin e <= count_z (ename e) (yield_moves tbl step cycles fidx free))%nat.
Proof.
  intros NDn (ND & R & L & F & A) He Hd.
  assert (In e (due_moves tbl step)) as Hdue.
  { unfold due_moves. apply filter_In. split; [assumption|]. unfold is_due. now apply Z.eqb_eq. }
  assert (NoDup (map ename (due_moves tbl step))) as NDd.
  { unfold due_moves. clear -NDn. induction tbl as [|x t IH]; simpl; [constructor|].
    inversion NDn; subst. destruct (is_due step x); simpl; [|now apply IH].
    constructor; [|now apply IH]. intro H. apply in_map_iff in H. destruct H as [z [Hz Hi]].
    apply filter_In in Hi. apply H1. rewrite <- Hz. apply in_map. tauto. }
  unfold yield_moves. destruct (due_moves tbl step) as [|d0 dl] eqn:E; [contradiction|]. rewrite <- E in *.
  rewrite <- (forced_count e (due_moves tbl step)) by assumption.
  rewrite <- (count_some_lookup (ename e) cycles fidx) by assumption.
  now apply slots_count.
Qed.

(* ---- add_move guard *)
Lemma sum_min_set tbl e : (sum_min (set_entry tbl e) <= sum_min tbl + emin e)%nat.
Proof.
  induction tbl as [|x t IH]; simpl; [lia|]. destruct (ename x =? ename e); simpl; lia.
Qed.

Lemma add_move_guard cycles tbl e :
  add_move cycles tbl e = None <-> (cycles < sum_min tbl + emin e)%nat.
Proof.
  unfold add_move. destruct (Nat.ltb_spec cycles (sum_min tbl + emin e)); split; intro; try discriminate; try lia; reflexivity.
Qed.

Lemma add_move_inv cycles tbl e t : (sum_min tbl <= cycles)%nat -> add_move cycles tbl e = Some t -> (sum_min t <= cycles)%nat.
Proof.
  unfold add_move. destruct (Nat.ltb_spec cycles (sum_min tbl + emin e)); [discriminate|].
  intros _ H'; inversion H'; subst. pose proof (sum_min_set tbl e). lia.
Qed.

Lemma in_names_set tbl e n : In n (map ename (set_entry tbl e)) -> In n (map ename tbl) \/ n = ename e.
Proof.
  induction tbl as [|x t IH]; simpl; [intros [H|[]]; right; congruence|].
  destruct (Z.eqb_spec (ename x) (ename e)) as [E|E]; simpl.
  - intros [H|H]; [right; congruence|left; now right].
  - intros [H|H]; [left; now left|]. apply IH in H. tauto.
Qed.

Lemma nodup_set tbl e : NoDup (map ename tbl) -> NoDup (map ename (set_entry tbl e)).
Proof.
  induction tbl as [|x t IH]; simpl; intro ND; [constructor; [tauto|constructor]|].
  inversion ND as [|? ? Hx ND']; subst.
  destruct (Z.eqb_spec (ename x) (ename e)) as [E|E]; simpl.
  - constructor; [now rewrite <- E|assumption].
  - constructor; [|now apply IH]. intro H. apply in_names_set in H. destruct H; [contradiction|congruence].
Qed.

Lemma add_moves_inv cycles es : forall tbl,
  (sum_min tbl <= cycles)%nat -> NoDup (map ename tbl) ->
  (sum_min (add_moves cycles tbl es) <= cycles)%nat /\ NoDup (map ename (add_moves cycles tbl es)).
Proof.
  induction es as [|e es IH]; intros tbl S ND; simpl; [tauto|].
  destruct (add_move cycles tbl e) as [t|] eqn:E; [|now apply IH].
  apply IH; [now apply (add_move_inv cycles tbl e)|].
  unfold add_move in E. destruct (cycles <? sum_min tbl + emin e)%nat; [discriminate|]. inversion E; subst.
  now apply nodup_set.
Qed.

(* the forced draw (distinct slots out of `cycles`) is always possible for a table built through add_move *)
Lemma forced_fits tbl step : (length (forced (due_moves tbl step)) <= sum_min tbl)%nat.
Proof.
  induction tbl as [|x t IH]; simpl; [lia|]. unfold due_moves in *. simpl.
  destruct (is_due step x); simpl.
  - unfold forced in *. simpl. rewrite app_length, repeat_length. lia.
  - lia.
Qed.
