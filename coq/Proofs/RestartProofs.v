From QV Require Import Model.Restart.

Section RP.
  Variables S D F : Type.
  Variable step : S -> S.
  Variable proj : S -> D.
  Variable save : S -> F.
  Variable restore : F -> option S.
  (* the future depends on the state only through its step-relevant projection *)
  Hypothesis step_reads_proj : forall s s', proj s = proj s' -> proj (step s) = proj (step s').

  Lemma iter_proj n : forall s s', proj s = proj s' -> proj (iter_steps step n s) = proj (iter_steps step n s').
  Proof. induction n as [|n IH]; intros s s' H; simpl; [exact H|]. apply IH. now apply step_reads_proj. Qed.

  (* restart at ANY point of ANY run: if the file restores the projection, every later step agrees with the uninterrupted run *)
  Theorem resume_equiv k n s0 s' : restore (save (iter_steps step k s0)) = Some s' -> proj s' = proj (iter_steps step k s0) ->
    proj (iter_steps step n s') = proj (iter_steps step (k + n) s0).
  Proof.
    intros _ H. replace (iter_steps step (k + n) s0) with (iter_steps step n (iter_steps step k s0)).
    - now apply iter_proj.
    - clear. revert s0. induction k as [|k IH]; intro s0; simpl; [reflexivity|]. apply IH.
  Qed.

  (* any number of restarts in a row: run n1 steps, write the file, rebuild from it, run n2 steps, write, rebuild, ...; `reload` is
     "write the file and rebuild from it" (a failed rebuild is excluded by the hypothesis: every reload restores the projection) *)
  Variable reload : S -> S.
  Fixpoint chain (segs : list nat) (s : S) : S :=
    match segs with nil => s | cons n r => chain r (reload (iter_steps step n s)) end.
  Lemma iter_add k n s : iter_steps step (k + n) s = iter_steps step n (iter_steps step k s).
  Proof. revert s. induction k as [|k IH]; intro s; simpl; [reflexivity|]. apply IH. Qed.
  Theorem chained_restarts : (forall s, proj (reload s) = proj s) ->
    forall segs s0 s0', proj s0' = proj s0 -> proj (chain segs s0') = proj (iter_steps step (List.list_sum segs) s0).
  Proof.
    intro R. induction segs as [|n r IH]; intros s0 s0' H; simpl; [exact H|].
    rewrite iter_add. apply IH. rewrite R. apply iter_proj. exact H.
  Qed.
End RP.
