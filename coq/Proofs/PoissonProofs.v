(* C01 — the ideal gas at constant chemical potential: the weights a^N / N! (a = V exp(mu/kT) / Lambda^3, stationary by C01_poisson_stationary)
   sum to exp a and have first moment a exp a: the particle number is Poisson distributed with mean a. *)
From Coq Require Import Reals Lra.
From Coquelicot Require Import Coquelicot.
Open Scope R_scope.

Definition pw (a : R) (n : nat) : R := a ^ n / INR (fact n).

Lemma poisson_normalisation a : is_series (pw a) (exp a).
Proof.
  pose proof (is_exp_Reals a) as H. unfold is_pseries in H.
  apply (is_series_ext (fun k => scal (pow_n a k) (/ INR (fact k)))); [|exact H].
  intro n. unfold pw, scal. simpl. unfold mult. simpl. rewrite pow_n_pow. unfold Rdiv. reflexivity.
Qed.

Lemma poisson_first_moment a : is_series (fun n => INR n * pw a n) (a * exp a).
Proof.
  apply is_series_decr_1.
  match goal with |- is_series _ ?l => replace l with (scal a (exp a)) by (unfold plus, opp, scal; simpl; unfold mult; simpl; ring) end.
  apply (is_series_ext (fun k => scal a (pw a k))).
  - intro k. unfold scal. simpl. unfold mult. simpl. unfold pw.
    assert (INR (fact k) <> 0) as Hf by apply INR_fact_neq_0.
    assert (INR (fact (S k)) = INR (S k) * INR (fact k)) as -> by (change (fact (S k)) with (S k * fact k)%nat; apply mult_INR).
    assert (INR (S k) <> 0) as Hs by (apply not_0_INR; discriminate).
    cbn [pow]. change (match k with 0%nat => 1 | S _ => INR k + 1 end) with (INR (S k)). field. split; assumption.
  - apply (is_series_scal a (pw a) (exp a)). apply poisson_normalisation.
Qed.

(* normalised: p_N = exp(-a) a^N / N! sums to one and has mean a *)
Theorem poisson_mean a : is_series (fun n => exp (- a) * pw a n) 1 /\ is_series (fun n => INR n * (exp (- a) * pw a n)) a.
Proof.
  assert (exp a * exp (- a) = 1) as E by (rewrite <- exp_plus; replace (a + - a) with 0 by ring; apply exp_0).
  split.
  - pose proof (is_series_scal_r (exp (- a)) _ _ (poisson_normalisation a)) as H. rewrite E in H.
    apply (is_series_ext (fun n => pw a n * exp (- a))); [intro n; apply Rmult_comm|exact H].
  - pose proof (is_series_scal_r (exp (- a)) _ _ (poisson_first_moment a)) as H.
    replace (a * exp a * exp (- a)) with a in H by (rewrite Rmult_assoc, E; ring).
    apply (is_series_ext (fun n => INR n * pw a n * exp (- a))); [intro n; rewrite Rmult_assoc, (Rmult_comm (pw a n)); reflexivity|exact H].
Qed.

(* second factorial moment: sum n (n-1) a^n / n! = a^2 exp a, hence the variance of the particle number equals its mean *)
Lemma poisson_second_factorial a : is_series (fun n => INR n * (INR n - 1) * pw a n) (a * a * exp a).
Proof.
  apply is_series_decr_1.
  match goal with |- is_series _ ?l => replace l with (scal a (a * exp a)) by (unfold plus, opp, scal; simpl; unfold mult; simpl; ring) end.
  apply (is_series_ext (fun k => scal a (INR k * pw a k))).
  - intro k. unfold scal. simpl. unfold mult. simpl. unfold pw.
    assert (INR (fact k) <> 0) as Hf by apply INR_fact_neq_0.
    assert (INR (fact (S k)) = INR (S k) * INR (fact k)) as -> by (change (fact (S k)) with (S k * fact k)%nat; apply mult_INR).
    assert (INR (S k) <> 0) as Hs by (apply not_0_INR; discriminate).
    cbn [pow]. change (match k with 0%nat => 1 | S _ => INR k + 1 end) with (INR (S k)). rewrite S_INR in *. field. split; assumption.
  - apply (is_series_scal a (fun k => INR k * pw a k) (a * exp a)). apply poisson_first_moment.
Qed.
Lemma variance_term (n : nat) (a : R) :
  INR n * (INR n - 1) * pw a n * exp (- a) + INR n * (exp (- a) * pw a n) = INR n * INR n * (exp (- a) * pw a n).
Proof. ring. Qed.
Theorem poisson_variance a : forall m2 : R, is_series (fun n => INR n * INR n * (exp (- a) * pw a n)) m2 -> m2 - a * a = a.
Proof.
  intros m2 H.
  assert (exp a * exp (- a) = 1) as E by (rewrite <- exp_plus; replace (a + - a) with 0 by ring; apply exp_0).
  pose proof (is_series_scal_r (exp (- a)) _ _ (poisson_second_factorial a)) as H2.
  replace (a * a * exp a * exp (- a)) with (a * a) in H2 by (rewrite Rmult_assoc, E; ring).
  destruct (poisson_mean a) as [_ H1].
  assert (is_series (fun n => INR n * INR n * (exp (- a) * pw a n)) (a * a + a)) as H3.
  { apply (is_series_ext (fun n => plus (INR n * (INR n - 1) * pw a n * exp (- a)) (INR n * (exp (- a) * pw a n)))).
    - intro n. apply variance_term.
    - apply (is_series_plus _ _ _ _ H2 H1). }
  pose proof (is_series_unique _ _ H) as U1. pose proof (is_series_unique _ _ H3) as U2. rewrite U1 in U2. rewrite U2. ring.
Qed.
