(* C13: the trial probability integrates to one over [-1,1]; hence a uniform zeta is accepted with probability 1/2
   whatever gamma, and the accepted zeta has density exactly P. *)
From QV Require Import Model.ForceBias Proofs.ForceBiasProofs.
From Coq Require Import Lra.
From Coquelicot Require Import Coquelicot.

Section Integral.
  Variable g : R.
  Hypothesis g_nz : g <> 0.

  Let D := den g.
  Lemma D_nz : D <> 0.
  Proof. unfold D. intro H. apply g_nz. apply den_zero_iff. exact H. Qed.

  Definition Pp (z : R) : R := (exp g - exp (g * (2 * z - 1))) / D.
  Definition Pm (z : R) : R := (exp (g * (2 * z + 1)) - exp (- g)) / D.
  Definition Fp (z : R) : R := (exp g * z - exp (g * (2 * z - 1)) / (2 * g)) / D.
  Definition Fm (z : R) : R := (exp (g * (2 * z + 1)) / (2 * g) - exp (- g) * z) / D.

  Lemma Fp_derive z : is_derive Fp z (Pp z).
  Proof.
    unfold Fp, Pp. pose proof D_nz. auto_derive; [repeat split; auto; lra|].
    replace (g * (2 * z + - (1))) with (g * (2 * z - 1)) by ring. field. split; auto.
  Qed.

  Lemma Fm_derive z : is_derive Fm z (Pm z).
  Proof.
    unfold Fm, Pm. pose proof D_nz. auto_derive; [repeat split; auto; lra|].
    field. split; auto.
  Qed.

  Lemma Pp_cont z : continuous Pp z.
  Proof. apply (ex_derive_continuous Pp z). unfold Pp. pose proof D_nz. auto_derive. auto. Qed.
  Lemma Pm_cont z : continuous Pm z.
  Proof. apply (ex_derive_continuous Pm z). unfold Pm. pose proof D_nz. auto_derive. auto. Qed.

  Lemma int_plus : is_RInt Pp 0 1 (Fp 1 - Fp 0).
  Proof. apply (is_RInt_derive Fp Pp); intros; [apply Fp_derive|apply Pp_cont]. Qed.
  Lemma int_minus : is_RInt Pm (-1) 0 (Fm 0 - Fm (-1)).
  Proof. apply (is_RInt_derive Fm Pm); intros; [apply Fm_derive|apply Pm_cont]. Qed.

  Lemma pieces_sum : (Fm 0 - Fm (-1)) + (Fp 1 - Fp 0) = 1.
  Proof.
    unfold Fm, Fp. pose proof D_nz as Hd. unfold D in *. unfold den in *.
    replace (g * (2 * 0 + 1)) with g by ring. replace (g * (2 * -1 + 1)) with (- g) by ring.
    replace (g * (2 * 1 - 1)) with g by ring. replace (g * (2 * 0 - 1)) with (- g) by ring.
    field. split; auto.
  Qed.

  (* P itself: it differs from the smooth branches only at z = 0 (where numpy's sign(0) = 0 makes it 0) *)
  Lemma int_P_plus : is_RInt (fun z => P z g) 0 1 (Fp 1 - Fp 0).
  Proof.
    apply is_RInt_ext with (f := Pp); [|apply int_plus].
    intros z Hz. rewrite Rmin_left, Rmax_right in Hz by lra. symmetry. apply P_plus; [assumption|lra].
  Qed.
  Lemma int_P_minus : is_RInt (fun z => P z g) (-1) 0 (Fm 0 - Fm (-1)).
  Proof.
    apply is_RInt_ext with (f := Pm); [|apply int_minus].
    intros z Hz. rewrite Rmin_left, Rmax_right in Hz by lra. symmetry. apply P_minus; [assumption|lra].
  Qed.

  Lemma P_normalised_l : is_RInt (fun z => P z g) (-1) 1 1.
  Proof.
    pose proof (is_RInt_Chasles (fun z => P z g) (-1) 0 1 _ _ int_P_minus int_P_plus) as H.
    unfold plus in H. simpl in H. rewrite pieces_sum in H. exact H.
  Qed.

  (* zeta ~ Uniform(-1,1) has density 1/2: the acceptance probability of one trial is exactly 1/2 *)
  Lemma accept_probability_half_l : is_RInt (fun z => / 2 * P z g) (-1) 1 (/ 2).
  Proof.
    pose proof (is_RInt_scal (fun z => P z g) (-1) 1 (/ 2) 1 P_normalised_l) as H.
    unfold scal in H. simpl in H. unfold mult in H. simpl in H. rewrite Rmult_1_r in H. exact H.
  Qed.
End Integral.

(* at exactly zero force the code uses P = 1 (a symmetric law): total mass 2 * 1/2 = 1 as well *)
Lemma P_zero_force_normalised : is_RInt (fun z => / 2 * P z 0) (-1) 1 1.
Proof.
  apply is_RInt_ext with (f := fun _ => / 2).
  - intros z _. cbv beta. rewrite P_at_zero_force. lra.
  - pose proof (is_RInt_const (-1) 1 (/ 2)) as H.
    unfold scal in H. simpl in H. unfold mult in H. simpl in H.
    replace ((1 - -1) * / 2) with 1 in H by field. exact H.
Qed.

(* the cumulative distribution of the accepted zeta (used by the harness's KS test; cross-checked at sample points) *)
Definition cdf (g z : R) : R :=
  if Rle_dec z 0 then Fm g z - Fm g (-1) else (Fm g 0 - Fm g (-1)) + (Fp g z - Fp g 0).

Lemma cdf_is_integral g z : g <> 0 -> -1 <= z <= 1 -> is_RInt (fun t => P t g) (-1) z (cdf g z).
Proof.
  intros Hg Hz. unfold cdf. destruct (Rle_dec z 0) as [Hle|Hgt].
  - destruct (Req_dec z (-1)) as [->|Hne].
    + replace (Fm g (-1) - Fm g (-1)) with 0 by ring. apply (is_RInt_point (fun t => P t g) (-1)).
    + apply is_RInt_ext with (f := Pm g).
      * intros t Ht. rewrite Rmin_left, Rmax_right in Ht by lra. symmetry. apply P_minus; [assumption|lra].
      * apply (is_RInt_derive (Fm g) (Pm g)); intros; [apply Fm_derive|apply Pm_cont]; assumption.
  - assert (0 < z) as Hp by lra.
    assert (is_RInt (fun t => P t g) 0 z (Fp g z - Fp g 0)) as Hplus.
    { apply is_RInt_ext with (f := Pp g).
      - intros t Ht. rewrite Rmin_left, Rmax_right in Ht by lra. symmetry. apply P_plus; [assumption|lra].
      - apply (is_RInt_derive (Fp g) (Pp g)); intros; [apply Fp_derive|apply Pp_cont]; assumption. }
    pose proof (is_RInt_Chasles (fun t => P t g) (-1) 0 z _ _ (int_P_minus g Hg) Hplus) as H.
    exact H.
Qed.

(* probability mass on the side the force points to (g > 0): 1/(1 - e^{-2g}) - 1/(2g) *)
Lemma mass_along_force g : g <> 0 -> Fp g 1 - Fp g 0 = / (1 - exp (- 2 * g)) - / (2 * g).
Proof.
  intro Hg. unfold Fp. pose proof (D_nz g Hg) as Hd. unfold den in Hd.
  replace (g * (2 * 1 - 1)) with g by ring. replace (g * (2 * 0 - 1)) with (- g) by ring.
  replace (- 2 * g) with (- g + - g) by ring. rewrite exp_plus.
  assert (exp g * exp (- g) = 1) as E by (rewrite <- exp_plus; replace (g + - g) with 0 by ring; apply exp_0).
  set (a := exp g) in *. set (b := exp (- g)) in *.
  assert (0 < a) by apply exp_pos. assert (0 < b) by apply exp_pos.
  assert (1 - b * b <> 0) as N by (intro Q; apply Hd; nra).
  assert (/ (1 - b * b) = a / (a - b)) as ->.
  { apply Rmult_eq_reg_r with (r := (1 - b * b) * (a - b)); [|apply Rmult_integral_contrapositive_currified; assumption].
    replace (/ (1 - b * b) * ((1 - b * b) * (a - b))) with (a - b) by (field; assumption).
    replace (a / (a - b) * ((1 - b * b) * (a - b))) with (a * (1 - b * b)) by (field; assumption). nra. }
  unfold den. fold a b. field. split; assumption.
Qed.
