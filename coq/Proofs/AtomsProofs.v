From QV Require Import Model.Atoms.
From Coq Require Import Lia.

Section RowsProofs.
  Variable A : Type.
  Variable d : A.

  Lemma index_of_some p I j : index_of p I = Some j -> nth j I (S p) = p /\ (j < length I)%nat.
  Proof.
    revert j. induction I as [|i t IH]; simpl; intros j H; [discriminate|].
    destruct (Nat.eqb_spec i p) as [->|NE].
    - inversion H; subst. simpl. split; [reflexivity|lia].
    - destruct (index_of p t) as [j'|]; simpl in H; [|discriminate]. inversion H; subst.
      destruct (IH j' eq_refl). simpl. split; [assumption|lia].
  Qed.

  Lemma index_of_mem p I : mem p I = match index_of p I with Some _ => true | None => false end.
  Proof.
    induction I as [|i t IH]; [reflexivity|]. unfold mem in *. simpl.
    rewrite (Nat.eqb_sym p i). destruct (Nat.eqb i p); simpl; [reflexivity|].
    rewrite IH. destruct (index_of p t); reflexivity.
  Qed.

  (* the general statement: suffix L whose head has absolute index k *)
  Lemma reinsert_delete_from (L : list A) : forall k new I,
    (forall p j, index_of p I = Some j -> (k <= p < k + length L)%nat -> nth j new d = nth (p - k) L d) ->
    reinsert_from d k (length L) (delete_from k L I) new I = L.
  Proof.
    induction L as [|x t IH]; intros k new I H; simpl; [reflexivity|].
    rewrite index_of_mem. destruct (index_of k I) as [j|] eqn:E.
    - rewrite (H k j E) by (simpl; lia). rewrite Nat.sub_diag. simpl. f_equal.
      apply IH. intros p j' E' R. rewrite (H p j' E') by (simpl; lia).
      replace (p - k)%nat with (S (p - S k)) by lia. reflexivity.
    - f_equal. apply IH. intros p j' E' R. rewrite (H p j' E') by (simpl; lia).
      replace (p - k)%nat with (S (p - S k)) by lia. reflexivity.
  Qed.

  Definition count_in (k n : nat) (I : list nat) : nat := length (filter (fun p => mem p I) (seq k n)).

  Lemma delete_from_count (L : list A) : forall k I,
    (length (delete_from k L I) + count_in k (length L) I = length L)%nat.
  Proof.
    induction L as [|x t IH]; intros k I; simpl; [reflexivity|]. unfold count_in in *. simpl.
    specialize (IH (S k) I). destruct (mem k I); simpl; lia.
  Qed.

  Lemma filter_or_one (f : nat -> bool) i : forall n k,
    f i = false -> (k <= i < k + n)%nat ->
    length (filter (fun p => Nat.eqb p i || f p) (seq k n)) = S (length (filter f (seq k n))).
  Proof.
    induction n as [|n IH]; intros k Hf R; [lia|]. simpl.
    destruct (Nat.eqb_spec k i) as [->|NE]; simpl.
    - rewrite Hf. f_equal. clear IH R.
      assert (forall m s, (i < s)%nat -> filter (fun p => Nat.eqb p i || f p) (seq s m) = filter f (seq s m)) as H.
      { induction m as [|m IHm]; intros s Hs; simpl; [reflexivity|].
        destruct (Nat.eqb_spec s i); [lia|]. simpl. rewrite IHm by lia. reflexivity. }
      now rewrite H by lia.
    - destruct (f k); simpl; rewrite IH by (assumption || lia); reflexivity.
  Qed.

  Lemma count_in_nodup I : forall k n,
    NoDup I -> (forall i, In i I -> (k <= i < k + n)%nat) -> count_in k n I = length I.
  Proof.
    induction I as [|i I IH]; intros k n ND R; unfold count_in in *.
    - simpl. induction (seq k n); simpl; auto.
    - inversion ND as [|? ? Hi ND']; subst. simpl length. rewrite <- (IH k n ND') by (intros; apply R; now right).
      rewrite <- filter_or_one with (i := i).
      + reflexivity.
      + unfold mem. destruct (existsb (Nat.eqb i) I) eqn:E; [|reflexivity].
        apply existsb_exists in E. destruct E as [y [Hy Ey]]. apply Nat.eqb_eq in Ey. subst. contradiction.
      + apply R. now left.
  Qed.

  Lemma select_nth (L : list A) I p j : index_of p I = Some j -> nth j (select d L I) d = nth p L d.
  Proof.
    intro E. destruct (index_of_some _ _ _ E) as [Hn Hl]. unfold select.
    rewrite (nth_indep _ d (nth (S p) L d)) by (now rewrite map_length).
    rewrite (map_nth (fun i => nth i L d) I (S p) j). now rewrite Hn.
  Qed.

  (* C19, first sentence: re-insertion inverts deletion for any duplicate-free in-range index list in any order *)
  Lemma reinsert_delete_l (L : list A) I :
    NoDup I -> (forall i, In i I -> (i < length L)%nat) ->
    reinsert d (delete L I) (select d L I) I = L.
  Proof.
    intros ND R. unfold reinsert, delete, select. rewrite map_length.
    pose proof (delete_from_count L 0 I) as C. rewrite count_in_nodup in C by (assumption || (intros; split; [lia|simpl; now apply R])).
    rewrite C. apply reinsert_delete_from. intros p j E _. rewrite Nat.sub_0_r. now apply select_nth.
  Qed.
End RowsProofs.

(* arrays with dtype tags *)
Lemma reinsert_arr_l (a : array) I :
  NoDup I -> (forall i, In i I -> (i < length (snd a))%nat) ->
  reinsert_arr (delete_arr a I) (select_arr a I) I = a.
Proof.
  intros ND R. destruct a as [dt rows]. unfold reinsert_arr, delete_arr, select_arr. simpl.
  now rewrite reinsert_delete_l.
Qed.

(* ---------------- label glue ---------------- *)
Open Scope Z_scope.

Definition disjoint_comps (comps : list (list nat)) : Prop :=
  forall a b i, In i (nth a comps []) -> In i (nth b comps []) -> (a < length comps)%nat -> (b < length comps)%nat -> a = b.

Lemma mem_in i c : mem i c = true <-> In i c.
Proof.
  unfold mem. rewrite existsb_exists. split.
  - intros [x [H E]]. apply Nat.eqb_eq in E. now subst.
  - intro H. exists i. split; [assumption|apply Nat.eqb_refl].
Qed.

Lemma label_from_untouched lo hi comps : forall n acc i,
  (forall c, In c comps -> In i c -> admitted_size lo hi c = false) ->
  label_from n lo hi comps acc i = acc.
Proof.
  induction comps as [|c cs IH]; intros n acc i H; simpl; [reflexivity|].
  rewrite IH by (intros; apply H; [now right|assumption]).
  destruct (mem i c) eqn:M; [|reflexivity]. apply mem_in in M. rewrite (H c) by (now left || assumption). reflexivity.
Qed.

Lemma label_from_hit lo hi comps : forall n acc i a,
  (a < length comps)%nat -> In i (nth a comps []) -> admitted_size lo hi (nth a comps []) = true ->
  (forall b, (b < length comps)%nat -> In i (nth b comps []) -> b = a) ->
  label_from n lo hi comps acc i = n + Z.of_nat a.
Proof.
  induction comps as [|c cs IH]; intros n acc i a La Hi Ha U; simpl in La; [lia|].
  destruct a as [|a]; simpl in *.
  - apply mem_in in Hi. rewrite Hi, Ha. simpl.
    rewrite label_from_untouched; [lia|].
    intros c' Hc' Hic'. exfalso. destruct (In_nth _ _ [] Hc') as [b [Lb Eb]].
    specialize (U (S b)). simpl in U. rewrite Eb in U. specialize (U ltac:(lia) Hic'). discriminate.
  - destruct (mem i c) eqn:M.
    + apply mem_in in M. specialize (U 0%nat ltac:(lia) M). discriminate.
    + simpl. rewrite (IH (n + 1) acc i a); [lia|lia|assumption|assumption|].
      intros b Lb Hb. specialize (U (S b) ltac:(lia) Hb). lia.
Qed.

Lemma labels_length default lo hi comps : length (labels default lo hi comps) = length default.
Proof. unfold labels. now rewrite map_length, seq_length. Qed.

Lemma labels_nth default lo hi comps i : (i < length default)%nat ->
  nth i (labels default lo hi comps) (-1) = label_from 0 lo hi comps (nth i default (-1)) i.
Proof.
  intro H. unfold labels.
  rewrite (nth_indep _ (-1) (label_from 0 lo hi comps (nth (length default) default (-1)) (length default)))
    by (now rewrite map_length, seq_length).
  rewrite (map_nth (fun i => label_from 0 lo hi comps (nth i default (-1)) i)). now rewrite seq_nth.
Qed.

(* atoms of an admitted component get that component's number; everything else keeps the supplied default *)
Lemma labels_admitted_l default lo hi comps i a :
  disjoint_comps comps -> (i < length default)%nat -> (a < length comps)%nat ->
  In i (nth a comps []) -> admitted_size lo hi (nth a comps []) = true ->
  nth i (labels default lo hi comps) (-1) = Z.of_nat a.
Proof.
  intros D Li La Hi Ha. rewrite labels_nth by assumption.
  rewrite (label_from_hit lo hi comps 0 _ i a); try assumption; [lia|].
  intros b Lb Hb. now apply (D b a i).
Qed.

Lemma labels_default_l default lo hi comps i :
  (i < length default)%nat -> (forall c, In c comps -> In i c -> admitted_size lo hi c = false) ->
  nth i (labels default lo hi comps) (-1) = nth i default (-1).
Proof. intros Li H. rewrite labels_nth by assumption. now apply label_from_untouched. Qed.

(* hence: two atoms of admitted components have the same (non-negative) label exactly when they are in the same component *)
Lemma labels_same_iff_l default lo hi comps i j a b :
  disjoint_comps comps -> (i < length default)%nat -> (j < length default)%nat ->
  (a < length comps)%nat -> (b < length comps)%nat ->
  In i (nth a comps []) -> In j (nth b comps []) ->
  admitted_size lo hi (nth a comps []) = true -> admitted_size lo hi (nth b comps []) = true ->
  (nth i (labels default lo hi comps) (-1) = nth j (labels default lo hi comps) (-1) <-> a = b)
  /\ 0 <= nth i (labels default lo hi comps) (-1).
Proof.
  intros D Li Lj La Lb Hi Hj Ha Hb.
  rewrite (labels_admitted_l default lo hi comps i a), (labels_admitted_l default lo hi comps j b) by assumption.
  split; [split; intro H; [lia|now subst]|lia].
Qed.
