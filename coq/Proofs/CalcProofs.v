From QV Require Import Model.Calc.
From Coq Require Import Lia.

Section CalcP.
  Variables C V : Type.
  Variable E : C -> V.
  Variable ceq : C -> C -> bool.
  Hypothesis ceq_spec : forall a b, ceq a b = true <-> a = b.     (* ASE compare_atoms: no change detected iff identical *)
  Notation cst := (cst C V).
  Notation get_energy := (get_energy C V E ceq).
  Notation Coherent := (Coherent C V E ceq).
  Notation trial := (trial C V E ceq).
  Notation run := (run C V E ceq).

  Lemma ceq_refl c : ceq c c = true.
  Proof. now apply ceq_spec. Qed.

  (* in a coherent state the reported energy is the energy of the current configuration and costs no evaluation:
     neither a rejection nor logging the current energy costs a recomputation *)
  Lemma coherent_energy_free (s : cst) : Coherent s -> get_energy s = (E (cfg s), s).
  Proof. intros (R & (a & Ha & Ea) & _). unfold Calc.get_energy. rewrite Ha, R, Ea. reflexivity. Qed.

  Definition cost (s : cst) (o : outcome C) : nat :=
    match o with Failed => 0 | Rejected c' | Accepted c' | Edited c' => if ceq (cfg s) c' then 0 else 1 end.

  Lemma eval_after_propose (s : cst) c' : Coherent s ->
    let r := get_energy (propose C V s c') in
    fst r = E c' /\ cfg (snd r) = c' /\ cres (snd r) = Some (E c') /\ (exists a, catoms (snd r) = Some a /\ ceq a c' = true) /\
    last_cfg (snd r) = last_cfg s /\ last_e (snd r) = last_e s /\ last_res (snd r) = last_res s /\
    evals (snd r) = evals s + (if ceq (cfg s) c' then 0 else 1).
  Proof.
    intros (R & (a & Ha & Ea) & _). apply ceq_spec in Ea. subst a.
    unfold Calc.get_energy, propose. cbn [catoms cres cfg]. rewrite Ha, R.
    destruct (ceq (cfg s) c') eqn:Q; cbn.
    - pose proof Q as Q'. apply ceq_spec in Q'. subst c'. repeat split; try reflexivity; try lia. exists (cfg s). split; [reflexivity|exact Q].
    - repeat split; try reflexivity; try lia. exists c'. split; [reflexivity|apply ceq_refl].
  Qed.

  (* validate_simulation makes the state coherent whatever the calculator held before, provided what it holds is truthful (results computed
     for calc.atoms): the first run, a run after a restart, and a run after the user changed the atoms; at most one evaluation *)
  Theorem validate_coherent (s : cst) : (forall a e, catoms s = Some a -> cres s = Some e -> e = E a) ->
    Coherent (validate C V E ceq s) /\ evals (validate C V E ceq s) <= S (evals s).
  Proof.
    intros Hon. unfold validate.
    unfold Calc.get_energy. cbn [catoms cres cfg].
    destruct (catoms s) as [a|] eqn:Ha; [destruct (cres s) as [e|] eqn:He; [destruct (ceq a (cfg s)) eqn:Q|]|]; cbn.
    - pose proof Q as Q'. apply ceq_spec in Q'. subst a. pose proof (Hon (cfg s) e eq_refl eq_refl) as Ee. subst e.
      split; [|lia]. unfold Calc.Coherent. cbn. repeat split; try reflexivity. exists (cfg s). split; [reflexivity|exact Q].
    - split; [|lia]. unfold Calc.Coherent. cbn. repeat split; try reflexivity. exists (cfg s). split; [reflexivity|apply ceq_refl].
    - split; [|lia]. unfold Calc.Coherent. cbn. repeat split; try reflexivity. exists (cfg s). split; [reflexivity|apply ceq_refl].
    - split; [|lia]. unfold Calc.Coherent. cbn. repeat split; try reflexivity. exists (cfg s). split; [reflexivity|apply ceq_refl].
  Qed.
  (* the cost of a run start after the user set the atoms to c': one evaluation iff the configuration changed *)
  Lemma validate_after_edit (s : cst) c' : Coherent s -> evals (validate C V E ceq (propose C V s c')) = evals s + (if ceq (cfg s) c' then 0 else 1).
  Proof.
    intros (R & (a & Ha & Ea) & _). apply ceq_spec in Ea. subst a.
    unfold validate, Calc.get_energy, propose. cbn [catoms cres cfg]. rewrite Ha, R.
    destruct (ceq (cfg s) c'); cbn; lia.
  Qed.

  Theorem trial_coherent (s : cst) (o : outcome C) : Coherent s -> Coherent (trial s o) /\ evals (trial s o) = evals s + cost s o.
  Proof.
    intro H. pose proof H as (R & (a & Ha & Ea) & Le & Lc & Lr). destruct o as [|c'|c'|c']; cbn [Calc.trial cost].
    - split; [exact H|lia].
    - destruct (eval_after_propose s c' H) as (_ & _ & _ & _ & A5 & A6 & A7 & A8).
      set (t := snd (get_energy (propose C V s c'))) in *. unfold revert. split; [|cbn; exact A8].
      unfold Calc.Coherent. cbn. rewrite A5, A6, A7, Lc. repeat split; try assumption. exists (cfg s). split; [reflexivity|apply ceq_refl].
    - destruct (eval_after_propose s c' H) as (_ & A2 & A3 & (b & Hb & Eb) & A5 & A6 & A7 & A8).
      set (t := snd (get_energy (propose C V s c'))) in *.
      assert (get_energy t = (E c', t)) as G.
      { unfold Calc.get_energy. rewrite Hb, A3, A2, Eb. reflexivity. }
      unfold save. rewrite G. split; [|cbn; exact A8].
      unfold Calc.Coherent. cbn. rewrite A2, A3. repeat split; try reflexivity. exists b. split; [exact Hb|exact Eb].
    - split; [|apply validate_after_edit; exact H].
      apply validate_coherent. intros a0 e0 Ha0 He0. cbn [propose catoms cres] in Ha0, He0.
      rewrite Ha in Ha0. rewrite R in He0. inversion Ha0; inversion He0; subst. apply ceq_spec in Ea. now subst.
  Qed.

  Fixpoint total_cost (os : list (outcome C)) (s : cst) : nat :=
    match os with [] => 0 | o :: r => cost s o + total_cost r (trial s o) end.
  (* every accept / reject / fail history: coherent at every position, and the evaluation count is exactly the number of trials
     that reached their criteria with a changed configuration *)
  Theorem run_coherent os : forall s : cst, Coherent s -> Coherent (run os s) /\ evals (run os s) = evals s + total_cost os s.
  Proof.
    induction os as [|o r IH]; intros s H; cbn [Calc.run fold_left total_cost]; [split; [exact H|lia]|].
    destruct (trial_coherent s o H) as [H1 H2]. destruct (IH _ H1) as [H3 H4]. unfold Calc.run in *. split; [exact H3|]. rewrite H4, H2. lia.
  Qed.
  Lemma total_cost_le os : forall s : cst, total_cost os s <= length (filter (reached C) os) + length (filter (edited C) os).
  Proof.
    induction os as [|o r IH]; intro s; [simpl; lia|].
    cbn [total_cost filter]. pose proof (IH (trial s o)) as I.
    destruct o as [|c'|c'|c']; cbn [cost reached edited length] in *; [lia| | |]; destruct (ceq (cfg s) c'); lia.
  Qed.

End CalcP.
