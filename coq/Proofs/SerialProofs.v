From QV Require Import Model.Serial.
From Coq Require Import Lia.

Section SP.
  Variable s : schema.

  (* nesting depth *)
  Fixpoint vdepth (v : value) : nat :=
    match v with
    | VAtom _ => 0
    | VObj o => S (odepth o)
    | VList l => S ((fix m (l : list obj) : nat := match l with [] => 0 | o :: t => Nat.max (odepth o) (m t) end) l)
    end
  with odepth (o : obj) : nat :=
    match o with
    | Obj _ fs => S ((fix m (l : list (nat * value)) : nat := match l with [] => 0 | kv :: t => Nat.max (vdepth (snd kv)) (m t) end) fs)
    end.
  Definition fdepth (fs : list (nat * value)) : nat :=
    (fix m (l : list (nat * value)) : nat := match l with [] => 0 | kv :: t => Nat.max (vdepth (snd kv)) (m t) end) fs.
  Definition ldepth (l : list obj) : nat := (fix m (l : list obj) : nat := match l with [] => 0 | o :: t => Nat.max (odepth o) (m t) end) l.

  Definition cls_of (o : obj) : nat := match o with Obj c _ => c end.
  Definition fields_of (o : obj) : list (nat * value) := match o with Obj _ fs => fs end.

  (* an object built from the shipped classes in the way the package builds them:
     its class is known and ok; its fields are the constructor parameters (first) and the tunables (after), each exactly once in the
     emitted sets; every nested object sits in a field for which from_dict knows the protocol, is registered and of that protocol *)
  Definition keys_in (keys : list nat) (fs : list (nat * value)) : Prop := forall kv, In kv fs -> memn (fst kv) keys = true.
  Definition keys_out (keys : list nat) (fs : list (nat * value)) : Prop := forall kv, In kv fs -> memn (fst kv) keys = false.

  Inductive wf : obj -> Prop :=
  | wf_obj c sc kws ats :
      lookup s c = Some sc -> class_ok sc = true ->
      keys_in (c_emit_kwargs sc) kws -> keys_out (c_emit_attrs sc) kws ->
      keys_in (c_emit_attrs sc) ats -> keys_out (c_emit_kwargs sc) ats ->
      subset (c_required sc) (map fst kws) = true ->
      (forall k v, In (k, v) (kws ++ ats) -> wfv sc k v) ->
      wf (Obj c (kws ++ ats))
  with wfv : cschema -> nat -> value -> Prop :=
  | wfv_atom sc k t : wfv sc k (VAtom t)
  | wfv_obj sc k o p csc : assoc (c_child_proto sc) k = Some p -> lookup s (cls_of o) = Some csc -> c_registered csc = true -> c_proto csc = p ->
      wf o -> wfv sc k (VObj o)
  | wfv_list sc k l p : assoc (c_child_proto sc) k = Some p ->
      (forall o, In o l -> exists csc, lookup s (cls_of o) = Some csc /\ c_registered csc = true /\ c_proto csc = p /\ wf o) -> wfv sc k (VList l).

  Lemma memn_in x l : memn x l = true <-> In x l.
  Proof.
    unfold memn. rewrite existsb_exists. split; [intros [y [H E]]; apply Nat.eqb_eq in E; now subst|intro H; exists x; split; [exact H|apply Nat.eqb_refl]].
  Qed.
  Lemma subset_spec a b : subset a b = true <-> forall x, In x a -> In x b.
  Proof. unfold subset. rewrite forallb_forall. split; intros H x Hx; [apply memn_in; now apply H|apply memn_in; now apply H]. Qed.

  (* the emit loop of to_dict keeps exactly the fields whose key is emitted, in order *)
  Fixpoint emit (keys : list nat) (l : list (nat * value)) : list (nat * dval) :=
    match l with
    | [] => []
    | kv :: t => if memn (fst kv) keys then (fst kv, to_dval s (snd kv)) :: emit keys t else emit keys t
    end.
  Lemma emit_all keys l : keys_in keys l -> emit keys l = map (fun kv => (fst kv, to_dval s (snd kv))) l.
  Proof.
    induction l as [|kv t IH]; intro H; [reflexivity|]. cbn. rewrite (H kv (or_introl eq_refl)). f_equal. apply IH. intros x Hx. apply H. now right.
  Qed.
  Lemma emit_none keys l : keys_out keys l -> emit keys l = [].
  Proof.
    induction l as [|kv t IH]; intro H; [reflexivity|]. cbn. rewrite (H kv (or_introl eq_refl)). apply IH. intros x Hx. apply H. now right.
  Qed.
  Lemma emit_app keys a b : emit keys (a ++ b) = emit keys a ++ emit keys b.
  Proof. induction a as [|kv t IH]; [reflexivity|]. cbn. destruct (memn (fst kv) keys); cbn; now rewrite <- IH. Qed.

  Lemma to_dict_unfold c fs sc : lookup s c = Some sc -> to_dict s (Obj c fs) = Dict c (emit (c_emit_kwargs sc) fs) (emit (c_emit_attrs sc) fs).
  Proof. intro H. cbn. rewrite H. reflexivity. Qed.

  (* one-step unfoldings of the mutual fixpoint, with the field loop named *)
  Definition conv_fields (f : nat) (sc : cschema) (l : list (nat * dval)) : option (list (nat * value)) :=
    fold_right (fun kd acc => match from_dval s f (assoc (c_child_proto sc) (fst kd)) (snd kd), acc with
                              | Some v, Some r => Some ((fst kd, v) :: r)
                              | _, _ => None
                              end) (Some []) l.
  Lemma from_dict_S f p name kw at_ :
    from_dict s (S f) p (Dict name kw at_) =
    match typed_class s name p with
    | None => None
    | Some sc => if subset (map fst kw) (c_params sc) && subset (c_required sc) (map fst kw)
                 then match conv_fields f sc kw, conv_fields f sc at_ with Some a, Some b => Some (Obj name (a ++ b)) | _, _ => None end
                 else None
    end.
  Proof. reflexivity. Qed.
  Lemma from_dval_S f expected d :
    from_dval s (S f) expected d =
    match d with
    | DAtom t => Some (VAtom t)
    | DDict dd => match expected with Some p => option_map VObj (from_dict s f p dd) | None => None end
    | DList l => match expected with
                 | Some p => option_map VList (fold_right (fun dd acc => match from_dict s f p dd, acc with Some o, Some t => Some (o :: t) | _, _ => None end) (Some []) l)
                 | None => None
                 end
    end.
  Proof. reflexivity. Qed.

  Lemma to_dval_obj o : to_dval s (VObj o) = DDict (to_dict s o). Proof. reflexivity. Qed.
  Lemma to_dval_list l : to_dval s (VList l) = DList (map (to_dict s) l). Proof. reflexivity. Qed.
  Lemma to_dval_atom t : to_dval s (VAtom t) = DAtom t. Proof. reflexivity. Qed.

  Lemma max_le_l a b c : Nat.max a b < c -> a < c. Proof. lia. Qed.
  Lemma max_le_r a b c : Nat.max a b < c -> b < c. Proof. lia. Qed.

  (* the round trip, by induction on the fuel (any fuel above the nesting depth) *)
  Theorem roundtrip : forall fuel,
    (forall o p csc, odepth o < fuel -> wf o -> lookup s (cls_of o) = Some csc -> c_registered csc = true -> c_proto csc = p ->
       from_dict s fuel p (to_dict s o) = Some o) /\
    (forall sc k v, vdepth v < fuel -> wfv sc k v -> from_dval s fuel (assoc (c_child_proto sc) k) (to_dval s v) = Some v).
  Proof.
    induction fuel as [|f [IHo IHv]]; [split; intros; lia|]. split.
    - intros o p csc Hd Hw Hl Hr Hp. inversion Hw as [c sc kws ats Hlk Hok Kk Ko Ak Ao Hreq Hch]; subst. cbn [cls_of] in Hl.
      rewrite Hlk in Hl. inversion Hl; subst csc. clear Hl.
      rewrite (to_dict_unfold c (kws ++ ats) sc Hlk). rewrite !emit_app, (emit_all _ kws Kk), (emit_none _ ats Ao), (emit_none _ kws Ko), (emit_all _ ats Ak).
      rewrite app_nil_r. cbn [app]. rewrite from_dict_S. unfold typed_class. rewrite Hlk, Hr, Nat.eqb_refl. cbn [andb].
      (* constructor accepts exactly these keys *)
      unfold class_ok in Hok. repeat (apply andb_true_iff in Hok; destruct Hok as [Hok ?]).
      assert (subset (map fst (map (fun kv => (fst kv, to_dval s (snd kv))) kws)) (c_params sc) = true) as S1.
      { rewrite map_map. cbn [fst]. apply subset_spec. intros x Hx. apply in_map_iff in Hx. destruct Hx as [kv [<- Hkv]].
        match goal with H : subset (c_emit_kwargs sc) (c_params sc) = true |- _ => apply (proj1 (subset_spec _ _) H) end. apply memn_in. now apply Kk. }
      assert (subset (c_required sc) (map fst (map (fun kv => (fst kv, to_dval s (snd kv))) kws)) = true) as S2.
      { rewrite map_map. cbn [fst]. exact Hreq. }
      rewrite S1, S2. cbn [andb].
      (* every field converts back, using the induction hypothesis one level down *)
      assert (forall l, (forall k v, In (k, v) l -> wfv sc k v) -> fdepth l < f ->
                conv_fields f sc (map (fun kv => (fst kv, to_dval s (snd kv))) l) = Some l) as Conv.
      { induction l as [|[k v] t IHl]; intros W D; [reflexivity|]. unfold conv_fields in *. cbn [map fst snd fold_right]. unfold fdepth in D. cbn in D.
        rewrite (IHv sc k v); [|lia|apply W; now left].
        rewrite IHl; [reflexivity|intros; apply W; now right|unfold fdepth; lia]. }
      assert (fdepth (kws ++ ats) < f) as D by (unfold fdepth; cbn in Hd; lia).
      assert (fdepth kws < f /\ fdepth ats < f) as [D1 D2].
      { clear - D. unfold fdepth in *. induction kws as [|kv t IH]; cbn in *; [split; [lia|exact D]|]. destruct IH as [A B]; [lia|]. split; lia. }
      rewrite (Conv kws), (Conv ats); [reflexivity| | | |]; try assumption; intros k v Hin; apply Hch; apply in_or_app; [now right|now left].
    - intros sc k v Hd Hw. rewrite from_dval_S. destruct v as [t|o|l]; [rewrite to_dval_atom; reflexivity|rewrite to_dval_obj|rewrite to_dval_list].
      + inversion Hw as [|? ? ? p csc Ha Hl Hr Hp Hwf|]; subst. rewrite Ha. cbn in Hd.
        rewrite (IHo o (c_proto csc) csc); [reflexivity|lia|assumption|assumption|assumption|reflexivity].
      + inversion Hw as [| |? ? ? p Ha Hall]; subst. rewrite Ha.
        assert (forall l0, ldepth l0 < f -> (forall o, In o l0 -> exists csc, lookup s (cls_of o) = Some csc /\ c_registered csc = true /\ c_proto csc = p /\ wf o) ->
                  fold_right (fun dd acc => match from_dict s f p dd, acc with Some o, Some t => Some (o :: t) | _, _ => None end) (Some []) (map (to_dict s) l0) = Some l0) as Aux.
        { induction l0 as [|o t IHl]; intros D A; [reflexivity|]. cbn [map fold_right]. unfold ldepth in D. cbn in D.
          destruct (A o (or_introl eq_refl)) as (csc & Hl & Hr & Hp & Hwf).
          rewrite IHl; [|unfold ldepth; lia|intros; apply A; now right].
          rewrite (IHo o p csc); [reflexivity|lia|assumption|assumption|assumption|assumption]. }
        rewrite Aux; [reflexivity| |exact Hall]. unfold ldepth. cbn in Hd. lia.
  Qed.

  Corollary roundtrip_obj o p csc : wf o -> lookup s (cls_of o) = Some csc -> c_registered csc = true -> c_proto csc = p ->
    from_dict s (S (odepth o)) p (to_dict s o) = Some o.
  Proof. intros. apply (proj1 (roundtrip (S (odepth o)))) with (csc := csc); auto. Qed.
End SP.
