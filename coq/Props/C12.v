(* C12 — Constraints on the atoms are respected. *)
From QV Require Import Model.Constraints Proofs.ConstraintsProofs.
From Coq Require Import Lra.

(* one application of the constraint, for ANY proposed positions (every mover proposes through set_positions) *)
Theorem C12_fixatoms_keeps_fixed_rows : forall fixed old new i, length old = length fixed -> length new = length fixed ->
  nth i fixed false = true -> nth i (fixatoms_adjust fixed old new) vzero = nth i old vzero.
Proof. exact fixatoms_fixed. Qed.
Print Assumptions C12_fixatoms_keeps_fixed_rows.
Theorem C12_fixatoms_leaves_free_rows : forall fixed old new i, length old = length fixed -> length new = length fixed ->
  nth i fixed false = false -> nth i (fixatoms_adjust fixed old new) vzero = nth i new vzero.
Proof. exact fixatoms_free. Qed.
Print Assumptions C12_fixatoms_leaves_free_rows.
Theorem C12_fixcom_keeps_com : forall ms old new, length ms = length new -> summ ms <> 0 -> com ms (fixcom_adjust ms old new) = com ms old.
Proof. exact fixcom_keeps_com. Qed.
Print Assumptions C12_fixcom_keeps_com.
Theorem C12_fixcom_momenta_zero : forall ms ps, length ms = length ps -> summ ms <> 0 -> sumv (fixcom_momenta ms ps) = vzero.
Proof. exact fixcom_momenta_zero. Qed.
Print Assumptions C12_fixcom_momenta_zero.

(* every history of proposals (displacement, Verlet sub-steps, force-bias displacements: any new positions), acceptances and
   rejections: fixed atoms stay where they started, the centre of mass stays where it started *)
Theorem C12_fixed_never_move : forall fixed x0 ops s,
  (length (cur s) = length fixed /\ forall i, nth i fixed false = true -> nth i (cur s) vzero = nth i x0 vzero) ->
  (length (lastp s) = length fixed /\ forall i, nth i fixed false = true -> nth i (lastp s) vzero = nth i x0 vzero) ->
  forall i, nth i fixed false = true ->
    nth i (cur (crun (fun old new => if Nat.eqb (length new) (length fixed) then fixatoms_adjust fixed old new else old) ops s)) vzero = nth i x0 vzero.
Proof. exact fixed_never_move. Qed.
Print Assumptions C12_fixed_never_move.
Theorem C12_com_never_drifts : forall ms c0 ops, summ ms <> 0 -> forall s,
  (length (cur s) = length ms /\ com ms (cur s) = c0) -> (length (lastp s) = length ms /\ com ms (lastp s) = c0) ->
  com ms (cur (crun (fun old new => if Nat.eqb (length new) (length ms) then fixcom_adjust ms old new else old) ops s)) = c0.
Proof. exact com_never_drifts. Qed.
Print Assumptions C12_com_never_drifts.

(* FixRot: zero angular momentum (omega solving I omega = L), unchanged linear momentum (positions relative to the COM) *)
Theorem C12_fixrot_zero_L : forall omega ms rs ps, length ms = length rs -> length rs = length ps ->
  mapply (inertia ms rs) omega = angmom rs ps -> angmom rs (fixrot_go omega ms rs ps) = vzero.
Proof. exact fixrot_zero_L. Qed.
Print Assumptions C12_fixrot_zero_L.
(* ... and that omega EXISTS and is unique for ANY non-collinear positions (two position vectors relative to the centre of mass that are not
   parallel), any positive masses and any momenta: the inertia tensor is symmetric positive definite (v.Iv = sum m |r x v|^2), hence invertible *)
Theorem C12_fixrot_any_noncollinear : forall ms rs ps r1 r2, Forall (fun m => 0 < m) ms -> length ms = length rs -> length rs = length ps ->
  In r1 rs -> In r2 rs -> cross r1 r2 <> vzero ->
  exists omega, mapply (inertia ms rs) omega = angmom rs ps /\ (forall o', mapply (inertia ms rs) o' = angmom rs ps -> o' = omega) /\
                angmom rs (fixrot_go omega ms rs ps) = vzero.
Proof. exact fixrot_any_noncollinear. Qed.
Print Assumptions C12_fixrot_any_noncollinear.
Theorem C12_inertia_positive_definite : forall ms rs r1 r2, Forall (fun m => 0 < m) ms -> length ms = length rs -> In r1 rs -> In r2 rs -> cross r1 r2 <> vzero ->
  forall v, v <> vzero -> 0 < qf (inertia ms rs) v.
Proof. exact inertia_pd. Qed.
Print Assumptions C12_inertia_positive_definite.
Theorem C12_fixrot_keeps_P : forall omega ms xs ps, length ms = length xs -> length xs = length ps -> summ ms <> 0 ->
  sumv (fixrot_go omega ms (rel_com ms xs) ps) = sumv ps.
Proof. exact fixrot_keeps_P. Qed.
Print Assumptions C12_fixrot_keeps_P.

(* non-vacuity *)
Example C12_nonvacuous : summ [1; 2] <> 0 /\ com [1; 2] [V3 0 0 0; V3 3 0 0] = V3 2 0 0.
Proof. split; [simpl; lra|]. unfold com. apply OpsProofs.v3_eq; simpl; field. Qed.
