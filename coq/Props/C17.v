(* C17 — Combining moves and operations with + and * is faithful and order-preserving.
   Only statements, `exact`, Print Assumptions and non-vacuity examples live here. *)
From QV Require Import Model.Algebra Proofs.AlgebraProofs.

(* (1) a + b and a * n contain exactly the operands' elementary moves, in order, with multiplicity — every tree *)
Theorem C17_flatten_faithful : forall bug e v, eval bug e = Some v -> leaves v = flatten e.
Proof. exact flatten_faithful_l. Qed.
Print Assumptions C17_flatten_faithful.

(* (2) the result is the specialised composite exactly when all elements are of one displacement / exchange kind *)
Theorem C17_specialised : forall e t ms, eval false e = Some (VComp t ms) -> ms <> [] /\ t = spec_type ms.
Proof. exact specialised_l. Qed.
Print Assumptions C17_specialised.

Theorem C17_spec_type_disp : forall ms, ms <> [] -> (spec_type ms = CDisp <-> forall l, In l ms -> snd l = Disp).
Proof. exact spec_disp. Qed.
Print Assumptions C17_spec_type_disp.

Theorem C17_spec_type_exch : forall ms, ms <> [] -> (spec_type ms = CExch <-> forall l, In l ms -> snd l = Exch).
Proof. exact spec_exch. Qed.
Print Assumptions C17_spec_type_exch.

(* (3) however the expression is parenthesised *)
Theorem C17_assoc_free : forall e1 e2 t1 m1 t2 m2,
  eval false e1 = Some (VComp t1 m1) -> eval false e2 = Some (VComp t2 m2) ->
  flatten e1 = flatten e2 -> t1 = t2 /\ m1 = m2.
Proof. exact assoc_free_l. Qed.
Print Assumptions C17_assoc_free.

(* (4) n must be a positive integer *)
Theorem C17_mul_guard : forall bug e n, eval bug (Mul e n) = None <-> eval bug e = None \/ n < 1.
Proof. exact mul_guard_l. Qed.
Print Assumptions C17_mul_guard.

(* (5) calling a plain composite calls each element once, in order, and succeeds if any element does *)
Theorem C17_plain_call : forall ms f,
  fst (call_plain ms f) = ms /\ (snd (call_plain ms f) = true <-> exists l, In l ms /\ f l = true).
Proof. exact call_plain_l. Qed.
Print Assumptions C17_plain_call.

(* operations *)
Theorem C17_op_flatten_faithful : forall e v, oeval e = Some v -> oleaves v = oflatten e.
Proof. exact oflatten_faithful_l. Qed.
Print Assumptions C17_op_flatten_faithful.

Theorem C17_op_assoc_free : forall e1 e2 o1 o2,
  oeval e1 = Some (OComp o1) -> oeval e2 = Some (OComp o2) -> oflatten e1 = oflatten e2 -> o1 = o2.
Proof. exact oassoc_free_l. Qed.
Print Assumptions C17_op_assoc_free.

Theorem C17_op_mul_guard : forall e n, oeval (OMul e n) = None <-> oeval e = None \/ n < 1.
Proof. exact omul_guard_l. Qed.
Print Assumptions C17_op_mul_guard.

(* the pinned tree's comparison (bug = true) refutes (2): a + (b + c) of one kind comes out plain *)
Example C17_right_nested_refuted :
  eval true (Add (Leaf (1, Disp)) (Add (Leaf (2, Disp)) (Leaf (3, Disp)))) = Some (VComp Plain [(1, Disp); (2, Disp); (3, Disp)])
  /\ spec_type [(1, Disp); (2, Disp); (3, Disp)] = CDisp.
Proof. split; reflexivity. Qed.

(* non-vacuity: mixed, nested, multiplied expressions evaluate *)
Example C17_nonvacuous :
  eval false (Add (Mul (Leaf (1, Exch)) 2) (Add (Leaf (2, Exch)) (Leaf (3, Exch)))) = Some (VComp CExch [(1, Exch); (1, Exch); (2, Exch); (3, Exch)])
  /\ eval false (Add (Leaf (1, Disp)) (Mul (Add (Leaf (2, Cell)) (Leaf (3, Disp))) 2)) =
     Some (VComp Plain [(1, Disp); (2, Cell); (3, Disp); (2, Cell); (3, Disp)]).
Proof. split; reflexivity. Qed.
