(* C10 — Proposal operations stay within their advertised geometry and are symmetric. *)
From Coquelicot Require Import Coquelicot. (* first: Model.Ops.ball must shadow Coquelicot's *)
From QV Require Import Model.Ops Proofs.OpsProofs Proofs.OpsMeasure.
From Coq Require Import Lra.

(* ball: norm = r <= step;  sphere: norm = step;  box: components within +-step *)
Theorem C10_ball_norm : forall r step phi c, -1 <= c <= 1 -> 0 <= r <= step -> norm2 (ball r phi c) = r * r /\ norm2 (ball r phi c) <= step * step.
Proof. intros. split; [now apply ball_norm|now apply ball_within]. Qed.
Print Assumptions C10_ball_norm.
Theorem C10_sphere_norm : forall step phi c, -1 <= c <= 1 -> norm2 (sphere step phi c) = step * step.
Proof. exact sphere_norm. Qed.
Print Assumptions C10_sphere_norm.
Theorem C10_box_bound : forall step t, - step <= vx t <= step -> - step <= vy t <= step -> - step <= vz t <= step ->
  Rabs (vx (box t)) <= step /\ Rabs (vy (box t)) <= step /\ Rabs (vz (box t)) <= step.
Proof. exact box_bound. Qed.
Print Assumptions C10_box_bound.

(* translation: centroid of the moved group = frac @ cell (frac requested uniform on [0,1)^3); rigid *)
Theorem C10_translation_centroid : forall frac cell ps, ps <> [] -> centroid (map (vadd (translation frac cell ps)) ps) = rowmul frac cell.
Proof. exact translation_centroid. Qed.
Print Assumptions C10_translation_centroid.
Theorem C10_translation_rigid : forall t p q, norm2 (vsub (vadd t p) (vadd t q)) = norm2 (vsub p q).
Proof. exact translation_rigid. Qed.
Print Assumptions C10_translation_rigid.

(* rotation: ASE's matrix is orthogonal; rotating about any centre is rigid; about the centre of mass keeps it *)
Theorem C10_rotation_orthogonal : forall phi c psi, -1 <= c <= 1 -> orthogonal (ase_rot phi c psi).
Proof. exact ase_rot_orth. Qed.
Print Assumptions C10_rotation_orthogonal.
Theorem C10_rotation_rigid : forall A c p q, orthogonal A -> norm2 (vsub (rot_point A c p) (rot_point A c q)) = norm2 (vsub p q).
Proof. exact rotation_rigid. Qed.
Print Assumptions C10_rotation_rigid.
Theorem C10_rotation_keeps_com : forall A ms ps, length ms = length ps -> summ ms <> 0 ->
  com ms (map (rot_point A (com ms ps)) ps) = com ms ps.
Proof. exact rotation_keeps_com. Qed.
Print Assumptions C10_rotation_keeps_com.

(* composite operation: the sum of its parts *)
Theorem C10_composite_sum : forall a b, composite (a ++ b) = vadd (composite a) (composite b).
Proof. exact composite_app. Qed.
Print Assumptions C10_composite_sum.

(* symmetry: law-preserving involutions of the draws produce the inverse proposal *)
Theorem C10_ball_symmetric : forall r phi c, ball r (phi + PI) (- c) = vscale (-1) (ball r phi c).
Proof. exact ball_antipode. Qed.
Print Assumptions C10_ball_symmetric.
Theorem C10_sphere_symmetric : forall step phi c, sphere step (phi + PI) (- c) = vscale (-1) (sphere step phi c).
Proof. exact sphere_antipode. Qed.
Print Assumptions C10_sphere_symmetric.
Theorem C10_rotation_symmetric : forall phi c psi, -1 <= c <= 1 ->
  mmul (ase_rot phi c psi) (ase_rot (euler_inv_phi psi) c (euler_inv_psi phi)) = mident.
Proof. exact ase_rot_inverse. Qed.
Print Assumptions C10_rotation_symmetric.

(* ... and those involutions preserve the uniform laws the draws come from (expectation of every continuous test function):
   u -> -u on U[-s, s] (each Box coordinate; the cosine c of Ball / Sphere / Rotation with s = 1), phi -> phi + PI on the circle.
   One coordinate at a time; the product over independent coordinates (Fubini) stays cited, DESIGN 5.6. *)
Theorem C10_reflection_preserves_uniform : forall (f : R -> R) (s : R), (forall z, - s <= z <= s -> continuous f z) -> 0 <= s ->
  RInt (fun u : R => f (- u)) (- s) s = RInt f (- s) s.
Proof. exact uniform_reflection. Qed.
Print Assumptions C10_reflection_preserves_uniform.
Theorem C10_half_turn_preserves_uniform : forall (g : R -> R), (forall z, continuous g z) -> (forall z, g (z + 2 * PI) = g z) ->
  RInt (fun phi : R => g (phi + PI)) 0 (2 * PI) = RInt g 0 (2 * PI).
Proof. exact uniform_half_turn. Qed.
Print Assumptions C10_half_turn_preserves_uniform.

(* deformations *)
Theorem C10_masked_identity : forall x mk i j, (i < 3)%nat -> (j < 3)%nat -> mk i j = false -> mget (masked x mk) i j = delta i j.
Proof. exact masked_identity. Qed.
Print Assumptions C10_masked_identity.
Theorem C10_iso_scalar : forall u, iso_def u full_mask = mscale (exp u) mident.
Proof. exact iso_scalar. Qed.
Print Assumptions C10_iso_scalar.
Theorem C10_iso_symmetric_inverse : forall u, mmul (iso_def (- u) full_mask) (iso_def u full_mask) = mident.
Proof. exact iso_inverse. Qed.
Print Assumptions C10_iso_symmetric_inverse.
Theorem C10_iso_spd : forall u v, v <> vzero -> mtrans (iso_def u full_mask) = iso_def u full_mask /\ 0 < quad (iso_def u full_mask) v.
Proof. intros u v N. exact (iso_spd u v N). Qed.
Print Assumptions C10_iso_spd.

(* for any function expm with the stated contract of the matrix exponential *)
Section WithExpm.
  Variable expm : m3 -> m3.
  Hypothesis expm_inverse : forall E, mmul (expm (mneg E)) (expm E) = mident.
  Hypothesis expm_transpose : forall E, expm (mtrans E) = mtrans (expm E).
  Hypothesis expm_det : forall E, mdet (expm E) = exp (mtrace E).
  Hypothesis expm_half : forall E, expm E = mmul (expm (mscale (/ 2) E)) (expm (mscale (/ 2) E)).
  Hypothesis expm_regular : forall E v, mapply (expm E) v = vzero -> v = vzero.

  Theorem C10_shape_volume : forall c0 c1 c2 c3 c4 c5, mdet (shape_def expm c0 c1 c2 c3 c4 c5 full_mask) = 1.
  Proof. exact (shape_volume expm expm_det). Qed.
  Theorem C10_default_mask_symmetric : forall c0 c1 c2 c3 c4 c5,
    mtrans (aniso_def expm c0 c1 c2 c3 c4 c5 full_mask) = aniso_def expm c0 c1 c2 c3 c4 c5 full_mask /\
    mtrans (shape_def expm c0 c1 c2 c3 c4 c5 full_mask) = shape_def expm c0 c1 c2 c3 c4 c5 full_mask.
  Proof. intros. split; [apply (aniso_symmetric expm expm_transpose)|apply (shape_symmetric expm expm_transpose)]. Qed.
  Theorem C10_default_mask_positive_definite : forall c0 c1 c2 c3 c4 c5 v, v <> vzero ->
    0 < quad (aniso_def expm c0 c1 c2 c3 c4 c5 full_mask) v /\ 0 < quad (shape_def expm c0 c1 c2 c3 c4 c5 full_mask) v.
  Proof.
    intros. split; [apply (aniso_pd expm expm_transpose expm_half expm_regular)|apply (shape_pd expm expm_transpose expm_half expm_regular)]; assumption.
  Qed.
  Theorem C10_deformation_symmetric : forall c0 c1 c2 c3 c4 c5,
    mmul (aniso_def expm (- c0) (- c1) (- c2) (- c3) (- c4) (- c5) full_mask) (aniso_def expm c0 c1 c2 c3 c4 c5 full_mask) = mident /\
    mmul (shape_def expm (- c0) (- c1) (- c2) (- c3) (- c4) (- c5) full_mask) (shape_def expm c0 c1 c2 c3 c4 c5 full_mask) = mident.
  Proof. intros. split; [apply (aniso_inverse expm expm_inverse)|apply (shape_inverse expm expm_inverse)]. Qed.
End WithExpm.
Print Assumptions C10_shape_volume.
Print Assumptions C10_default_mask_symmetric.
Print Assumptions C10_default_mask_positive_definite.
Print Assumptions C10_deformation_symmetric.

(* non-vacuity: the hypotheses on expm are jointly satisfiable (a function meeting all five exists), and the geometric
   premises are met by concrete values *)
Example C10_expm_contract_consistent : mdet (shape_def expm_toy 1 2 3 4 5 6 full_mask) = 1.
Proof. exact (C10_shape_volume expm_toy toy_det 1 2 3 4 5 6). Qed.
Example C10_expm_contract_consistent_pd : forall v, v <> vzero -> 0 < quad (aniso_def expm_toy 1 2 3 4 5 6 full_mask) v.
Proof. intros v N. exact (proj1 (C10_default_mask_positive_definite expm_toy toy_transpose toy_half toy_regular 1 2 3 4 5 6 v N)). Qed.
Example C10_nonvacuous : -1 <= 1 / 2 <= 1 /\ orthogonal (ase_rot 1 (1 / 2) 2).
Proof. split; [lra|apply ase_rot_orth; lra]. Qed.
