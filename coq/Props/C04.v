(* C04 — Energies used for acceptance belong to the configuration they describe. *)
From QV Require Import Model.Calc Proofs.CalcProofs.

(* For ANY calculator (a deterministic function E of the configuration) with ASE's change detection (ceq = identical or not). *)

(* between trials the reported energy is E(current configuration) and asking for it costs nothing (logging is free) *)
Theorem C04_reported_energy_fresh_and_free : forall (C V : Type) (E : C -> V) (ceq : C -> C -> bool) (s : cst C V),
  Coherent C V E ceq s -> get_energy C V E ceq s = (E (cfg s), s).
Proof. exact coherent_energy_free. Qed.
Print Assumptions C04_reported_energy_fresh_and_free.
(* one trial of any kind keeps: cached result = reference energy = E(current), calc.atoms = remembered geometry = current;
   it costs one evaluation iff it reached its criteria with a changed configuration *)
Theorem C04_trial_coherent : forall (C V : Type) (E : C -> V) (ceq : C -> C -> bool), (forall a b, ceq a b = true <-> a = b) ->
  forall (s : cst C V) o, Coherent C V E ceq s ->
  Coherent C V E ceq (trial C V E ceq s o) /\ evals (trial C V E ceq s o) = evals s + cost C V ceq s o.
Proof. exact trial_coherent. Qed.
Print Assumptions C04_trial_coherent.
(* every accept / reject / fail history *)
Theorem C04_history_coherent : forall (C V : Type) (E : C -> V) (ceq : C -> C -> bool), (forall a b, ceq a b = true <-> a = b) ->
  forall os (s : cst C V), Coherent C V E ceq s ->
  Coherent C V E ceq (run C V E ceq os s) /\ evals (run C V E ceq os s) = evals s + total_cost C V E ceq os s.
Proof. exact run_coherent. Qed.
Print Assumptions C04_history_coherent.
Theorem C04_at_most_one_evaluation_per_evaluated_trial : forall (C V : Type) (E : C -> V) (ceq : C -> C -> bool) os (s : cst C V),
  total_cost C V E ceq os s <= length (filter (reached C) os) + length (filter (edited C) os).
Proof. exact total_cost_le. Qed.
Print Assumptions C04_at_most_one_evaluation_per_evaluated_trial.
(* the reference energy at the start of EVERY run (the first one, one after a restart, one after the user changed the atoms between two runs:
   outcome `Edited` in the histories above): coherent whatever the calculator held, at most one evaluation *)
Theorem C04_reference_at_run_start : forall (C V : Type) (E : C -> V) (ceq : C -> C -> bool), (forall a b, ceq a b = true <-> a = b) ->
  forall (s : cst C V), (forall a e, catoms s = Some a -> cres s = Some e -> e = E a) ->
  Coherent C V E ceq (validate C V E ceq s) /\ evals (validate C V E ceq s) <= S (evals s).
Proof. exact validate_coherent. Qed.
Print Assumptions C04_reference_at_run_start.
(* non-vacuity and an executable instance: configurations and energies are integers, E = successor *)
Example C04_nonvacuous :
  let s0 := validate nat nat S Nat.eqb (Build_cst 5 None None 5 None None 0) in
  evals (run nat nat S Nat.eqb [Accepted 6; Rejected 7; Failed; Edited 8; Rejected 6; Accepted 9] s0) = 6 /\
  cfg (run nat nat S Nat.eqb [Accepted 6; Rejected 7; Failed; Edited 8; Rejected 6; Accepted 9] s0) = 9 /\
  last_e (run nat nat S Nat.eqb [Accepted 6; Rejected 7; Failed; Edited 8; Rejected 6; Accepted 9] s0) = Some 10.
Proof. repeat split; reflexivity. Qed.
