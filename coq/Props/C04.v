(* C04 — Energies used for acceptance belong to the configuration they describe. *)
From QV Require Import Model.Calc Proofs.CalcProofs Model.CalcKeys Proofs.CalcKeysProofs.

(* For ANY calculator (a deterministic function E of the configuration) with ASE's change detection (ceq = identical or not). *)

(* between trials the reported energy is E(current configuration) and asking for it costs nothing (logging is free) *)
Theorem C04_reported_energy_fresh_and_free : forall (C V : Type) (E : C -> V) (ceq : C -> C -> bool) (s : cst C V),
  Coherent C V E ceq s -> get_energy C V E ceq s = (E (cfg s), s).
Proof. exact coherent_energy_free. Qed.
Print Assumptions C04_reported_energy_fresh_and_free.
(* one trial of any kind keeps: cached result = reference energy = E(current), calc.atoms = remembered geometry = current;
   it costs one evaluation iff it reached its criteria with a changed configuration *)
Theorem C04_trial_coherent : forall (C V : Type) (E : C -> V) (ceq : C -> C -> bool), (forall a b, ceq a b = true <-> a = b) ->
  forall (s : cst C V) o, Coherent C V E ceq s ->
  Coherent C V E ceq (trial C V E ceq s o) /\ evals (trial C V E ceq s o) = evals s + cost C V ceq s o.
Proof. exact trial_coherent. Qed.
Print Assumptions C04_trial_coherent.
(* every accept / reject / fail history *)
Theorem C04_history_coherent : forall (C V : Type) (E : C -> V) (ceq : C -> C -> bool), (forall a b, ceq a b = true <-> a = b) ->
  forall os (s : cst C V), Coherent C V E ceq s ->
  Coherent C V E ceq (run C V E ceq os s) /\ evals (run C V E ceq os s) = evals s + total_cost C V E ceq os s.
Proof. exact run_coherent. Qed.
Print Assumptions C04_history_coherent.
Theorem C04_at_most_one_evaluation_per_evaluated_trial : forall (C V : Type) (E : C -> V) (ceq : C -> C -> bool) os (s : cst C V),
  total_cost C V E ceq os s <= length (filter (reached C) os) + length (filter (edited C) os).
Proof. exact total_cost_le. Qed.
Print Assumptions C04_at_most_one_evaluation_per_evaluated_trial.
(* the reference energy at the start of EVERY run (the first one, one after a restart, one after the user changed the atoms between two runs:
   outcome `Edited` in the histories above): coherent whatever the calculator held, at most one evaluation *)
Theorem C04_reference_at_run_start : forall (C V : Type) (E : C -> V) (ceq : C -> C -> bool), (forall a b, ceq a b = true <-> a = b) ->
  forall (s : cst C V), (forall a e, catoms s = Some a -> cres s = Some e -> e = E a) ->
  Coherent C V E ceq (validate C V E ceq s) /\ evals (validate C V E ceq s) <= S (evals s).
Proof. exact validate_coherent. Qed.
Print Assumptions C04_reference_at_run_start.
(* non-vacuity and an executable instance: configurations and energies are integers, E = successor *)
Example C04_nonvacuous :
  let s0 := validate nat nat S Nat.eqb (Build_cst 5 None None 5 None None 0) in
  evals (run nat nat S Nat.eqb [Accepted 6; Rejected 7; Failed; Edited 8; Rejected 6; Accepted 9] s0) = 6 /\
  cfg (run nat nat S Nat.eqb [Accepted 6; Rejected 7; Failed; Edited 8; Rejected 6; Accepted 9] s0) = 9 /\
  last_e (run nat nat S Nat.eqb [Accepted 6; Rejected 7; Failed; Edited 8; Rejected 6; Accepted 9] s0) = Some 10.
Proof. repeat split; reflexivity. Qed.

(* The results as a dictionary keyed by property (energy, forces, stress, ...), for calculators that compute only what is asked for
   (Model/CalcKeys.v).  After EVERY trial of EVERY history - whatever each trial's move and criteria asked for - the calculator is in sync
   with the atoms and every value it holds, under any key, is that key's value for the current configuration; so is everything the
   context saved.  KInv is the invariant of all intermediate points (any sequence of propose / request / save / revert). *)
Theorem C04_held_results_belong_to_the_configuration : forall (C K V : Type) (E : K -> C -> V) (ceq : C -> C -> bool) (keq : K -> K -> bool) (ke : K),
  (forall a b, ceq a b = true <-> a = b) -> (forall a b, keq a b = true <-> a = b) ->
  forall os (s : kst C K V), KInv C K V E keq s ->
  KInv C K V E keq (krun C K V E ceq keq ke false os s) /\
  (os <> [] -> KCoherent C K V E ceq keq (krun C K V E ceq keq ke false os s) /\
               forall k v, lookup K V keq k (kres (krun C K V E ceq keq ke false os s)) = Some v -> v = E k (kcfg (krun C K V E ceq keq ke false os s))).
Proof.
  intros C K V E ceq keq ke Hc Hk os s H. destruct (krun_inv C K V E ceq keq ke Hc Hk os s H) as [A B]. split; [exact A|].
  intros Hn. split; [exact (B Hn)|]. intros k v. apply (coherent_held C K V E ceq keq). exact (B Hn).
Qed.
Print Assumptions C04_held_results_belong_to_the_configuration.
Theorem C04_every_operation_sequence_keeps_the_invariant : forall (C K V : Type) (E : K -> C -> V) (ceq : C -> C -> bool) (keq : K -> K -> bool) (ke : K),
  (forall a b, ceq a b = true <-> a = b) -> (forall a b, keq a b = true <-> a = b) ->
  forall ops (s : kst C K V), KInv C K V E keq s -> KInv C K V E keq (fold_left (kstep C K V E ceq keq ke false) ops s).
Proof. exact ksteps_inv. Qed.
Print Assumptions C04_every_operation_sequence_keeps_the_invariant.
(* with `calc.results.update(last_results)` instead of the replacement the statement is false: the forces asked for by a rejected trial at
   configuration 7 are still held, in sync, for the restored configuration 0 *)
Theorem C04_update_variant_refuted :
  lookup nat (nat * nat) Nat.eqb 1 (kres (krun nat nat (nat * nat) tokE Nat.eqb Nat.eqb 0 true [KRejected 7 [1]] kinit)) = Some (tokE 1 7) /\
  kcfg (krun nat nat (nat * nat) tokE Nat.eqb Nat.eqb 0 true [KRejected 7 [1]] kinit) = 0.
Proof. exact update_variant_stale. Qed.
Print Assumptions C04_update_variant_refuted.
Example C04_keys_nonvacuous : KInv nat nat (nat * nat) tokE Nat.eqb kinit /\ KCoherent nat nat (nat * nat) tokE Nat.eqb Nat.eqb kinit.
Proof. exact kinit_inv. Qed.
