(* C11 — A displacement move moves only the chosen particle. *)
From QV Require Import Model.Displace Proofs.DisplaceProofs.

(* only rows carrying the selected label can change; they receive the operation's rows in order *)
Theorem C11_changes_only_group : forall (P : Type) (d : P) labels presel choice outcome (pos : list P) i,
  let r := displacement_call labels presel choice outcome pos in
  nth i (dpos r) d <> nth i pos d -> dok r = true /\ exists lab, dlabel r = Some lab /\ nth i labels (lab + 1) = lab.
Proof. exact call_changes_only_group. Qed.
Print Assumptions C11_changes_only_group.
Theorem C11_group_receives_result : forall (P : Type) labels lab (pos news : list P), length pos = length labels -> length news = count_lab labels lab ->
  map snd (filter (fun lp => Z.eqb (fst lp) lab) (combine labels (write_group labels lab pos news))) = news.
Proof. exact write_group_group. Qed.
Print Assumptions C11_group_receives_result.
(* a label chosen by the move is non-negative and carried by an atom; negative labels are never displaced *)
Theorem C11_random_label_eligible : forall (P : Type) labels choice outcome (pos : list P) lab,
  dlabel (displacement_call labels None choice outcome pos) = Some lab -> 0 <= lab /\ In lab labels.
Proof. exact call_random_label_eligible. Qed.
Print Assumptions C11_random_label_eligible.
Theorem C11_negative_never_moved : forall (P : Type) (d : P) labels choice outcome (pos : list P) i,
  nth i labels 0 < 0 -> (i < length labels)%nat -> nth i (dpos (displacement_call labels None choice outcome pos)) d = nth i pos d.
Proof. exact call_negative_never_moved. Qed.
Print Assumptions C11_negative_never_moved.
(* no eligible particle: failure, nothing changes; every attempt vetoed: failure, nothing changes *)
Theorem C11_no_eligible_fails : forall (P : Type) labels choice outcome (pos : list P),
  unique_labels labels = [] -> let r := displacement_call labels None choice outcome pos in dok r = false /\ dpos r = pos /\ dlabel r = None.
Proof. exact call_no_eligible_fails. Qed.
Print Assumptions C11_no_eligible_fails.
Theorem C11_veto_restores : forall (P : Type) labels presel choice (pos : list P),
  let r := displacement_call labels presel choice None pos in dok r = false /\ dpos r = pos.
Proof. exact call_veto_restores. Qed.
Print Assumptions C11_veto_restores.

(* composite: never the same particle twice; the reported number is the number of successful sub-moves; with one shared
   labelling and no veto exactly min(n, eligible) particles are displaced *)
Theorem C11_composite_no_particle_twice : forall (P : Type) (subs : list (sub P)) displaced pos,
  NoDup (filtered displaced) -> NoDup (filtered (snd (composite_call subs displaced pos))).
Proof. exact composite_nodup. Qed.
Print Assumptions C11_composite_no_particle_twice.
Theorem C11_number_moved_counts : forall displaced,
  number_moved displaced = length (filter (fun o => match o with Some _ => true | None => false end) displaced).
Proof. exact number_moved_counts. Qed.
Print Assumptions C11_number_moved_counts.
Theorem C11_composite_moves_min : forall (P : Type) labels (subs : list (sub P)),
  Forall (fun s => slabels s = labels /\ soutcome s <> None) subs ->
  forall displaced pos, NoDup (filtered displaced) -> incl (filtered displaced) (unique_labels labels) ->
  (forall s dl, In s subs -> candidates labels dl <> [] -> memz (schoice s) (candidates labels dl) = true) ->
  number_moved (snd (composite_call subs displaced pos)) =
    (number_moved displaced + Nat.min (length subs) (length (unique_labels labels) - number_moved displaced))%nat.
Proof. exact composite_moves_min. Qed.
Print Assumptions C11_composite_moves_min.

Example C11_nonvacuous :
  snd (composite_call [Build_sub [0; 0; 3; -1] 3 (Some [7]); Build_sub [0; 0; 3; -1] 0 (Some [8; 9]); Build_sub [0; 0; 3; -1] 0 (Some [1])] [] [10; 20; 30; 40])
  = [Some 3; Some 0; None] /\
  fst (composite_call [Build_sub [0; 0; 3; -1] 3 (Some [7]); Build_sub [0; 0; 3; -1] 0 (Some [8; 9]); Build_sub [0; 0; 3; -1] 0 (Some [1])] [] [10; 20; 30; 40])
  = [8; 9; 7; 40].
Proof. split; reflexivity. Qed.
