(* C02 — Acceptance decisions equal the textbook Metropolis rule. *)
From QV Require Import Model.Criteria Proofs.CriteriaProofs Gen.Constants.
From Coq Require Import Lra.
From Interval Require Import Tactic.

(* the evaluated acceptance value is min(1, exp x): never an error, for every exponent x (every T>0, dE, ...) *)
Theorem C02_value_is_min1 : forall ovf x, 0 <= ovf -> acc_value true ovf x = Ok (Rmin 1 (exp x)).
Proof. exact acc_value_clamped. Qed.
Print Assumptions C02_value_is_min1.

(* the verdict is "u < min(1, A)" with A = exp x *)
Theorem C02_verdict_textbook : forall ovf x u, 0 <= ovf ->
  decide u (acc_value true ovf x) = Ok (if Rlt_dec u (Rmin 1 (exp x)) then true else false).
Proof. exact decide_textbook. Qed.
Print Assumptions C02_verdict_textbook.

Theorem C02_below_one : forall u A, u < 1 -> (u < Rmin 1 A <-> u < A).
Proof. exact below_one_min. Qed.
Print Assumptions C02_below_one.

(* arbitrarily favourable trials are accepted and never raise *)
Theorem C02_favourable_accepted : forall ovf x u, 0 <= ovf -> 0 <= x -> u < 1 -> decide u (acc_value true ovf x) = Ok true.
Proof. exact favourable_accepted. Qed.
Print Assumptions C02_favourable_accepted.

Theorem C02_never_raises : forall ovf x u, 0 <= ovf -> exists b, decide u (acc_value true ovf x) = Ok b.
Proof. exact never_raises. Qed.
Print Assumptions C02_never_raises.

(* the exponents are the textbook ones *)
Theorem C02_canonical : forall kB, 0 < kB -> forall dE T, T <> 0 -> exp (x_can kB dE T) = exp (- dE / (kB * T)).
Proof. exact can_value. Qed.
Print Assumptions C02_canonical.

Theorem C02_isobaric : forall kB dE P V V' T N, 0 < V -> 0 < V' ->
  exp (x_iso kB dE P V V' T N) = exp (- (dE + P * (V' - V)) / (T * kB)) * (V' / V) ^ (N + 1).
Proof. exact iso_value. Qed.
Print Assumptions C02_isobaric.

Theorem C02_isotension : forall kB, 0 < kB -> forall dE P V V' T N (S eps : mat), T <> 0 ->
  x_tens kB false dE P V V' T N S eps = x_iso kB dE P V V' T N - V * tr_prod (stress_dev false S P) eps / (T * kB).
Proof. exact tens_value. Qed.
Print Assumptions C02_isotension.

Theorem C02_isotension_hydrostatic : forall kB dE P V V' T N (S eps : mat),
  (forall i j, S i j = P * ident i j) -> x_tens kB false dE P V V' T N S eps = x_iso kB dE P V V' T N.
Proof. exact tens_hydrostatic. Qed.
Print Assumptions C02_isotension_hydrostatic.

Theorem C02_gc_insert : forall kB h Nav e dE mu V m T N,
  A_gc kB h Nav e dE mu V m T N 1 = V / (debroglie kB h Nav e m T ^ 3 * (INR N + 1)) * exp ((mu - dE) / (T * kB))
  \/ debroglie kB h Nav e m T = 0.
Proof. exact gc_insert_value. Qed.
Print Assumptions C02_gc_insert.

Theorem C02_gc_delete : forall kB h Nav e dE mu V m T N, V <> 0 ->
  A_gc kB h Nav e dE mu V m T N (-1) = debroglie kB h Nav e m T ^ 3 * INR N / V * exp ((- mu - dE) / (T * kB)).
Proof. exact gc_delete_value. Qed.
Print Assumptions C02_gc_delete.

Theorem C02_gc_log_form : forall kB h Nav e dE mu V m T N delta,
  0 < prefactor kB h Nav e V m T N delta ->
  exp (xlog_gc kB h Nav e dE mu V m T N delta) = A_gc kB h Nav e dE mu V m T N delta.
Proof. exact gc_log_form. Qed.
Print Assumptions C02_gc_log_form.

Theorem C02_factorial_insert : forall N k, fact_ins N k * INR (fact (N + k)) = INR (fact N).
Proof. exact fact_ins_closed. Qed.
Print Assumptions C02_factorial_insert.

Theorem C02_factorial_delete : forall N k, (k <= N)%nat -> fact_del N k * INR (fact (N - k)) = INR (fact N).
Proof. exact fact_del_closed. Qed.
Print Assumptions C02_factorial_delete.

(* refutations for the pinned tree's forms *)
Theorem C02_overflow_refuted : forall ovf x u, ovf < x -> decide u (acc_value false ovf x) = Overflow.
Proof. exact shipped_overflows. Qed.
Print Assumptions C02_overflow_refuted.

Theorem C02_stress_scalar_refuted : forall kB, 0 < kB -> forall dE P V V' T N (eps : mat),
  T <> 0 -> V <> 0 -> P <> 0 ->
  eps 0%nat 1%nat + eps 1%nat 0%nat + eps 0%nat 2%nat + eps 2%nat 0%nat + eps 1%nat 2%nat + eps 2%nat 1%nat <> 0 ->
  x_tens kB true dE P V V' T N (fun i j => P * ident i j) eps <> x_iso kB dE P V V' T N.
Proof. exact tens_scalar_bug_differs. Qed.
Print Assumptions C02_stress_scalar_refuted.

(* non-vacuity: the regenerated constants are positive and dE = -1000 eV at 1 K is beyond any double's exp range *)
Example C02_constants_positive : 0 < kB /\ 0 < hplanck /\ 0 < Nav /\ 0 < echarge /\ 710 < x_can kB (-1000) 1.
Proof. unfold x_can, kB, hplanck, Nav, echarge. repeat split; interval with (i_prec 64). Qed.
