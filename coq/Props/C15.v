(* C15 — Observers fire on schedule and splitting a run does not change it. *)
From QV Require Import Model.Driver Proofs.DriverProofs.

(* positive interval i: called once at step 0 and after every step that is a multiple of i, and at no other time *)
Theorem C15_obs_positive : forall lg obs o n k,
  NoDup (map oname obs) -> In o obs -> 0 <= n -> 0 < ointerval o ->
  (In k (calls_of (oname o) (fst (irun false lg obs fresh n))) <-> 0 <= k <= n /\ k mod ointerval o = 0)
  /\ NoDup (calls_of (oname o) (fst (irun false lg obs fresh n))).
Proof. exact obs_positive_l. Qed.
Print Assumptions C15_obs_positive.

(* negative interval -i: called exactly once, after step i (if the run gets that far) *)
Theorem C15_obs_negative : forall lg obs o n,
  NoDup (map oname obs) -> In o obs -> 0 <= n -> ointerval o < 0 ->
  calls_of (oname o) (fst (irun false lg obs fresh n)) = if - ointerval o <=? n then [- ointerval o] else [].
Proof. exact obs_negative_l. Qed.
Print Assumptions C15_obs_negative.

(* full characterisation, any interval: the calls are exactly the steps selected by the interval test, in order *)
Theorem C15_obs_schedule : forall lg obs o n,
  NoDup (map oname obs) -> In o obs -> 0 <= n ->
  calls_of (oname o) (fst (irun false lg obs fresh n)) = filter (fun k => due k o) (zseq 0 (S (Z.to_nat n))).
Proof. exact obs_schedule. Qed.
Print Assumptions C15_obs_schedule.

(* the header is written once, before the first row; never again once the simulation has started *)
Theorem C15_header_once : forall obs n,
  exists rest, fst (irun false true obs fresh n) = Header :: rest /\ existsb is_header rest = false.
Proof. exact header_once_l. Qed.
Print Assumptions C15_header_once.

Theorem C15_no_header_on_continuation : forall lg obs c st n,
  0 < c \/ st = true -> existsb is_header (fst (irun false lg obs (c, st) n)) = false.
Proof. exact no_header_later_l. Qed.
Print Assumptions C15_no_header_on_continuation.

(* exactly the requested number of steps, numbered consecutively *)
Theorem C15_exact_steps : forall zf lg obs c st n, 0 <= n ->
  steps_of (fst (irun zf lg obs (c, st) n)) = zseq c (Z.to_nat n).
Proof. exact exact_steps_l. Qed.
Print Assumptions C15_exact_steps.

Theorem C15_exact_steps_count : forall c n, length (zseq c n) = n.
Proof. exact zseq_length. Qed.
Print Assumptions C15_exact_steps_count.

(* every way of splitting into one or more segments (zero-length segments anywhere) gives the event sequence,
   counter and flag of the unsplit run, from any state *)
Theorem C15_split_equal : forall lg obs segs a c st,
  0 <= c -> 0 <= a -> Forall (fun x => 0 <= x) segs ->
  fst (runs false lg obs (c, st) (a :: segs)) = fst (irun false lg obs (c, st) (a + zsum segs))
  /\ snd (runs false lg obs (c, st) (a :: segs)) = (c + (a + zsum segs), true).
Proof. exact split_equal_l. Qed.
Print Assumptions C15_split_equal.

(* the pinned tree (zero_fires = true) refutes it: run 0; run 1 repeats header and step-0 calls *)
(* observer.interval is a public attribute: when the user re-tunes it between two run calls, each segment follows the interval in force
   (the executable form the correspondence runs); left alone, that is the plain run *)
Theorem C15_retuned_runs_compose : forall zf lg s1 s2 st,
  runs_var zf lg st (s1 ++ s2) = let '(e1, c1) := runs_var zf lg st s1 in let '(e2, c2) := runs_var zf lg c1 s2 in (e1 ++ e2, c2).
Proof. exact runs_var_app. Qed.
Print Assumptions C15_retuned_runs_compose.
Theorem C15_untouched_intervals : forall zf lg obs segments st, runs_var zf lg st (map (fun a => (obs, a)) segments) = runs zf lg obs st segments.
Proof. exact runs_var_const. Qed.
Print Assumptions C15_untouched_intervals.
Example C15_retuned_example :
  fst (runs_var false false fresh [([{| oname := 1; ointerval := 1 |}], 2); ([{| oname := 1; ointerval := 3 |}], 4)]) =
  [Obs 1 0; Step 0; Obs 1 1; Step 1; Obs 1 2; Step 2; Obs 1 3; Step 3; Step 4; Step 5; Obs 1 6].
Proof. reflexivity. Qed.

Example C15_split_zero_refuted :
  let obs := [{| oname := 1; ointerval := 1 |}] in
  fst (runs true true obs fresh [0; 1]) = [Header; Obs 1 0; Header; Obs 1 0; Step 0; Obs 1 1]
  /\ fst (irun true true obs fresh 1) = [Header; Obs 1 0; Step 0; Obs 1 1].
Proof. split; reflexivity. Qed.

Example C15_nonvacuous :
  let obs := [{| oname := 1; ointerval := 2 |}; {| oname := 7; ointerval := -3 |}] in
  fst (runs false true obs fresh [0; 2; 0; 3]) =
  [Header; Obs 1 0; Step 0; Step 1; Obs 1 2; Step 2; Obs 7 3; Step 3; Obs 1 4; Step 4]
  /\ NoDup (map oname obs).
Proof. split; [reflexivity|]. repeat constructor; simpl; intuition discriminate. Qed.
