(* C07 — Restarting from any saved step continues the same trajectory. *)
From QV Require Import Model.Restart Model.Serial Proofs.RestartProofs Proofs.SerialProofs Gen.Schema.

(* for ANY step function that reads the state only through its step-relevant projection, ANY restart point k of ANY run and ANY number of
   further steps: if the file written at step k restores that projection, the resumed run agrees with the uninterrupted one *)
Theorem C07_resume_equiv : forall (S D F : Type) (step : S -> S) (proj : S -> D) (save : S -> F) (restore : F -> option S),
  (forall s s', proj s = proj s' -> proj (step s) = proj (step s')) ->
  forall k n s0 s', restore (save (iter_steps step k s0)) = Some s' -> proj s' = proj (iter_steps step k s0) ->
  proj (iter_steps step n s') = proj (iter_steps step (k + n) s0).
Proof. exact resume_equiv. Qed.
Print Assumptions C07_resume_equiv.
(* restarts of restarts: a run interrupted and rebuilt from its own latest file any number of times, after any numbers of steps, ends where
   the uninterrupted run of the same total length ends *)
Theorem C07_chained_restarts : forall (S D : Type) (step : S -> S) (proj : S -> D) (reload : S -> S),
  (forall s s', proj s = proj s' -> proj (step s) = proj (step s')) -> (forall s, proj (reload s) = proj s) ->
  forall segs s0 s0', proj s0' = proj s0 -> proj (chain S step reload segs s0') = proj (iter_steps step (List.list_sum segs) s0).
Proof. intros S D step proj reload H. exact (chained_restarts S D step proj H reload). Qed.
Print Assumptions C07_chained_restarts.
(* the moves, operations, integrators and criteria inside the move table are restored exactly (generic round trip, any nesting) *)
Theorem C07_components_restored : forall (s : schema) (o : obj) p csc, wf s o -> lookup s (cls_of o) = Some csc -> c_registered csc = true -> c_proto csc = p ->
  from_dict s (S (odepth o)) p (to_dict s o) = Some o.
Proof. exact roundtrip_obj. Qed.
Print Assumptions C07_components_restored.
(* REGENERATED from the current source: every simulation class that implements the restart interface (todict) writes everything its
   constructor needs, nothing its constructor refuses, the atoms, and every simulation-level setting it owns, and can be looked up *)
Theorem C07_restart_schema_ok : forallb restart_ok (filter s_has_todict simulations) = true.
Proof. vm_compute. reflexivity. Qed.
Print Assumptions C07_restart_schema_ok.
Theorem C07_components_schema_ok : forallb class_ok classes = true.
Proof. vm_compute. reflexivity. Qed.
Print Assumptions C07_components_schema_ok.

Example C07_nonvacuous : exists sc, In sc (filter s_has_todict simulations) /\ restart_ok sc = true.
Proof. vm_compute. eexists. split; [left; reflexivity|reflexivity]. Qed.
