(* C01 — Ensembles reproduce exact averages of solvable systems.
   PARTIAL, and labelled so: what is proved is detailed balance of the model kernels (all parameters); that detailed balance plus
   irreducibility gives convergence of time averages (ergodic theorem), and the closed forms of the analytic averages, are cited
   mathematics; the real code is sampled statistically by the harness. *)
From QV Require Import Model.Criteria Proofs.CriteriaProofs Proofs.BalanceProofs.
From Coq Require Import Lra.
Open Scope R_scope.

Theorem C01_mh_detailed_balance : forall px py, 0 < px -> 0 < py -> px * Rmin 1 (py / px) = py * Rmin 1 (px / py).
Proof. exact mh_detailed_balance. Qed.
Print Assumptions C01_mh_detailed_balance.
Theorem C01_accept_probability : forall u A, 0 <= u < 1 -> (u < A <-> u < Rmin 1 A).
Proof. exact accept_set. Qed.
Print Assumptions C01_accept_probability.
(* the exponents evaluated by the criteria (Model/Criteria.v, tied to the code by C02) are ratios of the target weights *)
Theorem C01_canonical_ratio : forall kB, 0 < kB -> forall Ex Ey T, 0 < T -> exp (x_can kB (Ey - Ex) T) = exp (- Ey / (kB * T)) / exp (- Ex / (kB * T)).
Proof. exact canonical_ratio. Qed.
Print Assumptions C01_canonical_ratio.
Theorem C01_isobaric_ratio : forall kB, 0 < kB -> forall Ex Ey P V V' T N, 0 < T -> 0 < V -> 0 < V' ->
  exp (x_iso kB (Ey - Ex) P V V' T N) = w_iso kB P T N Ey V' / w_iso kB P T N Ex V.
Proof. exact isobaric_ratio. Qed.
Print Assumptions C01_isobaric_ratio.
Theorem C01_gc_insert_ratio : forall kB, 0 < kB -> forall V L mu T Ex Ey N, 0 < V -> 0 < L -> 0 < T ->
  w_gc kB V L mu T (S N) Ey / w_gc kB V L mu T N Ex = V / (L * (INR N + 1)) * exp ((mu - (Ey - Ex)) / (T * kB)).
Proof. exact gc_insert_ratio. Qed.
Print Assumptions C01_gc_insert_ratio.
Theorem C01_gc_delete_ratio : forall kB, 0 < kB -> forall V L mu T Ex Ey N, 0 < V -> 0 < L -> 0 < T ->
  w_gc kB V L mu T N Ey / w_gc kB V L mu T (S N) Ex = L * (INR N + 1) / V * exp ((- mu - (Ey - Ex)) / (T * kB)).
Proof. exact gc_delete_ratio. Qed.
Print Assumptions C01_gc_delete_ratio.
(* ideal gas: the Poisson weights a^N / N! (a = V exp(mu/kT)/Lambda^3) are stationary for the N-chain with unbiased insertion / deletion *)
Theorem C01_poisson_stationary : forall a N, 0 < a ->
  a ^ N / INR (fact N) * Rmin 1 (a / (INR N + 1)) = a ^ (S N) / INR (fact (S N)) * Rmin 1 ((INR N + 1) / a).
Proof. exact poisson_detailed_balance. Qed.
Print Assumptions C01_poisson_stationary.

Example C01_nonvacuous : 0 < 2 /\ 2 ^ 1 / INR (fact 1) * Rmin 1 (2 / (INR 1 + 1)) = 2.
Proof. split; [lra|]. simpl. rewrite Rmin_left by lra. lra. Qed.
