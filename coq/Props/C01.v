(* C01 — Ensembles reproduce exact averages of solvable systems.
   PARTIAL, and labelled so: what is proved is detailed balance of the model kernels (all parameters); that detailed balance plus
   irreducibility gives convergence of time averages (ergodic theorem) is cited; the closed forms of the analytic averages are proved below (two of them up to an
   explicit boundary term whose limit is cited)
   mathematics; the real code is sampled statistically by the harness. *)
From QV Require Import Model.Criteria Proofs.CriteriaProofs Proofs.BalanceProofs Proofs.MarkovProofs.
From QV Require Import Proofs.LangevinProofs Proofs.AveragesProofs Proofs.PoissonProofs.
From Coq Require Import List.
From Coquelicot Require Import Coquelicot.
From Coq Require Import Lra.
Open Scope R_scope.

Theorem C01_mh_detailed_balance : forall px py, 0 < px -> 0 < py -> px * Rmin 1 (py / px) = py * Rmin 1 (px / py).
Proof. exact mh_detailed_balance. Qed.
Print Assumptions C01_mh_detailed_balance.
Theorem C01_accept_probability : forall u A, 0 <= u < 1 -> (u < A <-> u < Rmin 1 A).
Proof. exact accept_set. Qed.
Print Assumptions C01_accept_probability.
(* the exponents evaluated by the criteria (Model/Criteria.v, tied to the code by C02) are ratios of the target weights *)
Theorem C01_canonical_ratio : forall kB, 0 < kB -> forall Ex Ey T, 0 < T -> exp (x_can kB (Ey - Ex) T) = exp (- Ey / (kB * T)) / exp (- Ex / (kB * T)).
Proof. exact canonical_ratio. Qed.
Print Assumptions C01_canonical_ratio.
Theorem C01_isobaric_ratio : forall kB, 0 < kB -> forall Ex Ey P V V' T N, 0 < T -> 0 < V -> 0 < V' ->
  exp (x_iso kB (Ey - Ex) P V V' T N) = w_iso kB P T N Ey V' / w_iso kB P T N Ex V.
Proof. exact isobaric_ratio. Qed.
Print Assumptions C01_isobaric_ratio.
Theorem C01_gc_insert_ratio : forall kB, 0 < kB -> forall V L mu T Ex Ey N, 0 < V -> 0 < L -> 0 < T ->
  w_gc kB V L mu T (S N) Ey / w_gc kB V L mu T N Ex = V / (L * (INR N + 1)) * exp ((mu - (Ey - Ex)) / (T * kB)).
Proof. exact gc_insert_ratio. Qed.
Print Assumptions C01_gc_insert_ratio.
Theorem C01_gc_delete_ratio : forall kB, 0 < kB -> forall V L mu T Ex Ey N, 0 < V -> 0 < L -> 0 < T ->
  w_gc kB V L mu T N Ey / w_gc kB V L mu T (S N) Ex = L * (INR N + 1) / V * exp ((- mu - (Ey - Ex)) / (T * kB)).
Proof. exact gc_delete_ratio. Qed.
Print Assumptions C01_gc_delete_ratio.
(* ideal gas: the Poisson weights a^N / N! (a = V exp(mu/kT)/Lambda^3) are stationary for the N-chain with unbiased insertion / deletion *)
Theorem C01_poisson_stationary : forall a N, 0 < a ->
  a ^ N / INR (fact N) * Rmin 1 (a / (INR N + 1)) = a ^ (S N) / INR (fact (S N)) * Rmin 1 ((INR N + 1) / a).
Proof. exact poisson_detailed_balance. Qed.
Print Assumptions C01_poisson_stationary.

(* ---- from one trial to whole histories (finite state spaces; any number of states, kernels, steps) ---- *)
(* a kernel in detailed balance with the target leaves it invariant *)
Theorem C01_reversible_stationary : forall (A : Type) (S : list A) (pi : A -> R) (K : A -> A -> R),
  stochastic S K -> reversible S pi K -> stationary S pi K.
Proof. exact @reversible_stationary. Qed.
Print Assumptions C01_reversible_stationary.
(* the Metropolis-Hastings kernel of ANY proposal q (symmetric support) with acceptance min(1, pi(y) q(y,x) / (pi(x) q(x,y))) - the form of
   every shipped criteria: symmetric q for displacements / rotations / Hamiltonian / log-volume moves (C10), q = 1/V vs 1/(N+1) for exchange - is reversible *)
Theorem C01_mh_kernel_reversible : forall (A : Type) (S : list A) (pi : A -> R) (q K : A -> A -> R),
  (forall x, In x S -> 0 < pi x) -> (forall x y, 0 <= q x y) -> (forall x y, q x y = 0 -> q y x = 0) ->
  (forall x y, In x S -> In y S -> x <> y -> K x y = q x y * Rmin 1 (pi y * q y x / (pi x * q x y))) ->
  (forall x y : A, x = y \/ x <> y) -> reversible S pi K.
Proof. exact @mh_reversible. Qed.
Print Assumptions C01_mh_kernel_reversible.
(* the scheduler's weighted choice among the moves of the table *)
Theorem C01_move_choice_invariant : forall (A : Type) (S : list A) (pi : A -> R) (wk : list (R * (A -> A -> R))),
  List.Forall (fun p => stationary S pi (snd p)) wk -> fold_right (fun p s => fst p + s) 0 wk = 1 -> stationary S pi (mixl wk).
Proof. exact @stationary_mixl. Qed.
Print Assumptions C01_move_choice_invariant.
(* one move after another: the cycles of a step, the parts of a composite move (not reversible in general, still invariant) *)
Theorem C01_sequence_invariant : forall (A : Type) (S : list A) (pi : A -> R) (K1 K2 : A -> A -> R),
  stationary S pi K1 -> stationary S pi K2 -> stationary S pi (comp S K1 K2).
Proof. exact @stationary_comp. Qed.
Print Assumptions C01_sequence_invariant.
(* a failed / vetoed trial leaves the state where it was *)
Theorem C01_failed_trial_invariant : forall (A : Type) (S : list A) (pi : A -> R) (eqb : A -> A -> bool),
  (forall x y, eqb x y = true <-> x = y) -> NoDup S -> stationary S pi (ident eqb).
Proof. exact @stationary_ident. Qed.
Print Assumptions C01_failed_trial_invariant.
(* arbitrarily long histories: a chain started in the target stays in it after any list of invariant kernels *)
Theorem C01_history_invariant : forall (A : Type) (S : list A) (pi : A -> R) (Ks : list (A -> A -> R)) (mu : A -> R),
  List.Forall (stationary S pi) Ks -> (forall y, In y S -> mu y = pi y) -> forall y, In y S -> fold_left (push S) Ks mu y = pi y.
Proof. exact @history_invariant. Qed.
Print Assumptions C01_history_invariant.
Example C01_chain_nonvacuous :
  let S := (true :: false :: nil) in
  let pi := fun b : bool => if b then 1 else 2 in
  let K := fun x y : bool => if Bool.eqb x y then (if x then 0 else 1 / 2) else (if x then 1 else 1 / 2) in
  stochastic S K /\ reversible S pi K /\ stationary S pi K.
Proof. exact two_state_reversible. Qed.
(* ---- the analytic averages the long runs are compared with ---- *)
(* rigid dipole in a field: u = cos(theta) uniform under the proposal (C10), weight exp(x u): <u> = coth x - 1/x (Langevin) *)
Theorem C01_langevin_mean : forall x, x <> 0 -> forall Z M : R, is_RInt (w x) (-1) 1 Z -> is_RInt (uw x) (-1) 1 M -> M / Z = coth x - / x.
Proof. exact langevin_mean. Qed.
Print Assumptions C01_langevin_mean.
(* ideal gas at constant pressure, weight V^N exp(-a V) with a = P/kT: for EVERY cut-off L, int V^(N+1) e^(-aV) = (N+1)/a int V^N e^(-aV) - L^(N+1) e^(-aL)/a,
   i.e. <V> = (N+1) kT / P up to a boundary term that vanishes as L -> infinity (that limit is cited) *)
Theorem C01_ideal_gas_volume_identity : forall a, a <> 0 -> forall (N : nat) (L Z M : R), is_RInt (gw a N) 0 L Z -> is_RInt (gvw a N) 0 L M ->
  M = INR (S N) / a * Z - L ^ (S N) * exp (- a * L) / a.
Proof. exact ideal_gas_volume_identity. Qed.
Print Assumptions C01_ideal_gas_volume_identity.
(* one harmonic coordinate, weight exp(-b q^2) with b = k/(2kT): for every cut-off L, int q^2 e^(-b q^2) = 1/(2b) int e^(-b q^2) - L e^(-b L^2)/b,
   i.e. <k q^2 / 2> = kT/2 per coordinate (3N/2 kT in all) up to the boundary term *)
Theorem C01_equipartition_identity : forall b, b <> 0 -> forall L Z M : R, is_RInt (hw b) (- L) L Z -> is_RInt (hqw b) (- L) L M ->
  M = / (2 * b) * Z - L * exp (- b * (L * L)) / b.
Proof. exact equipartition_identity. Qed.
Print Assumptions C01_equipartition_identity.
(* ideal gas at constant chemical potential: the stationary weights a^N/N! are the Poisson law: normalised, mean a, variance a (infinite series, no cut-off) *)
Theorem C01_poisson_mean : forall a, is_series (fun n => exp (- a) * pw a n) 1 /\ is_series (fun n => INR n * (exp (- a) * pw a n)) a.
Proof. exact poisson_mean. Qed.
Print Assumptions C01_poisson_mean.
Theorem C01_poisson_variance : forall a (m2 : R), is_series (fun n => INR n * INR n * (exp (- a) * pw a n)) m2 -> m2 - a * a = a.
Proof. exact poisson_variance. Qed.
Print Assumptions C01_poisson_variance.
Example C01_nonvacuous : 0 < 2 /\ 2 ^ 1 / INR (fact 1) * Rmin 1 (2 / (INR 1 + 1)) = 2.
Proof. split; [lra|]. simpl. rewrite Rmin_left by lra. lra. Qed.
