(* C16 — Output files are well-formed after every write and after a crash at any point (process death; not power loss). *)
From QV Require Import Model.Files Proofs.FilesProofs.

(* log: after any number of calls the file is what was there before plus one complete flushed line per call, nothing buffered *)
Theorem C16_log_after_calls : forall (B : Type) rows (f : fstate B), settled B f ->
  settled B (run (log_ops B rows) f) /\ os (run (log_ops B rows) f) = os f ++ concat rows.
Proof. exact log_after_calls. Qed.
Print Assumptions C16_log_after_calls.
(* a crash at any operation boundary of the next call (with any part of the buffer pushed): all completed lines are intact,
   followed by a prefix of the line being written *)
Theorem C16_log_crash : forall (B : Type) (f : fstate B) row k d, settled B f -> (k <= length (log_call row))%nat ->
  In d (crash_states (run (firstn k (log_call row)) f)) -> exists p, d = os f ++ p /\ exists q, row = p ++ q.
Proof. exact log_crash. Qed.
Print Assumptions C16_log_crash.
(* trajectory: one frame per call appended, earlier bytes untouched; crash: completed frames intact + prefix of the current frame *)
Theorem C16_traj_after_call : forall (B : Type) (f : fstate B) pieces, settled B f ->
  settled B (run (traj_call pieces) f) /\ os (run (traj_call pieces) f) = os f ++ concat pieces.
Proof. exact traj_call_settled. Qed.
Print Assumptions C16_traj_after_call.
Theorem C16_traj_crash : forall (B : Type) (f : fstate B) pieces k d, settled B f -> (k <= length (traj_call pieces))%nat ->
  In d (crash_states (run (firstn k (traj_call pieces)) f)) -> exists p, d = os f ++ p /\ exists q, concat pieces = p ++ q.
Proof. exact traj_crash. Qed.
Print Assumptions C16_traj_crash.
(* restart: exactly the latest document after each call, whatever was there before (also when the state has shrunk) *)
Theorem C16_restart_after_call : forall (B : Type) (f : fstate B) doc, settled B f -> doc <> [] ->
  settled B (run (restart_call doc) f) /\ os (run (restart_call doc) f) = doc.
Proof. exact restart_after_call. Qed.
Print Assumptions C16_restart_after_call.
(* REFUTED for the shipped operation sequence: between truncate and flush a crash leaves an empty file, or any prefix of the document -
   the open finding; an atomic replace (write a new file, rename) would be needed *)
Theorem C16_restart_crash_window_refuted : forall (B : Type) (f : fstate B) doc, settled B f -> In [] (crash_states (run (firstn 2 (restart_call doc)) f)).
Proof. exact restart_crash_window. Qed.
Print Assumptions C16_restart_crash_window_refuted.
Theorem C16_restart_crash_partial_refuted : forall (B : Type) (f : fstate B) doc j, settled B f ->
  In (firstn j doc) (crash_states (run (firstn 3 (restart_call doc)) f)).
Proof. exact restart_crash_partial. Qed.
Print Assumptions C16_restart_crash_partial_refuted.

Example C16_nonvacuous : os (run (restart_call [7; 8]) (run (restart_call [1; 2; 3; 4]) (@fempty nat))) = [7; 8] /\ settled nat (@fempty nat).
Proof. split; [reflexivity|split; reflexivity]. Qed.
