(* C13 — Force-bias steps are bounded and follow the published force-biased density. *)
From QV Require Import Model.ForceBias Proofs.ForceBiasProofs Proofs.ForceBiasIntegral Proofs.ForceBiasMono Gen.Constants.
From Coq Require Import Lra.
From Coquelicot Require Import Coquelicot.
From Interval Require Import Tactic.

(* the trial probability is the Bal-Neyts density, both branches *)
Theorem C13_P_is_bal_neyts_plus : forall z g, g <> 0 -> 0 < z -> P z g = (exp g - exp (g * (2 * z - 1))) / den g.
Proof. exact P_plus. Qed.
Print Assumptions C13_P_is_bal_neyts_plus.
Theorem C13_P_is_bal_neyts_minus : forall z g, g <> 0 -> z < 0 -> P z g = (exp (g * (2 * z + 1)) - exp (- g)) / den g.
Proof. exact P_minus. Qed.
Print Assumptions C13_P_is_bal_neyts_minus.

(* a probability on the whole support, for every gamma *)
Theorem C13_P_range : forall z g, -1 <= z <= 1 -> 0 <= P z g <= 1.
Proof. exact P_range. Qed.
Print Assumptions C13_P_range.

(* normalised: accepted zeta has density exactly P; each trial is accepted with probability 1/2 whatever gamma,
   which is why the rejection loop terminates (geometrically) for any finite force however large *)
Theorem C13_P_normalised : forall g, g <> 0 -> is_RInt (fun z => P z g) (-1) 1 1.
Proof. exact P_normalised_l. Qed.
Print Assumptions C13_P_normalised.
Theorem C13_accept_probability_half : forall g, g <> 0 -> is_RInt (fun z => / 2 * P z g) (-1) 1 (/ 2).
Proof. exact accept_probability_half_l. Qed.
Print Assumptions C13_accept_probability_half.
Theorem C13_zero_force_symmetric : forall z, P z 0 = 1.
Proof. exact P_at_zero_force. Qed.
Print Assumptions C13_zero_force_symmetric.

(* displacement along the force is favoured *)
Theorem C13_favours_force_pos : forall z g, 0 < g -> 0 < z <= 1 -> P (- z) g <= P z g.
Proof. exact favours_force_pos. Qed.
Print Assumptions C13_favours_force_pos.
Theorem C13_favours_force_neg : forall z g, g < 0 -> 0 < z <= 1 -> P z g <= P (- z) g.
Proof. exact favours_force_neg. Qed.
Print Assumptions C13_favours_force_neg.

(* ... INCREASINGLY with |F| delta / 2kT: the excess probability (density) of a move of size z along the force over the same move against
   it, P(z, g) - P(-z, g) = (cosh g - cosh (g (2z - 1))) / sinh g, is non-negative and non-decreasing in g (derivative
   [cosh(ag) cosh g - a sinh(ag) sinh g - 1] / sinh^2 g >= 0, mean value theorem); mirrored for forces of the other sign *)
Theorem C13_bias_increasing : forall z g1 g2, 0 < z <= 1 -> 0 < g1 <= g2 -> P z g1 - P (- z) g1 <= P z g2 - P (- z) g2.
Proof. exact bias_increasing. Qed.
Print Assumptions C13_bias_increasing.
Theorem C13_bias_increasing_neg : forall z g1 g2, 0 < z <= 1 -> 0 < g1 <= g2 -> P (- z) (- g1) - P z (- g1) <= P (- z) (- g2) - P z (- g2).
Proof. exact bias_increasing_neg. Qed.
Print Assumptions C13_bias_increasing_neg.
(* the law for a force F is the mirror image of the law for -F *)
Theorem C13_mirror : forall z g, P (- z) (- g) = P z g.
Proof. exact P_flip. Qed.
Print Assumptions C13_mirror.
(* bound on every Cartesian component *)
Theorem C13_bound : forall z delta scale, -1 <= z <= 1 -> 0 <= delta -> 0 <= scale -> Rabs (disp z delta scale) <= delta * scale.
Proof. exact disp_bound. Qed.
Print Assumptions C13_bound.

(* no exponential formed by the code exceeds exp(gamma_max), and exp(gamma_max) of the CURRENT source is a finite double *)
Theorem C13_clip_range : forall x m, 0 <= m -> - m <= clip x m <= m.
Proof. exact clip_range. Qed.
Print Assumptions C13_clip_range.
Theorem C13_no_overflow : forall g z m, - m <= g <= m -> -1 <= z <= 1 ->
  exp (sgn z * g) <= exp m /\ exp (g * (2 * z - sgn z)) <= exp m /\ exp g <= exp m /\ exp (- g) <= exp m.
Proof. exact no_overflow_l. Qed.
Print Assumptions C13_no_overflow.
Theorem C13_gamma_max_is_finite_double : 0 <= gamma_max /\ exp gamma_max <= (2 - / 2 ^ 52) * 2 ^ 1023.
Proof. unfold gamma_max. split; interval with (i_prec 64). Qed.
Print Assumptions C13_gamma_max_is_finite_double.

(* rejection loop bookkeeping: on return every coordinate holds an accepted (zeta,u); converged ones are never redrawn *)
Theorem C13_loop_all_accepted : forall fuel verdict cur consumed out n,
  fbloop fuel verdict cur consumed = Some (out, n) -> List.Forall (accepted verdict) out /\ length out = length cur.
Proof. exact fbloop_all_accepted. Qed.
Print Assumptions C13_loop_all_accepted.
Theorem C13_converged_kept : forall conv cur next k i s,
  nth_error conv i = Some true -> nth_error cur i = Some s -> nth_error (refill conv cur next k) i = Some s.
Proof. exact refill_keeps. Qed.
Print Assumptions C13_converged_kept.

Example C13_nonvacuous :
  fbstep 5 3 (fun zp up => negb (Nat.eqb zp 1) && negb (Nat.eqb zp 6)) = Some ([(0, 3); (8, 9); (2, 5)]%nat, 10%nat).
Proof. reflexivity. Qed.
