(* C19 — Reinsertion inverts deletion; molecule search partitions atoms by bonds. *)
From QV Require Import Model.Atoms Proofs.AtomsProofs Proofs.ComponentsProofs.

(* any row type (so: every per-atom array), any duplicate-free in-range index list in any order *)
Theorem C19_reinsert_delete : forall (A : Type) (d : A) (L : list A) (I : list nat),
  NoDup I -> (forall i, In i I -> (i < length L)%nat) ->
  reinsert d (delete L I) (select d L I) I = L.
Proof. exact reinsert_delete_l. Qed.
Print Assumptions C19_reinsert_delete.

(* ... including the dtype of the array *)
Theorem C19_reinsert_delete_array : forall (a : array) (I : list nat),
  NoDup I -> (forall i, In i I -> (i < length (snd a))%nat) ->
  reinsert_arr (delete_arr a I) (select_arr a I) I = a.
Proof. exact reinsert_arr_l. Qed.
Print Assumptions C19_reinsert_delete_array.

(* label glue, for any default array and any enumeration of disjoint components *)
Theorem C19_labels_admitted : forall default lo hi comps i a,
  disjoint_comps comps -> (i < length default)%nat -> (a < length comps)%nat ->
  In i (nth a comps []) -> admitted_size lo hi (nth a comps []) = true ->
  nth i (labels default lo hi comps) (-1)%Z = Z.of_nat a.
Proof. exact labels_admitted_l. Qed.
Print Assumptions C19_labels_admitted.

Theorem C19_labels_same_iff : forall default lo hi comps i j a b,
  disjoint_comps comps -> (i < length default)%nat -> (j < length default)%nat ->
  (a < length comps)%nat -> (b < length comps)%nat ->
  In i (nth a comps []) -> In j (nth b comps []) ->
  admitted_size lo hi (nth a comps []) = true -> admitted_size lo hi (nth b comps []) = true ->
  (nth i (labels default lo hi comps) (-1)%Z = nth j (labels default lo hi comps) (-1)%Z <-> a = b)
  /\ (0 <= nth i (labels default lo hi comps) (-1))%Z.
Proof. exact labels_same_iff_l. Qed.
Print Assumptions C19_labels_same_iff.

Theorem C19_labels_default_kept : forall default lo hi comps i,
  (i < length default)%nat -> (forall c, In c comps -> In i c -> admitted_size lo hi c = false) ->
  nth i (labels default lo hi comps) (-1)%Z = nth i default (-1)%Z.
Proof. exact labels_default_l. Qed.
Print Assumptions C19_labels_default_kept.

Theorem C19_labels_length : forall default lo hi comps, length (labels default lo hi comps) = length default.
Proof. exact labels_length. Qed.
Print Assumptions C19_labels_length.

Example C19_nonvacuous :
  reinsert 0%Z (delete [10; 11; 12; 13; 14; 15; 16; 17]%Z [6; 1; 4]%nat) (select 0%Z [10; 11; 12; 13; 14; 15; 16; 17]%Z [6; 1; 4]%nat) [6; 1; 4]%nat
    = [10; 11; 12; 13; 14; 15; 16; 17]%Z
  /\ delete [10; 11; 12; 13; 14; 15; 16; 17]%Z [6; 1; 4]%nat = [10; 12; 13; 15; 17]%Z
  /\ select 0%Z [10; 11; 12; 13; 14; 15; 16; 17]%Z [6; 1; 4]%nat = [16; 11; 14]%Z
  /\ labels [-1; -2; -3; -4; -5; -6]%Z 2 3 [[0; 2]; [1]; [3; 4; 5]]%nat = [0; -2; 0; 2; 2; 2]%Z.
Proof. repeat split; reflexivity. Qed.

(* ---- connectivity itself: the model's components (label merging over the within-cutoff pair list) are exactly the classes of the
   equivalence closure `conn` of the pair list, for every pair list over n atoms ---- *)
Theorem C19_components_spec : forall n edges, bounded n edges ->
  disjoint_comps (components n edges)
  /\ (forall i, (i < n)%nat -> exists a, (a < length (components n edges))%nat /\ In i (nth a (components n edges) []))
  /\ (forall a i j, (a < length (components n edges))%nat -> In i (nth a (components n edges) []) ->
        (In j (nth a (components n edges) []) <-> (j < n)%nat /\ conn edges i j)).
Proof. exact components_spec. Qed.
Print Assumptions C19_components_spec.

(* the second sentence of the property, end to end over the pair list: two atoms of admitted components carry the same non-negative label
   exactly when they are connected; an atom of a non-admitted component keeps the supplied default *)
Theorem C19_molecules_connected : forall default lo hi edges i j,
  let n := length default in let lab := comp_labels n edges in let out := labels default lo hi (components n edges) in
  bounded n edges -> (i < n)%nat -> (j < n)%nat ->
  admitted_size lo hi (comp_of n lab i) = true -> admitted_size lo hi (comp_of n lab j) = true ->
  (nth i out (-1)%Z = nth j out (-1)%Z <-> conn edges i j) /\ (0 <= nth i out (-1))%Z.
Proof. exact molecules_connected. Qed.
Print Assumptions C19_molecules_connected.
Theorem C19_molecules_default_kept : forall default lo hi edges i,
  let n := length default in let lab := comp_labels n edges in
  bounded n edges -> (i < n)%nat -> admitted_size lo hi (comp_of n lab i) = false ->
  nth i (labels default lo hi (components n edges)) (-1)%Z = nth i default (-1)%Z.
Proof. exact molecules_default_kept. Qed.
Print Assumptions C19_molecules_default_kept.
