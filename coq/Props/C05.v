(* C05 — Grand-canonical bookkeeping tracks the real system. *)
From QV Require Import Model.Labels Model.Context Proofs.LabelsProofs Proofs.ContextProofs.
Open Scope Z_scope.

(* labels stay aligned one-to-one with the atoms: length follows the atom count for any added / removed sets *)
Theorem C05_labels_follow_atom_count : forall labels default n_added removed, NoDup removed ->
  (forall i, In i removed -> (i < length labels + n_added)%nat) ->
  (length (on_atoms_changed labels default n_added removed) + length removed = length labels + n_added)%nat.
Proof. exact on_changed_length. Qed.
Print Assumptions C05_labels_follow_atom_count.
(* the atoms of one inserted particle share one label; old labels are untouched *)
Theorem C05_inserted_share_one_label : forall labels default n_added, (0 < n_added)%nat ->
  on_atoms_changed labels default n_added [] = labels ++ repeat (new_label labels default) n_added.
Proof. exact on_changed_insert. Qed.
Print Assumptions C05_inserted_share_one_label.
(* ... a fresh non-negative one, different from every label in use, when none is configured ... *)
Theorem C05_new_label_fresh : forall labels, 0 <= new_label labels None /\ ~ In (new_label labels None) (filter (fun x => 0 <=? x) labels).
Proof. exact new_label_fresh. Qed.
Print Assumptions C05_new_label_fresh.
(* ... and the configured one otherwise, including 0 and negative do-not-touch labels *)
Theorem C05_default_label_honoured : forall labels d, new_label labels (Some d) = d.
Proof. exact new_label_default. Qed.
Print Assumptions C05_default_label_honoured.
(* through ANY history of accepted insertions (particles of any size) and deletions (any index sets): two tracked atoms carry the same
   label exactly when they belong to the same real particle, and the label array is the one the real atoms carry (one label per atom) *)
Theorem C05_labels_track_particles : forall es lp, Part lp -> ev_ok lp es ->
  Part (fold_left truth_step es lp) /\ fold_left label_step es (map fst lp) = map fst (fold_left truth_step es lp).
Proof. exact labels_track_particles. Qed.
Print Assumptions C05_labels_track_particles.
(* deletion removes exactly the deleted atoms' entries *)
Theorem C05_deletion_keeps_survivors : forall labels default removed, on_atoms_changed labels default 0 removed = delete labels removed.
Proof. exact on_changed_delete. Qed.
Print Assumptions C05_deletion_keeps_survivors.
(* every distinct move object of the table is updated by that rule exactly once (also for m * n, a + b, aliases) *)
Theorem C05_every_object_once : forall objs n_added removed k o, nth_error objs k = Some o ->
  nth_error (notify_all objs n_added removed) k = Some (on_atoms_changed (fst o) (snd o) n_added removed, snd o).
Proof. exact notify_all_each. Qed.
Print Assumptions C05_every_object_once.
(* the counter: initial value + accepted insertions - accepted deletions, for every history (rejected trials contribute nothing) *)
Theorem C05_counter : forall (P O : Type) (dP : P) (dO : O) hist (s : cstate P O), pdelta s = 0 ->
  nexch (fold_left (run1 P O dP dO) hist s) = nexch s + accepted_delta P O hist /\ pdelta (fold_left (run1 P O dP dO) hist s) = 0.
Proof. exact counter_history. Qed.
Print Assumptions C05_counter.

Example C05_history_nonvacuous :
  let lp := [(0, 0%nat); (0, 0%nat); (-1, 7%nat); (3, 1%nat)] in
  Part lp /\ ev_ok lp [Ins 2 2; Del [0%nat; 1%nat]; Ins 1 3] /\
  map fst (fold_left truth_step [Ins 2 2; Del [0%nat; 1%nat]; Ins 1 3] lp) = [-1; 3; 4; 4; 5].
Proof. exact labels_track_nonvacuous. Qed.
Example C05_nonvacuous : on_atoms_changed [0; 0; -1; 3] None 2 [0%nat; 1%nat] = [-1; 3; 4; 4] /\ on_atoms_changed [5; -1] (Some 0) 1 [] = [5; -1; 0].
Proof. split; reflexivity. Qed.
