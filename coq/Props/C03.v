(* C03 — A rejected or failed trial leaves the system exactly as it was. *)
From QV Require Import Model.Context Proofs.ContextProofs.

(* Rows = (position, everything else): any per-atom arrays, any operation results (polymorphic).
   Sync = between trials the context's last_* equal the live values and nothing is pending. *)

(* displacement-type trials (displacement, composite displacement, Hamiltonian integration: any new positions, any number) *)
Theorem C03_reject_restores_moves : forall (P O : Type) (dP : P) (dO : O) acts (s : cstate P O), Sync s ->
  Forall (fun a => exists f, a = Move f /\ forall rs, length (f rs) = length rs) acts ->
  rows (revert dP dO (apply_trial dP dO acts s)) = rows s /\ Sync (revert dP dO (apply_trial dP dO acts s)).
Proof. exact reject_restores_moves. Qed.
Print Assumptions C03_reject_restores_moves.
(* insertion trials: any number of inserted particles of any size (ExchangeMove, e * n, e1 + e2 of exchange kind) *)
Theorem C03_reject_restores_insertions : forall (P O : Type) (dP : P) (dO : O) (s : cstate P O) news, Sync s ->
  let t := apply_trial dP dO (map Insert news) s in
  rows (revert dP dO t) = rows s /\ Sync (revert dP dO t) /\ nexch (revert dP dO t) = nexch s.
Proof. exact reject_restores_insertions. Qed.
Print Assumptions C03_reject_restores_insertions.
(* deletion trials: any duplicate-free in-range index set, in any order, collected in one index frame *)
Theorem C03_reject_restores_deletion : forall (P O : Type) (dP : P) (dO : O) (s : cstate P O) I dp, Sync s -> NoDup I ->
  (forall i, In i I -> (i < length (rows s))%nat) ->
  let t := apply_trial dP dO [Delete I dp] s in
  rows (revert dP dO t) = rows s /\ Sync (revert dP dO t) /\ nexch (revert dP dO t) = nexch s.
Proof. exact reject_restores_deletion. Qed.
Print Assumptions C03_reject_restores_deletion.
(* acceptance keeps the bookkeeping clean and moves the particle counter by the pending change *)
Theorem C03_accept_syncs : forall (P O : Type) (t : cstate P O), Sync (save t) /\ rows (save t) = rows t /\ nexch (save t) = (nexch t + pdelta t)%Z.
Proof. exact accept_syncs. Qed.
Print Assumptions C03_accept_syncs.
(* at every position of any accept/reject history: a rejected trial returns the rows (and the counter) of the previous position,
   and nothing leaks (Sync) *)
Theorem C03_history : forall (P O : Type) (dP : P) (dO : O) hist (s : cstate P O), Sync s -> adm_run P O dP dO hist s ->
  rejected_restored P O dP dO hist s /\ Sync (fold_left (run1 P O dP dO) hist s).
Proof. exact history_restores. Qed.
Print Assumptions C03_history.

(* the general form: displacements anywhere in the trial, at most one deletion batch, no insertion before it - every elementary move,
   every specialised composite AND plain composites such as d + e, e + d, c + d + e with one exchange part *)
Theorem C03_reject_restores_general : forall (P O : Type) (dP : P) (dO : O) (s : cstate P O) acts, Sync s -> undoable P O s acts ->
  let t := apply_trial dP dO acts s in
  rows (revert dP dO t) = rows s /\ Sync (revert dP dO t) /\ nexch (revert dP dO t) = nexch s.
Proof. exact reject_restores_general. Qed.
Print Assumptions C03_reject_restores_general.
Theorem C03_history_general : forall (P O : Type) (dP : P) (dO : O) hist (s : cstate P O), Sync s -> und_run P O dP dO hist s ->
  rejected_restored P O dP dO hist s /\ Sync (fold_left (run1 P O dP dO) hist s).
Proof. exact history_restores_general. Qed.
Print Assumptions C03_history_general.
Example C03_general_nonvacuous :
  let s := Build_cstate [(1, 10); (2, 20); (3, 30); (4, 40)]%Z [1; 2; 3; 4]%Z [] [] [] 0%Z 0%Z in
  let acts := [Move (fun rs => map (fun r => (fst r + 1)%Z) rs); Delete [3%nat; 1%nat] 1%Z; Insert [(7, 70)]%Z; Move (fun rs => map (fun r => 0%Z) rs); Insert [(8, 80); (9, 90)]%Z] in
  rows (apply_trial 0%Z 0%Z acts s) = [(0, 10); (0, 30); (0, 70); (8, 80); (9, 90)]%Z /\ rows (revert 0%Z 0%Z (apply_trial 0%Z 0%Z acts s)) = rows s.
Proof. split; reflexivity. Qed.
(* the shipped bookkeeping cannot undo two deletions made one after the other in one trial (a plain composite holding two
   exchange moves): the second index list lives in another frame.  Witness: rows a b c d, delete [0], then delete [0] again. *)
Example C03_two_frames_refuted :
  let s := Build_cstate [(1, 10); (2, 20); (3, 30); (4, 40)]%Z [1; 2; 3; 4]%Z [] [] [] 0%Z 0%Z in
  Sync s /\ rows (revert 0%Z 0%Z (apply_trial 0%Z 0%Z [Delete [0%nat] 1%Z; Delete [0%nat] 1%Z] s)) <> rows s.
Proof. split; [repeat split|]. vm_compute. discriminate. Qed.

Example C03_nonvacuous :
  let s := Build_cstate [(1, 10); (2, 20); (3, 30); (4, 40)]%Z [1; 2; 3; 4]%Z [] [] [] 0%Z 0%Z in
  rows (revert 0%Z 0%Z (apply_trial 0%Z 0%Z [Delete [2%nat; 0%nat] 2%Z] s)) = rows s.
Proof. reflexivity. Qed.

(* why revert_state removes the appended atoms before it puts the deleted ones back: on a relocation trial the code's order restores
   the rows, the opposite order does not (a concrete instance, evaluated by the kernel) *)
Theorem C03_undo_order_matters :
  Sync undo_s0 /\ revert_rows 0%nat 0%nat (apply_trial 0%nat 0%nat undo_relocation undo_s0) = rows undo_s0 /\
  revert_rows_swapped 0%nat 0%nat (apply_trial 0%nat 0%nat undo_relocation undo_s0) <> rows undo_s0.
Proof. exact undo_order_matters. Qed.
Print Assumptions C03_undo_order_matters.
