(* C20 — Drivers use custom moves and criteria only through the documented protocol. *)
From QV Require Import Model.Protocol Proofs.ProtocolProofs.

(* The alphabet of the model IS the protocol (call, evaluate, the two notifications, to_dict): that the real drivers stay inside
   it is established by the tie (strict proxy objects), not by a theorem. *)

(* Python truthiness decides: truthy -> criteria consulted; falsy -> recorded as not attempted, nothing else happens *)
Theorem C20_truthy_to_criteria : forall gc objs m k ret verdict c, truthy ret = true ->
  exists rest, fst (trial_trace gc objs m k ret verdict c) = ECall m :: EEvaluate k :: rest /\ snd (trial_trace gc objs m k ret verdict c) = Some verdict.
Proof. exact truthy_to_criteria. Qed.
Print Assumptions C20_truthy_to_criteria.
Theorem C20_falsy_not_attempted : forall gc objs m k ret verdict c, truthy ret = false -> trial_trace gc objs m k ret verdict c = ([ECall m], None).
Proof. exact falsy_not_attempted. Qed.
Print Assumptions C20_falsy_not_attempted.
Theorem C20_rejected_no_notification : forall gc objs m k ret c,
  fst (trial_trace gc objs m k ret false c) = if truthy ret then [ECall m; EEvaluate k] else [ECall m].
Proof. exact rejected_no_notification. Qed.
Print Assumptions C20_rejected_no_notification.
(* every move object of the table is told exactly once about every accepted change of the atom count / of the cell *)
Theorem C20_atoms_notified : forall gc objs m k ret c o, truthy ret = true -> In o objs -> (ch_added c <> [] \/ ch_removed c <> []) ->
  count_atoms_notif o (fst (trial_trace gc objs m k ret true c)) = 1 /\
  forall a r, In (EAtomsChanged o a r) (fst (trial_trace gc objs m k ret true c)) -> a = ch_added c /\ r = ch_removed c.
Proof. exact atoms_notified. Qed.
Print Assumptions C20_atoms_notified.
Theorem C20_cell_notified : forall gc objs m k ret c o cell, truthy ret = true -> In o objs -> ch_cell c = Some cell ->
  count_cell_notif o (fst (trial_trace gc objs m k ret true c)) = 1 /\
  forall cl, In (ECellChanged o cl) (fst (trial_trace gc objs m k ret true c)) -> cl = cell.
Proof. exact cell_notified. Qed.
Print Assumptions C20_cell_notified.

Example C20_truthiness : map truthy [PyBool true; PyInt 1; PyStr 1; PyList 1; PyBool false; PyInt 0; PyNone; PyStr 0; PyList 0]
  = [true; true; true; true; false; false; false; false; false].
Proof. reflexivity. Qed.
Example C20_nonvacuous : fst (trial_trace true [3; 4; 3] 3 9 (PyInt 2) true {| ch_added := [5]; ch_removed := []; ch_cell := None |})
  = [ECall 3; EEvaluate 9; EAtomsChanged 3 [5] []; EAtomsChanged 4 [5] []].
Proof. reflexivity. Qed.
