(* C14 — Hamiltonian proposals are reversible and correctly thermalised. *)
From QV Require Import Model.Verlet Proofs.VerletProofs.
From Coq Require Import Lra.

(* exact reversibility over R: any force field (depending on the configuration only through its values), any non-zero
   masses, any time step, any number of steps *)
Theorem C14_reversible : forall (f : vec -> vec) (m : vec) (dt : R),
  (forall i, m i <> 0) -> (forall q q', (forall i, q i = q' i) -> forall i, f q i = f q' i) ->
  forall n s, eqst (integrate f m dt n (flip (integrate f m dt n s))) (flip s).
Proof. exact vv_reversible. Qed.
Print Assumptions C14_reversible.

(* kick-drift-kick: a composition of shears *)
Theorem C14_shear_form : forall (f : vec -> vec) (m : vec) (dt : R),
  (forall i, m i <> 0) -> (forall q q', (forall i, q i = q' i) -> forall i, f q i = f q' i) ->
  forall s, eqst (vv f m dt s) (kick f (dt / 2) (drift m dt (kick f (dt / 2) s))).
Proof. exact vv_shear_form. Qed.
Print Assumptions C14_shear_form.

(* harmonic wells: the shadow energy is conserved exactly ... *)
Theorem C14_harmonic_shadow_conserved : forall (k r0 m : vec) (dt : R), (forall i, 0 < m i) ->
  forall n s i, sh k r0 m dt (integrate (harmonic k r0) m dt n s) i = sh k r0 m dt s i.
Proof. exact shadow_conserved. Qed.
Print Assumptions C14_harmonic_shadow_conserved.
(* ... hence the total-energy error is at most a/(1-a) x shadow energy with a = k dt^2 / 4m: quadratic in dt, for every
   number of steps within the stability range *)
Theorem C14_harmonic_energy_error : forall (k r0 m : vec) (dt : R), (forall i, 0 < m i) ->
  forall n s i, 0 <= k i -> aa k m dt i < 1 ->
  Rabs (hm k r0 m (integrate (harmonic k r0) m dt n s) i - hm k r0 m s i) <= aa k m dt i / (1 - aa k m dt i) * sh k r0 m dt s i.
Proof. exact harmonic_energy_error. Qed.
Print Assumptions C14_harmonic_energy_error.

(* refresh: p = xi sqrt(m kT), linear in the standard-normal draw xi => mean 0, variance m kT, kinetic energy xi^2 kT/2 *)
Theorem C14_mb_variance : forall m kT xi, 0 <= m * kT -> mb_p m kT xi * mb_p m kT xi = (xi * xi) * (m * kT).
Proof. exact mb_variance. Qed.
Print Assumptions C14_mb_variance.
Theorem C14_mb_linear : forall m kT a xi, mb_p m kT (a * xi) = a * mb_p m kT xi.
Proof. exact mb_linear. Qed.
Print Assumptions C14_mb_linear.
Theorem C14_mb_kinetic : forall m kT xi, 0 < m -> 0 <= kT -> mb_p m kT xi * mb_p m kT xi / (2 * m) = xi * xi * kT / 2.
Proof. exact mb_kinetic. Qed.
Print Assumptions C14_mb_kinetic.
(* forced: the kinetic temperature IS the target (the shipped 1e-15 regulariser, which missed it by 1e-15/kT, was repaired: repo 124b150) *)
Theorem C14_forced_temperature : forall kT ke dof, 0 <= kT -> 0 < ke -> 0 < dof -> 2 * ke_after_forced kT ke dof / dof = kT.
Proof. exact forced_temperature_exact. Qed.
Print Assumptions C14_forced_temperature.
Theorem C14_forced_nothing_to_rescale : forall kT dof, forced_scale kT 0 dof = 1.
Proof. exact forced_scale_zero. Qed.
Print Assumptions C14_forced_nothing_to_rescale.

(* the kinetic energy recorded for the acceptance test is that of the freshly drawn momenta of the successful attempt *)
Theorem C14_ke_is_fresh : forall K refresh integ check attempts k s s',
  hmove K refresh integ check attempts k s = (s', true) ->
  exists j, (k <= j < k + attempts)%nat /\ check j (integ (refresh j (ph s))) = true /\
            ph s' = integ (refresh j (ph s)) /\ lastK s' = K (pp (refresh j (ph s))) /\
            forall i, (k <= i < j)%nat -> check i (integ (refresh i (ph s))) = false.
Proof. exact hmove_fresh. Qed.
Print Assumptions C14_ke_is_fresh.
Theorem C14_failed_move_restores : forall K refresh integ check attempts k s s',
  hmove K refresh integ check attempts k s = (s', false) -> ph s' = ph s.
Proof. exact hmove_fail. Qed.
Print Assumptions C14_failed_move_restores.

(* non-vacuity: a stable harmonic coordinate exists (k = 1, m = 1, dt = 1: a = 1/4 < 1) *)
Example C14_nonvacuous : aa (fun _ => 1) (fun _ => 1) 1 0%nat < 1 /\ (forall i : nat, 0 < (fun _ : nat => 1) i).
Proof. unfold aa. split; [lra|intro; lra]. Qed.
