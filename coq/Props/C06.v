(* C06 — Same seed, same trajectory.  The theorem part is thin (seed handling); the content of this property is in the tie. *)
From QV Require Import Model.Seed.

(* every integer seed is honoured, including 0, whatever the entropy source would have produced *)
Theorem C06_seed_honoured : forall s fresh, init_seed false (Some s) fresh = s.
Proof. intros. reflexivity. Qed.
Print Assumptions C06_seed_honoured.
(* hence two simulations built with the same seed and configuration see the same stream and produce the same trajectory,
   independently of the entropy source (fresh1 / fresh2) *)
Theorem C06_same_seed_same_trajectory : forall (Cfg Stream Traj : Type) (sim : Cfg -> Stream -> Traj) stream_of cfg s fresh1 fresh2,
  run_with sim stream_of cfg (Some s) fresh1 false = run_with sim stream_of cfg (Some s) fresh2 false.
Proof. intros. reflexivity. Qed.
Print Assumptions C06_same_seed_same_trajectory.
(* the shipped `seed or ...` did not: seed 0 was replaced *)
Example C06_seed_zero_refuted : init_seed true (Some 0) 7 <> 0.
Proof. discriminate. Qed.
Example C06_nonvacuous : init_seed false (Some 0) 7 = 0 /\ init_seed false None 7 = 7.
Proof. split; reflexivity. Qed.
