(* C09 — Move scheduling honours interval, probability and minimum count. *)
From QV Require Import Model.Driver Proofs.SchedProofs.

(* no due move: nothing is attempted; otherwise exactly `cycles` attempts *)
Theorem C09_none_due : forall tbl step cycles fidx free,
  due_moves tbl step = [] -> yield_moves tbl step cycles fidx free = [].
Proof. exact yield_empty. Qed.
Print Assumptions C09_none_due.

Theorem C09_exact_cycles : forall tbl step cycles fidx free,
  due_moves tbl step <> [] -> admissible tbl step cycles fidx free ->
  length (yield_moves tbl step cycles fidx free) = cycles.
Proof. exact yield_length. Qed.
Print Assumptions C09_exact_cycles.

(* only due moves; a move that is not forced (minimum count 0) appears only with positive weight *)
Theorem C09_only_due_and_weighted : forall tbl step cycles fidx free y,
  admissible tbl step cycles fidx free -> In y (yield_moves tbl step cycles fidx free) ->
  exists e, In e tbl /\ ename e = y /\ step mod einterval e = 0 /\ ((0 < emin e)%nat \/ 0 < eweight e).
Proof. exact yield_only_due. Qed.
Print Assumptions C09_only_due_and_weighted.

(* every due move is attempted at least its minimum count *)
Theorem C09_min_count : forall tbl step cycles fidx free e,
  NoDup (map ename tbl) -> admissible tbl step cycles fidx free ->
  In e tbl -> step mod einterval e = 0 ->
  (emin e <= count_z (ename e) (yield_moves tbl step cycles fidx free))%nat.
Proof. exact yield_min_count. Qed.
Print Assumptions C09_min_count.

(* add_move refuses exactly the over-committing additions, and every table built through it can always be
   scheduled: the forced draws fit into the cycles, names stay unique *)
Theorem C09_guard : forall cycles tbl e, add_move cycles tbl e = None <-> (cycles < sum_min tbl + emin e)%nat.
Proof. exact add_move_guard. Qed.
Print Assumptions C09_guard.

Theorem C09_guard_invariant : forall cycles es tbl,
  (sum_min tbl <= cycles)%nat -> NoDup (map ename tbl) ->
  (sum_min (add_moves cycles tbl es) <= cycles)%nat /\ NoDup (map ename (add_moves cycles tbl es)).
Proof. exact add_moves_inv. Qed.
Print Assumptions C09_guard_invariant.

Theorem C09_forced_fits : forall tbl step, (length (forced (due_moves tbl step)) <= sum_min tbl)%nat.
Proof. exact forced_fits. Qed.
Print Assumptions C09_forced_fits.

(* without distinctness of the forced slots the minimum count can be missed: the hypothesis is necessary *)
Example C09_with_replacement_refuted :
  let tbl := [{| ename := 1; einterval := 1; eweight := 1; emin := 2 |}; {| ename := 2; einterval := 1; eweight := 1; emin := 0 |}] in
  yield_moves tbl 0 3 [1; 1]%nat [2; 2] = [2; 1; 2] /\ count_z 1 [2; 1; 2] = 1%nat.
Proof. split; reflexivity. Qed.

Example C09_nonvacuous :
  let tbl := [{| ename := 1; einterval := 2; eweight := 3; emin := 2 |}; {| ename := 2; einterval := 1; eweight := 0; emin := 1 |};
              {| ename := 3; einterval := 3; eweight := 5; emin := 0 |}] in
  admissible tbl 4 5 [4; 0; 2]%nat [1; 1] /\ yield_moves tbl 4 5 [4; 0; 2]%nat [1; 1] = [1; 1; 2; 1; 1].
Proof.
  split; [|reflexivity]. unfold admissible. simpl. repeat split.
  - repeat constructor; simpl; intuition discriminate.
  - intros j [H|[H|[H|[]]]]; subst; repeat constructor.
  - repeat constructor.
  - intros f [H|[H|[]]]; subst; reflexivity.
Qed.
