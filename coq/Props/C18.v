(* C18 — Adaptive force-bias step length stays in range and shrinks with uncertainty. *)
From QV Require Import Model.ForceBias Proofs.AdaptiveProofs Proofs.VariationProofs.
From Coq Require Import List.
From Coq Require Import Lra.

(* both shipped update functions: value 1 at zero variance, 1/2 at the reference variance, within [0,1],
   antitone, tending to 0 *)
Theorem C18_tanh_is_update : forall r, 0 < r -> is_update r (upd_tanh r).
Proof. exact tanh_is_update. Qed.
Print Assumptions C18_tanh_is_update.
Theorem C18_exp_is_update : forall r, 0 < r -> is_update r (upd_exp r).
Proof. exact exp_is_update. Qed.
Print Assumptions C18_exp_is_update.

(* consequences for delta = min + (max - min) * f(v), any min <= max, any such f *)
Theorem C18_range : forall r f, is_update r f -> forall lo hi, lo <= hi -> forall v, 0 <= v -> lo <= delta_of lo hi (f v) <= hi.
Proof. exact delta_range. Qed.
Print Assumptions C18_range.
Theorem C18_at_zero : forall r f, is_update r f -> forall lo hi, delta_of lo hi (f 0) = hi.
Proof. exact delta_at_zero. Qed.
Print Assumptions C18_at_zero.
(* also the fallback: without committee data the reference variance is used *)
Theorem C18_at_reference : forall r f, is_update r f -> forall lo hi, delta_of lo hi (f r) = (lo + hi) / 2.
Proof. exact delta_at_reference. Qed.
Print Assumptions C18_at_reference.
Theorem C18_antitone : forall r f, is_update r f -> forall lo hi, lo <= hi -> forall v v', 0 <= v -> v <= v' ->
  delta_of lo hi (f v') <= delta_of lo hi (f v).
Proof. exact delta_antitone. Qed.
Print Assumptions C18_antitone.
Theorem C18_limit : forall r f, is_update r f -> forall lo hi, lo <= hi -> forall eps, 0 < eps ->
  exists v0, forall v, v0 <= v -> 0 <= v -> delta_of lo hi (f v) - lo <= eps.
Proof. exact delta_limit. Qed.
Print Assumptions C18_limit.

(* the argument of the update function: the variation coefficient std / mean|F| of the committee (population std about the mean).
   It is never negative, vanishes for a unanimous committee, and does not depend on the magnitude of the forces: residual forces of
   1e-9 eV/A with a 30 % spread give the same delta as forces of 1 eV/A with a 30 % spread.  For the energies scheme (std / N) a
   common offset of the committee energies does not matter. *)
Theorem C18_variation_nonneg : forall l, lmean (map Rabs l) <> 0 -> 0 <= variation l.
Proof. exact variation_nonneg. Qed.
Print Assumptions C18_variation_nonneg.
Theorem C18_variation_unanimous : forall a n, variation (repeat a (S n)) = 0.
Proof. exact variation_zero_when_unanimous. Qed.
Print Assumptions C18_variation_unanimous.
Theorem C18_variation_scale_free : forall c l, 0 < c -> lmean (map Rabs l) <> 0 -> variation (map (fun x => c * x) l) = variation l.
Proof. exact variation_scale_free. Qed.
Print Assumptions C18_variation_scale_free.
Theorem C18_energy_spread_shift_free : forall c l, l <> nil -> lstd (map (fun x => x + c) l) = lstd l.
Proof. exact lstd_shift_free. Qed.
Print Assumptions C18_energy_spread_shift_free.
