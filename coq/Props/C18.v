(* C18 — Adaptive force-bias step length stays in range and shrinks with uncertainty. *)
From QV Require Import Model.ForceBias Proofs.AdaptiveProofs.
From Coq Require Import Lra.

(* both shipped update functions: value 1 at zero variance, 1/2 at the reference variance, within [0,1],
   antitone, tending to 0 *)
Theorem C18_tanh_is_update : forall r, 0 < r -> is_update r (upd_tanh r).
Proof. exact tanh_is_update. Qed.
Print Assumptions C18_tanh_is_update.
Theorem C18_exp_is_update : forall r, 0 < r -> is_update r (upd_exp r).
Proof. exact exp_is_update. Qed.
Print Assumptions C18_exp_is_update.

(* consequences for delta = min + (max - min) * f(v), any min <= max, any such f *)
Theorem C18_range : forall r f, is_update r f -> forall lo hi, lo <= hi -> forall v, 0 <= v -> lo <= delta_of lo hi (f v) <= hi.
Proof. exact delta_range. Qed.
Print Assumptions C18_range.
Theorem C18_at_zero : forall r f, is_update r f -> forall lo hi, delta_of lo hi (f 0) = hi.
Proof. exact delta_at_zero. Qed.
Print Assumptions C18_at_zero.
(* also the fallback: without committee data the reference variance is used *)
Theorem C18_at_reference : forall r f, is_update r f -> forall lo hi, delta_of lo hi (f r) = (lo + hi) / 2.
Proof. exact delta_at_reference. Qed.
Print Assumptions C18_at_reference.
Theorem C18_antitone : forall r f, is_update r f -> forall lo hi, lo <= hi -> forall v v', 0 <= v -> v <= v' ->
  delta_of lo hi (f v') <= delta_of lo hi (f v).
Proof. exact delta_antitone. Qed.
Print Assumptions C18_antitone.
Theorem C18_limit : forall r f, is_update r f -> forall lo hi, lo <= hi -> forall eps, 0 < eps ->
  exists v0, forall v, v0 <= v -> 0 <= v -> delta_of lo hi (f v) - lo <= eps.
Proof. exact delta_limit. Qed.
Print Assumptions C18_limit.
