(* C08 — Every shipped component survives serialization with its full configuration. *)
From QV Require Import Model.Serial Model.Import Proofs.SerialProofs Gen.Schema Gen.ImportGraph.

(* GENERIC, for every schema: an object built from classes that satisfy class_ok (registered under their own name; every constructor
   parameter and documented tunable written; nothing written that the constructor refuses), whose nested objects sit in fields for
   which from_dict asks the registry for the right protocol, is rebuilt EXACTLY by from_dict (to_dict o) - any nesting depth *)
Theorem C08_roundtrip_generic : forall (s : schema) (o : obj) p csc, wf s o -> lookup s (cls_of o) = Some csc -> c_registered csc = true -> c_proto csc = p ->
  from_dict s (S (odepth o)) p (to_dict s o) = Some o.
Proof. exact roundtrip_obj. Qed.
Print Assumptions C08_roundtrip_generic.

(* REGENERATED obligations: the schema extracted from the CURRENT source satisfies class_ok for every concrete serialisable class the
   introspection finds (so classes added later are included) *)
Theorem C08_all_classes_ok : forallb class_ok classes = true.
Proof. vm_compute. reflexivity. Qed.
Print Assumptions C08_all_classes_ok.
(* every nested field is rebuilt through a protocol that at least one registered shipped class satisfies *)
Theorem C08_child_protocols_inhabited :
  forallb (fun c => forallb (fun kp => existsb (fun c' => c_registered c' && Nat.eqb (c_proto c') (snd kp)) classes) (c_child_proto c)) classes = true.
Proof. vm_compute. reflexivity. Qed.
Print Assumptions C08_child_protocols_inhabited.
(* every module of the package can be the FIRST import of a fresh interpreter (no import cycle bites): the import protocol is run on
   the module-level import statements of the current source *)
Theorem C08_every_module_imports_first : forallb (imports_first pkg_graph 4000) all_modules = true.
Proof. vm_compute. reflexivity. Qed.
Print Assumptions C08_every_module_imports_first.

(* a restart script imports quansino.mc (or one of its submodules) to name the simulation class and nothing else: every module that registers
   classes has then been executed, so every name a document can contain resolves.  Likewise quansino.moves alone brings the modules that
   register the moves, the operations and the integrators (what a move document nests).  REGENERATED from the current source. *)
Theorem C08_mc_import_registers_everything :
  forallb (fun first => forallb (loaded_after pkg_graph 4000 first) registering_modules) mc_modules = true.
Proof. vm_compute. reflexivity. Qed.
Print Assumptions C08_mc_import_registers_everything.
Theorem C08_moves_import_registers_parts :
  forallb (loaded_after pkg_graph 4000 mod_moves) [mod_moves; mod_operations; mod_integrators] = true
  /\ existsb (Nat.eqb mod_moves) registering_modules && existsb (Nat.eqb mod_operations) registering_modules && existsb (Nat.eqb mod_integrators) registering_modules = true.
Proof. split; vm_compute; reflexivity. Qed.
Print Assumptions C08_moves_import_registers_parts.

(* non-vacuity: the model does fail on a cycle - two modules importing a name from each other before defining it *)
Example C08_cycle_detected :
  imports_first [ {| m_id := 1; m_parent := None; m_self_name := 0; m_body := [SFrom 2 [7]; SDef 8] |};
                  {| m_id := 2; m_parent := None; m_self_name := 0; m_body := [SFrom 1 [8]; SDef 7] |} ] 100 1 = false.
Proof. reflexivity. Qed.
Example C08_wf_inhabited : exists o, wf classes o.
Proof.
  exists (Obj 2 ([(19, VAtom 5)] ++ [])).
  eapply (wf_obj classes 2 _ [(19, VAtom 5)] []); [reflexivity|reflexivity| | | | |reflexivity|].
  - intros kv [<-|[]]. reflexivity.
  - intros kv [<-|[]]. reflexivity.
  - intros kv [].
  - intros kv [].
  - intros k v [H|[]]. inversion H; subst. constructor.
Qed.
