#!/bin/bash
# runs every registered check's quick tier with several seeds on the unchanged tree; prints one line per (check, seed)
cd /verif
for sd in "$@"; do
  for p in $(python3 -c "import json; print(' '.join(c['property_id'] for c in json.load(open('/verif/MANIFEST.json'))['checks']))"); do
    out=$(VERIF_SEED=$sd ./check $p --tier quick 2>&1 | grep -v "^KNOWN-FINDING" | tail -3 | tr '\n' ' ' | cut -c1-300)
    echo "seed=$sd $p :: $out"
  done
done
git checkout -- evidence 2>/dev/null
