#!/bin/bash
# usage: tools/confirm_seed.sh <Cxx> <k>  -- confirms seeded change k of /tmp/wt_out/<Cxx> in the scratch worktree /tmp/wt/<Cxx>
# (tests pass with it, demo fails with it and passes without) and stores it under /verif/seeded/<Cxx>-<k>/
pid=$1; k=$2; wt=/tmp/wt/$pid; out=/tmp/wt_out/$pid; dst=/verif/seeded/$pid-$k
cd $wt || exit 2
git checkout -q -- . ; git clean -fdq
PYTHONPATH=$wt/src /venv/bin/python $out/demo$k.py > $out/confirm${k}_demo_clean.log 2>&1; d0=$?
git apply $out/mut$k.diff || { echo "$pid-$k: patch failed"; exit 2; }
PYTHONPATH=$wt/src /venv/bin/python $out/demo$k.py > $out/confirm${k}_demo_mut.log 2>&1; d1=$?
/venv/bin/python -m pytest -q -p no:cacheprovider --timeout=900 -x > $out/confirm${k}_suite.log 2>&1; t=$?
# two tests of the suite are unseeded and fail now and then on the clean tree too (test_isotension_simulation_with_mask, test_isobaric_simulation): one retry
if [ $t -ne 0 ]; then cp $out/confirm${k}_suite.log $out/confirm${k}_suite_try1.log; /venv/bin/python -m pytest -q -p no:cacheprovider --timeout=900 -x > $out/confirm${k}_suite.log 2>&1; t=$?; fi
tail -1 $out/confirm${k}_suite.log > $out/confirm${k}_suite.tail
git checkout -q -- . ; git clean -fdq
echo "$pid-$k demo_clean_exit=$d0 demo_mutated_exit=$d1 suite_exit=$t $(cat $out/confirm${k}_suite.tail)"
if [ $d0 -eq 0 ] && [ $d1 -ne 0 ] && [ $t -eq 0 ]; then
  mkdir -p $dst; cp $out/mut$k.diff $dst/patch.diff; cp $out/demo$k.py $dst/demo.py; cp $out/notes$k.md $dst/notes.md
  echo "{\"demo_clean_exit\": $d0, \"demo_mutated_exit\": $d1, \"suite_exit\": $t, \"suite_tail\": \"$(cat $out/confirm${k}_suite.tail | tr -d '"')\"}" > $dst/confirm.json
fi
