#!/bin/bash
cd /verif && /venv/bin/python -c "
import sys; sys.path.insert(0,'harness'); import common as C, translate
translate.regenerate()
try:
    print('built in', round(C.build_coq(),1), 's')
except C.BuildError as e:
    print(e); print(e.log[-2500:])"
