#!/usr/bin/env python3
"""Runs every seeded change under /verif/seeded/<Cxx>-<k>/ against its check (quick tier): applies patch.diff to /repo, runs
./check, undoes it straight afterwards, and records the outcome in meta.json.  Usage: tools/run_seeded.py [Cxx-k ...]"""
import json, re, subprocess, sys
from pathlib import Path

import os
V = Path(os.environ.get("QV_VERIF") or Path(__file__).resolve().parents[1])      # relocatable for my own exploration (snapshot + scratch worktree)
REPO = os.environ.get("QV_REPO", "/repo")
sel = sys.argv[1:]
for d in sorted((V / "seeded").iterdir()):
    if not d.is_dir() or (sel and d.name not in sel):
        continue
    pid = d.name.split("-")[0]
    if subprocess.run(["git", "-C", REPO, "diff", "--quiet"]).returncode != 0:
        sys.exit("repo dirty")
    if subprocess.run(["git", "-C", REPO, "apply", str(d / "patch.diff")]).returncode != 0:
        print(d.name, "patch does not apply"); continue
    try:
        p = subprocess.run(["./check", pid, "--tier", "quick"], cwd=V, capture_output=True, text=True)
    finally:
        subprocess.run(["git", "-C", REPO, "checkout", "--", "."])
        subprocess.run(["git", "-C", str(V), "checkout", "--", "evidence"], capture_output=True)
    lines = [l for l in p.stdout.splitlines() if l.startswith(("VIOLATION", "KNOWN-FINDING"))]
    meta_p = d / "meta.json"
    meta = json.loads(meta_p.read_text()) if meta_p.exists() else {}
    meta.update(property=pid, detected=p.returncode == 1 and any(l.startswith("VIOLATION") for l in lines),
                check_cmd=f"./check {pid} --tier quick", check_exit=p.returncode, check_lines=lines)
    meta_p.write_text(json.dumps(meta, indent=1) + "\n")
    print(d.name, "DETECTED" if meta["detected"] else "MISSED", lines[:2])
