#!/usr/bin/env python3
"""print a python source file without docstrings and blank lines"""
import ast, sys
src = open(sys.argv[1]).read()
tree = ast.parse(src)
drop = set()
for node in ast.walk(tree):
    if isinstance(node, (ast.FunctionDef, ast.ClassDef, ast.AsyncFunctionDef, ast.Module)):
        b = node.body
        if b and isinstance(b[0], ast.Expr) and isinstance(getattr(b[0], "value", None), ast.Constant) and isinstance(b[0].value.value, str):
            drop.update(range(b[0].lineno, b[0].end_lineno + 1))
for i, l in enumerate(src.splitlines(), 1):
    if i not in drop and l.strip():
        print(f"{i}:{l}")
