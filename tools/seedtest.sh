#!/bin/bash
# usage: tools/seedtest.sh <Cxx> <patch.diff> [tier]   -- applies a seeded change to /repo, runs the check, undoes it
set -u
pid=$1; patch=$2; tier=${3:-quick}
cd /repo || exit 2
if ! git diff --quiet; then echo "repo dirty"; exit 2; fi
git apply "$patch" || { echo "patch does not apply"; exit 2; }
cd /verif
./check "$pid" --tier "$tier" 2>&1 | grep -E "VIOLATION|KNOWN-FINDING|^\[$pid\]|Traceback|Error" | head -20
rc=${PIPESTATUS[0]}
git -C /repo checkout -- .
git -C /verif checkout -- evidence 2>/dev/null
echo "exit=$rc"
