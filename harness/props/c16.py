"""C16 — output files after every write and after a crash at any point.  Model/Files.v, Proofs/FilesProofs.v, Props/C16.v.
Tie: the file operations of a real grand-canonical run (log, trajectory, restart file; modes 'a' and 'w') are logged by wrappers around
the file objects the observers opened; the model (vm_compute) run on that very operation sequence must give the real file content after
every step, and for REAL crashes (a subprocess killed with os._exit right after the k-th file operation, python buffers lost) the content
found on disk must be one of the model's crash states.  Search: completed log lines / frames intact at every crash point; the restart
file loads to a saved state once one has been written; per-call well-formedness."""
from __future__ import annotations

import io
import json
import random
import re
import shutil
import subprocess
from concurrent.futures import ThreadPoolExecutor

import common as C

HDR = """From QV Require Import Model.Files.
Definition W := @Write nat. Definition F := @Flush nat. Definition S0 := @Seek0 nat. Definition T := @Truncate nat.
"""


def run_driver(case, timeout=600):
    p = subprocess.run([C.PY, "-W", "ignore", str(C.VERIF / "harness" / "impl" / "c16.py")], input=json.dumps(case), capture_output=True, text=True,
                       env=C.IMPL_ENV, timeout=timeout, cwd="/")
    return p


def frames_ok(text):
    """every extended-XYZ frame complete: first line = atom count, then a comment line, then that many atom lines"""
    lines = text.split("\n")
    if lines and lines[-1] == "":
        lines = lines[:-1]
    i, frames = 0, 0
    while i < len(lines):
        try:
            n = int(lines[i].strip())
        except ValueError:
            return None
        if i + 2 + n > len(lines):
            return None
        i += 2 + n
        frames += 1
    return frames


def run(res: C.Result):
    rng = random.Random(res.seed)
    C.prove(res, extra_tb=["CPython text-file buffering and the host file system under process death are modelled (buffer lost on os._exit, pushed data kept) and validated by the real crashes"])
    quick = res.tier == "quick"
    nruns = 6 if quick else 15
    stride = 5 if quick else 1
    dist = {"runs": [], "crash_points": 0, "operations": 0, "restart_window_hits": 0, "restart_docs_shrank": 0}
    coq_lines, meta = [], []
    root = res.workdir / "files"
    distinct = set()
    for ri in range(nruns):
        case = {"dir": str(root / f"ref{ri}"), "natoms": rng.randint(5, 8), "geom_seed": rng.randint(0, 999), "seed": rng.randint(1, 2 ** 31),
                "mode": ["a", "w"][ri % 2], "mu": rng.choice([-0.05, 0.0, 0.05]), "bias": rng.choice([0.4, 0.5, 0.6]), "steps": 5 if quick else 7, "kill_at": None}
        big = ri == (3 if quick else 9)
        if ri == (4 if quick else 10) or ri > (5 if quick else 11):
            # a box that runs EMPTY (two atoms, deletions favoured): an empty system is a state like any other - one (zero-atom) frame per call
            case.update(natoms=2, mode=["a", "w"][ri % 2], bias=0.1, mu=-8.0, steps=7)
        elif ri == (5 if quick else 11):
            case.update(mode="w", stale_files=True)      # output of a previous run under the same names
        elif big:
            # a system large enough for the restart document to exceed the file buffer (8 KiB): part of a write reaches the disk before the call returns
            case.update(natoms=60, mode="w", steps=6, bias=0.35, mu=-0.05)
        elif ri % 3 == 2:
            # files opened by the user and handed over as file objects (block-buffered; 'w' handle with the default logging mode 'a', or an 'a' handle)
            case.update(handles="fileobj", handle_mode=["w", "a", "w"][(ri // 3) % 3], mode=["a", "a", "w"][(ri // 3) % 3])
        p = run_driver(case)
        if p.returncode != 0:
            res.fail("exception", f"reference run failed: {p.stderr[-500:]}", {"input": case})
            continue
        ref = json.loads(p.stdout)
        ops = ref["ops"]
        dist["operations"] += len(ops)
        # chunk tokens per file
        chunks = {"log": [], "traj": [], "restart": []}
        tokops = {"log": [], "traj": [], "restart": []}
        gidx = {"log": [], "traj": [], "restart": []}
        for gi, (tag, name, payload) in enumerate(ops):
            if name == "write":
                chunks[tag].append(payload)
                tokops[tag].append(f"W [{len(chunks[tag])}]")
            elif name == "flush":
                tokops[tag].append("F")
            elif name == "seek":
                tokops[tag].append("S0")
                if payload != [0]:
                    res.broken("correspondence:unmodelled-operation", {"op": [tag, name, payload]})
            else:
                tokops[tag].append("T")
            gidx[tag].append(gi + 1)      # this op is the (gi+1)-th operation overall
        # ---- the theorems are about these operation shapes: Logger call = one write of a whole line + flush (header: one write),
        #      trajectory call = writes + flush, restart call = seek(0), truncate, ONE write of the document, flush
        seq = {t: [o[1] + ("*" if o[1] == "write" and o[2].endswith("\n") and o[2].count("\n") == 1 else "") for o in ops if o[0] == t] for t in fname} if False else None
        shape = {t: " ".join({"write": "w", "flush": "f", "seek": "s", "truncate": "t"}[o[1]] for o in ops if o[0] == t) for t in ("log", "traj", "restart")}
        if not re.fullmatch(r"w(?: w f)*", shape["log"]) or any(not o[2].endswith("\n") or o[2].count("\n") != 1 for o in ops if o[0] == "log" and o[1] == "write"):
            res.broken("correspondence:Files.log_call(shape)", {"mode": case["mode"], "log_operations": shape["log"][:80],
                                                               "expected": "header: one write; every call: ONE write of a complete line, then flush"})
        if not re.fullmatch(r"(?:(?:w )+f ?)*", shape["traj"] + " "):
            res.broken("correspondence:Files.traj_call(shape)", {"traj_operations": shape["traj"][:80]})
        if not re.fullmatch(r"(?:s t w f ?)*", shape["restart"] + " "):
            res.broken("correspondence:Files.restart_call(shape)", {"restart_operations": shape["restart"][:80], "expected": "seek(0) truncate write flush per call"})
        lens = [len(x) for x in chunks["restart"]]
        dist["restart_docs_shrank"] += sum(1 for a, b in zip(lens, lens[1:]) if b < a)
        dist["runs"].append({"mode": case["mode"], "handles": case.get("handles", "path") + (":" + case["handle_mode"] if case.get("handles") else ""), "ops": len(ops), "natoms_seen": sorted({s["natoms"] for s in ref["states"]})})
        fname = {"log": "run.log", "traj": "run.xyz", "restart": "run.json"}

        def nops_before(tag, k):
            return sum(1 for g in gidx[tag] if g <= k)
        # ---- (1) content after every step = model's flushed content
        for si, (st, mark) in enumerate(zip(ref["states"], ref["marks"])):
            for tag in fname:
                m = nops_before(tag, mark)
                coq_lines.append(f"Eval vm_compute in ({len(meta)}, os (run [{'; '.join(tokops[tag][:m])}] (@fempty nat))).")
                meta.append(("content", ri, tag, si, st[fname[tag]], chunks[tag], case))
            # per-call well-formedness (direct)
            log = st["run.log"]
            if not log.endswith("\n") or len(log.split("\n")) - 1 != si + 2 + 0:
                # header + step-0 row + one row per step so far
                res.fail("log:after-call", f"after step {st['step']} the log has {len(log.splitlines())} lines (expected header + {si + 2 - 1} rows), complete last line: {log.endswith(chr(10))}", {"input": case, "observed": log[-300:]})
            fr = frames_ok(st["run.xyz"])
            if fr != si + 1:   # (the snapshot is taken when srun yields: the observers of this step have not been called yet)
                res.fail("traj:after-call", f"after step {st['step']} the trajectory holds {fr} complete frames (expected {si + 1})", {"input": case})
            if si and not st["run.xyz"].startswith(ref["states"][si - 1]["run.xyz"]):
                res.fail("traj:earlier-bytes", "earlier bytes of the trajectory changed", {"input": case})
            try:
                doc = json.loads(st["run.json"])
                if doc.get("attributes", {}).get("step_count") != st["step"]:
                    res.fail("restart:after-call", f"after step {st['step']} the restart file describes step {doc.get('attributes', {}).get('step_count')}", {"input": case})
            except json.JSONDecodeError as e:
                res.fail(f"restart:after-call:{case['mode']}", f"after step {st['step']} (mode {case['mode']!r}) the restart file is not one JSON document: {e}", {"input": case, "observed": st["run.json"][-200:]})
        # ---- (2) real crashes
        points = list(range(1, len(ops) + 1, stride if not (big or ri >= (4 if quick else 10)) else 10 ** 9))
        # always include the operations right after a restart truncate (the window) and right after log writes
        points += [gi + 1 for gi, (tag, name, _) in enumerate(ops) if tag == "restart" and name in ("truncate", "write")][:6 if quick else 1000]
        # ... and every operation of a restart rewrite whose document is SHORTER than its predecessor (the state shrank: a deletion was accepted)
        rw = [gi for gi, (tag, name, _) in enumerate(ops) if tag == "restart" and name == "write"]
        for a_, b_ in zip(rw, rw[1:]):
            if len(ops[b_][2]) < len(ops[a_][2]):
                points += [g for g in range(b_ - 2, b_ + 4) if a_ + 1 < g <= len(ops) and ops[g - 1][0] == "restart"]
        points = sorted(set(points))

        def crash(k):
            d = root / f"crash{ri}_{k}"
            cc = dict(case, dir=str(d), kill_at=k)
            run_driver(cc)
            out = {}
            for tag, f in fname.items():
                try:
                    out[tag] = (d / f).read_text()
                except FileNotFoundError:
                    out[tag] = ""
            shutil.rmtree(d, ignore_errors=True)
            return k, out
        with ThreadPoolExecutor(max_workers=16) as ex:
            crashes = list(ex.map(crash, points))
        saved_steps = {json.loads(x).get("attributes", {}).get("step_count") for x in chunks["restart"]}
        for k, out in crashes:
            dist["crash_points"] += 1
            distinct.add((ri, k))
            for tag in fname:
                m = nops_before(tag, k)
                coq_lines.append(f"Eval vm_compute in ({len(meta)}, crash_states (run [{'; '.join(tokops[tag][:m])}] (@fempty nat))).")
                meta.append(("crash", ri, tag, k, out[tag], chunks[tag], case))
                # direct oracle: everything completed (written and flushed) before the crash is intact
                done, pend = "", ""
                for (t2, name, payload), g in zip([o for o in ops if o[0] == tag], gidx[tag]):
                    if g > k:
                        break
                    if name == "write":
                        pend += payload
                    elif name == "flush":
                        done, pend = (done + pend if tag != "restart" else pend), ""
                    elif name == "truncate":
                        pass
                if tag in ("log", "traj") and not out[tag].startswith(done):
                    res.fail(f"{tag}:crash", f"crash after operation {k}: completed {'lines' if tag == 'log' else 'frames'} are not intact on disk", {"input": case, "crash_after_op": k, "observed": out[tag][-200:]})
                if tag == "restart" and done:
                    try:
                        doc = json.loads(out[tag])
                        ok = doc.get("attributes", {}).get("step_count") in saved_steps
                    except json.JSONDecodeError:
                        ok = False
                    if not ok and not (out[tag] == "" or any(d.startswith(out[tag]) for d in chunks["restart"])):
                        # NOT the known window (empty file / a prefix of the document being written): pieces of two documents, or foreign bytes
                        res.fail("restart:crash-mixed-documents", f"crash after operation {k} ({ops[k - 1][0]}.{ops[k - 1][1]}): the restart file on disk ({len(out[tag])} bytes) is neither a saved "
                                 f"document nor the beginning of one - it mixes the new document with what was there before", {"input": case, "crash_after_op": k, "observed": out[tag][-160:]})
                    elif not ok:
                        dist["restart_window_hits"] += 1
                        res.fail("restart:crash-window", f"crash after operation {k} ({ops[k - 1][0]}.{ops[k - 1][1]}): a restart file had been written before, but what is on disk now ({len(out[tag])} bytes) loads to no saved state",
                                 {"input": case, "crash_after_op": k, "observed": out[tag][:120]})
        shutil.rmtree(root / f"ref{ri}", ignore_errors=True)
    # ---- one Logger object writing to a second file (rotation mid-run / handed to a fresh simulation): header + one line per call in EVERY file
    nre = 0
    for vi, variant in enumerate(["rotate", "fresh"] * (1 if quick else 4)):
        cc = {"dir": str(root / f"reuse{vi}"), "first": ["path", "fileobj"][(vi // 2) % 2], "second": ["path", "fileobj"][vi % 2], "mode": ["a", "w"][(vi // 2) % 2],
              "variant": variant, "seed": rng.randint(1, 10 ** 6), "steps1": rng.randint(1, 4), "steps2": rng.randint(1, 4)}
        p2 = subprocess.run([C.PY, "-W", "ignore", str(C.VERIF / "harness" / "impl" / "c16b.py")], input=json.dumps(cc), capture_output=True, text=True, env=C.IMPL_ENV, timeout=600, cwd="/")
        nre += 1
        if p2.returncode != 0:
            res.fail("exception:logger-reuse", f"re-pointing a Logger to a second file failed: {p2.stderr[-400:]}", {"input": cc})
            continue
        o = json.loads(p2.stdout)
        head = o["a"].split("\n")[0]
        for key in ("a", "b"):
            lines = o[key].split("\n")
            if not o[key].endswith("\n") or lines[0] != head or "Step" not in lines[0] or len(lines) - 1 != 1 + o[f"rows_{key}"]:
                res.fail("log:second-file", f"a Logger re-pointed to a second file ({variant}): file {key!r} holds {len(lines) - 1} lines, first line {lines[0][:40]!r}; expected the header "
                         f"{head[:40]!r} plus {o[f'rows_{key}']} rows", {"input": cc, "observed": o[key][:400]})
    dist["logger_reuse_cases"] = nre
    # ---- observers used by hand: the restart observer called again at a step it has already written (settings changed in between; named checkpoint);
    #      log columns dropped mid-run followed by a new header
    nman = 0
    for vi in range(2 if quick else 8):
        for variant in ("manual_restart", "remove_fields"):
            cc = {"dir": str(root / f"manual{vi}_{variant}"), "variant": variant, "seed": rng.randint(1, 10 ** 6), "steps1": rng.randint(1, 4), "steps2": rng.randint(1, 4),
                  "extra": vi % 2 == 0, "which": ["last", "second"][vi % 2]}
            p2 = subprocess.run([C.PY, "-W", "ignore", str(C.VERIF / "harness" / "impl" / "c16b.py")], input=json.dumps(cc), capture_output=True, text=True, env=C.IMPL_ENV, timeout=600, cwd="/")
            nman += 1
            if p2.returncode != 0:
                res.fail(f"exception:{variant}", f"{variant}: {p2.stderr[-400:]}", {"input": cc})
                continue
            o = json.loads(p2.stdout)
            if variant == "manual_restart":
                for what, T, doc in o["docs"]:
                    if doc.get("error") or doc.get("temperature") != T or doc.get("step_count") != o["expected_step"]:
                        res.fail("restart:not-the-latest-state", f"restart observer, {what}: the file should hold one JSON document with temperature {T} at step {o['expected_step']}; "
                                 f"it holds {doc}", {"input": cc, "observed": doc})
                        break
            else:
                lines = o["a"].split("\n")[:-1]
                heads = [i for i, l in enumerate(lines) if l.split()[:1] == ["Class"]]
                bad = None
                if len(heads) != 2 or len(lines) != 2 + (o["steps1"] + 1) + o["steps2"] or not o["a"].endswith("\n"):
                    bad = f"{len(lines)} lines with {len(heads)} header(s); expected a header, {o['steps1'] + 1} lines, the new header, {o['steps2']} lines"
                else:
                    ncol = len(lines[heads[1]].split())
                    wrong = [l for l in lines[heads[1] + 1:] if len(l.split()) != ncol]
                    if wrong or o["removed"] in lines[heads[1]]:
                        bad = f"after remove_fields({o['removed']!r}) and write_header() the header has {ncol} columns ({lines[heads[1]].split()}), but a later line reads {wrong[:1] or lines[heads[1]]}"
                if bad:
                    res.fail("log:columns-after-remove-fields", bad, {"input": cc, "observed": o["a"][-600:]})
    dist["observers_used_by_hand"] = nman
    # ---- evaluate the model
    got = {}
    per = 120
    files = ["\n".join(coq_lines[i:i + per]) for i in range(0, len(coq_lines), per)]

    def one(idx_text):
        idx, text = idx_text
        f = res.workdir / f"c16_{idx}.v"
        f.write_text(HDR + text + "\n")
        return C.run_coq_file(f, 1200)
    with ThreadPoolExecutor(max_workers=16) as ex:
        for rc, out, err in ex.map(one, enumerate(files)):
            if rc != 0:
                res.broken("correspondence:coq-evaluation", err[-1500:])
            for m in re.finditer(r"=\s*\((\d+),\s*(\[.*?\])\)\s*:\s", out, re.S):
                got[int(m.group(1))] = re.sub(r"\s+", "", m.group(2))
    agree = dis = 0
    for j, (kind, ri, tag, where, content, chunks, case) in enumerate(meta):
        g = got.get(j)
        ok = False
        if g is not None:
            if kind == "content":
                toks = [int(x) for x in re.findall(r"\d+", g)]
                ok = "".join(chunks[t - 1] for t in toks) == content
            else:
                states = [[int(x) for x in re.findall(r"\d+", s)] for s in re.findall(r"\[([\d;]*)\]", g[1:-1])]
                for st in states:
                    base = "".join(chunks[t - 1] for t in st)
                    if content == base:
                        ok = True
                        break
                    # a very large buffer may have been pushed partially: whole chunks of a crash state + a proper prefix of the next chunk
                    nxt = chunks[max(st) if st else 0] if (max(st) if st else 0) < len(chunks) else ""
                    if content.startswith(base) and nxt.startswith(content[len(base):]) and len(content) - len(base) >= 4096:
                        ok = True
                        break
        if ok:
            agree += 1
        else:
            dis += 1
            if dis <= 8:
                res.broken(f"correspondence:Files.{'run' if kind == 'content' else 'crash_states'}({tag})",
                           {"run": ri, "mode": case["mode"], "where": where, "model": (g or "")[:300], "on_disk_bytes": len(content), "on_disk_tail": content[-80:]})
    res.coverage.update(
        evaluations=dist["crash_points"] + len(meta), distinct_nontrivial=len(distinct),
        rule="real GrandCanonical runs at 3000 K with H2 exchange (atom count and serialised state grow and shrink), log + trajectory + restart file on real paths, "
             "modes 'a' and 'w'; every operation on the three file objects is logged; quick: every 5th operation index is a real crash point (plus the operations "
             "right after restart truncate/write), thorough: every operation index; non-trivial = distinct (run, crash point)",
        correspondence={"flavour": "functional: Files.run on the logged operation sequence = file content after every step; content found after each REAL crash is in Files.crash_states",
                        "cases": len(meta), "agreed": agree, "disagreed": dis, "undecided": 0},
        direct_oracle={"evaluations": dist["crash_points"], "failures": len(res.failures)}, input_distribution=dist)
    res.samples += [{"run": dist["runs"][:2]}]
    res.assumptions += ["process death only (os._exit): durability after power loss (fsync) is outside the property and the model",
                        "a crash cannot be placed inside a single write call; the model allows any prefix of the buffered chunks to have reached the OS"]
    shutil.rmtree(root, ignore_errors=True)


def replay(res: C.Result, path):
    d = json.loads(open(path).read())
    case = d.get("input")
    k = d.get("crash_after_op")
    if not case:
        print("replay: no concrete input")
        return 1
    if case.get("variant"):
        # the second driver (logger re-use, observers used by hand)
        cc = dict(case, dir=str(C.WORK / "C16_replay"))
        p2 = subprocess.run([C.PY, "-W", "ignore", str(C.VERIF / "harness" / "impl" / "c16b.py")], input=json.dumps(cc), capture_output=True, text=True, env=C.IMPL_ENV, timeout=600, cwd="/")
        print(p2.stdout[:3000] or p2.stderr[-1500:])
        shutil.rmtree(C.WORK / "C16_replay", ignore_errors=True)
        return 0
    cc = dict(case, dir=str(C.WORK / "C16_replay"), kill_at=k)
    run_driver(cc)
    for f in ("run.log", "run.xyz", "run.json"):
        try:
            t = open(C.WORK / "C16_replay" / f).read()
        except FileNotFoundError:
            t = ""
        print(f, len(t), "bytes; tail:", repr(t[-100:]))
    shutil.rmtree(C.WORK / "C16_replay", ignore_errors=True)
    return 0
