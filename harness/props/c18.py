"""C18 — adaptive delta: Model/ForceBias.v (upd_tanh/upd_exp/delta_of), Props/C18.v; interval-compared with update_delta()."""
from __future__ import annotations

import math
import random

import common as C


def gen_case(rng, k):
    lo = rng.choice([0.0, 0.01, 0.05, 0.1, 1.0, rng.uniform(0, 0.2)])
    hi = lo + rng.choice([0.0, 0.05, 0.1, 0.5, rng.uniform(0, 1)])
    r = rng.choice([0.1, 0.01, 1.0, rng.uniform(0.001, 2)])
    scheme = rng.choice(["forces", "energy"])
    fn = rng.choice(["tanh", "exp"])
    n = rng.choice([1, 2])
    c = {"lo": lo, "hi": hi, "r": r, "scheme": scheme, "fn": fn, "natoms": n, "forces_comm": None, "energies": None}
    mode = rng.choice(["zero", "reference", "random", "random", "large", "huge", "nodata"])
    c["mode"] = mode
    r2 = random.Random(k * 104729 + 17)
    if r2.random() < 0.4:
        # built with other settings, used once, then re-tuned through the public attributes
        c["late"] = {"r": r * r2.choice([0.25, 4.0, 10.0]), "lo": lo * 0.5, "hi": hi + 0.25, "fn": r2.choice(["tanh", "exp"]), "scheme": scheme}
    if r2.random() < 0.3:
        c["store"] = r2.choice(["list", "tuple"])
    if mode == "nodata":
        return c
    if scheme == "energy":
        e0 = rng.uniform(-100, 100)
        if mode == "zero":
            c["energies"] = [e0, e0, e0]
        elif mode == "reference":
            c["energies"] = [r * n, -r * n]
        elif mode == "random":
            c["energies"] = [e0 + rng.gauss(0, r * n * rng.choice([0.1, 1, 3])) for _ in range(rng.randint(2, 6))]
        elif mode == "large":
            x = r * n * rng.choice([10, 100, 1e4])
            c["energies"] = [x, -x]
        else:
            x = rng.choice([1e100, 1e200, 1e300])
            c["energies"] = [x, -x]
    else:
        if r2.random() < 0.2:
            c["tiny_forces"] = r2.choice([1e-9, 1e-12, 1e-7])
        m = rng.choice([2, 3, 5, 101]) if mode != "huge" else 101
        comm = []
        for _ in range(m):
            comm.append([[0.0] * 3 for _ in range(n)])
        for i in range(n):
            for j in range(3):
                a = rng.choice([-1, 1]) * rng.uniform(0.1, 5)
                if mode == "zero":
                    vals = [a] * m
                elif mode == "reference":
                    vals = [a * (1 + r), a * (1 - r)] + [a] * (m - 2) if r <= 1 else [a] * m
                elif mode == "random":
                    vals = [a * (1 + rng.gauss(0, rng.choice([0.01, 0.1, 0.5]))) for _ in range(m)]
                else:
                    vals = [abs(a) * rng.choice([1.0, 1e6])] + [0.0] * (m - 1)
                if c.get("tiny_forces"):
                    vals = [v * c["tiny_forces"] for v in vals]      # the variation coefficient is scale-free: residual forces of a relaxed structure count like any others
                for t in range(m):
                    comm[t][i][j] = vals[t]
        c["forces_comm"] = comm
    return c


def py_model(c, v):
    if c["fn"] == "tanh":
        f = 1 - math.tanh(v / c["r"] * math.atanh(0.5))
    else:
        f = math.exp(-v / c["r"] * math.log(2))
    return c["lo"] + (c["hi"] - c["lo"]) * f


HDR = """From QV Require Import Model.ForceBias Proofs.AdaptiveProofs.
From Coq Require Import Lra.
From Interval Require Import Tactic.
Open Scope R_scope.
Ltac close_case n model impl tol :=
  first [ assert (Rabs (model - impl) <= tol) by (cbv [delta_of upd_tanh upd_exp atanh]; interval with (i_prec 80)); idtac "CASE" n "CLOSE"
        | assert (tol < Rabs (model - impl)) by (cbv [delta_of upd_tanh upd_exp atanh]; interval with (i_prec 80)); idtac "CASE" n "FAR"
        | idtac "CASE" n "UNDECIDED" ].
(* variance >= 64 x reference: squeeze between lo and the model's value at v0 = 64 r (antitone + range theorems) *)
Ltac big_case n U Uok r lo hi v0 v impl tol :=
  first [ assert (Rabs (delta_of lo hi (U r v) - impl) <= 2 * tol) by
            (apply (delta_squeeze r (U r) (Uok r ltac:(lra)) lo hi ltac:(lra) v0 v impl tol);
             [ lra | lra
             | cbv [delta_of upd_tanh upd_exp atanh]; interval with (i_prec 80) | lra | lra ]); idtac "CASE" n "CLOSE"
        | idtac "CASE" n "UNDECIDED" ].
"""


def run(res: C.Result):
    rng = random.Random(res.seed)
    C.prove(res, extra_tb=["Coq-Interval `interval with (i_prec 80)` evaluates the model in each correspondence case"])
    ncases = 160 if res.tier == "quick" else 3000
    cases = [gen_case(rng, k) for k in range(ncases)]
    for i, c in enumerate(cases):
        if random.Random(res.seed ^ 0x18C000 ^ i).random() < 0.35:
            c["custom_keys"] = True       # the calculator publishes its committee data under other names; the simulation is told so through its keyword attributes
    outs = C.run_impl_parallel("c18.py", [{"cases": cases[i::16]} for i in range(16)])
    results = [None] * ncases
    for j, o in enumerate(outs):
        results[j::16] = o["results"]
    coq, meta = [], []
    dist = {"mode": {}, "scheme": {}, "fn": {}, "coords": 0, "v_zero": 0, "v_huge": 0, "nan_coef": 0}
    groups = {}
    distinct = set()
    ulp = 2.0**-52
    for k, (c, r) in enumerate(zip(cases, results)):
        for key in ("mode", "scheme", "fn"):
            dist[key][c[key]] = dist[key].get(c[key], 0) + 1
        if "exception" in r:
            res.fail("exception", f"{r['exception']}: {r['message']}", {"input": c, "observed": r})
            continue
        lo, hi = c["lo"], c["hi"]
        tol_dir = 4 * ulp * max(abs(lo), abs(hi), 1e-300)
        dist["retuned_after_construction"] = dist.get("retuned_after_construction", 0) + bool(c.get("late"))
        for v, d, vi in zip(r["v"], r["delta"], r["v_impl"]):
            dist["coords"] += 1
            if not (math.isnan(v) or math.isinf(v)) and not abs(vi - v) <= 1e-9 * abs(v):
                if True:
                    res.fail(f"{c['scheme']}:variation-coefficient", f"the committee data have variation coefficient {v!r} (two-pass standard deviation) but update_delta used {vi!r}",
                             {"input": c, "v": v, "v_impl": vi})
                    continue
            if math.isnan(v) or math.isinf(v):
                dist["nan_coef"] += 1   # 0/0 coefficient: not a finite variance, outside the quantifier
                continue
            why = []
            if not (lo - tol_dir <= d <= hi + tol_dir):
                why.append(f"delta {d!r} outside [{lo!r}, {hi!r}]")
            if v == 0:
                dist["v_zero"] += 1
                if abs(d - hi) > tol_dir:
                    why.append(f"zero variance gives {d!r}, max_delta is {hi!r}")
            if c["mode"] in ("nodata",) and abs(d - (lo + hi) / 2) > 8 * tol_dir:
                why.append(f"no committee data gives {d!r}, midpoint is {(lo + hi) / 2!r}")
            if c["mode"] == "reference" and abs(v - c["r"]) <= 1e-12 * c["r"] and abs(d - (lo + hi) / 2) > 1e-10 * max(hi - lo, 1e-300) + 8 * tol_dir:
                why.append(f"reference variance gives {d!r}, midpoint is {(lo + hi) / 2!r}")
            if v > 1e50:
                dist["v_huge"] += 1
                if abs(d - lo) > 8 * tol_dir:
                    why.append(f"huge variance {v!r} gives {d!r}, min_delta is {lo!r}")
            if why:
                res.fail(f"{c['fn']}:{'range' if 'outside' in why[0] else 'anchor'}", "; ".join(why), {"input": c, "v": v, "delta": d})
            groups.setdefault((lo, hi, c["r"], c["fn"]), []).append((v, d))
            distinct.add((lo, hi, c["r"], c["fn"], v))
            tol = 64 * ulp * max(abs(lo), abs(hi)) + 1e-300
            model = f"delta_of {C.rlit(lo)} {C.rlit(hi)} (upd_{c['fn']} {C.rlit(c['r'])} {C.rlit(v)})"
            if v >= 64 * c["r"] and hi >= lo:
                coq.append(f"big_case {len(meta)}%nat upd_{c['fn']} {c['fn']}_is_update {C.rlit(c['r'])} {C.rlit(lo)} {C.rlit(hi)} "
                           f"{C.rlit(64 * c['r'])} {C.rlit(v)} {C.rlit(d)} {C.rlit(tol)}.")
                dist["squeezed"] = dist.get("squeezed", 0) + 1
            else:
                coq.append(f"close_case {len(meta)}%nat ({model}) {C.rlit(d)} {C.rlit(tol)}.")
            meta.append((k, v, d))
    # monotonicity across all observations sharing (lo, hi, r, fn)
    for key, obs in groups.items():
        obs.sort()
        for (v1, d1), (v2, d2) in zip(obs, obs[1:]):
            if v2 > v1 and d2 > d1 + 8 * ulp * max(abs(key[0]), abs(key[1]), 1e-300):
                res.fail(f"{key[3]}:monotone", f"delta increases with variance: v={v1!r}->{v2!r}, delta={d1!r}->{d2!r}",
                         {"input": {"lo": key[0], "hi": key[1], "r": key[2], "fn": key[3]}, "observed": [(v1, d1), (v2, d2)]})
    # extra monotone sweep on one configuration per function (many variances, same parameters)
    files = []
    per = 40
    for i in range(0, len(coq), per):
        files.append("Goal True.\n" + "\n".join(coq[i:i + per]) + "\nexact I. Qed.")
    got = C.run_coq_cases(res.workdir, HDR, files, per_file=1, tag="c18")
    if -1 in got:
        res.broken("correspondence:coq-evaluation", got[-1][:1500])
    agree = undec = dis = 0
    for j, (k, v, d) in enumerate(meta):
        g = got.get(j)
        if g == "CLOSE":
            agree += 1
        elif g == "FAR":
            dis += 1
            if dis <= 8:
                res.broken("correspondence:ForceBias.delta_of", {"case": {x: cases[k][x] for x in ("lo", "hi", "r", "fn", "scheme")},
                                                                   "v": v, "impl_delta": d, "python_mirror": py_model(cases[k], v)})
        else:
            undec += 1
    if undec > max(3, len(meta) // 25):
        res.broken("correspondence:too-many-undecided", {"undecided": undec, "of": len(meta)})
    res.coverage.update(
        evaluations=len(meta), distinct_nontrivial=len(distinct),
        rule="real AdaptiveForceBias.update_delta() with committee forces/energies in calc.results: zero spread, the reference "
             "variance, random spreads, large (10-1e4 x reference) and huge (up to 1e300) variances, per-coordinate arrays, no "
             "committee data; both schemes and both update functions; one evaluation per coordinate; non-trivial = distinct "
             "(min, max, reference, function, variance)",
        correspondence={"flavour": "functional (|model - impl| <= 64 ulp, decided in Coq by interval arithmetic)", "cases": len(meta),
                        "agreed": agree, "disagreed": dis, "undecided": undec, "model": "ForceBias.delta_of/upd_tanh/upd_exp"},
        direct_oracle={"evaluations": len(meta), "failures": len(res.failures)}, input_distribution=dist)
    res.samples += [{"case": {x: cases[i][x] for x in ("lo", "hi", "r", "fn", "scheme", "mode")}, "v": results[i].get("v"), "delta": results[i].get("delta")} for i in (0, 1, 2)]
    res.assumptions += ["range/anchor clauses are checked with a 4-8 ulp allowance (lo + (hi-lo)*1.0 may exceed hi by one ulp: rounding)",
                        "coordinates whose committee forces are all exactly zero give a 0/0 coefficient (not a finite variance) and are skipped"]
