"""C20 — drivers use custom moves / criteria only through the documented protocol.  Model/Protocol.v, Proofs/ProtocolProofs.v, Props/C20.v.
Tie (F): bare user classes (protocol methods only, no quansino base) wrapped in strict logging objects are added with explicit criteria to
every driver, alone and next to shipped moves; for every trial the protocol events the user objects saw must be exactly the model's
trial_trace (vm_compute) for the same return value, verdict and change.  Search: any attribute read or written outside the protocol,
a truthy result not sent to the criteria, a falsy one evaluated, a missing / duplicated / wrong notification, to_dict not used."""
from __future__ import annotations

import random
import re

import common as C

ALLOWED = {"__call__", "evaluate", "on_atoms_changed", "on_cell_changed", "to_dict", "from_dict"}
RETS = {"True": "PyBool true", "1": "PyInt 1", "x": "PyStr 1", "[0]": "PyList 1", "False": "PyBool false", "0": "PyInt 0", "None": "PyNone",
        "": "PyStr 0", "[]": "PyList 0"}
DRIVERS = ["base", "canonical", "hamiltonian", "isobaric", "isotension", "gc"]


def gen_case(rng, k):
    drv = DRIVERS[k % 6]
    n = rng.randint(3, 6)
    nuser = rng.choice([1, 2, 2])
    table = []

    def script():
        out = []
        for _ in range(40):
            r = rng.random()
            if drv == "gc" and r < 0.45:
                out.append(["add"] if rng.random() < 0.5 else ["delete", rng.randint(0, 9)] if rng.random() < 0.6 else ["swap", rng.randint(0, 9)])
            elif drv in ("isobaric", "isotension") and r < 0.45:
                out.append(["cell", rng.choice([1.01, 0.99, 1.02])])
                if random.Random(len(out) * 31 + k).random() < 0.35:
                    out[-1][1] = [1.000004, 0.9999998, 1.0000000625][len(out) % 3]      # a fine-tuning strain is a change of the cell all the same
                elif random.Random(len(out) * 17 + k).random() < 0.3:
                    out[-1][1] = "shear"      # a change of shape at constant volume is a change of the cell all the same
            elif r < 0.65:
                out.append(["shift"])
            else:
                out.append(["ret", rng.choice(list(RETS))])
        return out
    for u in range(nuser):
        table.append({"kind": "user", "oid": u, "name": f"user{u}", "script": script(), "probability": rng.choice([1.0, 2.0])})
    if rng.random() < 0.4:
        table.append({"kind": "user", "oid": 0, "name": "user0_again", "script": [], "probability": 1.0})   # the same object under a second name
    if rng.random() < 0.7 and drv != "base":
        shipped = {"gc": rng.choice(["exch", "disp"]), "isobaric": rng.choice(["cell", "disp"]), "isotension": rng.choice(["cell", "disp"])}.get(drv, "disp")
        table.append({"kind": "shipped", "shipped": shipped, "name": "shipped", "probability": 1.0})
    r2 = random.Random(k * 2654435761 % 2 ** 31)
    r5 = random.Random(k * 40503 + 11)
    if r5.random() < 0.35:
        # two bare user moves inside one shipped CompositeMove entry: a trial of that entry executes every member, whatever the others answered
        table.append({"kind": "user_composite", "oids": [7, 8], "name": "ucomp", "probability": 1.0,
                      "scripts": [[["ret", r5.choice(["True", "1", "x", "False", "0"])] if r5.random() < 0.6 else ["shift"] for _ in range(40)] for _ in range(2)]})
    r6 = random.Random(k * 7919 + 5)
    users = [e for e in table if e["kind"] == "user" and e["name"] != "user0_again"]
    if len(users) >= 2 and r6.random() < 0.4:
        # an entry that is never drawn freely (weight 0) but forced into every step (minimum_count=1): it is executed, so it must hear about
        # every change like any other entry (seeded change C20-11: notification skips entries whose weight is 0)
        users[-1]["probability"] = 0.0
        users[-1]["minimum_count"] = 1
    for ent in table:
        if r2.random() < 0.25:
            ent["criteria_kind"] = r2.choice(["len0", "boolfalse"])      # explicit criteria objects that are falsy as Python objects
    reann = {"reannounce_at": r2.randint(1, 6)} if r2.random() < 0.3 else {}
    if reann and r2.random() < 0.6:
        reann["reannounce_new_move"] = True      # the entry is re-defined under its name with a NEW move object as well
    return reann | {"driver": drv, "natoms": n, "positions": [[rng.randint(0, 60) / 8 for _ in range(3)] for _ in range(n)], "seed": rng.randint(1, 2 ** 31),
            "max_cycles": rng.choice([1, 2, 3]), "steps": rng.randint(4, 9), "verdicts": [rng.random() < 0.6 for _ in range(80)], "table": table}


HDR = """From QV Require Import Model.Protocol.
Open Scope Z_scope.
Definition ev2l (e : event) : list Z :=
  match e with
  | ECall o => [1; Z.of_nat o] | EEvaluate o => [2; Z.of_nat o]
  | EAtomsChanged o a r => [3; Z.of_nat o; Z.of_nat (length a)] ++ map Z.of_nat a ++ [Z.of_nat (length r)] ++ map Z.of_nat r
  | ECellChanged o c => [4; Z.of_nat o; c] | EToDict o => [5; Z.of_nat o] end.
Definition show (r : list event * option bool) : list Z * Z := (flat_map ev2l (fst r), match snd r with Some true => 1 | Some false => 0 | None => -1 end).
"""


def run(res: C.Result):
    rng = random.Random(res.seed)
    C.prove(res)
    quick = res.tier == "quick"
    ncases = 120 if quick else 2400
    cases = [gen_case(rng, k) for k in range(ncases)]
    # designated: an accepted change (everybody is notified), then the entry is re-defined under its name with a NEW move object, then accepted changes again
    for k in range(6 if quick else 60):
        drv = ["gc", "isobaric", "isotension"][k % 3]
        act = ["add"] if drv == "gc" else ["cell", 1.01]
        cases.append({"driver": drv, "natoms": 4, "positions": [[1.0 + i, 0.5 * i, 2.0] for i in range(4)], "seed": 1000 + k, "max_cycles": 1, "steps": 6 + k % 3,
                      "verdicts": [True] * 40, "reannounce_at": 2 + k % 2, "reannounce_new_move": True,
                      "table": [{"kind": "user", "oid": 0, "name": "user0", "script": [list(act) for _ in range(40)], "probability": 1.0},
                                {"kind": "user", "oid": 1, "name": "user1", "script": [["shift"] for _ in range(40)], "probability": 0.5}]})
    ncases = len(cases)
    outs = C.run_impl_parallel("c20.py", [{"cases": cases[i::16]} for i in range(16)], timeout=3000)
    results = [None] * ncases
    for j, o in enumerate(outs):
        results[j::16] = o["results"]
    dist = {"driver": {}, "trials": 0, "user_trials": 0, "returns": {}, "accepted_atom_changes": 0, "accepted_cell_changes": 0, "aliased_user_object": 0,
            "attribute_reads": {}, "history": {"True": 0, "False": 0, "None": 0}}
    items, meta = [], []
    distinct = set()
    for k, (c, r) in enumerate(zip(cases, results)):
        dist["driver"][c["driver"]] = dist["driver"].get(c["driver"], 0) + 1
        dist["aliased_user_object"] += any(t["name"] == "user0_again" for t in c["table"])
        if "exception" in r:
            res.fail(f"exception:{c['driver']}", f"{r['exception']}: {r['message'][:300]}", {"input": c, "observed": {x: r[x] for x in ("exception", "message", "trace")}})
            continue
        log = r["log"]
        # ---- surface: nothing but the protocol is read, nothing is written
        for e in log:
            if e[0] == "getattr":
                dist["attribute_reads"][e[2]] = dist["attribute_reads"].get(e[2], 0) + 1
                if e[2] not in ALLOWED and not (e[2].startswith("__") and e[2].endswith("__")):
                    res.fail("surface:read", f"the {c['driver']} driver read attribute {e[2]!r} of a user object", {"input": c, "observed": e})
            if e[0] == "setattr":
                res.fail("surface:write", f"the {c['driver']} driver wrote attribute {e[2]!r} of a user object", {"input": c, "observed": e})
        name2 = {t[0]: (t[1], t[2]) for t in r["table"]}
        user_objs = []
        for t in r["table"]:
            if t[1] is not None:
                user_objs.append(t[1])
        for ti, t in enumerate(r["trials"]):
            dist["trials"] += 1
            oid, kid = name2[t["name"]]
            kid = t.get("kid", kid)
            oid = t.get("oid", oid)
            trial_objs = t.get("objs", user_objs)          # the user objects in the table when this trial ran (an entry may have been re-defined with a new object)
            for o in sorted(set(user_objs) | {e[1] for e in log[t["start"]:t["end"]] if e[0] in ("call", "atoms_changed", "cell_changed")}):
                if o not in trial_objs and any(e[1] == o for e in log[t["start"]:t["end"]] if e[0] in ("call", "atoms_changed", "cell_changed")):
                    res.fail("table:replaced-object-still-used", f"{c['driver']} trial {ti} ({t['name']}): user move {o} is no longer in the move table (its entry was re-defined with another "
                             f"object) but it was still called / notified", {"input": c, "trial": ti})
            ev = [e for e in log[t["start"]:t["end"]] if e[0] in ("call", "evaluate", "atoms_changed", "cell_changed")]
            dist["history"][str(t["hist"][1])] += 1
            snaps = r["snaps"][t["snap_start"]:t["snap_end"]]
            accepted = t["hist"][1] is True
            added = snaps[-1]["added"] if snaps else []
            removed = snaps[-1]["removed"] if snaps else []
            cell_changed = t["cell_after"] != t["cell_before"]
            if accepted and (added or removed):
                dist["accepted_atom_changes"] += 1
            if accepted and cell_changed:
                dist["accepted_cell_changes"] += 1
            why = []
            # ---- notifications to every user object, whoever made the trial
            for o in sorted(set(trial_objs)):
                na = [e for e in ev if e[0] == "atoms_changed" and e[1] == o]
                nc = [e for e in ev if e[0] == "cell_changed" and e[1] == o]
                if accepted and (added or removed):
                    if len(na) != 1 or na[0][2] != added or na[0][3] != removed:
                        why.append(("notify:atoms", f"user move {o}: accepted trial added {added} / removed {removed} but it received {[x[2:] for x in na]}"))
                elif any(x[2] or x[3] for x in na) or (na and not accepted):
                    # (an empty notification after an acceptance that changed nothing is harmless and allowed)
                    why.append(("notify:atoms", f"user move {o} was notified of an atom change {na} although none was accepted"))
                if accepted and cell_changed:
                    if len(nc) != 1 or abs(nc[0][2] - t["cell_after"]) > 1e-6:
                        why.append(("notify:cell", f"user move {o}: accepted trial changed the cell but it received {len(nc)} on_cell_changed notification(s)"))
                elif nc:
                    why.append(("notify:cell", f"user move {o} was notified of a cell change although none was accepted"))
            if t.get("members"):
                dist["composite_user_trials"] = dist.get("composite_user_trials", 0) + 1
                for o in t["members"]:
                    ncall = sum(1 for e in ev if e[0] == "call" and e[1] == o)
                    if ncall != 1:
                        why.append(("composite:member-not-executed", f"entry {t['name']!r} is a CompositeMove of the user moves {t['members']}: member {o} was called {ncall} time(s) in this trial "
                                    f"(calls seen: {[e[1:] for e in ev if e[0] == 'call']})"))
            if oid is not None:
                dist["user_trials"] += 1
                distinct.add((k, ti))
                calls = [e for e in ev if e[0] == "call" and e[1] == oid]
                evals = [e for e in ev if e[0] == "evaluate" and e[1] == kid]
                act = calls[0][2] if calls else None
                if len(calls) != 1:
                    why.append(("trial", f"the move was called {len(calls)} times in one trial"))
                retkey = act[1] if act and act[0] == "ret" else {"add": "1", "delete": "x", "cell": "[0]", "shift": "True", "swap": "True"}.get(act[0] if act else "", "True")
                if act and act[0] in ("add", "delete", "swap") and c["driver"] != "gc":
                    retkey = "True"
                if act and act[0] == "cell" and c["driver"] not in ("isobaric", "isotension"):
                    retkey = "True"
                if act and act[0] in ("delete", "swap") and t["n_before"] <= 2:
                    retkey = "True"
                dist["returns"][retkey] = dist["returns"].get(retkey, 0) + 1
                truthy = retkey in ("True", "1", "x", "[0]")
                if truthy and (len(evals) != 1 or t["hist"][1] is None):
                    why.append(("trial:truthy", f"the move returned {retkey!r} (truthy) but the criteria was consulted {len(evals)} times and the history says {t['hist'][1]}"))
                if not truthy and (evals or t["hist"][1] is not None):
                    why.append(("trial:falsy", f"the move returned {retkey!r} (falsy) but the criteria was consulted {len(evals)} times and the history says {t['hist'][1]}"))
                if truthy and evals and t["hist"][1] != evals[0][2]:
                    why.append(("trial", f"criteria answered {evals[0][2]} but the history records {t['hist'][1]}"))
                # ---- model
                verdict = evals[0][2] if evals else False
                ch = "{| ch_added := " + C.natlist(added if accepted else []) + "; ch_removed := " + C.natlist(removed if accepted else []) + "; ch_cell := " + \
                     (f"Some {int(round(t['cell_after'] * 1e6))}" if accepted and cell_changed else "None") + " |}"
                items.append(f"show (trial_trace {C.blit(c['driver'] == 'gc')} {C.natlist(trial_objs)} {oid} {kid} ({RETS[retkey]}) {C.blit(verdict)} {ch})")
                enc = []
                for e in ev:
                    if e[0] == "call":
                        enc += [1, e[1]]
                    elif e[0] == "evaluate":
                        enc += [2, e[1]]
                    elif e[0] == "atoms_changed":
                        enc += [3, e[1], len(e[2])] + e[2] + [len(e[3])] + e[3]
                    else:
                        enc += [4, e[1], int(round(e[2] * 1e6))]
                meta.append((k, ti, enc, {True: 1, False: 0, None: -1}[t["hist"][1]]))
            for sig, msg in why:
                res.fail(sig, f"{c['driver']} trial {ti} ({t['name']}): {msg}", {"input": c, "trial": ti, "observed": {"events": ev, "hist": t["hist"], "snaps": snaps}})
        # ---- serialisation goes through to_dict
        td = [e for e in log[r["to_dict_mark"]:] if e[0] == "to_dict"]
        for t in r["table"]:
            if t[1] is not None:
                s = r["serialized"].get(t[0])
                if not s or not isinstance(s["move"], dict) or s["move"].get("kwargs", {}).get("oid") != t[1] or s["criteria"] != "UserCriteria":
                    res.fail("serialize", f"{c['driver']}: the user move / criteria of entry {t[0]!r} is not serialised through to_dict: {s}", {"input": c, "observed": r["serialized"]})
        for t, ent in zip(r["table"], c["table"]):
            s = r["serialized"].get(t[0]) or {}
            if s.get("criteria_oid") != t[2] or (s.get("probability") is not None and abs(s["probability"] - ent.get("probability", 1.0)) > 1e-12):
                res.fail("serialize:entry-mixed-up", f"{c['driver']}: table entry {t[0]!r} was added with criteria object {t[2]} and weight {ent.get('probability', 1.0)} but the simulation's dictionary holds "
                         f"criteria {s.get('criteria_oid')} / weight {s.get('probability')} under that name", {"input": c, "observed": r["serialized"]})
        if not td and any(t[1] is not None for t in r["table"]):
            res.fail("serialize", f"{c['driver']}: to_dict() of the simulation never called the user objects' to_dict", {"input": c})
    got = {}
    per = 400
    lines = [f"Eval vm_compute in ({j}%Z, {it})." for j, it in enumerate(items)]
    files = ["\n".join(lines[i:i + per]) for i in range(0, len(lines), per)]
    from concurrent.futures import ThreadPoolExecutor

    def one(idx_text):
        idx, text = idx_text
        f = res.workdir / f"c20_{idx}.v"
        f.write_text(HDR + text + "\n")
        return C.run_coq_file(f, 1200)

    with ThreadPoolExecutor(max_workers=16) as ex:
        for rc, out, err in ex.map(one, enumerate(files)):
            if rc != 0:
                res.broken("correspondence:coq-evaluation", err[-1500:])
            for m in re.finditer(r"=\s*\((\d+)(?:%\w+)?,\s*(.*?)\)\s*:\s", out, re.S):
                got[int(m.group(1))] = [int(x) for x in re.findall(r"-?\d+", m.group(2))]
    agree = dis = 0
    for j, (k, ti, enc, hist) in enumerate(meta):
        if got.get(j) == enc + [hist]:
            agree += 1
        else:
            dis += 1
            if dis <= 8:
                res.broken("correspondence:Protocol.trial_trace", {"case": cases[k], "trial": ti, "model": got.get(j), "impl": enc + [hist]})
    res.coverage.update(
        evaluations=dist["trials"], distinct_nontrivial=len(distinct),
        rule="bare user moves and criteria (no quansino base class; every attribute access from outside is logged, writes raise) in all six drivers (base MonteCarlo, "
             "Canonical, HamiltonianCanonical, Isobaric, Isotension, GrandCanonical), 1-2 user moves, optionally the same object under a second name, optionally "
             "next to a shipped displacement / exchange / cell move; scripted user behaviour: insert, delete, deform the cell, shift an atom, or just return one of "
             "True, 1, 'x', [0], False, 0, None, '', []; scripted verdicts; non-trivial = distinct (case, user trial)",
        correspondence={"flavour": "functional: the protocol events the user objects saw in each trial must equal Protocol.trial_trace (vm_compute)",
                        "cases": len(meta), "agreed": agree, "disagreed": dis, "undecided": 0},
        direct_oracle={"evaluations": dist["trials"], "failures": len(res.failures)}, input_distribution=dist)
    res.samples += [{"case": {x: cases[i][x] for x in ("driver", "table")}, "log": results[i].get("log", [])[:25]} for i in (0, 5)]
    res.assumptions += ["dunder attribute reads (__class__ etc., made by isinstance on runtime-checkable protocols) are allowed",
                        "a user move that inserts / deletes atoms reports them through the context's pending lists, as the shipped ExchangeMove does"]


def replay(res: C.Result, path):
    import json
    d = json.loads(open(path).read())
    c = d.get("input")
    if not c:
        print("replay: no concrete input in this file")
        return 1
    r = C.run_impl("c20.py", {"cases": [c]})["results"][0]
    print(json.dumps({"trials": r.get("trials"), "log": r.get("log", [])[:60], "exception": r.get("exception")}, indent=1)[:5000])
    return 0
