"""C08 — every shipped component survives serialization.  Model/Serial.v + Model/Import.v, Proofs/SerialProofs.v, Props/C08.v with
REGENERATED data (Gen/Schema.v, Gen/ImportGraph.v: the translator introspects the current source in a fresh interpreter on every run).
Tie / search: for every public module as the FIRST import of a fresh interpreter: every concrete serialisable class found by introspection
is built with non-default settings (also nested composites), converted to a dictionary, encoded as JSON, decoded, rebuilt through the
registry and compared (type, every constructor parameter and tunable, to_dict again); simulations likewise (through todict, the restart path)."""
from __future__ import annotations

import json
import random
import subprocess
from concurrent.futures import ThreadPoolExecutor

import common as C
import translate


def fresh(req, timeout=300):
    p = subprocess.run([C.PY, "-W", "ignore", str(C.VERIF / "harness" / "impl" / "c08.py")], input=json.dumps(req), capture_output=True, text=True,
                       env=C.IMPL_ENV, timeout=timeout, cwd="/")
    if p.returncode != 0 or not p.stdout.strip():
        return {"first_import": req["first_import"], "crash": p.stderr[-1500:]}
    return json.loads(p.stdout)


def run(res: C.Result):
    rng = random.Random(res.seed)
    ok = C.prove(res, extra_tb=["translator harness/translate.py + harness/impl/schema.py: class schemas (constructor parameters, documented tunables, keys written by to_dict, "
                                "protocol asked for each nested field, registry membership) and module-level import statements are extracted from the current source by "
                                "introspection / ast in a fresh interpreter (fail-closed); every schema fact is also exercised behaviourally",
                                "ASE's JSON codec (ase.io.jsonio encode/decode) is used as shipped"])
    d = None
    try:
        d = translate.schema_data()
    except RuntimeError as e:
        res.broken("translator", {"error": str(e)[-1500:]})
    modules = sorted(d["modules"]) if d else ["quansino.mc", "quansino.moves", "quansino.operations", "quansino.integrators"]
    quick = res.tier == "quick"
    reqs = [{"first_import": m, "seed": rng.randint(0, 10 ** 6), "repeats": 2 if quick else 6, "simulations": True} for m in modules]
    if not quick:
        reqs += [{"first_import": m, "seed": rng.randint(0, 10 ** 6), "repeats": 6, "simulations": True, "via_todict": False} for m in modules[::4]]
    with ThreadPoolExecutor(max_workers=16) as ex:
        outs = list(ex.map(fresh, reqs))
    dist = {"first_import_modules": len(modules), "classes_discovered": 0, "round_trips": 0, "simulation_round_trips": 0, "import_failures": 0}
    distinct = set()
    schema_names = {c["name"] for c in d["classes"]} if d else set()
    for req, o in zip(reqs, outs):
        m = req["first_import"]
        if "crash" in o:
            res.fail(f"import:{m}", f"a fresh interpreter whose first import is {m} crashed: {o['crash'][-300:]}", {"input": req})
            continue
        if o["import_error"]:
            dist["import_failures"] += 1
            res.fail(f"import:{m}", f"`python -c 'import {m}'` fails in a fresh interpreter: {o['import_error'][:300]}", {"input": req, "observed": o["import_error"]})
            continue
        for me, err in (o.get("module_errors") or {}).items():
            res.fail(f"import:{me}", f"after `import {m}`, importing {me} fails: {err[:300]}", {"input": req})
        dist["classes_discovered"] = max(dist["classes_discovered"], len(o["classes"]))
        if d and set(o["classes"]) != schema_names:
            res.broken("correspondence:translator-discovers-other-classes", {"translator": sorted(schema_names), "behavioural": sorted(o["classes"]), "first_import": m})
        for cname, rec in o["classes"].items():
            dist["round_trips"] += req["repeats"]
            distinct.add((m, cname))
            for e in (rec.get("errors") or [])[:1]:
                res.fail(f"roundtrip:{cname}:error", f"first import {m}: {cname} cannot be rebuilt from its dictionary: {e[:300]}", {"input": dict(req, cls=cname), "observed": rec})
            seen = set()
            for df in rec.get("diffs") or []:
                if df[0] in seen:
                    continue
                seen.add(df[0])
                res.fail(f"roundtrip:{cname}:{df[0]}", f"first import {m}: {cname}.{df[0]} is {df[1]} before and {df[2]} after to_dict -> JSON -> from_dict",
                         {"input": dict(req, cls=cname), "observed": df})
        for sname, rec in o["simulations"].items():
            dist["simulation_round_trips"] += 1
            for e in (rec.get("errors") or [])[:1]:
                res.fail(f"simulation:{sname}:error", f"first import {m}: {sname} cannot be rebuilt from its dictionary: {e[:300]}", {"input": dict(req, cls=sname), "observed": rec})
            for df in rec.get("diffs") or []:
                res.fail(f"simulation:{sname}:{df[0]}", f"first import {m}: {sname} setting {df[0]} not preserved: {df[1]} -> {df[2]}", {"input": dict(req, cls=sname), "observed": df})
    # ---- a restart / analysis script imports ONE public module and rebuilds documents by their registered names, importing nothing else by hand:
    #   quansino.mc (needed to name the simulation class) -> every document; quansino.moves -> every move, operation and integrator document;
    #   quansino.operations -> operations; quansino.integrators -> integrators
    docs = next((o.get("documents") for o in outs if o.get("documents")), None)
    if docs:
        by = lambda *ps: {k: v for k, v in docs.items() if v["proto"] in ps}
        plans = [("quansino.mc", docs), ("quansino.moves", by("Move", "Operation", "Integrator")), ("quansino.operations", by("Operation")), ("quansino.integrators", by("Integrator"))]
        plans += [(m, docs) for m in modules if m.startswith("quansino.mc.")][:: (3 if quick else 1)]
        mreqs = [{"first_import": m, "rebuild_only": dd} for m, dd in plans if dd]
        with ThreadPoolExecutor(max_workers=16) as ex:
            mouts = list(ex.map(fresh, mreqs))
        dist["single_import_rebuilds"] = 0
        for req, o in zip(mreqs, mouts):
            m = req["first_import"]
            if "crash" in o or o.get("import_error"):
                res.fail(f"import:{m}", f"a fresh interpreter whose only import is {m}: {(o.get('crash') or o.get('import_error'))[-300:]}", {"input": {"first_import": m}})
                continue
            for key, rec in (o.get("rebuilt") or {}).items():
                dist["single_import_rebuilds"] += 1
                if rec.get("error") or rec.get("diff"):
                    res.fail(f"single-import:{m}:{key}", f"a fresh interpreter imports only {m} and rebuilds a {key} document by its registered name: "
                             f"{rec.get('error') or 'the rebuilt object serialises to another dictionary'}", {"input": {"first_import": m, "rebuild_only": {key: req['rebuild_only'][key]}}, "observed": rec})
    # name the class / module behind a failed regenerated obligation
    if not ok and d:
        bad = [c["name"] for c in d["classes"] if not (c["registered"] and set(c["params"]) <= set(c["emit_kwargs"]) and set(c["emit_kwargs"]) <= set(c["params"])
                                                       and set(c["tunables"]) <= set(c["emit_attrs"]))]
        res.notes.append({"classes_failing_class_ok": bad})
    res.coverage.update(
        evaluations=dist["round_trips"] + dist["simulation_round_trips"] + len(reqs), distinct_nontrivial=len(distinct),
        rule="one fresh interpreter per module of the package as first import (all of them, found by pkgutil); in each: every concrete class with to_dict/from_dict found by "
             "introspection, built with non-default values for every constructor parameter and tunable (masks, labels, nested operations / moves / integrators, composite "
             "operations inside moves, composite moves, MoveStorage), round-tripped through ASE's JSON codec and the registry; the five MonteCarlo drivers with non-default "
             "settings, advanced generator and step counter, through todict (the restart path); non-trivial = distinct (first import, class)",
        correspondence={"flavour": "translator (schema + import graph regenerated into Gen/*.v on every run; obligations re-proved by vm_compute) cross-validated by behaviour: the "
                                   "classes the translator found = the classes the behavioural run found; every schema fact exercised by a round trip",
                        "cases": len(reqs), "agreed": len(reqs) - len([u for u in res.unproved if u["name"].startswith("correspondence")]), "disagreed": len([u for u in res.unproved if u["name"].startswith("correspondence")]), "undecided": 0},
        direct_oracle={"evaluations": dist["round_trips"] + dist["simulation_round_trips"], "failures": len(res.failures)}, input_distribution=dist)
    res.samples += [{"first_import": outs[0].get("first_import"), "classes": sorted(outs[0].get("classes", {}))[:8], "registered": outs[0].get("registered", [])[:10]}]
    res.assumptions += ["concrete = the protocol's main method (calculate / integrate / evaluate / __call__) is implemented below the Base* class; Base*, DisplacementOperation and DeformationOperation are abstract in spirit",
                        "after the first import the other modules are imported as a user who builds those objects would; the registry is then required to resolve every emitted name; "
                        "in addition, with quansino.mc (or any of its submodules) as the ONLY import every document must rebuild, with quansino.moves every move / operation / integrator document, "
                        "with quansino.operations / quansino.integrators their own documents (what holds on the pinned tree; a class's own package registers what its documents nest)",
                        "callables (distribution, check_move) are excepted, as the property says"]


def replay(res: C.Result, path):
    d = json.loads(open(path).read())
    req = d.get("input")
    if not req:
        print("replay: no concrete input in this file")
        return 1
    cls = req.pop("cls", None)
    o = fresh(req)
    print(json.dumps({"import_error": o.get("import_error"), "class": cls, "now": (o.get("classes", {}) | o.get("simulations", {})).get(cls)}, indent=1)[:3000])
    return 0
