"""C15 — observer schedule, header, exact steps, split equivalence, entry points."""
from __future__ import annotations

import random

import common as C


def gen_case(rng, k):
    n = rng.randint(0, 14)
    # split n into segments, with zero-length segments sprinkled in (also in front)
    segs, left = [], n
    while left > 0:
        a = rng.randint(1, left)
        segs.append(a)
        left -= a
    for _ in range(rng.randint(0, 3)):
        segs.insert(rng.randint(0, len(segs)), 0)
    if k % 7 == 0:
        segs = [0] + segs
    if not segs:
        segs = [0]
    ivs = [rng.choice([-9, -5, -3, -2, -1, 1, 1, 2, 3, 4, 7, 9]) for _ in range(rng.randint(0, 3))]
    return finish_case(rng, segs, {"driver": rng.choice(["canonical", "canonical", "fbmc"]), "intervals": ivs,
            "logger": rng.choice([None, 1, 1, 2, 3, -2]), "traj": rng.choice([None, 1, 2, -1]),
            "segments": segs, "entry": rng.choice(["run", "srun", "irun"]),
            "seed": rng.randint(1, 2**31), "geom_seed": rng.randint(0, 10**6),
            # the driver's own logging_interval: it is the interval of the logger/trajectory the driver builds itself
            # (streams=True) and must not influence any other observer
            "logging_interval": rng.choice([1, 1, 2, 3, 4, 5]), "streams": rng.random() < 0.35})


def finish_case(rng, segs, c):
    r2 = random.Random(c["seed"] ^ 0xC15)
    if len(segs) > 1 and r2.random() < 0.15:
        c["entry"] = "irun_chain"
        return c
    if len(segs) > 1 and segs[0] > 0 and c["driver"] == "canonical" and r2.random() < 0.2:
        c["entry"] = "irun_abandon"
        return c
    if c["intervals"] and len(segs) > 1 and r2.random() < 0.35:
        # observer.interval is a public attribute: re-tuned between two run calls (log every step while equilibrating, every k-th afterwards)
        c["retune"] = {"seg": r2.randint(1, len(segs) - 1), "obs": r2.randrange(len(c["intervals"])), "interval": r2.choice([1, 2, 3, 5, -4, -8])}
        if random.Random(c["seed"] ^ 0x15E).random() < 0.5:
            c["retune"]["replace"] = True      # ... or a NEW observer is attached under the name of an existing one (attach_observer(name, other)): it takes its place
    return c


def seg_obs(case, si):
    """observers (name, interval) in force during segment si"""
    if case.get("mid"):
        return [] if si == 0 else [(40, case["mid"]["interval"])]
    obs = model_obs(case)
    rt = case.get("retune")
    if rt and si >= rt["seg"]:
        obs = [((30 + rt["obs"] if rt.get("replace") else nm), rt["interval"]) if nm == 10 + rt["obs"] else (nm, iv) for nm, iv in obs]
    return obs


def oracle_retuned(case, r):
    n = sum(case["segments"])
    ev, why = r["events"], []
    steps = [e[1] for e in ev if e[0] == 2]
    if steps != list(range(n)) or r["step_count"] != n:
        why.append(f"steps performed {steps} / counter {r['step_count']} for {n} requested")
    exp = {nm: [] for si in range(len(case["segments"])) for nm, _ in seg_obs(case, si)} | {nm: [] for nm, _ in model_obs(case)}
    count, started = 0, False
    for si, seg in enumerate(case["segments"]):
        obs = seg_obs(case, si)
        ks = ([0] if count == 0 and not started else []) + list(range(count + 1, count + seg + 1))
        started = True
        for k in ks:
            for nm, iv in obs:
                if (iv > 0 and k % iv == 0) or (iv < 0 and k == -iv):
                    exp[nm].append(k)
        count += seg
    for nm in exp:
        calls = [e[2] for e in ev if e[0] == 1 and e[1] == nm]
        if calls != exp[nm]:
            if case.get("mid"):
                why.append(f"observer attached during the iteration of the run generator after {case['mid']['at']} step(s) (interval {case['mid']['interval']}; the simulation had no observer when "
                           f"the run call started): called at {calls}, expected {exp[nm]}")
                continue
            why.append(f"observer {nm}: called at {calls}, expected {exp[nm]} ({'replaced by a new observer under the same name, interval' if case['retune'].get('replace') else 'interval re-tuned to'} {case['retune']['interval']} before segment {case['retune']['seg']} of {case['segments']})")
    return why


def model_obs(case):
    obs = []
    st = case.get("streams", False)
    if case["logger"] is not None:
        obs.append((1, case.get("logging_interval", 1) if st else case["logger"]))
    if case["traj"] is not None:
        obs.append((2, case.get("logging_interval", 1) if st else case["traj"]))
    obs += [(10 + i, iv) for i, iv in enumerate(case["intervals"])]
    return obs


def oracle(case, r, base):
    """the property's clauses evaluated on the implementation's call log"""
    n = sum(case["segments"])
    ev = r["events"]
    why = []
    steps = [e[1] for e in ev if e[0] == 2]
    if steps != list(range(n)) or r["step_count"] != n:
        why.append(f"steps performed {steps} / counter {r['step_count']} for {n} requested")
    for nm, iv in model_obs(case):
        calls = [e[2] for e in ev if e[0] == 1 and e[1] == nm]
        if iv > 0:  # n == 0: only the initial call
            exp = [k for k in range(n + 1) if k % iv == 0]
        else:
            exp = [-iv] if -iv <= n else []
        if exp is not None and calls != exp:
            why.append(f"observer {nm} interval {iv}: called at {calls}, expected {exp}")
    heads = [i for i, e in enumerate(ev) if e[0] == 0]
    if case["logger"] is not None and heads != [0]:
        why.append(f"header written at event positions {heads}")
    for key in ("events", "step_count", "atoms", "log", "traj"):
        if r[key] != base[key]:
            why.append(f"split {case['segments']} via {case['entry']} differs from run({n}) in {key}")
    return why


def run(res: C.Result):
    rng = random.Random(res.seed)
    proved = C.prove(res)
    ncases = 160 if res.tier == "quick" else 3000
    cases = [gen_case(rng, k) for k in range(ncases)]
    # corpus first: the pinned tree's failing shape
    cases[0].update(segments=[0, 0, 2], logger=1, intervals=[1], entry="run")
    cases[1].update(segments=[0, 3], logger=1, intervals=[2, -1], entry="irun", driver="fbmc")
    if cases[1]["entry"] == "srun":
        cases[1]["entry"] = "run"
    for c in cases:
        if c["driver"] == "fbmc" and c["entry"] == "srun":
            c["entry"] = "irun"
    # an observer attached WHILE a run generator is being iterated, on a simulation that had none when the run call started ("files can be changed at any
    # time during the simulation"): from the next completed step on it follows its schedule.  Written as two virtual segments [at, n - at].
    r11 = random.Random(res.seed ^ 0x15A77)
    for k in range(12 if res.tier == "quick" else 150):
        n_ = r11.randint(3, 12)
        at = r11.randint(0, n_ - 1)
        drv = r11.choice(["canonical", "fbmc"])
        cases.append({"driver": drv, "intervals": [], "logger": None, "traj": None, "segments": [at, n_ - at], "entry": "irun" if drv == "fbmc" else r11.choice(["irun", "srun"]),
                      "seed": r11.randint(1, 2**31), "geom_seed": r11.randint(0, 10**6), "logging_interval": 1, "streams": False,
                      "mid": {"at": at, "interval": r11.choice([1, 1, 2, 3, -(at + 1), -(at + 2)])}})
    ncases = len(cases)
    base_cases = [dict(c, segments=[sum(c["segments"])], entry="run") for c in cases]
    allc = cases + base_cases
    outs = C.run_impl_parallel("c15.py", [{"cases": allc[i::16]} for i in range(16)])
    results = [None] * len(allc)
    for j, o in enumerate(outs):
        results[j::16] = o["results"]
    R, B = results[:ncases], results[ncases:]
    dist = {"entry": {}, "driver": {}, "zero_segments": 0, "leading_zero": 0, "total_steps": {}}
    distinct = set()
    coq_items = []
    for k, (c, r, b) in enumerate(zip(cases, R, B)):
        dist["entry"][c["entry"]] = dist["entry"].get(c["entry"], 0) + 1
        dist["driver"][c["driver"]] = dist["driver"].get(c["driver"], 0) + 1
        dist["zero_segments"] += sum(1 for s in c["segments"] if s == 0)
        dist["leading_zero"] += c["segments"][0] == 0 and sum(c["segments"]) > 0
        dist["total_steps"][sum(c["segments"])] = dist["total_steps"].get(sum(c["segments"]), 0) + 1
        if "exception" in r or "exception" in b:
            res.fail("exception", f"{r.get('exception') or b.get('exception')}: {r.get('message') or b.get('message')}",
                     {"input": c, "observed": r if "exception" in r else b})
            continue
        if len(c["segments"]) > 1 and model_obs(c):
            distinct.add((tuple(c["segments"]), tuple(model_obs(c)), c["entry"]))
        why = oracle_retuned(c, r) if (c.get("retune") or c.get("mid")) else oracle(c, r, b)
        if c.get("retune"):
            dist["retuned"] = dist.get("retuned", 0) + 1
        if c.get("mid"):
            dist["attached_mid_loop"] = dist.get("attached_mid_loop", 0) + 1
        if why and c.get("mid"):
            res.fail("observer-attached-during-the-loop", "; ".join(why[:3]), {"input": c, "observed": {"events": r["events"], "step_count": r["step_count"]}})
        elif why and c.get("retune"):
            res.fail("interval-retuned-between-runs", "; ".join(why[:3]), {"input": c, "observed": {"events": r["events"], "step_count": r["step_count"]}})
        elif why:
            sig = "zero-length-segment-at-step-0" if c["segments"][0] == 0 and len(c["segments"]) > 1 else "other"
            res.fail(sig, "; ".join(why[:4]), {"input": c, "observed": {"events": r["events"], "step_count": r["step_count"]},
                                                "expected_unsplit_events": b["events"]})
        flat = [x for e in r["events"] for x in e]
        segs = "[" + "; ".join("([" + "; ".join(f"{{| oname := {nm}; ointerval := {C.zlit(iv)} |}}" for nm, iv in seg_obs(c, si)) + f"], {C.zlit(seg)})"
                               for si, seg in enumerate(c["segments"])) + "]"
        coq_items.append(f"({k}%nat, ({C.blit(c['logger'] is not None)}, {segs}), {C.zlist(flat)})")
    hdr = ("From QV Require Import Model.Driver Model.Algebra.\n"
           "Definition f (x : bool * list (list observer * Z)) : list Z := let '(lg, segs) := x in "
           "enc_events (fst (runs_var false lg fresh segs)).\n")
    disagree = []
    for i in range(0, len(coq_items), 500):
        body, err = C.coq_eval_list(res.workdir, hdr, f"disagreements f [{'; '.join(coq_items[i:i + 500])}]", tag=f"c15_{i}")
        if err:
            res.broken("correspondence:coq-evaluation", err[-1500:])
        disagree += C.parse_nat_list(body)
    for k in disagree[:10]:
        res.broken("correspondence:Driver.runs", {"case": cases[k], "impl_events": R[k].get("events")})
    res.coverage.update(
        evaluations=len(allc), distinct_nontrivial=len(distinct),
        rule="random observer-interval lists (-9..9), logger/trajectory intervals, splits of n<=14 steps incl. zero-length "
             "segments (also leading), entry points run/srun/irun, Canonical and ForceBias; each compared with the unsplit "
             "run(n) and with the Coq model's event list; non-trivial = distinct (split, observers, entry) with >1 segment "
             "and >=1 observer",
        correspondence={"flavour": "functional", "cases": len(coq_items), "disagreed": len(disagree),
                        "agreed": len(coq_items) - len(disagree), "model": "Driver.runs_var false (= Driver.runs when no interval is re-tuned: runs_var_const)"},
        direct_oracle={"evaluations": ncases, "failures": len(res.failures)}, input_distribution=dist)
    res.samples += [{"case": cases[i], "events": R[i].get("events")} for i in (0, 1, 5)]
    res.assumptions += ["step events are observed by wrapping the instance's step(); header/rows by subclassing Logger",
                        "ForceBias is run without FixCom here: ASE 3.26 write_xyz raises on FixCom (ASE defect, not a quansino one)"]
