"""C04 — energies belong to the configuration they describe.  Model/Calc.v, Proofs/CalcProofs.v, Props/C04.v.
Tie (F on the outcome sequence): real runs of every ensemble with counting calculators of three styles; the sequence of outcomes
(failed / rejected / accepted, with the configuration token the criteria saw) is fed to the Coq model (vm_compute): evaluation count,
final configuration and reference energy token must agree.  Search: after every trial the reported energy and the reference energy
are compared with an independent calculator instance on atoms.copy(); remembered positions / cell versus live; cost of the probe."""
from __future__ import annotations

import random
import re

import common as C
from props import progs

HDR = """From Coq Require Import ZArith.
From QV Require Import Model.Calc.
Definition show (s : cst nat nat) := (evals s, cfg s, match last_e s with Some e => e | None => 0 end, match cres s with Some e => e | None => 0 end).
"""


def run(res: C.Result):
    rng = random.Random(res.seed)
    C.prove(res)
    quick = res.tier == "quick"
    nprog = 80 if quick else 1500
    cases = []
    for k in range(nprog):
        p = progs.add_mid_run_edit(progs.gen_program(rng, k, ensembles=("canonical", "isobaric", "gc", "isotension", "hamiltonian", "gc", "canonical")))
        p["energy_probe"] = True
        p["criteria"] = "both"      # the real criteria is evaluated (it asks for the energy); the verdict is scripted
        p["calc"] = ["caching", "stateless", "internal", "lj", "caching", "inplace", "internal", "lj"][k % 8]      # 'inplace': array results in one persistent buffer (ASE's EMT does)
        p["arrays"] = {a: False for a in p["arrays"]} | {"momenta": p["ensemble"] == "hamiltonian"}
        if p["ensemble"] == "gc":
            p["fixed"] = []
        if p["ensemble"] in ("canonical", "isobaric") and not p["fixed"] and not p.get("fixcom") and k % 3 == 0:
            p["hookean"] = True
        p["logfile"] = None
        cases.append(p)
    for k in range(8 if quick else 100):
        p = progs.relocate_program(rng, k)       # delete-then-insert in one (plain composite) trial
        p.update(energy_probe=True, criteria="both", calc=["caching", "inplace"][k % 2], fixed=[])
        p["arrays"] = {a: False for a in p["arrays"]}
        cases.append(p)
    # calculators that compute only what is asked for ('lazy'), and ASE's SumCalculator (a caching calculator that is NOT a subclass of Calculator);
    # forces and stress looked at before the run.  No evaluation counting for these (the probes themselves ask for forces).
    r6 = random.Random(res.seed ^ 0xC0461)
    for k in range(16 if quick else 240):
        p = progs.gen_program(r6, k, ensembles=("canonical", "isobaric", "hamiltonian", "gc", "isotension", "canonical"))
        p.update(energy_probe=True, criteria="both", calc=["lazy", "sum"][k % 2], logfile=None, pre_run_probe=(k % 4 < 3))
        p["arrays"] = {a: False for a in p["arrays"]} | {"momenta": p["ensemble"] == "hamiltonian"}
        if p["ensemble"] == "gc":
            p["fixed"] = []
        p.pop("pre_run_edit", None) if k % 4 < 3 else None
        cases.append(p)
    # the same lazy calculator with nobody asking for forces between the trials (the probe only looks at what the calculator holds): energy-only
    # displacement trials mixed with Hamiltonian trials (forces + energy), long scripted runs of rejections after an acceptance
    r7 = random.Random(res.seed ^ 0xC0411)
    for k in range(12 if quick else 160):
        p = progs.gen_program(r7, k, ensembles=("hamiltonian",))
        p.update(energy_probe=True, passive_probe=True, criteria="both", calc="lazy", logfile=None, pre_run_probe=False)
        p["arrays"] = {a: False for a in p["arrays"]} | {"momenta": True}
        p.pop("pre_run_edit", None)
        p["verdicts"] = [[True, False, False, False][(i + k) % 4] if i % 7 else True for i in range(len(p.get("verdicts", [])) or 40)]
        cases.append(p)
    outs = C.run_impl_parallel("c04.py", [{"cases": cases[i::16]} for i in range(16)], timeout=3000)
    results = [None] * len(cases)
    for j, o in enumerate(outs):
        results[j::16] = o["results"]
    dist = {"ensemble": {}, "calculator": {}, "trials": 0, "outcomes": {"accepted": 0, "rejected": 0, "failed": 0}, "hookean": 0,
            "count_checked_programs": 0, "first_trial_rejected": 0}
    items, meta = [], []
    distinct = set()
    for k, (p, r) in enumerate(zip(cases, results)):
        dist["ensemble"][p["ensemble"]] = dist["ensemble"].get(p["ensemble"], 0) + 1
        dist["calculator"][p["calc"]] = dist["calculator"].get(p["calc"], 0) + 1
        dist["hookean"] += bool(p.get("hookean"))
        if "exception" in r:
            res.fail(f"exception:{p['ensemble']}:{p['calc']}", f"simulation raised {r['exception']}: {r['message'][:200]}", {"input": p, "observed": {x: r[x] for x in ("exception", "message", "trace")}})
            continue
        toks, ntok = {}, [0]

        def tk(g, fresh=False):
            if fresh or g not in toks:
                ntok[0] += 1
                toks[g] = ntok[0]
            return toks[g]
        counting = p["calc"] in ("caching", "internal", "inplace")
        os_, first = [], True
        g0 = r["trials"][0]["pre"]["geom12"] if r["trials"] else None
        t0 = tk(g0)       # the initial configuration's token is fixed before any re-pointing
        for ti, t in enumerate(r["trials"]):
            if ti and r["trials"][ti - 1]["post"]["geom12"] != t["pre"]["geom12"]:
                # between two runs of the driver the user changed the atoms: the model's `Edited` outcome (validate_simulation at the next run start)
                os_.append(f"Edited {tk(t['pre']['geom12'])}")
                dist["user_edits_between_runs"] = dist.get("user_edits_between_runs", 0) + 1
            dist["trials"] += 1
            oc = t["outcome"]
            dist["outcomes"]["accepted" if oc else "rejected" if oc is False else "failed"] += 1
            if first and oc is False:
                dist["first_trial_rejected"] += 1
            first = False
            distinct.add((k, ti))
            e = t["energy"]
            why = []
            tol = 1e-9 * (1 + abs(e["fresh"]))
            if abs(e["reported"] - e["fresh"]) > tol:
                why.append(("reported-energy", f"reported {e['reported']!r} eV but the current atoms have {e['fresh']!r} eV"))
            if abs(e["reference"] - e["fresh"]) > tol:
                why.append(("reference-energy", f"reference energy {e['reference']!r} eV but the current atoms have {e['fresh']!r} eV"))
            if not e.get("forces_ok", True):
                why.append((f"forces:stale:{p['calc']}", f"the forces the calculator reports for the current atoms are off by {e['forces_max_error']:.3g} (they belong to another configuration)"))
            if not e["last_pos_ok"]:
                why.append(("remembered-geometry", "context.last_positions differ from the current positions"))
            if not e["last_cell_ok"]:
                why.append(("remembered-geometry", "context.last_cell differs from the current cell"))
            if counting and p["ensemble"] != "hamiltonian":
                spent = t["post_evals"] - t["pre_evals"]
                reached = t["at_eval"] is not None
                changed = reached and t["at_eval"]["geom12"] != t["pre"]["geom12"]
                want = 1 if changed else 0
                # a change below 1e-12 but above ASE's own tolerance (1e-15, e.g. the "rotation" of a one-atom group): ASE may or may not see it;
                # the property allows the one evaluation of a trial that reached its criteria, and none is needed either
                ambiguous = reached and not changed and t["at_eval"].get("geom") != t["pre"].get("geom")
                if ambiguous and spent in (0, 1):
                    dist["sub_tolerance_changes"] = dist.get("sub_tolerance_changes", 0) + 1
                    want = spent
                    if spent == 1:
                        tk(t["at_eval"]["geom12"], fresh=True)     # ASE saw a new configuration: the model gets a new token for it
                # (the initial reference energy is computed in validate_simulation, before the first trial's snapshot)
                if spent != want:
                    why.append(("evaluation-count", f"{spent} energy evaluations in a trial that {'reached' if reached else 'did not reach'} its criteria (expected {want})"))
                if e["probe_cost"]:
                    why.append(("evaluation-count", f"asking for the current energy after the trial cost {e['probe_cost']} evaluation(s)"))
            for sig, msg in why:
                res.fail(sig, f"trial {ti} ({t['name']}, verdict {oc}, {p['ensemble']}, {p['calc']} calculator): {msg}",
                         {"input": p, "trial": ti, "observed": {"energy": e, "evals": [t.get("pre_evals"), t.get("post_evals")]}})
            if t["at_eval"] is None:
                os_.append("Failed")
            else:
                os_.append(f"{'Accepted' if oc else 'Rejected'} {tk(t['at_eval']['geom12'])}")
        if counting and p["ensemble"] != "hamiltonian" and r["trials"]:
            dist["count_checked_programs"] += 1
            s0 = f"(validate nat nat S Nat.eqb (Build_cst {t0} None None {t0} None None 0))"
            # tokens must be assigned before use: g0 first
            items.append(f"show (run nat nat S Nat.eqb [{'; '.join(os_)}] {s0})")
            last = r["trials"][-1]
            meta.append((k, last["post_evals"], tk(last["post"]["geom12"])))
    got = {}
    lines = [f"Eval vm_compute in ({j}%Z, {it})." for j, it in enumerate(items)]
    f = res.workdir / "c04.v"
    f.write_text(HDR + "\n".join(lines) + "\n")
    rc, out, err = C.run_coq_file(f, 1200)
    if rc != 0:
        res.broken("correspondence:coq-evaluation", err[-1500:])
    for m in re.finditer(r"=\s*\((\d+)(?:%\w+)?,\s*(.*?)\)\s*:\s", out, re.S):
        got[int(m.group(1))] = [int(x) for x in re.findall(r"\d+", m.group(2))]
    agree = dis = 0
    for j, (k, evals, gtok) in enumerate(meta):
        g = got.get(j)
        if g and g[0] == evals and g[1] == gtok and g[2] == gtok + 1 and g[3] == gtok + 1:
            agree += 1
        else:
            dis += 1
            if dis <= 8:
                res.broken("correspondence:Calc.run", {"case": cases[k], "model[evals,cfg,last_e,cres]": g, "impl": {"evaluations": evals, "final_geometry_token": gtok}})
    kcorr = keys_correspondence(res, quick)
    res.coverage.update(
        evaluations=dist["trials"] + kcorr["cases"], distinct_nontrivial=len(distinct),
        rule="generated programs on all five ensembles with four calculator styles (result-caching ASE Calculator, stateless, per-atom internal table that must "
             "match the atoms, ASE LennardJones with neighbour list), Hookean (energy-contributing) constraint on a third of the canonical/isobaric programs, "
             "scripted verdicts, vetoing check_move; after EVERY trial: independent calculator on atoms.copy(); non-trivial = distinct (program, trial)",
        correspondence={"flavour": "functional on the outcome sequence: Calc.run (vm_compute) must reproduce the evaluation counter and the final configuration / reference energy tokens",
                        "cases": len(meta), "agreed": agree, "disagreed": dis, "undecided": 0,
                        "results_dictionary (Model/CalcKeys.v)": kcorr},
        direct_oracle={"evaluations": dist["trials"], "failures": len(res.failures)}, input_distribution=dist)
    res.samples += [{"program": {x: cases[i][x] for x in ("ensemble", "calc", "moves")}, "trials": [{"name": t["name"], "outcome": t["outcome"], "energy": t["energy"]} for t in results[i].get("trials", [])[:3]]} for i in (0, 2)]
    res.assumptions += ["the evaluation-count clause is checked for result-caching calculators (a stateless calculator recomputes on every request by definition) and not for Hamiltonian moves (as the property says)",
                        "a configuration counts as changed when it differs by more than 1e-12 (ASE's compare_atoms ignores differences below 1e-15: a rotation of a one-atom group about itself is no change)", "energies are compared to 1e-9 relative (an independent instance may sum in another order)"]


KHDR = """From QV Require Import Model.CalcKeys.
Definition tokE (k c : nat) : nat * nat := (k, c).
Definition enc (d : list (nat * (nat * nat))) (k : nat) : nat :=
  match lookup nat (nat * nat) Nat.eqb k d with Some (k', c) => if Nat.eqb k' k then S c else 999 | None => 0 end.
Definition show (s : kst nat nat (nat * nat)) : list nat :=
  [if in_sync nat nat (nat * nat) Nat.eqb s then 1 else 0; if kalias s then 1 else 0; enc (kres s) 0; enc (kres s) 1; enc (kres s) 2;
   enc (klast_res s) 0; enc (klast_res s) 1; enc (klast_res s) 2].
Fixpoint trace (s : kst nat nat (nat * nat)) (ops : list (kop nat nat)) : list nat :=
  match ops with [] => [] | o :: t => let s' := kstep nat nat (nat * nat) tokE Nat.eqb Nat.eqb 0 false s o in show s' ++ trace s' t end.
Definition s0 : kst nat nat (nat * nat) := Build_kst 0 None [] false 0 [].
"""


def keys_correspondence(res: C.Result, quick):
    """Model/CalcKeys.v against the real objects: the same sequences of elementary operations (set positions to configuration i /
    calc.get_property(key) / context.save_state() / Canonical.revert_state()) on a real Canonical simulation with a calculator that computes
    only what it is asked for; after EVERY operation: is the calculator in sync, is calc.results the context's saved dictionary, and which
    configuration does each held / saved value (energy, forces, stress) belong to."""
    rk = random.Random(res.seed ^ 0xD1C7)
    designated = [
        # seeded change C04-11: accepted energy-only trial, rejected trial, rejected trial that asked for the forces
        [["s"], ["p", 1], ["q", 0], ["s"], ["p", 2], ["q", 0], ["r"], ["p", 3], ["q", 1], ["q", 0], ["r"], ["q", 1], ["p", 4], ["q", 2], ["q", 0], ["r"]],
        # a key asked for between two trials is in the saved dictionary too (one object)
        [["s"], ["q", 1], ["p", 1], ["q", 0], ["r"], ["q", 2], ["p", 2], ["q", 1], ["s"], ["p", 0], ["r"]],
        # a null move (the configuration proposed is the current one), revert twice, save twice
        [["s"], ["p", 0], ["q", 1], ["r"], ["r"], ["s"], ["s"], ["p", 1], ["p", 0], ["q", 2], ["r"]],
    ]
    cases = []
    for ops in designated:
        cases.append({"keys_ops": ops})
    for _ in range(300 if quick else 6000):
        ops = [["s"]]
        for _j in range(rk.randint(5, 18)):
            x = rk.random()
            ops.append(["p", rk.randint(0, 4)] if x < 0.3 else ["q", rk.choice([0, 0, 1, 1, 2])] if x < 0.65 else ["s"] if x < 0.8 else ["r"])
        cases.append({"keys_ops": ops})
    outs = C.run_impl_parallel("c04.py", [{"cases": cases[i::16]} for i in range(16)], timeout=1200)
    results = [None] * len(cases)
    for j, o in enumerate(outs):
        results[j::16] = o["results"]

    def lit(o):
        return {"p": f"KPropose {o[1] if len(o) > 1 else 0}", "q": f"KRequest {o[1] if len(o) > 1 else 0}", "s": "KSave", "r": "KRevert"}[o[0]]
    lines = [f"Eval vm_compute in ({j}%nat, trace s0 [{'; '.join(lit(o) for o in c['keys_ops'])}])." for j, c in enumerate(cases)]
    f = res.workdir / "c04_keys.v"
    f.write_text(KHDR + "\n".join(lines) + "\n")
    rc, out, err = C.run_coq_file(f, 1200)
    if rc != 0:
        res.broken("correspondence:coq-evaluation(CalcKeys)", err[-1500:])
        return {"cases": len(cases), "agreed": 0, "disagreed": len(cases)}
    got = {}
    for m in re.finditer(r"=\s*\((\d+)(?:%\w+)?,\s*(.*?)\)\s*:\s", out, re.S):
        got[int(m.group(1))] = [int(x) for x in re.findall(r"\d+", m.group(2))]
    agree = dis = 0
    nops = {"p": 0, "q": 0, "s": 0, "r": 0}
    for j, (c, r) in enumerate(zip(cases, results)):
        for o in c["keys_ops"]:
            nops[o[0]] += 1
        if "exception" in r:
            res.fail("keys:exception", f"elementary operations raised {r['exception']}: {r['message'][:200]}", {"input": c, "observed": r})
            continue
        tr, g = r["trace"], got.get(j)
        # direct oracle on the implementation alone (what the property says): after a save or a revert the calculator is in sync and every held value
        # belongs to the configuration the atoms are in (the configuration of the last save)
        cur = 0
        saved = 0
        for i, o in enumerate(c["keys_ops"]):
            st = tr[8 * i:8 * i + 8]
            if o[0] == "p":
                cur = o[1]
            if o[0] == "s":
                saved = cur
            if o[0] == "r":
                cur = saved
            if o[0] in ("s", "r") and (st[0] != 1 or any(x not in (0, cur + 1) for x in st[2:5])):
                res.fail("keys:held-value-of-another-configuration",
                         f"after operation {i} ({o[0]}) the atoms are in configuration {cur} but the calculator (in sync: {st[0]}) holds [energy, forces, stress] of configurations {[x - 1 if x else None for x in st[2:5]]}",
                         {"input": c, "operation": i, "observed": tr})
                break
        if g == tr:
            agree += 1
        else:
            dis += 1
            if dis <= 5:
                res.broken("correspondence:CalcKeys.kstep", {"case": c, "model": g, "impl": tr})
    return {"flavour": "functional, after every elementary operation: [in sync, results is last_results, configuration of held energy/forces/stress, of saved energy/forces/stress]",
            "cases": len(cases), "agreed": agree, "disagreed": dis, "operations": nops}


def replay(res: C.Result, path):
    import json
    d = json.loads(open(path).read())
    p = d.get("input")
    if not p:
        print("replay: no concrete input in this file")
        return 1
    if "keys_ops" in p:
        print(json.dumps(C.run_impl("c04.py", {"cases": [p]})["results"][0])[:3000])
        return 0
    r = C.run_impl("c04.py", {"cases": [p]})["results"][0]
    ti = d.get("trial")
    if "exception" in r:
        print(json.dumps(r, indent=1)[:3000])
        return 1
    t = r["trials"][ti] if ti is not None and ti < len(r["trials"]) else None
    print(json.dumps({"trial": ti, "now": t and {"name": t["name"], "outcome": t["outcome"], "energy": t["energy"]}}, indent=1)[:3000])
    return 0
