"""C12 — constraints respected: Model/Constraints.v, Proofs/ConstraintsProofs.v, Props/C12.v.
Tie: every Atoms.set_positions the movers issue during real runs is logged (old, proposed, resulting positions); the result must be
the model's fixatoms_adjust / fixcom_adjust of (old, proposed) - evaluated in Coq by interval arithmetic; FixRot's adjusted momenta
are compared with fixrot_go for the omega that solves I omega = L (the residual of that system is certified in Coq as well).
Search: fixed rows bit-identical and COM drift after every step of runs with scripted verdicts and vetoing check_move."""
from __future__ import annotations

import random

import numpy as np

import common as C

ULP = 2.0 ** -52
SPECIES = ["H", "C", "O", "Ar", "Cu", "Au"]
OPS = ["ball", "box", "sphere", "translation", "rotation", "translation_rotation", "ball+box", "ball+rotation"]


def fx(x):
    return float.fromhex(x)


def gen_run(rng, k):
    n = rng.randint(3, 7)
    drv = ["canonical", "canonical", "hamiltonian", "fbmc", "afbmc"][k % 5]
    cons = rng.choice(["fixatoms", "fixcom"])
    c = {"mode": "run", "driver": drv, "natoms": n, "symbols": [rng.choice(SPECIES) for _ in range(n)],
         "positions": [[rng.randint(0, 40) / 4 for _ in range(3)] for _ in range(n)], "constraint": cons,
         "masses": [rng.choice([1.008, 2.014, 12.0, 39.948, 196.97]) for _ in range(n)] if rng.random() < 0.4 else None,
         "fixed": sorted(rng.sample(range(n), rng.randint(1, n - 1))) if cons == "fixatoms" else [],
         "T": rng.choice([100.0, 300.0, 2000.0]), "seed": rng.randint(1, 2 ** 31), "geom_seed": rng.randint(0, 10 ** 6),
         "steps": rng.randint(6, 14), "delta": rng.choice([0.02, 0.1, 0.4]), "max_cycles": rng.choice([1, 2, 3]),
         "verdicts": [rng.random() < 0.5 for _ in range(60)], "vetoes": [rng.random() < 0.35 for _ in range(200)], "log_proposals": 2}
    if drv == "canonical":
        moves = []
        for _ in range(rng.randint(2, 3)):
            molecular = rng.random() < 0.5
            if molecular:
                labels = [i // 2 for i in range(n)]
            else:
                labels = list(range(n))
            if rng.random() < 0.3:
                labels[rng.randrange(n)] = -1
            op = rng.choice(OPS) if molecular else rng.choice(["ball", "box", "sphere", "translation", "ball+box"])
            moves.append({"kind": "disp", "labels": labels, "op": op, "mult": rng.choice([1, 1, 2, 3])})
        c["moves"] = moves
        c["plus"] = rng.random() < 0.5 and all(m["mult"] == 1 for m in moves[:2])
    elif drv == "hamiltonian":
        c["moves"] = [{"kind": "hamiltonian", "dt": rng.choice([0.5, 1.0, 3.0]), "n": rng.choice([1, 4, 10]), "default_built": random.Random(c["seed"] ^ 0x8).random() < 0.5}]
    if drv in ("canonical", "hamiltonian") and random.Random(c["seed"] ^ 0x2B).random() < 0.4:
        c["user_shift"] = [0.375, -0.25, 0.125]      # the same driver is run twice and the user moves the whole system in between
    if drv in ("canonical", "hamiltonian"):
        pass
    else:
        # force bias: the masses that SCALE the displacements are a public setting of their own (update_masses), independent of atoms.get_masses()
        r2 = random.Random(c["seed"] ^ 0xFB)
        if r2.random() < 0.5:
            c["scale_masses"] = [r2.choice([1.0, 4.0, 16.0, 64.0]) for _ in range(n)]
    return c


def gen_fixrot(rng, k):
    n = rng.randint(3, 7)
    pos = np.array([[rng.uniform(-3, 3) for _ in range(3)] for _ in range(n)])
    if k % 5 == 1:   # nearly linear (CO2 bent by a few degrees, acetylene with the H atoms slightly off the axis): non-collinear all the same
        axis = np.array([rng.uniform(-1, 1) for _ in range(3)])
        axis /= np.linalg.norm(axis)
        perp = np.cross(axis, [0.3, -0.5, 0.8])
        perp /= np.linalg.norm(perp)
        pos = np.array([axis * (1.2 * i - 0.6 * n) + perp * rng.choice([0.03, -0.03, 0.05, 0.0]) * (1 if i % 2 else -1) for i in range(n)])
    elif k % 4 == 0:   # axis-aligned block (the only kind the test-suite uses)
        pos = np.array([[float(i % 2) * 2, float((i // 2) % 2) * 2, float(i // 4) * 2] for i in range(n)])
    return {"mode": "fixrot", "symbols": [rng.choice(SPECIES) for _ in range(n)], "positions": np.round(pos * 64).__truediv__(64).tolist(),
            "masses": [rng.choice([1.008, 2.014, 12.0, 39.948, 196.97]) for _ in range(n)] if rng.random() < 0.5 else None,
            "momenta": [[round(rng.gauss(0, 2) * 64) / 64 for _ in range(3)] for _ in range(n)]}


HDR = """From QV Require Import Model.Constraints.
From Coq Require Import Lra.
From Interval Require Import Tactic.
Open Scope R_scope.
Ltac ev := cbv [fixatoms_adjust fixcom_adjust fixrot_go rel_com com wsum summ sumv inertia inertia1 angmom cross madd mzero mapply
                fold_right map nth vadd vsub vscale vzero vx vy vz a00 a01 a02 a10 a11 a12 a20 a21 a22]; simpl.
Ltac close_case n model impl tol :=
  first [ assert (Rabs (model - impl) <= tol) by (ev; interval with (i_prec 64)); idtac "CASE" n "CLOSE"
        | assert (tol < Rabs (model - impl)) by (ev; interval with (i_prec 64)); idtac "CASE" n "FAR"
        | idtac "CASE" n "UNDECIDED" ].
"""


def v3(v):
    return f"(V3 {C.rlit(v[0])} {C.rlit(v[1])} {C.rlit(v[2])})"


def vlist(rows):
    return "[" + "; ".join(v3(r) for r in rows) + "]"


def run(res: C.Result):
    rng = random.Random(res.seed)
    C.prove(res, extra_tb=["Coq-Interval `interval with (i_prec 64)` evaluates the constraint models in each correspondence case",
                           "ASE's FixAtoms/FixCom.adjust_positions/adjust_momenta and Atoms.set_positions are modelled (1-3 lines each) and compared on every logged call",
                           "ASE get_moments_of_inertia(vectors=True) returns an orthonormal eigen-decomposition of the inertia tensor (validated numerically each run)"])
    quick = res.tier == "quick"
    nrun, nrot = (50, 40) if quick else (700, 600)
    cases = [gen_run(rng, k) for k in range(nrun)] + [gen_fixrot(rng, k) for k in range(nrot)]
    for i, c in enumerate(cases):
        if c["mode"] == "fixrot" and random.Random(res.seed ^ 0x12C000 ^ i).random() < 0.4:
            c["warm"] = True      # the constraint object was used before on the same coordinates with other masses
    outs = C.run_impl_parallel("c12.py", [{"cases": cases[i::16]} for i in range(16)])
    results = [None] * len(cases)
    for j, o in enumerate(outs):
        results[j::16] = o["results"]
    coq, meta = [], []
    dist = {"driver": {}, "constraint": {}, "outcomes": {"accepted": 0, "rejected": 0, "failed": 0}, "steps": 0, "fixrot": {"aligned": 0, "general": 0},
            "proposals_compared": 0, "worst_com_drift": 0.0, "worst_L_rel": 0.0}
    # grand-canonical runs over a frozen framework (FixAtoms) with multi-atom molecules in front of frozen atoms: whatever is inserted, deleted, put back
    # after a rejection, the constraint keeps pointing at the atoms the user froze, and displacement moves that select them never move them
    from props import progs
    r10 = random.Random(res.seed ^ 0x12F)
    fw = []
    for k in range(8 if res.tier == "quick" else 80):
        p = progs.framework_program(r10, k)
        p["leaves"][0]["labels"] = [x if x >= 0 else 50 + i for i, x in enumerate(p["leaves"][0]["labels"])]      # the displacement move may select the frozen atoms
        p["steps"] = r10.randint(10, 16)
        fw.append(p)
    fouts = C.run_impl_parallel("c03.py", [{"cases": fw[i::8]} for i in range(8)], timeout=3000)
    fres = [None] * len(fw)
    for j, o in enumerate(fouts):
        fres[j::8] = o["results"]
    dist["framework_gc"] = {"programs": len(fw), "trials": 0, "rejected_deletions": 0}
    for p, r in zip(fw, fres):
        if "exception" in r or not r.get("trials"):
            if "exception" in r:
                res.fail("framework:exception", f"{r['exception']}: {r.get('message', '')[:200]}", {"input": p, "observed": {x: r.get(x) for x in ("exception", "message")}})
            continue
        s0 = r["trials"][0]["pre"]
        frozen = {s0["vid"][i] for i in s0["fixed"]}
        pos0 = {v: s0["arrays"]["positions"][i] for i, v in enumerate(s0["vid"]) if v in frozen}
        for ti, t in enumerate(r["trials"]):
            dist["framework_gc"]["trials"] += 1
            sn = t["post"]
            dist["framework_gc"]["rejected_deletions"] += bool(t.get("outcome") is False and t["name"] == "e")
            now = {sn["vid"][i] for i in sn["fixed"] if i < len(sn["vid"])}
            if now != frozen:
                res.fail("fixatoms:constraint-points-at-other-atoms", f"after trial {ti} ({t['name']}, verdict {t.get('outcome')}) the FixAtoms constraint holds the atoms {sorted(now)} "
                         f"(identities); the user froze {sorted(frozen)}", {"input": p, "trial": ti, "observed": {"fixed_indices": sn["fixed"], "vid": sn["vid"]}})
                break
            moved = [v for i, v in enumerate(sn["vid"]) if v in frozen and sn["arrays"]["positions"][i] != pos0[v]]
            if moved:
                res.fail("fixatoms:frozen-atom-moved", f"after trial {ti} ({t['name']}, verdict {t.get('outcome')}) the frozen atoms {moved} are no longer where the user put them",
                         {"input": p, "trial": ti})
                break
    distinct = set()
    for k, (c, r) in enumerate(zip(cases, results)):
        if "exception" in r:
            res.fail("exception", f"{c['mode']}/{c.get('driver')}: {r['exception']}: {r['message']}", {"input": c, "observed": r})
            continue
        if c["mode"] == "run":
            dist["driver"][c["driver"]] = dist["driver"].get(c["driver"], 0) + 1
            dist["constraint"][c["constraint"]] = dist["constraint"].get(c["constraint"], 0) + 1
            dist["steps"] += c["steps"]
            for key in dist["outcomes"]:
                dist["outcomes"][key] += r["outcomes"][key]
            distinct.add((c["driver"], c["constraint"], c["seed"]))
            if c["constraint"] == "fixatoms" and r["worst_fixed"] != 0.0:
                res.fail(f"fixatoms:{c['driver']}", f"a fixed atom moved by {r['worst_fixed']:.3e} (first at step {r['first_bad_step']})", {"input": c, "observed": {x: r[x] for x in ("worst_fixed", "first_bad_step", "history")}})
            if c["constraint"] == "fixcom":
                dist["worst_com_drift"] = max(dist["worst_com_drift"], r["worst_com"])
                if r["worst_com"] > 1e-11 * r["scale"]:
                    res.fail(f"fixcom:{c['driver']}", f"the centre of mass drifted by {r['worst_com']:.3e} (first at step {r['first_bad_step']})", {"input": c, "observed": {x: r[x] for x in ("worst_com", "first_bad_step", "history")}})
            ck = r.get("ckpt")
            if ck:      # the same system across two checkpoints (from_dict(to_dict())) under shipped moves and criteria
                dist["checkpoint_legs"] = dist.get("checkpoint_legs", 0) + 2
                dist["checkpoint_legs_accepted_trials"] = dist.get("checkpoint_legs_accepted_trials", 0) + ck.get("accepted", 0)
                if c["constraint"] == "fixatoms" and ck["worst_fixed"] != 0.0:
                    res.fail(f"fixatoms-after-checkpoint:{c['driver']}", f"a fixed atom moved by {ck['worst_fixed']:.3e} in a simulation rebuilt from its checkpoint", {"input": c, "observed": ck})
                if c["constraint"] == "fixcom" and ck["worst_com"] > 1e-11 * r["scale"]:
                    res.fail(f"fixcom-after-checkpoint:{c['driver']}", f"the centre of mass drifted by {ck['worst_com']:.3e} in a simulation rebuilt from its checkpoint (constraints there: {ck['constraints']})", {"input": c, "observed": ck})
            # correspondence on the logged set_positions calls
            ms = [fx(x) for x in r["masses"]]
            n = c["natoms"]
            for pr in r["proposals"]:
                if not pr["apply_constraint"]:
                    continue
                old = np.array([fx(x) for x in pr["old"]]).reshape(n, 3).tolist()
                new = np.array([fx(x) for x in pr["new"]]).reshape(n, 3).tolist()
                aft = np.array([fx(x) for x in pr["after"]]).reshape(n, 3)
                dist["proposals_compared"] += 1
                if c["constraint"] == "fixatoms":
                    fixed = "[" + "; ".join(C.blit(i in c["fixed"]) for i in range(n)) + "]"
                    model = f"(fixatoms_adjust {fixed} {vlist(old)} {vlist(new)})"
                else:
                    model = f"(fixcom_adjust [{'; '.join(C.rlit(m) for m in ms)}] {vlist(old)} {vlist(new)})"
                for i in rng.sample(range(n), 1):
                    for comp, acc in enumerate(("vx", "vy", "vz")):
                        impl = float(aft[i, comp])
                        coq.append(f"close_case {len(meta)}%nat ({acc} (nth {i} {model} vzero)) {C.rlit(impl)} {C.rlit(1e-12 * (1 + abs(impl)))}.")
                        meta.append((k, c["constraint"], (i, comp)))
        else:
            aligned = all(float(x).is_integer() for row in c["positions"] for x in row)
            dist["fixrot"]["aligned" if aligned else "general"] += 1
            distinct.add(("fixrot", tuple(map(tuple, c["positions"]))))
            L0, L1 = np.array(r["L_before"]), np.array(r["L_after"])
            P0, P1 = np.array(r["P_before"]), np.array(r["P_after"])
            scale = float(np.linalg.norm(L0)) + 1e-9
            if r["cond"] > 1e8:
                continue   # (nearly) collinear: outside the quantifier
            dist["worst_L_rel"] = max(dist["worst_L_rel"], float(np.linalg.norm(L1)) / scale)
            if np.linalg.norm(L1) > 1e-9 * scale * max(1.0, r["cond"] ** 0.5):
                res.fail("fixrot:angular-momentum", f"|L| after adjust_momenta = {np.linalg.norm(L1):.3e} (before {np.linalg.norm(L0):.3e})", {"input": c, "observed": {x: r[x] for x in ("L_before", "L_after")}})
            if np.linalg.norm(P1 - P0) > 1e-11 * (np.linalg.norm(P0) + 1.0):
                res.fail("fixrot:linear-momentum", f"total momentum changed by {np.linalg.norm(P1 - P0):.3e}", {"input": c, "observed": {x: r[x] for x in ("P_before", "P_after")}})
            if r["ase_contract"] > 1e-9 * (1 + abs(r["cond"])):
                res.broken("external-contract:ase.get_moments_of_inertia", {"residual": r["ase_contract"], "input": c})
            # model: p' = fixrot_go omega ms (rel_com ms xs) ps with omega the solution of I omega = L (residual certified in Coq)
            n = len(c["symbols"])
            ms = [fx(x) for x in r["masses"]]
            om = [fx(x) for x in r["omega_solve"]]
            mm = "[" + "; ".join(C.rlit(m) for m in ms) + "]"
            xs, ps = vlist(c["positions"]), vlist(c["momenta"])
            # the centre of mass is compared with the model once; the (exact rational) relative positions w.r.t. the implementation's
            # centre of mass are then used as literals, which keeps the inertia-tensor terms small
            comi = [fx(x) for x in r["com"]]
            for comp, acc in enumerate(("vx", "vy", "vz")):
                coq.append(f"close_case {len(meta)}%nat ({acc} (com {mm} {xs})) {C.rlit(comi[comp])} {C.rlit(1e-12 * (1 + abs(comi[comp])))}.")
                meta.append((k, "fixrot-com", comp))
            from fractions import Fraction as Fr
            rel = vlist([[Fr(x) - Fr(cc) for x, cc in zip(row, comi)] for row in c["positions"]])
            pa = np.array([fx(x) for x in r["p_after"]]).reshape(n, 3)
            pscale = float(np.max(np.abs(c["momenta"]))) + 1.0
            for comp, acc in enumerate(("vx", "vy", "vz")):
                resid = f"({acc} (mapply (inertia {mm} {rel}) {v3(om)}) - {acc} (angmom {rel} {ps}))"
                coq.append(f"close_case {len(meta)}%nat {resid} 0 {C.rlit(1e-9 * scale * (1 + r['cond'] ** 0.5))}.")
                meta.append((k, "fixrot-omega", comp))
            i = rng.randrange(n)
            for comp, acc in enumerate(("vx", "vy", "vz")):
                impl = float(pa[i, comp])
                coq.append(f"close_case {len(meta)}%nat ({acc} (nth {i} (fixrot_go {v3(om)} {mm} {rel} {ps}) vzero)) {C.rlit(impl)} {C.rlit(1e-9 * pscale * (1 + r['cond'] ** 0.5))}.")
                meta.append((k, "fixrot", (i, comp)))
    per = 24
    files = ["Goal True.\n" + "\n".join(coq[i:i + per]) + "\nexact I. Qed." for i in range(0, len(coq), per)]
    got = C.run_coq_cases(res.workdir, HDR, files, per_file=1, tag="c12", timeout=1500)
    if -1 in got:
        res.broken("correspondence:coq-evaluation", got[-1][:1500])
    agree = dis = undec = 0
    kinds = {}
    for j, (k, kind, pl) in enumerate(meta):
        g = got.get(j)
        kinds.setdefault(kind, [0, 0, 0])
        if g == "CLOSE":
            agree += 1
            kinds[kind][0] += 1
        elif g == "FAR":
            dis += 1
            kinds[kind][1] += 1
            if dis <= 8:
                res.broken(f"correspondence:Constraints.{kind}", {"case": cases[k], "component": pl})
        else:
            undec += 1
            kinds[kind][2] += 1
    if undec > max(3, len(meta) // 25):
        res.broken("correspondence:too-many-undecided", {"undecided": undec, "of": len(meta), "kinds": kinds})
    res.coverage.update(
        evaluations=len(cases) + len(meta), distinct_nontrivial=len(distinct),
        rule="real Canonical (2-3 displacement moves per table: atomic and molecular labels, every shipped displacement operation, m*2, m*3, a+b), "
             "HamiltonianCanonical (Verlet dt 0.5-3 fs, 1-10 steps), ForceBias and AdaptiveForceBias (delta 0.02-0.4) on 3-7 atoms with FixAtoms on "
             "a random subset or FixCom, scripted accept/reject verdicts and a check_move that vetoes 35% of the attempts, 6-14 steps; FixRot on random "
             "non-collinear and axis-aligned geometries with natural and custom masses; non-trivial = distinct (driver, constraint, seed) / geometry",
        correspondence={"flavour": "functional: |model - impl| <= 1e-12 rel per component of logged set_positions results (fixatoms_adjust / fixcom_adjust) and of FixRot's "
                                   "momenta (fixrot_go with the certified omega), decided in Coq by interval arithmetic",
                        "cases": len(meta), "agreed": agree, "disagreed": dis, "undecided": undec, "by_kind[agree,far,undecided]": kinds},
        direct_oracle={"evaluations": len(cases), "failures": len(res.failures)}, input_distribution=dist)
    res.samples += [{"case": {x: cases[i].get(x) for x in ("driver", "constraint", "fixed", "moves", "steps")}, "impl": {x: results[i].get(x) for x in ("worst_fixed", "worst_com", "outcomes")}} for i in (0, 1, 2)]
    res.assumptions += ["one constraint kind at a time (FixAtoms on any subset, or FixCom), as the property states; ASE composes several constraints sequentially",
                        "FixRot: geometries whose inertia tensor has condition number > 1e8 are treated as collinear (outside the quantifier)"]


def replay(res: C.Result, path):
    import json
    d = json.loads(open(path).read())
    c = d.get("input")
    if not c:
        print("replay: no concrete input in this file")
        return 1
    r = C.run_impl("c12.py", {"cases": [c]})["results"][0]
    print(json.dumps({"input": c, "observed_now": r}, indent=1)[:4000])
    return 0
