"""C01 — ensembles reproduce exact averages.  Props/C01.v (detailed balance of the model kernels, Poisson stationarity; PARTIAL: the ergodic
theorem and the analytic averages are cited).  The pieces of the kernel are tied to the code by C02 / C03 / C04 / C05 / C10.  Search
(statistical, on the real code): long runs on solvable systems - harmonic wells (3N/2 kT), rigid dipole in a field (Langevin function),
ideal gas at constant pressure ((N+1) kT / P), ideal gas at constant chemical potential (Poisson N, uniform positions and orientations).
Decision rule: batch-means standard errors, |z| > 6.5 (or KS sqrt(n) D > 3) AND the same on an independent confirmation run with 4x the steps."""
from __future__ import annotations

import math
import random

import common as C


def ks_uniform(xs):
    xs = sorted(xs)
    n = len(xs)
    if n == 0:
        return 0.0, 0
    d = max(max(abs(x - i / n), abs((i + 1) / n - x)) for i, x in enumerate(xs))
    return d * math.sqrt(n), n


def poisson_chi2(hist, a):
    n = sum(hist)
    chi, dof = 0.0, -1
    tail_o, tail_e = 0.0, 0.0
    for k, o in enumerate(hist):
        e = n * math.exp(-a) * a ** k / math.factorial(k)
        if e < 8:
            tail_o += o
            tail_e += e
            continue
        chi += (o - e) ** 2 / e
        dof += 1
    tail_e += n - sum(n * math.exp(-a) * a ** k / math.factorial(k) for k in range(len(hist)))
    if tail_e > 8:
        chi += (tail_o - tail_e) ** 2 / tail_e
        dof += 1
    return chi, max(dof, 1)


def configs(rng, quick):
    out = []
    T = 300.0
    S = 1 if quick else 3
    moves = ["ball", "hamiltonian", "box"] if quick else ["ball", "box", "sphere", "ball+box", "ball*2", "hamiltonian"]
    for mv in moves:
        for s in range(S):
            steps = (6000 if mv == "hamiltonian" else 16000) * (1 if quick else 4)
            out.append({"system": "harmonic", "natoms": 3 if mv != "hamiltonian" else 2, "T": T, "k": 0.6, "move": mv, "steps": steps, "burn": steps // 10, "seed": rng.randint(0, 2 ** 31)})
    # coarse Hamiltonian trajectories (20-40 % rejected: what the integrator keeps across a rejection matters) and a run re-heated on the fly
    for s_ in range(S):
        steps = 8000 * (1 if quick else 4)
        out.append({"system": "harmonic", "natoms": 2, "T": T, "k": 0.6, "move": "hamiltonian", "dt": 100.0, "nsteps": 2, "variant": "coarse", "steps": steps, "burn": steps // 10, "seed": rng.randint(0, 2 ** 31)})
        steps = 16000 * (1 if quick else 4)
        out.append({"system": "harmonic", "natoms": 3, "T": 150.0, "T_switch": 450.0, "k": 0.6, "move": "ball", "variant": "reheated", "steps": steps, "burn": steps // 5, "seed": rng.randint(0, 2 ** 31)})
    for mv in (["rotation"] if quick else ["rotation", "ball+rotation"]):
        for s in range(S):
            steps = 30000 * (1 if quick else 4)
            out.append({"system": "dipole", "T": T, "f": 0.05, "move": mv, "steps": steps, "burn": steps // 10, "seed": rng.randint(0, 2 ** 31)})
    for n in ([1] if quick else [1, 2, 4]):
        for s in range(S):
            steps = 60000 * (1 if quick else 3)
            out.append({"system": "isobaric", "natoms": n, "T": T, "P": 2.585e-5, "max_value": 0.3, "steps": steps, "burn": steps // 10, "seed": rng.randint(0, 2 ** 31)})
    for s_ in range(S):
        steps = 60000 * (1 if quick else 3)
        out.append({"system": "isobaric", "natoms": 2, "T": 200.0, "T_switch": 400.0, "P": 2.585e-5, "P_switch": 4.0e-5, "variant": "reheated", "left_handed": True, "max_value": 0.3, "steps": steps, "burn": steps // 5, "seed": rng.randint(0, 2 ** 31)})
        steps = 40000 * (1 if quick else 4)
        out.append({"system": "gc", "T": 300.0, "T_switch": 600.0, "a": 3.0, "L": 10.0, "species": "atom", "variant": "reheated", "acc_frac": 0.5, "steps": steps, "burn": steps // 5, "thin": 20, "seed": rng.randint(0, 2 ** 31)})
    for sp, a in ([("atom", 3.0), ("molecule", 2.0)] if quick else [("atom", 3.0), ("atom", 6.0), ("molecule", 2.0), ("molecule", 4.0)]):
        for s in range(S):
            steps = 40000 * (1 if quick else 4)
            out.append({"system": "gc", "T": T, "a": a, "L": 10.0, "species": sp, "steps": steps, "burn": steps // 10, "thin": 20, "seed": rng.randint(0, 2 ** 31)})
    return out


def judge(c, r, stage=1):
    """list of (name, statistic, threshold, exceeded) for one run; the first stage only nominates (lower thresholds), the confirmation decides"""
    ZT, KT, CT = (4.5, 2.2, 6.0) if stage == 1 else (6.5, 3.0, 8.0)
    tests = []
    o = r["obs"]
    z = (o["mean"] - r["expected"]) / max(o["se"], 1e-300)
    if not (math.isfinite(o["mean"]) and math.isfinite(o["se"])):
        z = 1e300        # a chain whose observable ran away to inf / nan has no mean: that is a failure, not an undecided statistic
    tests.append((f"{c['system']}:mean" + (":" + c["variant"] if c.get("variant") else ""), z, ZT, not abs(z) <= ZT))
    if c["system"] == "dipole":
        s, n = ks_uniform([(p + math.pi) / (2 * math.pi) for p in r["phi"]])
        tests.append(("dipole:azimuth-uniform", s, KT, s > KT))
        tests.append(("dipole:rigid", abs(r["bond_length"] - 1.0), 1e-9, abs(r["bond_length"] - 1.0) > 1e-9))
    if c["system"] == "gc":
        v = r["var"]
        zv = (v["mean"] - c["a"]) / max(v["se"], 1e-300)
        tests.append(("gc:variance", zv, ZT, not abs(zv) <= ZT))
        chi, dof = poisson_chi2(r["hist_thinned"], c["a"])
        # chi2 with dof d: mean d, sd sqrt(2d); thinned samples are still somewhat correlated -> generous threshold
        zc = (chi - dof) / math.sqrt(2 * dof)
        tests.append(("gc:poisson-histogram", zc, CT, zc > CT))
        s, n = ks_uniform(r["frac"])
        tests.append(("gc:positions-uniform", s, KT, s > KT))
        if c["species"] == "molecule" and r["cos"]:
            s, n = ks_uniform([(x + 1) / 2 for x in r["cos"]])
            tests.append(("gc:orientation-polar-uniform", s, KT, s > KT))
            s, n = ks_uniform([(p + math.pi) / (2 * math.pi) for p in r["phi"]])
            tests.append(("gc:orientation-azimuth-uniform", s, KT, s > KT))
        if r["counter"] != r["final_particles"]:
            tests.append(("gc:counter", r["counter"] - r["final_particles"], 0, True))
    return tests


def run(res: C.Result):
    rng = random.Random(res.seed)
    C.prove(res, extra_tb=["cited, not formalised: the ergodic theorem for Metropolis chains; the analytic averages (equipartition, Langevin function, Gamma integral, Poisson law)",
                           "the kernel pieces are tied to the code by the correspondences of C02, C03, C04, C05, C10"])
    quick = res.tier == "quick"
    cfgs = configs(rng, quick)
    outs = C.run_impl_parallel("c01.py", [{"cases": [c]} for c in cfgs], jobs=16, timeout=7000)
    stats = []
    suspects = []
    for c, o in zip(cfgs, outs):
        r = o["results"][0]
        if "exception" in r:
            res.fail(f"exception:{c['system']}", f"{c['system']} run raised {r['exception']}: {r['message'][:300]}", {"input": c, "observed": {x: r[x] for x in ("exception", "message", "trace")}})
            continue
        for name, stat, thr, bad in judge(c, r):
            stats.append({"test": name, "config": {k: c[k] for k in c if k in ("move", "natoms", "species", "a", "steps", "variant")}, "n": r["obs"]["n"], "statistic": round(float(stat), 3),
                          "threshold": thr, "mean": r["obs"]["mean"], "expected": r["expected"], "stage": 1, "verdict": "suspect" if bad else "ok"})
            if bad:
                suspects.append((c, name))
    # confirmation runs: independent seed, 4x the steps; a violation needs both
    confirm = {}
    for c, name in suspects:
        key = (c["system"], str(c.get("move") or c.get("species") or c.get("natoms")), c.get("variant"))
        if key in confirm:
            continue
        c2 = dict(c, steps=c["steps"] * 4, burn=c["burn"] * 4, seed=rng.randint(0, 2 ** 31))
        confirm[key] = (c2, C.run_impl("c01.py", {"cases": [c2]}, timeout=7000)["results"][0])
    for (c, name) in suspects:
        key = (c["system"], str(c.get("move") or c.get("species") or c.get("natoms")), c.get("variant"))
        c2, r2 = confirm[key]
        if "exception" in r2:
            continue
        again = [t for t in judge(c2, r2, stage=2) if t[0] == name]
        if again and again[0][3]:
            stats.append({"test": name, "config": {k: c2[k] for k in c2 if k in ("move", "natoms", "species", "a", "steps", "variant")}, "n": r2["obs"]["n"], "statistic": round(float(again[0][1]), 3),
                          "threshold": again[0][2], "mean": r2["obs"]["mean"], "expected": r2["expected"], "stage": 2, "verdict": "violation(confirmed)"})
            res.fail(name, f"{name}: observed {r2['obs']['mean']:.6g} +- {r2['obs']['se']:.2g} vs analytic {r2['expected']:.6g} (statistic {again[0][1]:.2f}, threshold {again[0][2]}), "
                     f"confirmed on an independent run of {c2['steps']} steps", {"input": c2, "observed": {"obs": r2["obs"], "expected": r2["expected"], "first_run": {k: c[k] for k in ("steps", "seed")}}})
        else:
            stats.append({"test": name, "config": {k: c2[k] for k in c2 if k in ("move", "natoms", "species", "a", "steps", "variant")}, "stage": 2, "verdict": "not confirmed (first-stage fluctuation)"})
    res.coverage.update(
        evaluations=sum(c["steps"] for c in cfgs), distinct_nontrivial=len(cfgs),
        rule="long real runs, observables sampled after every srun step: harmonic wells with ball / box / (sphere, ball+box, d*2) / Hamiltonian-Verlet proposals; rigid dipole in a "
             "field with rotation (and ball+rotation) proposals; ideal gas at constant pressure with log-uniform isotropic strain, N = 1 (2, 4); ideal gas at constant chemical "
             "potential, atomic and diatomic species: mean and variance of N, Poisson histogram, uniform positions and orientations; evaluations = total number of MC steps; "
             "non-trivial = distinct chain configurations",
        correspondence={"flavour": "none of its own: the model kernels proved in Props/C01.v are assembled from pieces tied to the code by C02, C03, C04, C05, C10", "cases": 0, "agreed": 0, "disagreed": 0, "undecided": 0},
        direct_oracle={"evaluations": len(stats), "failures": len(res.failures)}, statistical=stats,
        input_distribution={"chains": len(cfgs), "steps_total": sum(c["steps"] for c in cfgs), "systems": sorted({c["system"] for c in cfgs}), "suspects_stage1": len(suspects)})
    res.samples += [{"config": cfgs[0], "result": {k: outs[0]["results"][0].get(k) for k in ("obs", "expected")}}]
    res.assumptions += ["two-stage rule: the first stage nominates (|z| > 4.5 with batch-means errors, KS sqrt(n) D > 2.2); only then an independent run with 4x the steps is made, and a violation needs |z| > 6.5 (KS > 3.0) THERE",
                        "quick tier: short chains that can only fail on gross errors (wrong prefactor, sign, units, asymmetric proposal); thorough: every proposal kind x 3 seeds x 4-fold length"]


def replay(res: C.Result, path):
    import json
    d = json.loads(open(path).read())
    c = d.get("input")
    if not c:
        print("replay: no concrete input in this file")
        return 1
    r = C.run_impl("c01.py", {"cases": [c]}, timeout=7000)["results"][0]
    print(json.dumps({"obs": r.get("obs"), "expected": r.get("expected"), "exception": r.get("exception")}, indent=1)[:2000])
    return 0
