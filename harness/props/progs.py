"""Generator of simulation programs shared by C03 / C04 / C05 / C20 (see impl/sim.py for the program format)."""
from __future__ import annotations

import random

DISP_OPS = ["ball", "box", "sphere", "translation", "rotation", "translation_rotation", "ball+box"]


def rand_cell(rng):
    a = [[rng.randint(32, 48) / 4, 0.0, 0.0], [0.0, rng.randint(32, 48) / 4, 0.0], [0.0, 0.0, rng.randint(32, 48) / 4]]
    if rng.random() < 0.5:
        a[1][0] = rng.randint(-8, 8) / 4
        a[2][1] = rng.randint(-8, 8) / 4
    return a


def labels_for(rng, n, molecular, negatives=True):
    if molecular:
        size = rng.choice([2, 3])
        l = [i // size for i in range(n)]
    else:
        l = list(range(n))
        if rng.random() < 0.4:
            rng.shuffle(l)
    if negatives and rng.random() < 0.5:
        for _ in range(rng.randint(1, max(1, n // 3))):
            l[rng.randrange(n)] = -1
    return l


def gen_program(rng, k, ensembles=("canonical", "hamiltonian", "isobaric", "isotension", "gc", "gc", "gc"), plain_multi_exchange=False,
                fixed_exchange_particle=False, alias=False, multi_insert=True):
    ens = ensembles[k % len(ensembles)]
    n = rng.randint(4, 9)
    p = {"ensemble": ens, "natoms": n, "symbols": [rng.choice(["H", "C", "O", "Ar", "Cu"]) for _ in range(n)],
         "positions": [[rng.randint(0, 60) / 8 for _ in range(3)] for _ in range(n)], "cell": rand_cell(rng),
         "arrays": {a: rng.random() < 0.5 for a in ("tags", "momenta", "charges", "custom_f2", "custom_i")}, "array_seed": rng.randint(0, 10 ** 6),
         "seed": rng.randint(1, 2 ** 31), "max_cycles": rng.choice([1, 2, 3]), "max_attempts": rng.choice([1, 2]), "T": rng.choice([100.0, 300.0, 1500.0]),
         "steps": rng.randint(5, 12), "criteria": "scripted", "verdicts": [rng.random() < 0.5 for _ in range(80)],
         "vetoes": [rng.random() < rng.choice([0.0, 0.25, 0.5]) for _ in range(300)], "calc": rng.choice(["caching", "caching", "stateless", "internal"]),
         "fixed": [], "leaves": [], "moves": []}
    molecular = rng.random() < 0.4
    base_labels = labels_for(rng, n, molecular)
    leaves, moves = p["leaves"], p["moves"]

    def disp_leaf():
        leaves.append({"kind": "disp", "labels": labels_for(rng, n, molecular) if rng.random() < 0.4 else list(base_labels),
                       "op": rng.choice(DISP_OPS if molecular else DISP_OPS[:4] + ["ball+box"])})
        return len(leaves) - 1

    def exch_leaf():
        leaves.append({"kind": "exch", "labels": list(base_labels), "op": rng.choice(["translation", "translation", "translation_rotation"]),
                       "bias": rng.choice([0.5, 0.5, 0.3, 0.7]), "default_label": rng.choice([None, None, None, -1, -4])})
        return len(leaves) - 1

    a = disp_leaf()
    moves.append({"name": "d", "expr": a})
    if rng.random() < 0.6:
        moves.append({"name": "dk", "expr": ["*", a if rng.random() < 0.5 else disp_leaf(), rng.randint(2, 3)]})
    if rng.random() < 0.5:
        moves.append({"name": "dsum", "expr": ["+", disp_leaf(), ["+", a, disp_leaf()]] if rng.random() < 0.5 else ["+", a, disp_leaf()]})
    if ens == "hamiltonian":
        leaves.append({"kind": "ham", "dt": rng.choice([0.5, 2.0]), "n": rng.choice([1, 4])})
        moves.append({"name": "h", "expr": len(leaves) - 1})
        p["arrays"]["momenta"] = True
    if ens in ("isobaric", "isotension"):
        leaves.append({"kind": "cell", "op": rng.choice(["iso", "aniso", "shape"]), "scale_atoms": rng.random() < 0.7})
        moves.append({"name": "c", "expr": len(leaves) - 1})
        if rng.random() < 0.4:
            moves.append({"name": "cd", "expr": ["+", len(leaves) - 1, a]})
    if ens == "gc":
        msize = rng.choice([1, 1, 2, 3])
        p["exchange"] = {"symbols": ["H", "O", "H"][:msize] if msize > 1 else [rng.choice(["Ar", "H"])],
                         "positions": [[0.0, 0.0, 0.0], [0.96, 0.0, 0.0], [-0.24, 0.93, 0.0]][:msize]}
        p["N0"] = len({x for x in base_labels if x >= 0})      # consistent with the labelled exchangeable particles
        e = exch_leaf()
        moves.append({"name": "e", "expr": e})
        if multi_insert and rng.random() < 0.45:
            moves.append({"name": "ek", "expr": ["*", e, 2]} if (alias or rng.random() < 0.0) else {"name": "ee", "expr": ["+", exch_leaf(), exch_leaf()]})
        if rng.random() < 0.35:
            moves.append({"name": "de", "expr": ["+", a, e]})          # plain composite: displacement then exchange
        if plain_multi_exchange:
            moves.append({"name": "ede", "expr": ["+", ["+", e, a], exch_leaf()]})   # plain composite holding two exchange moves
        if alias:
            moves.append({"name": "e_again", "expr": e})                # the same object under a second name
    # constraints: FixAtoms on a random subset (never on exchangeable atoms unless asked for)
    if rng.random() < 0.5 and ens != "hamiltonian":
        cand = [i for i in range(n) if base_labels[i] < 0] if ens == "gc" and not fixed_exchange_particle else list(range(n))
        if cand:
            p["fixed"] = sorted(rng.sample(cand, rng.randint(1, len(cand))))
    # a collective constraint (moves atoms that were not selected) where ASE allows it: not with deletions
    if not p["fixed"] and ens != "gc" and rng.random() < 0.4:
        p["fixcom"] = True
    for m in moves:
        m["probability"] = rng.choice([1.0, 1.0, 0.5, 2.0])
    # the user may prepare the system AFTER building the simulation object and before the first run (validate_simulation re-reads it):
    # drawn from a separate stream so that the programs themselves are unchanged
    r2 = random.Random(p["seed"] ^ 0x5EED)
    for lf in leaves:
        if lf["kind"] == "cell" and r2.random() < 0.3:
            lf["amp"] = r2.choice([5e-6, 2e-7, 1e-9])        # fine-tuning strains: a rejected one must be undone like any other
    if r2.random() < 0.3:
        p["pre_run_edit"] = {"shift": [r2.choice([-0.25, 0.125, 0.5]), 0.0, r2.choice([0.0, 0.375])], "atom": r2.randrange(n)}
        if ens in ("isobaric", "isotension") and r2.random() < 0.7:
            p["pre_run_edit"]["cell"] = r2.choice([0.96875, 1.03125, 1.0625])
    return p


def add_mid_run_edit(p, frac=0.3):
    """(C03 / C04) the same driver is run twice and the user moves an atom (rescales the box) in between; drawn from a separate stream"""
    r2 = random.Random(p["seed"] ^ 0x2211)
    if r2.random() < frac and p["steps"] >= 2:
        p["mid_run_edit"] = {"after": r2.randint(1, p["steps"] - 1), "atom": r2.randrange(p["natoms"]), "shift": [r2.choice([-0.375, 0.25]), r2.choice([0.0, 0.125]), 0.5]}
        if p["ensemble"] in ("isobaric", "isotension") and r2.random() < 0.6:
            p["mid_run_edit"]["cell"] = r2.choice([0.96875, 1.0625])
    return p


def relocate_program(rng, k):
    """a grand-canonical table with a RELOCATION move: a plain composite that deletes one particle and then inserts one (two exchange parts with
    bias 0 and 1).  The shipped bookkeeping undoes that order correctly (Props/C03.v, C03_reject_restores_general)."""
    p = gen_program(rng, k, ensembles=("gc",), multi_insert=False)
    e = next(m["expr"] for m in p["moves"] if m["name"] == "e")
    d0 = p["moves"][0]["expr"]
    p["leaves"][e]["bias"] = 0.0
    p["leaves"].append(dict(p["leaves"][e], bias=1.0))
    e2 = len(p["leaves"]) - 1
    p["moves"] = [{"name": "relocate", "expr": ["plain", e, e2], "probability": 2.0}, {"name": "d", "expr": d0, "probability": 1.0},
                  {"name": "e", "expr": e2, "probability": 1.0}]
    p["max_cycles"] = 2
    return p


def framework_program(rng, k):
    """grand canonical: three-atom molecules INTERLEAVED in index order with frozen framework atoms (FixAtoms on atoms right behind a molecule):
    a rejected deletion removes several rows in front of a constrained atom"""
    p = gen_program(rng, k, ensembles=("gc",), multi_insert=False)
    labels = [0, 0, 0, -1, 1, 1, 1, -1, 2, 2, 2, -1, -1][: 8 + 4 * (k % 2)] if k % 2 else [0, 0, 0, -1, 1, 1, 1, -1]
    n = len(labels)
    p.update(natoms=n, symbols=[("Cu" if x < 0 else "OHH"[i % 3] if False else ["O", "H", "H"][[j for j, y in enumerate(labels) if y == x].index(i)]) for i, x in enumerate(labels)],
             positions=[[rng.randint(0, 60) / 8 for _ in range(3)] for _ in range(n)], fixed=[i for i, x in enumerate(labels) if x < 0], N0=len({x for x in labels if x >= 0}))
    p["exchange"] = {"symbols": ["O", "H", "H"], "positions": [[0.0, 0.0, 0.0], [0.96, 0.0, 0.0], [-0.24, 0.93, 0.0]]}
    p["leaves"] = [{"kind": "disp", "labels": list(labels), "op": "translation_rotation"},
                   {"kind": "exch", "labels": list(labels), "op": "translation_rotation", "bias": 0.3, "default_label": None}]
    p["moves"] = [{"name": "d", "expr": 0, "probability": 1.0}, {"name": "e", "expr": 1, "probability": 2.0}]
    p.pop("fixcom", None)
    p.pop("pre_run_edit", None)
    return p
