"""C07 — restarting from any saved step continues the same trajectory.  Model/Restart.v + Model/Serial.v, Props/C07.v (generic theorems +
obligations over the schema regenerated from the current source).  Tie / search: the property verbatim - for generated programs on every
ensemble that offers a restart file: run n steps with the restart observer at interval 1, copy the file after every step, and for EVERY k
rebuild the simulation from the k-th file (read_json -> Class.from_dict -> fresh calculator), run the remaining steps and compare atoms,
reference energy, move history, labels, counters, step counter and generator state with the uninterrupted run after every step."""
from __future__ import annotations

import random

import common as C
import translate
from props import progs

KEYS = ("settings", "table", "arrays", "cell", "n", "hist", "last_E", "labels", "N", "rng")


def same_energy(key, a, b, prog):
    """ASE's LennardJones sums over a neighbour list whose ORDER depends on the calculator's own history (rebuilt only when atoms moved
    beyond the skin), so the fresh calculator of a resumed run reproduces the energy to a few ulp, not bitwise.  Energies of that calculator are
    therefore compared to 1e-12 relative; the harness's own pair potential sums in a fixed order and is compared bit for bit."""
    if key != "last_E" or prog.get("calc") != "lj" or a is None or b is None:
        return False
    x, y = float.fromhex(a), float.fromhex(b)
    return abs(x - y) <= 1e-12 * max(abs(x), abs(y), 1e-300)


def run(res: C.Result):
    rng = random.Random(res.seed)
    C.prove(res, extra_tb=["translator (harness/translate.py, harness/impl/schema.py): simulation and component schemas regenerated from the current source (fail-closed)",
                           "the step function reads the state only through its step-relevant projection: established by C06's differential tie, assumed in C07_resume_equiv"])
    quick = res.tier == "quick"
    nprog = 30 if quick else 400
    cases = []
    ens = ("canonical", "isobaric", "gc", "isotension", "hamiltonian", "gc")
    for k in range(nprog):
        p = progs.gen_program(rng, k, ensembles=ens)
        p.update(criteria="shipped", vetoes=[], steps=6 if quick else 12, calc=rng.choice(["caching", "caching", "lj"]), max_attempts=2)
        if p["ensemble"] == "gc":
            p["fixed"] = []
            p["calc"] = "caching"
            # serialisable tables: no plain composite mixing kinds without an explicit criteria (the default lookup uses the first leaf)
        # masks and composite operations inside moves
        p["T"] = 3000.0
        r2 = random.Random(p["seed"] ^ 0xC07)
        if r2.random() < 0.5 and p["max_cycles"] >= 2:
            # forced moves (minimum_count) and intervals are part of the table that must come back from the file
            m0 = r2.choice(p["moves"])
            m0["minimum_count"] = 1
            if r2.random() < 0.5:
                r2.choice(p["moves"])["interval"] = 2
        if p["ensemble"] == "gc" and r2.random() < 0.85:
            p["accessible_volume_factor"] = r2.choice([0.25, 0.5, 2.0])
        if p["ensemble"] == "isotension" and r2.random() < 0.7:
            a, b, c_ = (r2.choice([-0.02, 0.0, 0.01, 0.03]) for _ in range(3))
            p["stress"] = [[0.02, a, b], [a, -0.01, c_], [b, c_, 0.015]]
        cases.append({"program": p, "workdir": str(res.workdir)})
    # designated: a displacement move that groups atoms in pairs next to an exchange move that deletes single atoms (what the live run remembers about
    # eligible groups must be what a freshly rebuilt simulation would compute)
    for k in range(4 if quick else 40):
        p = progs.gen_program(rng, 4 + 6 * k, ensembles=("gc",), multi_insert=False)
        n_ = p["natoms"]
        for lf in p["leaves"]:
            lf["labels"] = [i // 2 for i in range(n_)] if lf["kind"] == "disp" else list(range(n_))
            if lf["kind"] == "exch":
                lf["bias"] = 0.3
        p.update(criteria="shipped", vetoes=[], steps=8 if quick else 14, calc="caching", max_attempts=2, fixed=[], T=3000.0, mu=p.get("mu", -0.1))
        p["exchange"] = {"symbols": ["H"], "positions": [[0.0, 0.0, 0.0]]}
        p["N0"] = n_      # every atom is an exchangeable one-atom particle here: the particle count handed to the simulation must say so
        cases.append({"program": p, "workdir": str(res.workdir)})
    # tables in which one move object sits under two names / inside a composite and stand-alone (the live run shares it, a rebuilt one does not),
    # and runs whose temperature is re-tuned on the way (what a long-lived criteria or move remembers must not matter)
    r8 = random.Random(res.seed ^ 0xA11A5)
    for k in range(8 if quick else 80):
        p = progs.gen_program(r8, k, ensembles=("gc",), alias=True, multi_insert=True)
        p.update(criteria="shipped", vetoes=[], steps=8 if quick else 12, calc="caching", max_attempts=2, fixed=[], T=3000.0)
        if k % 2:
            p["retune"] = {"step": r8.randint(1, 3), "T": r8.choice([1000.0, 6000.0])}
            # a chemical potential at which insertions and deletions are both accepted now and then: V exp(mu/kT) / Lambda^3 ~ N
            import math
            m_ = sum({"H": 1.008, "O": 15.999, "Ar": 39.948}[x] for x in p["exchange"]["symbols"])
            lam3 = (17.458 / math.sqrt(m_ * 3000.0)) ** 3
            p["mu"] = round(8.617333e-5 * 3000.0 * math.log(max(p.get("N0", 1), 1) * lam3 / 300.0), 3)
            p["steps"] = 10 if quick else 14
            p["max_cycles"] = 3
        cases.append({"program": p, "workdir": str(res.workdir)})
    # grand-canonical runs whose max_cycles is left to the constructor's default (one cycle per atom present AT CONSTRUCTION): after accepted
    # insertions / deletions a simulation rebuilt from the file holds another number of atoms and must still run the original number of cycles
    # (seeded change C07-11: a defaulted max_cycles written to the file as None)
    r9 = random.Random(res.seed ^ 0xD3FA)
    import math as _m
    for k in range(6 if quick else 60):
        p = progs.gen_program(r9, k, ensembles=("gc",), multi_insert=True)
        p.update(criteria="shipped", vetoes=[], steps=8 if quick else 12, calc="caching", max_attempts=2, fixed=[], T=3000.0, default_max_cycles=True)
        m_ = sum({"H": 1.008, "O": 15.999, "Ar": 39.948}[x] for x in p["exchange"]["symbols"])
        lam3 = (17.458 / _m.sqrt(m_ * 3000.0)) ** 3
        p["mu"] = round(8.617333e-5 * 3000.0 * _m.log(max(p.get("N0", 1), 1) * lam3 / 300.0), 3)
        for mv_ in p["moves"]:
            mv_.pop("minimum_count", None)
        cases.append({"program": p, "workdir": str(res.workdir)})
    for drv in ("fbmc", "afbmc"):
        cases.append({"driver": drv, "seed": 5, "program": {"steps": 3}, "workdir": str(res.workdir)})
    res.workdir.mkdir(parents=True, exist_ok=True)
    outs = C.run_impl_parallel("c07.py", [{"cases": cases[i::16]} for i in range(16)], timeout=3000)
    results = [None] * len(cases)
    for j, o in enumerate(outs):
        results[j::16] = o["results"]
    dist = {"ensemble": {}, "restart_points": 0, "resumed_steps_compared": 0, "table_entries": {}, "file_sizes": [], "restarts_failed_to_load": 0}
    distinct = set()
    for k, (c, r) in enumerate(zip(cases, results)):
        drv = c.get("driver") or c["program"]["ensemble"]
        dist["ensemble"][drv] = dist["ensemble"].get(drv, 0) + 1
        if "exception" in r:
            sig = f"restart:{drv}:unsupported" if drv in ("fbmc", "afbmc") else f"exception:{drv}"
            res.fail(sig, f"{drv}: running with restart_file=... raised {r['exception']}: {r['message'][:200]}", {"input": c, "observed": {x: r[x] for x in ("exception", "message", "trace")}})
            continue
        if drv in ("fbmc", "afbmc"):
            continue
        for m in c["program"]["moves"]:
            dist["table_entries"][m["name"]] = dist["table_entries"].get(m["name"], 0) + 1
        ref = r["ref"]
        dist["file_sizes"] += [min(r["file_sizes"]), max(r["file_sizes"])]
        for rec in r["restarts"]:
            kk = rec["k"]
            dist["restart_points"] += 1
            distinct.add((k, kk))
            if "error" in rec:
                dist["restarts_failed_to_load"] += 1
                res.fail(f"restart:{drv}:load", f"{drv}: the restart file written at step {kk} cannot be turned back into a simulation: {rec['error']}",
                         {"input": c, "k": kk, "observed": rec})
                continue
            if rec["step_count_loaded"] != kk:
                res.fail(f"restart:{drv}:step_count", f"file of step {kk} loads with step_count={rec['step_count_loaded']}", {"input": c, "k": kk})
            if rec.get("dict_reusable") is False:
                res.fail(f"restart:{drv}:loaded-dictionary-modified", f"{drv}: the dictionary loaded from the file of step {kk} was changed by rebuilding and running a simulation from it: a second "
                         f"simulation rebuilt from the same dictionary does not start from the saved state", {"input": c, "k": kk})
            if len(rec["got"]) != len(ref) - kk:
                res.fail(f"restart:{drv}:steps-performed", f"{drv}: resumed from the file of step {kk} and asked for the remaining {len(ref) - kk} steps, the simulation performed {len(rec['got'])}",
                         {"input": c, "k": kk, "observed": {"steps_performed": len(rec["got"]), "asked": len(ref) - kk}})
            for j, got in enumerate(rec["got"]):
                want = ref[kk + j]
                dist["resumed_steps_compared"] += 1
                bad = [key for key in KEYS if want.get(key) != got.get(key) and not same_energy(key, want.get(key), got.get(key), c["program"])]
                if bad:
                    what = bad[0]
                    res.fail(f"restart:{drv}:{what}", f"{drv}: resumed from the file of step {kk}, {j + 1} step(s) later the {what} differ(s) from the uninterrupted run "
                             f"(all differing: {bad})", {"input": c, "k": kk, "steps_after_restart": j + 1,
                                                        "observed": {x: got.get(x) for x in bad if x != "arrays"}, "expected": {x: want.get(x) for x in bad if x != "arrays"}})
                    break
            ch = rec.get("chain")
            if ch:
                dist["second_generation_restarts"] = dist.get("second_generation_restarts", 0) + 1
                k2 = kk + ch["j"]
                if ch["step_count_loaded"] != k2:
                    res.fail(f"restart:{drv}:chain:step_count", f"{drv}: a simulation rebuilt from the file of step {kk} ran {ch['j']} step(s) and wrote its own restart file; that file loads with "
                             f"step_count={ch['step_count_loaded']}, expected {k2}", {"input": c, "k": kk})
                if len(ch["got"]) != len(ref) - k2:
                    res.fail(f"restart:{drv}:chain:steps-performed", f"{drv}: second-generation restart at step {k2}: asked for {len(ref) - k2} steps, performed {len(ch['got'])}", {"input": c, "k": kk})
                for j, got in enumerate(ch["got"]):
                    want = ref[k2 + j]
                    dist["resumed_steps_compared"] += 1
                    bad = [key for key in KEYS if want.get(key) != got.get(key) and not same_energy(key, want.get(key), got.get(key), c["program"])]
                    if bad:
                        res.fail(f"restart:{drv}:chain:{bad[0]}", f"{drv}: restarted at step {kk}, ran {ch['j']} step(s), restarted again from the file the rebuilt simulation wrote; {j + 1} step(s) later the "
                                 f"{bad[0]} differ(s) from the uninterrupted run (all differing: {bad})",
                                 {"input": c, "k": kk, "second_restart_at": k2, "steps_after_restart": j + 1,
                                  "observed": {x: got.get(x) for x in bad if x != "arrays"}, "expected": {x: want.get(x) for x in bad if x != "arrays"}})
                        break
    dist["file_sizes"] = [min(dist["file_sizes"]), max(dist["file_sizes"])] if dist["file_sizes"] else []
    res.coverage.update(
        evaluations=dist["resumed_steps_compared"] + dist["restart_points"], distinct_nontrivial=len(distinct),
        rule="generated programs on Canonical, HamiltonianCanonical, Isobaric, Isotension, GrandCanonical (tables with d, d*k, a+b, a+(b+c), Hamiltonian, cell moves alone and "
             "c+d, exchange e, e1+e2, d+e; molecular species; composite operations inside moves; FixAtoms / FixCom; shipped criteria at 3000 K so that accept / reject / insert / "
             "delete all occur), restart observer at interval 1; EVERY step k of every run is a restart point, and from every one a SECOND-GENERATION restart is taken too (the rebuilt "
             "simulation runs 1-2 steps with its own restart observer, and a simulation rebuilt from that file must continue the same run: C07_chained_restarts); ForceBias / AdaptiveForceBias with restart_file; "
             "non-trivial = distinct (program, k)",
        correspondence={"flavour": "translator + behaviour: the property verbatim on the real restart file of every step",
                        "cases": dist["restart_points"], "agreed": dist["restart_points"] - len({(f["replay"].get("k"), id(f["replay"].get("input"))) for f in res.failures}),
                        "disagreed": len(res.failures), "undecided": 0},
        direct_oracle={"evaluations": dist["resumed_steps_compared"], "failures": len(res.failures)}, input_distribution=dist)
    res.samples += [{"program": {x: cases[0]["program"][x] for x in ("ensemble", "moves", "steps")}, "restart_points": [x["k"] for x in results[0].get("restarts", [])]}]
    res.assumptions += ["callables (check_move, a custom distribution) are not serialised and are left at their defaults in these runs",
                        "the calculator is re-attached as a fresh instance of the same class, as the documentation says"]


def replay(res: C.Result, path):
    import json
    d = json.loads(open(path).read())
    c = d.get("input")
    if not c:
        print("replay: no concrete input in this file")
        return 1
    c = dict(c, workdir=str(C.WORK), ks=[d["k"]] if "k" in d else None)
    r = C.run_impl("c07.py", {"cases": [c]})["results"][0]
    print(json.dumps({"k": d.get("k"), "now": [{x: rec.get(x) for x in ("k", "error", "step_count_loaded")} for rec in r.get("restarts", [])], "exception": r.get("exception")}, indent=1)[:3000])
    return 0
