"""C14 — Verlet reversibility / energy error, Maxwell-Boltzmann refresh, fresh kinetic energy.
Model/Verlet.v, Proofs/VerletProofs.v, Props/C14.v.  Tie: real Verlet.integrate on harmonic wells is compared coordinate by
coordinate with the Coq model (interval arithmetic on the same definitions); scripted normal draws -> momenta compared with
mb_p in Coq; the attempt bookkeeping of the Hamiltonian move is compared with hmove evaluated in Coq.  Search: forward-flip-
forward on harmonic/quartic/Morse systems, the proved harmonic error bound, Richardson ratios, forced temperature, bit-exact
fresh kinetic energy through real HamiltonianCanonical steps."""
from __future__ import annotations

import math
import random

import common as C
import translate

ULP = 2.0 ** -52
FS = 0.09822694788464063  # ase.units.fs (only used to choose dt; the implementation's own dt is read back)


def fx(x):
    return float.fromhex(x)


def gen_verlet(rng, k, small):
    n = rng.choice([1, 2, 3]) if not small else rng.choice([1, 2])
    pot = rng.choice(["harmonic", "harmonic", "quartic", "morse"]) if not small else "harmonic"
    if pot == "morse" and n < 2:
        n = 2
    masses = [rng.choice([1.008, 12.011, 39.948, 107.8682, 196.96657]) for _ in range(n)]
    ks = [rng.choice([0.5, 1.0, 2.0, 5.0, 20.0]) for _ in range(n)]
    r0 = [[rng.randint(-8, 8) / 4 + 2.5 * i for _ in range(3)] for i in range(n)]
    q = [[r0[i][j] + rng.randint(-64, 64) / 256 for j in range(3)] for i in range(n)]
    p = [[rng.randint(-128, 128) / 64 * math.sqrt(masses[i]) * 0.1 for j in range(3)] for i in range(n)]
    wmax = max(math.sqrt((ks[i] + (3.0 if pot != "harmonic" else 0)) / masses[i]) for i in range(n))
    wdt = rng.choice([0.02, 0.05, 0.1, 0.2])
    dt = wdt / wmax / FS
    c = {"mode": "verlet", "natoms": n, "masses": masses, "k": ks, "r0": r0, "q": q, "p": p, "pot": pot, "dt": dt, "warm": rng.random() < 0.5,
         "n": rng.choice([1, 2, 3]) if small else rng.choice([8, 20, 40, 64]), "wdt": wdt}
    if pot == "quartic":
        c["quartic"] = rng.choice([0.5, 2.0])
    if pot == "morse":
        c["morse"] = [rng.choice([0.2, 1.0]), rng.choice([1.0, 1.5]), 2.5]
    if not small and n >= 2 and random.Random(k * 31 + n).random() < 0.3:
        c["bonds"] = [[0, 1]] + ([[0, 2]] if n == 3 else [])      # rigid bonds: reversibility and the order hold for constrained dynamics too
    elif not small and n >= 2 and random.Random(k * 17 + n).random() < 0.3:
        c["hookean"] = random.Random(k).choice([0.5, 2.0])             # a Hookean restraint between atoms 0 and 1 (it contributes energy and forces)
    return c


def vec_lit(vals):
    return "(fun i => match i with " + " ".join(f"| {j}%nat => {C.rlit(v)}" for j, v in enumerate(vals)) + " | _ => 1 end)"


HDR = """From QV Require Import Model.Verlet Gen.Constants.
From Coq Require Import Lra.
From Interval Require Import Tactic.
Open Scope R_scope.
Ltac close_case n model impl tol :=
  first [ assert (Rabs (model - impl) <= tol) by (cbv [integrate iter vv harmonic qq pp mb_p]; unfold kB; interval with (i_prec 64)); idtac "CASE" n "CLOSE"
        | assert (tol < Rabs (model - impl)) by (cbv [integrate iter vv harmonic qq pp mb_p]; unfold kB; interval with (i_prec 64)); idtac "CASE" n "FAR"
        | idtac "CASE" n "UNDECIDED" ].
(* attempt bookkeeping with marker values: refresh k writes the marker 100+k into the momenta, K reads it back *)
Definition mK (p : vec) : R := p 0%nat.
Definition mrefresh (k : nat) (s : phase) : phase := {| qq := qq s; pp := fun _ => INR (100 + k) |}.
Definition minteg (s : phase) : phase := {| qq := pp s; pp := pp s |}.
Definition mcheck (vetoes : list bool) (k : nat) (_ : phase) : bool := negb (nth k vetoes false).
Definition s0 : hstate := {| ph := {| qq := fun _ => 0; pp := fun _ => 0 |}; lastK := 0 |}.
Ltac hm_case n vetoes attempts ok j :=
  first [ assert (snd (hmove mK mrefresh minteg (mcheck vetoes) attempts 0 s0) = ok) by (vm_compute; reflexivity);
          first [ assert (ok = false) by reflexivity; idtac "CASE" n "OK"
                | assert (lastK (fst (hmove mK mrefresh minteg (mcheck vetoes) attempts 0 s0)) = INR (100 + j)) by (cbv; reflexivity); idtac "CASE" n "OK"
                | idtac "CASE" n "BAD" ]
        | idtac "CASE" n "BAD" ].
"""


def run(res: C.Result):
    rng = random.Random(res.seed)
    consts = translate.regenerate()
    kB = consts["kB"]
    C.prove(res, extra_tb=["Coq-Interval `interval with (i_prec 64)` evaluates the Verlet / refresh model in each correspondence case",
                           "numpy Generator trusted to sample the requested law StdNormal"])
    quick = res.tier == "quick"
    nv_small, nv_big, nmb, nfresh = (40, 40, 40, 24) if quick else (500, 700, 600, 300)
    cases = [gen_verlet(rng, k, True) for k in range(nv_small)] + [gen_verlet(rng, k, False) for k in range(nv_big)]
    for k in range(nmb):
        n = rng.choice([1, 2, 3, 5])
        cases.append({"mode": "mb", "natoms": n, "masses": [rng.choice([1.008, 12.011, 39.948, 196.96657]) for _ in range(n)],
                      "k": [1.0] * n, "r0": [[0.0] * 3] * n, "q": [[float(i), 0.0, 0.0] for i in range(n)], "p": [[0.0] * 3] * n,
                      "T": rng.choice([1.0, 77.0, 300.0, 2000.0, 1e4]), "forced": rng.random() < 0.5,
                      "xi": [rng.choice([0.0, 1.0, -1.0, rng.gauss(0, 1), rng.gauss(0, 3)]) for _ in range(3 * n)]})
        if cases[-1]["forced"] and all(x == 0 for x in cases[-1]["xi"]):
            cases[-1]["xi"][0] = 0.5
        r2 = random.Random(k * 7919 + res.seed)
        if n >= 2 and r2.random() < 0.4:
            cases[-1]["fixed"] = sorted(r2.sample(range(n), r2.randint(1, n - 1)))     # momentum-removing constraint: fewer degrees of freedom
            free = [i for i in range(3 * n) if i // 3 not in cases[-1]["fixed"]]
            if cases[-1]["forced"] and all(cases[-1]["xi"][i] == 0 for i in free):
                cases[-1]["xi"][free[0]] = 0.5
    for k in range(nfresh // 2):
        n = rng.choice([1, 2, 3])
        ma = rng.choice([1, 2, 3])
        cases.append({"mode": "ctx", "context": ["HamiltonianDisplacementContext", "HamiltonianDeformationContext", "HamiltonianExchangeContext"][k % 3],
                      "natoms": n, "masses": [rng.choice([12.011, 39.948]) for _ in range(n)], "k": [2.0] * n,
                      "r0": [[2.5 * i, 0.0, 0.0] for i in range(n)], "q": [[2.5 * i + 0.1, 0.05, 0.0] for i in range(n)], "p": [[0.0] * 3] * n,
                      "T": rng.choice([100.0, 300.0, 1500.0]), "dt": rng.choice([0.5, 1.0]), "n": rng.choice([1, 3]), "calls": 4, "max_attempts": ma,
                      "seed": rng.randint(1, 2 ** 31), "forced": rng.random() < 0.3, "vetoes": [rng.random() < 0.4 for _ in range(4 * ma)]})
    for k in range(nfresh):
        n = rng.choice([1, 2, 3])
        steps = rng.randint(2, 5)
        ma = rng.choice([1, 2, 4])
        cases.append({"mode": "fresh", "natoms": n, "masses": [rng.choice([12.011, 39.948]) for _ in range(n)], "k": [2.0] * n,
                      "r0": [[2.5 * i, 0.0, 0.0] for i in range(n)], "q": [[2.5 * i + 0.1, 0.05, 0.0] for i in range(n)],
                      "p": [[0.0] * 3] * n, "T": rng.choice([100.0, 300.0, 1500.0]), "dt": rng.choice([0.5, 1.0, 2.0]),
                      "n": rng.choice([1, 3, 8]), "steps": steps, "max_attempts": ma, "seed": rng.randint(1, 2 ** 31),
                      "forced": rng.random() < 0.3,
                      "vetoes": [rng.random() < 0.4 for _ in range(steps * ma)], "verdicts": [rng.random() < 0.6 for _ in range(steps)]})
    # settings changed after construction (the integrator is built with other settings and re-tuned through its public attributes); the SHIPPED
    # distribution function itself as the move's distribution (forced refresh through functools.partial) - drawn from a separate stream
    for i, c in enumerate(cases):
        r9 = random.Random(res.seed ^ 0x14C000 ^ i)
        if c["mode"] in ("verlet", "fresh", "ctx") and r9.random() < 0.4:
            c["late"] = True
        if c["mode"] in ("fresh", "ctx") and r9.random() < 0.5:
            c["shipped_dist"] = True
            c["forced"] = r9.random() < 0.6
    outs = C.run_impl_parallel("c14.py", [{"cases": cases[i::16]} for i in range(16)])
    results = [None] * len(cases)
    for j, o in enumerate(outs):
        results[j::16] = o["results"]

    coq, meta = [], []
    dist = {"verlet": {"harmonic": 0, "quartic": 0, "morse": 0}, "steps": {}, "w_dt": {}, "integrator_reused_from_other_system": 0, "mb": {"forced": 0, "plain": 0},
            "fresh": {"steps": 0, "vetoed_attempts": 0, "failed_moves": 0}, "order_ratios": [], "order_skipped_rounding": 0}
    distinct = set()
    for k, (c, r) in enumerate(zip(cases, results)):
        if "exception" in r:
            res.fail("exception", f"{c['mode']}: {r['exception']}: {r['message']}", {"input": c, "observed": r})
            continue
        if c["mode"] == "verlet":
            dist["verlet"][c["pot"]] += 1
            dist["integrator_reused_from_other_system"] += bool(c.get("warm"))
            dist["steps"][c["n"]] = dist["steps"].get(c["n"], 0) + 1
            dist["w_dt"][c["wdt"]] = dist["w_dt"].get(c["wdt"], 0) + 1
            n3 = 3 * c["natoms"]
            q0 = [x for row in c["q"] for x in row]
            p0 = [x for row in c["p"] for x in row]
            if c.get("hookean"):
                dist["hookean_cases"] = dist.get("hookean_cases", 0) + 1
            if c.get("bonds"):
                q0, p0 = [fx(x) for x in r["q0"]], [fx(x) for x in r["p0"]]      # the start state after the constraint projection
                dist["rigid_bond_cases"] = dist.get("rigid_bond_cases", 0) + 1
            q1, p1, q2, p2 = ([fx(x) for x in r[key]] for key in ("q1", "p1", "q2", "p2"))
            dti = fx(r["dt_internal"])
            distinct.add((c["pot"], c["n"], c["dt"], tuple(q0)))
            # ---- reversibility (direct oracle)
            sq = max(1.0, max(abs(x) for x in q0))
            sp = max(1e-3, max(abs(x) for x in p0), max(abs(x) for x in p1))
            for i in range(n3):
                if abs(q2[i] - q0[i]) > 1e-9 * sq or abs(p2[i] + p0[i]) > 1e-9 * sp:
                    res.fail("verlet:not-reversible", f"forward {c['n']} steps, flip, forward: coordinate {i} returns to q={q2[i]!r} (start {q0[i]!r}), "
                             f"p={p2[i]!r} (start {-p0[i]!r} after flip)", {"input": c, "observed": {x: r[x] for x in ("q1", "p1", "q2", "p2")}})
                    break
            # ---- harmonic: the proved energy-error bound, per coordinate
            if c["pot"] == "harmonic" and not c.get("bonds") and not c.get("hookean"):
                for i in range(n3):
                    kk, m = c["k"][i // 3], c["masses"][i // 3]
                    r0 = c["r0"][i // 3][i % 3]
                    a = kk * dti * dti / (4 * m)
                    sh = p0[i] ** 2 / (2 * m) + 0.5 * kk * (q0[i] - r0) ** 2 * (1 - a)
                    h0 = p0[i] ** 2 / (2 * m) + 0.5 * kk * (q0[i] - r0) ** 2
                    h1 = p1[i] ** 2 / (2 * m) + 0.5 * kk * (q1[i] - r0) ** 2
                    if abs(h1 - h0) > a / (1 - a) * sh * (1 + 1e-9) + 1e-12 * (abs(h0) + 1e-12):
                        res.fail("verlet:energy-error", f"harmonic coordinate {i}: |dH|={abs(h1 - h0)!r} exceeds the O(dt^2) bound a/(1-a)*H~ = {a / (1 - a) * sh!r}",
                                 {"input": c, "observed": {"q1": r["q1"], "p1": r["p1"]}})
                        break
            # ---- order of the energy error (measured): err(dt)/err(dt/2) ~ 4
            e = {x["div"]: x for x in r["errs"]}
            floor = 1e-11 * (abs(e[1]["H0"]) + 1e-3)
            for a_, b_ in ((1, 2), (2, 4)):
                if c["n"] < 8:
                    break   # too few common time points for a meaningful maximum
                if e[b_]["max_err"] > floor and e[a_]["max_err"] > floor:
                    ratio = e[a_]["max_err"] / e[b_]["max_err"]
                    dist["order_ratios"].append(round(ratio, 3))
                    if not (2.9 <= ratio <= 5.6):
                        res.fail("verlet:order", f"max energy error ratio err(dt/{a_})/err(dt/{b_}) = {ratio:.3f}, expected ~4 (second order); "
                                 f"errors {e[a_]['max_err']:.3e}, {e[b_]['max_err']:.3e}", {"input": c, "observed": r["errs"]})
                else:
                    dist["order_skipped_rounding"] += 1
            # ---- correspondence with the Coq model (harmonic wells, few steps)
            if c["pot"] == "harmonic" and c["n"] <= 3 and not c.get("bonds") and not c.get("hookean"):
                K = vec_lit([c["k"][i // 3] for i in range(n3)])
                R0 = vec_lit([c["r0"][i // 3][i % 3] for i in range(n3)])
                M = vec_lit([c["masses"][i // 3] for i in range(n3)])
                S0 = "{| qq := " + vec_lit(q0) + "; pp := " + vec_lit(p0) + " |}"
                for i in range(n3):
                    for comp, impl in (("qq", q1[i]), ("pp", p1[i])):
                        tol = 1e-12 * (1.0 + abs(impl))
                        if comp == "pp":
                            # with apply_constraints (the default) the code re-derives p as (x' - x) m / dt: the rounding of x'
                            # (one ulp of |x|) is amplified by m/dt per step - condition of the expression, not a formula error
                            tol += 8 * ULP * (abs(q1[i]) + 1.0) * c["masses"][i // 3] / dti * c["n"]
                        coq.append(f"close_case {len(meta)}%nat ({comp} (integrate (harmonic {K} {R0}) {M} {C.rlit(dti)} {c['n']} {S0}) {i}%nat) {C.rlit(impl)} {C.rlit(tol)}.")
                        meta.append((k, "vv", (i, comp)))
        elif c["mode"] == "mb":
            dist["mb"]["forced" if c["forced"] else "plain"] += 1
            n = c["natoms"]
            p = [fx(x) for x in r["p"]]
            distinct.add(("mb", c["T"], tuple(c["xi"])))
            if r["consumed"] != 3 * n or not r["calls"] or r["calls"][0][0] != "standard_normal":
                res.fail("mb:law", f"momentum refresh did not request exactly {3 * n} standard-normal draws: {r['calls']}", {"input": c, "observed": r})
            kT = c["T"] * kB
            if c["forced"]:
                t_kin = 2 * r["ke"] / r["dof"]
                if abs(t_kin - kT) > 1e-13 * kT:
                    res.fail("mb:forced-temperature", f"forced refresh gives kinetic temperature {t_kin / kB!r} K, target {c['T']!r} K", {"input": c, "observed": r})
            else:
                for i in range(3 * n):
                    if i // 3 in (c.get("fixed") or []):
                        if p[i] != 0.0:
                            res.fail("mb:fixed-atom-momentum", f"a fixed atom was given momentum {p[i]!r}", {"input": c, "observed": r})
                        continue
                    m = c["masses"][i // 3]
                    want = c["xi"][i] * math.sqrt(m * kT)        # component i of the draw belongs to atom i // 3: width sqrt(m kT)
                    if abs(p[i] - want) > 1e-12 * max(abs(want), 1e-300):
                        res.fail("mb:width", f"momentum component {i} (atom {i // 3}, mass {m}) is {p[i]!r} for the standard-normal draw {c['xi'][i]!r}: expected draw * sqrt(m kT) = {want!r}",
                                 {"input": c, "observed": {"p": r["p"], "calls": r["calls"]}})
                        break
                    tol = 8 * ULP * abs(p[i]) + 1e-300
                    coq.append(f"close_case {len(meta)}%nat (mb_p {C.rlit(m)} ({C.rlit(c['T'])} * kB) {C.rlit(c['xi'][i])}) {C.rlit(p[i])} {C.rlit(tol)}.")
                    meta.append((k, "mb", i))
        elif c["mode"] == "ctx":
            for ci, call in enumerate(r["calls"]):
                dist["ctx_calls"] = dist.get("ctx_calls", 0) + 1
                distinct.add(("ctx", k, ci))
                if call["ret"] and call["fresh"] is not None and call["last_ke"] != call["fresh"]:
                    res.fail("fresh-ke", f"{c['context']}: after a successful Hamiltonian move the reference kinetic energy is {fx(call['last_ke'])!r} but the momenta drawn for it "
                             f"have {fx(call['fresh'])!r}", {"input": c, "call": ci, "observed": call})
        else:  # fresh
            snaps, seen = r["snaps"], r["seen"]
            prev_snaps = prev_seen = 0
            vet = list(c["vetoes"])
            for si, st in enumerate(r["steps"]):
                used = st["snaps"] - prev_snaps
                evaluated = st["seen"] - prev_seen
                dist["fresh"]["steps"] += 1
                dist["fresh"]["vetoed_attempts"] += used - (1 if evaluated else 0)
                dist["fresh"]["failed_moves"] += 0 if evaluated else 1
                distinct.add(("fresh", k, si))
                if evaluated:
                    s = seen[st["seen"] - 1]
                    fresh = snaps[s["n_snaps"] - 1]["ke"] if s["n_snaps"] else None
                    if s["last_ke"] != fresh:
                        res.fail("fresh-ke", f"step {si}: criteria was handed last_kinetic_energy={fx(s['last_ke'])!r} but the freshly drawn momenta have "
                                 f"{fx(fresh) if fresh else None!r}", {"input": c, "step": si, "observed": {"seen": s, "snaps": snaps[prev_snaps:st['snaps']]}})
                # model: the vetoes this step consumed
                mine = vet[:used]
                vet = vet[used:]
                ok = bool(evaluated)
                coq.append(f"hm_case {len(meta)}%nat [{'; '.join(C.blit(v) for v in mine)}] {c['max_attempts']}%nat {C.blit(ok)} {max(used - 1, 0)}%nat.")
                meta.append((k, "hm", si))
                prev_snaps, prev_seen = st["snaps"], st["seen"]
    per = 30
    files = ["Goal True.\n" + "\n".join(coq[i:i + per]) + "\nexact I. Qed." for i in range(0, len(coq), per)]
    got = C.run_coq_cases(res.workdir, HDR, files, per_file=1, tag="c14", timeout=1200)
    if -1 in got:
        res.broken("correspondence:coq-evaluation", got[-1][:1500])
    agree = dis = undec = 0
    kinds = {"vv": 0, "mb": 0, "hm": 0}
    for j, (k, kind, pl) in enumerate(meta):
        g = got.get(j)
        kinds[kind] += 1
        if g in ("CLOSE", "OK"):
            agree += 1
        elif g in ("FAR", "BAD"):
            dis += 1
            if dis <= 8:
                name = {"vv": "Verlet.integrate", "mb": "Verlet.mb_p", "hm": "Verlet.hmove"}[kind]
                res.broken(f"correspondence:{name}", {"case": cases[k], "which": pl, "impl": {x: results[k].get(x) for x in ("q1", "p1", "p", "steps", "dt_internal")}})
        else:
            undec += 1
    if undec > max(3, len(meta) // 25):
        res.broken("correspondence:too-many-undecided", {"undecided": undec, "of": len(meta)})
    rat = dist["order_ratios"]
    dist["order_ratios"] = {"count": len(rat), "min": min(rat) if rat else None, "max": max(rat) if rat else None,
                            "median": sorted(rat)[len(rat) // 2] if rat else None}
    res.coverage.update(
        evaluations=len(cases) + len(meta), distinct_nontrivial=len(distinct),
        rule="Verlet on 1-3 atoms in harmonic / quartic / harmonic+Morse potentials, masses 1-197 amu, omega*dt in {0.02..0.2}, 1-64 steps: "
             "forward-flip-forward, proved harmonic error bound, Richardson ratios at dt, dt/2, dt/4; refresh with scripted normal draws "
             "(0, +-1, random, 3 sigma) at 1-10^4 K, plain and forced; real HamiltonianCanonical steps with vetoing check_move and scripted verdicts; "
             "non-trivial = distinct (potential, steps, dt, start) / (T, draws) / (run, step)",
        correspondence={"flavour": "functional: |model - impl| <= 1e-12 rel (Verlet on harmonic wells, <= 3 steps) / 8 ulp (refresh), decided in Coq by "
                                   "interval arithmetic; attempt bookkeeping (hmove) by vm_compute", "cases": len(meta), "by_kind": kinds,
                        "agreed": agree, "disagreed": dis, "undecided": undec},
        direct_oracle={"evaluations": len(cases), "failures": len(res.failures)}, input_distribution=dist)
    res.samples += [{"case": cases[0], "impl": {x: results[0].get(x) for x in ("q1", "p1", "q2", "p2", "errs")}},
                    {"case": cases[-1], "impl": {"steps": results[-1].get("steps"), "seen": results[-1].get("seen")}}]
    res.assumptions += ["energy-error order for anharmonic potentials is measured (ratio in [2.9, 5.6] when above the rounding floor), not proved",
                        "reversibility is exact over R; on floats it is checked to 1e-9 relative",
                        "constraints are absent in these runs (C12 covers them)"]


def replay(res: C.Result, path):
    import json
    d = json.loads(open(path).read())
    c = d.get("input")
    if not c:
        print("replay: no concrete input in this file")
        return 1
    r = C.run_impl("c14.py", {"cases": [c]})["results"][0]
    print(json.dumps({"input": c, "observed_now": r}, indent=1)[:4000])
    return 0
