"""C17 — + and * on moves/operations: Coq model Model/Algebra.v, theorems Props/C17.v, exhaustive/stratified tie."""
from __future__ import annotations

import itertools
import json
import random

import common as C

KINDS = ["Disp", "Exch", "Cell", "Ham", "Gen"]
CT = {"CompositeMove": 0, "CompositeDisplacementMove": 1, "CompositeExchangeMove": 2}


def shapes(size, allow_mul=True):
    """all expression shapes with exactly `size` units (leaf = 1, Mul adds 1)"""
    if size == 1:
        yield ("L",)
        return
    for k in range(1, size):
        for a in shapes(k):
            for b in shapes(size - k):
                yield ("A", a, b)
    if allow_mul:
        for a in shapes(size - 1):
            if a[0] != "M":
                for n in (1, 2):
                    yield ("M", a, n)


def instantiate(shape, kinds_iter, counter):
    if shape[0] == "L":
        counter[0] += 1
        return ["L", counter[0], next(kinds_iter)]
    if shape[0] == "A":
        return ["A", instantiate(shape[1], kinds_iter, counter), instantiate(shape[2], kinds_iter, counter)]
    return ["M", instantiate(shape[1], kinds_iter, counter), shape[2]]


def nleaves(shape):
    return 1 if shape[0] == "L" else (nleaves(shape[1]) + nleaves(shape[2]) if shape[0] == "A" else nleaves(shape[1]))


def rand_tree(rng, nl, kinds, reuse=0.15, depth=0):
    ids = []

    def go(n):
        if n == 1:
            if ids and rng.random() < reuse:
                i, k = rng.choice(ids)
            else:
                i, k = len(ids) + 1, rng.choice(kinds)
                ids.append((i, k))
            t = ["L", i, k]
        else:
            s = rng.randint(1, n - 1)
            t = ["A", go(s), go(n - s)]
        if rng.random() < 0.18:
            t = ["M", t, rng.choice([1, 2, 2, 3, 0, -1])]
        return t

    return go(nl)


def flatten(t):
    if t[0] == "L":
        return [(t[1], t[2])]
    if t[0] == "A":
        return flatten(t[1]) + flatten(t[2])
    n = t[2]
    return flatten(t[1]) * max(n, 0)


def has_bad_n(t):
    if t[0] == "L":
        return False
    if t[0] == "A":
        return has_bad_n(t[1]) or has_bad_n(t[2])
    return t[2] < 1 or has_bad_n(t[1])


def coq_expr(t, op=False):
    if t[0] == "L":
        return f"(OL {t[1]})" if op else f"(Leaf ({t[1]}, {t[2]}))"
    if t[0] == "A":
        return f"({'OAdd' if op else 'Add'} {coq_expr(t[1], op)} {coq_expr(t[2], op)})"
    return f"({'OMul' if op else 'Mul'} {coq_expr(t[1], op)} {C.zlit(t[2])})"


def encode_impl(r):
    if "error" in r:
        return [-1]
    if "leaf" in r:
        return [-2, r["leaf"]]
    return [CT.get(r["type"], 9), *r["ids"]]


def spec_type(leaves):
    if all(k == "Disp" for _, k in leaves):
        return 1
    if all(k == "Exch" for _, k in leaves):
        return 2
    return 0


def classify(t):
    """signature class of a failing tree (for known-findings matching)"""
    def right_comp(t):
        if t[0] == "A":
            return t[1][0] == "L" and t[2][0] in ("A", "M") or right_comp(t[1]) or right_comp(t[2])
        if t[0] == "M":
            return right_comp(t[1])
        return False
    return "leaf-plus-composite" if right_comp(t) else "other"


def run(res: C.Result):
    rng = random.Random(res.seed)
    proved = C.prove(res)
    cases = []  # (domain, tree)
    # exhaustive part
    max_size = 4 if res.tier == "quick" else 5
    kinds_ex = ["Disp", "Exch", "Cell", "Gen"] if res.tier == "thorough" else ["Disp", "Exch", "Cell"]
    exhaustive = 0
    for size in range(1, max_size + 1):
        for sh in shapes(size):
            nl = nleaves(sh)
            for ks in itertools.product(kinds_ex, repeat=nl):
                cases.append(("move", instantiate(sh, iter(ks), [0])))
                exhaustive += 1
    # all parenthesisations of 5 / 6 leaves of few kinds, no Mul (association-freeness)
    for nl, kk in ((5, ["Disp", "Exch", "Ham"]), (6, ["Disp", "Cell"])):
        for sh in shapes(nl, allow_mul=False):
            if nleaves(sh) != nl or "M" in json.dumps(sh):
                continue
            combos = list(itertools.product(kk, repeat=nl))
            if res.tier == "quick":
                combos = rng.sample(combos, min(len(combos), 6)) + [tuple([kk[0]] * nl)]
            for ks in combos:
                cases.append(("move", instantiate(sh, iter(ks), [0])))
    # random larger trees incl. reused objects and bad multipliers
    nrand = 1500 if res.tier == "quick" else 20000
    for _ in range(nrand):
        cases.append(("move", rand_tree(rng, rng.randint(1, 12), KINDS)))
    nop = 600 if res.tier == "quick" else 6000
    for _ in range(nop):
        cases.append(("op", rand_tree(rng, rng.randint(1, 9), [0, 1, 2, 3, 4, 5])))
    # python-level multipliers and call order
    special = []
    for py in ("float", "str", "none"):
        for k in ("Disp", "Cell"):
            special.append({"domain": "move", "tree": ["M", ["L", 1, k], {"py": py}], "py": py})
            special.append({"domain": "move", "tree": ["M", ["A", ["L", 1, k], ["L", 2, k]], {"py": py}], "py": py})
        special.append({"domain": "op", "tree": ["M", ["L", 1, 0], {"py": py}], "py": py})
        special.append({"domain": "op", "tree": ["M", ["A", ["L", 1, 0], ["L", 2, 1]], {"py": py}], "py": py})
    calls = [{"domain": "call", "rets": [rng.random() < 0.3 for _ in range(rng.randint(1, 7))]} for _ in range(200)]
    calls += [{"domain": "call", "rets": [False] * n} for n in (1, 2, 5)]

    payload = {"cases": [{"domain": d, "tree": t} for d, t in cases] + special + calls}
    chunks = [payload["cases"][i::16] for i in range(16)]
    outs = C.run_impl_parallel("c17.py", [{"cases": ch} for ch in chunks])
    results = [None] * len(payload["cases"])
    for j, o in enumerate(outs):
        results[j::16] = o["results"]

    # ---- direct oracle on the implementation (the property itself) + correspondence
    coq_cases_m, coq_cases_o = [], []
    stats = {"by_result": {}, "leaves_hist": {}, "domains": {}}
    distinct = set()
    for n, ((dom, t), r) in enumerate(zip(cases, results)):
        enc = encode_impl(r)
        fl = flatten(t)
        stats["domains"][dom] = stats["domains"].get(dom, 0) + 1
        stats["leaves_hist"][len(fl)] = stats["leaves_hist"].get(len(fl), 0) + 1
        key = "error" if enc == [-1] else ("leaf" if enc[0] == -2 else ["plain", "cdisp", "cexch"][enc[0]] if enc[0] < 3 else "composite-operation")
        stats["by_result"][key] = stats["by_result"].get(key, 0) + 1
        if t[0] != "L":
            distinct.add(json.dumps(t))
        bad = has_bad_n(t)
        why = None
        if bad != (enc == [-1]):
            why = f"guard: n<1 present={bad} but result={r}"
        elif not bad and t[0] != "L":
            if enc[1:] != [i for i, _ in fl]:
                why = f"elements {enc[1:]} != flatten {[i for i, _ in fl]}"
            elif dom == "move" and enc[0] != spec_type(fl):
                why = f"type {r.get('type')} but elements' kinds are {[k for _, k in fl]}"
            elif dom == "op" and r.get("type") != "CompositeOperation":
                why = f"type {r.get('type')}"
        if why:
            res.fail(f"{dom}:{classify(t)}", why, {"input": {"domain": dom, "tree": t}, "observed": r})
        if r.get("mutated_operands"):
            res.fail(f"{dom}:operand-modified", f"evaluating the expression changed the elements of {r['mutated_operands']} of its own operands: a composite that is used again afterwards no longer holds "
                     f"exactly its operands' elementary parts", {"input": {"domain": dom, "tree": t}, "observed": r})
        (coq_cases_m if dom == "move" else coq_cases_o).append((n, t, enc if dom == "move" else ([0] + enc[1:] if enc[0] == 9 or (enc[0] >= 0) else enc)))
    for sp, r in zip(special, results[len(cases):len(cases) + len(special)]):
        ok = ("error" in r) if sp["py"] != "rmul" else (r.get("ids") in ([1, 1], [1, 2, 1, 2]))
        if not ok:
            res.fail(f"{sp['domain']}:multiplier-{sp['py']}", f"n={sp['py']} gave {r}", {"input": sp, "observed": r})
    for cl, r in zip(calls, results[len(cases) + len(special):]):
        exp_order = list(range(len(cl["rets"])))
        if r.get("order") != exp_order or r.get("result") != any(cl["rets"]) or r.get("type") != "CompositeMove":
            res.fail("call:plain-call", f"rets={cl['rets']} gave {r}", {"input": cl, "observed": r})

    # ---- Coq evaluates the model on the same trees and reports the disagreeing case numbers
    hdr = "From QV Require Import Model.Algebra.\n"
    disagree = []
    per = 1500
    jobs = []
    for tag, cs, f, op in (("m", coq_cases_m, "(fun e => encode (eval false e))", False),
                           ("o", coq_cases_o, "(fun e => oencode (oeval e))", True)):
        for k in range(0, len(cs), per):
            items = "; ".join(f"({n}%nat, {coq_expr(t, op)}, {C.zlist(enc)})" for n, t, enc in cs[k:k + per])
            jobs.append(f"Definition r := Eval vm_compute in (disagreements {f} [{items}]).\nPrint r.")
    from concurrent.futures import ThreadPoolExecutor

    def one(idx_job):
        idx, job = idx_job
        f = res.workdir / f"cases_{idx}.v"
        f.write_text(hdr + job + "\n")
        return C.run_coq_file(f)

    with ThreadPoolExecutor(16) as ex:
        for rc, out, err in ex.map(one, enumerate(jobs)):
            if rc != 0:
                res.broken("correspondence:coq-evaluation", err[-1500:])
                continue
            body = out.split("=", 1)[1].rsplit(":", 1)[0] if "=" in out else ""
            disagree += C.parse_nat_list(body)
    for n in disagree[:20]:
        dom, t = cases[n]
        res.broken("correspondence:Algebra.eval", {"case": n, "tree": t, "impl": results[n]})
    res.coverage.update(
        evaluations=len(payload["cases"]), distinct_nontrivial=len(distinct),
        rule="every expression shape up to the size bound over the kinds (exhaustive part) + all parenthesisations of 5/6 "
             "leaves + random trees up to 12 leaves with reused objects and n in {-1,0,1,2,3}; non-trivial = distinct "
             "tree that is not a bare leaf",
        exhaustive_part={"max_size": max_size, "kinds": kinds_ex, "trees": exhaustive},
        correspondence={"flavour": "functional", "cases": len(cases), "disagreed": len(disagree),
                        "agreed": len(cases) - len(disagree), "model": "Algebra.eval false / Algebra.oeval"},
        direct_oracle={"evaluations": len(payload["cases"]), "failures": len(res.failures)},
        input_distribution=stats)
    res.samples += [{"tree": cases[i][1], "impl": results[i]} for i in (0, len(cases) // 3, len(cases) // 2, len(cases) - 1)]
    res.assumptions += ["leaf classes used: DisplacementMove, ExchangeMove (every other leaf object: an empty user subclass of these), CellMove, HamiltonianDisplacementMove, a user "
                        "subclass of BaseMove; bare protocol objects (no BaseMove) define no + and are out of scope",
                        "non-integer multipliers are checked on the implementation only (the model's n is a Z)"]
