"""C13 — force-bias step: Model/ForceBias.v (gamma_of, P, fbloop, disp, scale_of), Props/C13.v.
Tie: scripted generator through the public step(); every (zeta,u) verdict of the predicted trajectory is certified inside Coq
by interval arithmetic on the model's P, the rejection-loop bookkeeping is run by vm_compute on the certified verdict table and
compared with the draws the implementation consumed and the zeta it ended with; gamma and the displacement are compared
numerically inside Coq.  Search: real generator - bound, exactly-once, termination for huge forces, KS of zeta against the proved
CDF, mass on the force side."""
from __future__ import annotations

import math
import random
import re

import common as C

ULP = 2.0 ** -52
KB = 8.617330337217213e-05
GMAX = 709.782712


def pfloat(z, g):
    """python mirror of Model.ForceBias.P (only used to place u and to predict the trajectory; Coq certifies every entry)"""
    if g == 0:
        return 1.0
    s = (z > 0) - (z < 0)
    den = math.exp(g) - math.exp(-g)
    if den == 0:
        return 1.0
    return s * (math.exp(s * g) - math.exp(g * (2 * z - s))) / den


def phi(x):
    """expm1(x) - x without cancellation"""
    if abs(x) < 1e-2:
        return x * x / 2 * (1 + x / 3 * (1 + x / 4 * (1 + x / 5 * (1 + x / 6 * (1 + x / 7)))))
    return math.expm1(x) - x


def cdf(g, z):
    """CDF of the accepted zeta; the closed form of ForceBiasIntegral.cdf, written overflow- and cancellation-free
    (cross-checked against the Coq definition by interval arithmetic at sample points on every run)"""
    if g < 0:
        return 1.0 - cdf(-g, -z)
    if g == 0:
        return (z + 1) / 2
    e2 = math.exp(-2 * g)
    norm = -math.expm1(-2 * g)

    def e2phi(x):   # exp(-2g) * (expm1(x) - x), overflow-free for x <= 2g
        return math.exp(x - 2 * g) - e2 * (1 + x) if x > 30 else e2 * phi(x)

    if z <= 0:
        v = e2phi(2 * g * (z + 1)) / (2 * g)
    else:
        v = e2phi(2 * g) / (2 * g) + z * norm - e2phi(2 * g * z) / (2 * g)
    return v / norm


def mass_along(g):
    g = abs(g)
    return 1.0 - cdf(g, 0.0)


SPECIES = [("H", 1.008), ("C", 12.011), ("Ar", 39.948), ("Au", 196.96657), ("Li", 6.94)]


def gen_case(rng, k, tight=True):
    n = rng.choice([1, 1, 2, 3])
    sp = [rng.choice(SPECIES) for _ in range(n)]
    T = rng.choice([1.0, 50.0, 300.0, 1000.0, 5000.0])
    dscalar = rng.choice([0.01, 0.05, 0.1, 0.5, 1.0])
    per_coord = rng.random() < 0.3
    delta = [[rng.choice([0.01, 0.05, 0.1, 0.3]) for _ in range(3)] for _ in range(n)] if per_coord else dscalar
    pw_kind = rng.choice(["float", "float", "dict", "array"])
    if pw_kind == "float":
        power = rng.choice([0.25, 0.25, 0.0, 0.5, 1.0, 2.0, -0.5])
    elif pw_kind == "dict":
        power = {s: rng.choice([0.0, 0.25, 0.5, 1.0]) for s, _ in set(sp) if rng.random() < 0.7}
    else:
        power = [[rng.choice([0.0, 0.25, 0.5, 1.0]) for _ in range(3)] for _ in range(n)]
    forces = []
    for i in range(n):
        row = []
        for j in range(3):
            d = delta[i][j] if per_coord else dscalar
            kind = rng.choice(["zero", "tiny", "mod", "mod", "mod", "big", "huge"])
            sgn = rng.choice([-1, 1])
            if kind == "zero":
                f = 0.0
            elif kind == "tiny":   # far below 1 but far above rounding level: the density is the triangular limit, not uniform
                g = sgn * rng.choice([1e-12, 1e-9, 1e-7, 1e-5, 1e-3])
                f = g * 2 * T * KB / d
            elif kind == "mod":
                g = sgn * rng.choice([0.01, 0.1, 0.5, 1.0, 3.0, 10.0, 50.0]) * rng.uniform(0.5, 1.5)
                f = g * 2 * T * KB / d
            elif kind == "big":
                g = sgn * rng.uniform(300, 700)
                f = g * 2 * T * KB / d
            else:
                f = sgn * rng.choice([1e6, 1e30, 1e200, 1e308])
            row.append(f)
        forces.append(row)
    pos = [[rng.randint(-8, 8) / 4 for _ in range(3)] for _ in range(n)]
    c = {"natoms": n, "symbols": [s for s, _ in sp], "masses": [m * rng.choice([1.0, 1.0, 2.5]) for _, m in sp], "T": T, "delta": delta,
         "power": power, "forces": forces, "positions": pos, "mode": "scripted",
         "late_masses": rng.choice([None, None, "before_power", "after_power", "foreign"])}
    return c


def gamma_float(f, d, T):
    x = f * d / (2 * T * KB)
    return max(-GMAX, min(x, GMAX))


def plan_script(rng, c):
    """simulate the loop with the float mirror, choosing zetas and u's; returns script, entries, final zeta positions"""
    n3 = 3 * c["natoms"]
    D = c["delta"]
    gam = []
    for i in range(c["natoms"]):
        for j in range(3):
            d = D[i][j] if isinstance(D, list) else D
            gam.append(gamma_float(c["forces"][i][j], d, c["T"]))
    script, entries = [], []
    used = set()

    def new_t():
        while True:
            t = rng.randint(1, 2 ** 20 - 1) / 2 ** 20
            if t not in used and abs(2 * t - 1) <= 0.99 and t != 0.5:
                used.add(t)
                return t

    active = list(range(n3))
    cur = [None] * n3
    rounds = 0
    while active:
        rounds += 1
        base = len(script)
        k = len(active)
        zs, us = [], []
        for idx, co in enumerate(active):
            t = new_t()
            if rounds == 1 and rng.random() < 0.03:
                t = 0.5  # zeta = 0 exactly
            z = -1 + 2 * t
            p = pfloat(z, gam[co])
            want = rng.random() < (0.55 if rounds < 4 else 1.0)
            ag = abs(gam[co])
            rel = rng.choice([1e-6, 1e-3, 0.3]) if ag >= 0.01 else rng.choice([1e-3, 0.3]) if ag >= 1e-8 else 0.3
            if gam[co] == 0 or (z == 0) or p < 1e-290:
                u = rng.uniform(0.01, 0.99)   # (P underflows in floating point: any u of ordinary size rejects, in R as well)
            elif want and p > 1e-300:
                u = p * (1 - rel)
            elif (not want) and p * (1 + rel) < 1:
                u = p * (1 + rel)
            else:
                u = p * (1 - rel) if p > 1e-300 else rng.random()
            u = min(max(u, 0.0), 1 - 2 ** -53)
            zs.append(t)
            us.append(u)
        script += zs + us
        nxt = []
        for idx, co in enumerate(active):
            z = -1 + 2 * zs[idx]
            p = pfloat(z, gam[co])
            v = p > us[idx]
            entries.append({"coord": co, "zp": base + idx, "up": base + k + idx, "z": z, "u": us[idx], "verdict": v, "g": gam[co]})
            cur[co] = base + idx
            if not v:
                nxt.append(co)
        active = nxt
        if rounds > 12:
            raise RuntimeError("planner: too many rounds")
    return script, entries, cur, gam, rounds


HDR = """From QV Require Import Model.ForceBias Proofs.ForceBiasProofs Proofs.ForceBiasIntegral Gen.Constants.
From Coq Require Import Lra List. Import ListNotations.
From Interval Require Import Tactic.
Open Scope R_scope.
Ltac ivl := unfold den, fbmc_kB, gamma_max; interval with (i_prec 64).
Ltac gnz := first [apply Rgt_not_eq; ivl | apply Rlt_not_eq; ivl].
Ltac gamma_eq F d T br :=
  match br with
  | 0%nat => assert (gamma_of fbmc_kB gamma_max F d T = F * d / (2 * T * fbmc_kB)) by (unfold gamma_of; apply clip_mid; unfold fbmc_kB, gamma_max; split; interval with (i_prec 64))
  | 1%nat => assert (gamma_of fbmc_kB gamma_max F d T = gamma_max) by (unfold gamma_of; apply clip_hi; unfold fbmc_kB, gamma_max; interval with (i_prec 64))
  | 2%nat => assert (gamma_of fbmc_kB gamma_max F d T = - gamma_max) by (unfold gamma_of; apply clip_lo; unfold fbmc_kB, gamma_max; interval with (i_prec 64))
  | 3%nat => assert (gamma_of fbmc_kB gamma_max F d T = 0) by (unfold gamma_of; replace (F * d / (2 * T * fbmc_kB)) with 0 by (unfold Rdiv; ring); apply clip_mid; unfold gamma_max; lra)
  end.
Ltac unfoldP := first [ rewrite P_at_zero_force | rewrite P_zero_zeta by gnz | rewrite P_plus by (first [gnz | lra]) | rewrite P_minus by (first [gnz | lra]) ].
Ltac fb_entry n F d T br z u :=
  let g := constr:(gamma_of fbmc_kB gamma_max F d T) in
  first [ gamma_eq F d T br;
          match goal with H : gamma_of _ _ F d T = _ |- _ =>
            first [ assert (P z g > u) by (rewrite H; unfoldP; first [lra | ivl]); idtac "CASE" n "ACCEPT"
                  | assert (P z g <= u) by (rewrite H; unfoldP; first [lra | ivl]); idtac "CASE" n "REJECT"
                  | idtac "CASE" n "UNDECIDED" ]; clear H
          end
        | idtac "CASE" n "UNDECIDED" ].
Ltac gamma_close n F d T br impl tol :=
  first [ gamma_eq F d T br;
          match goal with H : gamma_of _ _ F d T = _ |- _ =>
            first [ assert (Rabs (gamma_of fbmc_kB gamma_max F d T - impl) <= tol) by (rewrite H; ivl); idtac "CASE" n "CLOSE"
                  | assert (tol < Rabs (gamma_of fbmc_kB gamma_max F d T - impl)) by (rewrite H; ivl); idtac "CASE" n "FAR"
                  | idtac "CASE" n "UNDECIDED" ]; clear H
          end
        | idtac "CASE" n "UNDECIDED" ].
Ltac disp_close n z d mmin m p impl tol :=
  first [ assert (Rabs (disp z d (scale_of mmin m p) - impl) <= tol) by (unfold disp, scale_of, Rpower; interval with (i_prec 64)); idtac "CASE" n "CLOSE"
        | assert (tol < Rabs (disp z d (scale_of mmin m p) - impl)) by (unfold disp, scale_of, Rpower; interval with (i_prec 64)); idtac "CASE" n "FAR"
        | idtac "CASE" n "UNDECIDED" ].
Ltac cdf_close n g z v tol :=
  first [ assert (Rabs (cdf g z - v) <= tol) by (unfold cdf; destruct (Rle_dec z 0); [|exfalso; lra]; unfold Fm, Fp, den; interval with (i_prec 160)); idtac "CASE" n "CLOSE"
        | assert (Rabs (cdf g z - v) <= tol) by (unfold cdf; destruct (Rle_dec z 0); [exfalso; lra|]; unfold Fm, Fp, den; interval with (i_prec 160)); idtac "CASE" n "CLOSE"
        | idtac "CASE" n "FAR-OR-UNDECIDED" ].
(* bookkeeping of the loop on a certified verdict table: accepted (zeta position, u position) pairs *)
Definition tblv (acc : list (nat * nat)) (zp up : nat) : bool := existsb (fun e => Nat.eqb (fst e) zp && Nat.eqb (snd e) up) acc.
Definition chk (n : nat) (acc : list (nat * nat)) (zpos : list nat) (consumed : nat) : bool :=
  match fbstep 16 n (tblv acc) with
  | Some (slots, c) => Nat.eqb c consumed && (if list_eq_dec Nat.eq_dec (map fst slots) zpos then true else false)
  | None => false
  end.
"""


def fl_(x):
    return float.fromhex(x) if isinstance(x, str) else float(x)


def branch(f, d, T):
    if f == 0:
        return 3
    x = f * d / (2 * T * KB)
    return 1 if x >= GMAX else 2 if x <= -GMAX else 0


def run(res: C.Result):
    rng = random.Random(res.seed)
    C.prove(res, extra_tb=["Coq-Interval `interval with (i_prec 64)` certifies each (zeta,u) verdict, gamma and displacement of the correspondence",
                           "numpy Generator trusted to sample the requested laws Uniform(-1,1) and Uniform[0,1)"])
    quick = res.tier == "quick"
    ncases = 120 if quick else 2400
    cases, plans = [], []
    for k in range(ncases):
        c = gen_case(rng, k)
        script, entries, cur, gam, rounds = plan_script(rng, c)
        c["script"] = script
        cases.append(c)
        plans.append((entries, cur, gam, rounds))
    for i, c in enumerate(cases):
        if random.Random(res.seed ^ 0x13C000 ^ i).random() < 0.4:
            c["late_T"] = True       # built at another temperature, re-tuned through the public attribute before use (annealing)
    outs = C.run_impl_parallel("c13.py", [{"cases": cases[i::16]} for i in range(16)])
    results = [None] * ncases
    for j, o in enumerate(outs):
        results[j::16] = o["results"]

    coq_files, meta = [], []  # one Goal per case; meta: (case, kind, payload)
    dist = {"atoms": {}, "rounds": {}, "late_masses": {}, "gamma_class": {"zero": 0, "tiny(<=1e-3)": 0, "lt1": 0, "1to50": 0, "gt50": 0, "clipped": 0}, "entries": 0,
            "accept_entries": 0, "reject_entries": 0, "margin": {}, "power_kind": {}, "per_coordinate_delta": 0}
    eid = 0
    chk_lines = []
    for k, (c, r, (entries, cur, gam, rounds)) in enumerate(zip(cases, results, plans)):
        dist["atoms"][c["natoms"]] = dist["atoms"].get(c["natoms"], 0) + 1
        dist["rounds"][rounds] = dist["rounds"].get(rounds, 0) + 1
        dist["power_kind"][type(c["power"]).__name__] = dist["power_kind"].get(type(c["power"]).__name__, 0) + 1
        dist["per_coordinate_delta"] += isinstance(c["delta"], list)
        dist["late_masses"][str(c.get("late_masses"))] = dist["late_masses"].get(str(c.get("late_masses")), 0) + 1
        for g in gam:
            a = abs(g)
            key = "zero" if a == 0 else "clipped" if a >= GMAX else "tiny(<=1e-3)" if a <= 1.5e-3 else "lt1" if a < 1 else "1to50" if a <= 50 else "gt50"
            dist["gamma_class"][key] += 1
        if "exception" in r:
            res.fail("exception", f"step() raised {r['exception']}: {r['message']}", {"input": c, "observed": r})
            continue
        n3 = 3 * c["natoms"]
        D = c["delta"]
        dl = [D[i][j] if isinstance(D, list) else D for i in range(c["natoms"]) for j in range(3)]
        fl_ = [c["forces"][i][j] for i in range(c["natoms"]) for j in range(3)]
        ms = [c["masses"][i] for i in range(c["natoms"]) for _ in range(3)]
        pw = [float.fromhex(x) for x in r["power"]]
        zeta = [float.fromhex(x) for x in r["zeta"]]
        dx = [float.fromhex(x) for x in r["dx"]]
        gimpl = [float.fromhex(x) for x in r["gamma"]]
        mmin = min(c["masses"])
        # ---- direct oracle: bound, exactly once, draws
        for co in range(n3):
            bound = dl[co] * (mmin / ms[co]) ** pw[co]
            posmag = abs(c["positions"][co // 3][co % 3])
            if abs(dx[co]) > bound * (1 + 8 * ULP) + 4 * ULP * posmag:
                res.fail("bound", f"|dx|={abs(dx[co])!r} exceeds delta*(m_min/m)^p={bound!r}", {"input": c, "coord": co, "observed": r})
            exp_dx = zeta[co] * bound
            if abs(dx[co] - exp_dx) > 16 * ULP * (abs(exp_dx) + posmag) + 1e-300:
                res.fail("advance-once", f"position change {dx[co]!r} is not zeta*delta*scale = {exp_dx!r} applied once",
                         {"input": c, "coord": co, "observed": r})
            if abs(zeta[co]) > 1:
                res.fail("bound", f"|zeta| = {abs(zeta[co])!r} > 1", {"input": c, "coord": co})
        # ---- correspondence
        lines = []
        for e in entries:
            co = e["coord"]
            lines.append(f"fb_entry {eid}%nat {C.rlit(fl_[co])} {C.rlit(dl[co])} {C.rlit(c['T'])} {branch(fl_[co], dl[co], c['T'])}%nat {C.rlit(e['z'])} {C.rlit(e['u'])}.")
            meta.append((k, "entry", e))
            dist["entries"] += 1
            dist["accept_entries" if e["verdict"] else "reject_entries"] += 1
            eid += 1
        for co in range(n3):
            tol = 64 * ULP * max(abs(gimpl[co]), 1e-300)
            lines.append(f"gamma_close {eid}%nat {C.rlit(fl_[co])} {C.rlit(dl[co])} {C.rlit(c['T'])} {branch(fl_[co], dl[co], c['T'])}%nat {C.rlit(gimpl[co])} {C.rlit(tol)}.")
            meta.append((k, "gamma", co))
            eid += 1
            posmag = abs(c["positions"][co // 3][co % 3])
            tol = 64 * ULP * (abs(dx[co]) + posmag) + 1e-300
            zmodel = -1 + 2 * c["script"][cur[co]]
            lines.append(f"disp_close {eid}%nat {C.rlit(zmodel)} {C.rlit(dl[co])} {C.rlit(mmin)} {C.rlit(ms[co])} {C.rlit(pw[co])} {C.rlit(dx[co])} {C.rlit(tol)}.")
            meta.append((k, "disp", co))
            eid += 1
        coq_files.append("Goal True.\n" + "\n".join(lines) + "\nexact I. Qed.")
        # bookkeeping: impl's final zeta -> stream position (script values are distinct)
        zpos_impl = []
        for co in range(n3):
            t = (zeta[co] + 1) / 2
            cand = [i for i, s in enumerate(c["script"]) if s == t]
            # (the same value can occur twice in a script - e.g. two coordinates planned with zeta = 0: any position holding the value explains the observation)
            want_zp = next((e["zp"] for e in entries if e["verdict"] and e["coord"] == co), None)
            zpos_impl.append(want_zp if want_zp in cand else (cand[0] if cand else 99999))
        acc = [(e["zp"], e["up"]) for e in entries if e["verdict"]]
        chk_lines.append((k, f"Eval vm_compute in ({k}%nat, chk {n3} [" + "; ".join(f"({a},{b})" for a, b in acc) + "]%nat " +
                          C.natlist(zpos_impl) + f" {r['consumed']}%nat)."))
    got = C.run_coq_cases(res.workdir, HDR, coq_files, per_file=max(1, len(coq_files) // 32), tag="c13", timeout=1500)
    if -1 in got:
        res.broken("correspondence:coq-evaluation", got[-1][:1500])
    # certified verdict tables
    bad_cases, undecided_cases = set(), set()
    agree = dis = undec = 0
    for j, (k, kind, pl) in enumerate(meta):
        g = got.get(j)
        if kind == "entry":
            want = "ACCEPT" if pl["verdict"] else "REJECT"
            if g == want:
                agree += 1
            else:
                undec += 1
                undecided_cases.add(k)  # float mirror and Coq disagree on an entry: the trajectory is not certified
                if len(res.notes) < 12:
                    res.notes.append({"uncertified_entry": {x: pl[x] for x in ("z", "u", "verdict", "g")}, "coq": g})
        else:
            if g == "CLOSE":
                agree += 1
            elif g == "FAR":
                dis += 1
                if dis <= 6:
                    res.broken(f"correspondence:ForceBias.{ 'gamma_of' if kind == 'gamma' else 'disp/scale_of'}",
                               {"case": {x: cases[k][x] for x in ("T", "delta", "power", "forces", "masses")}, "coord": pl,
                                "impl": results[k]["gamma" if kind == "gamma" else "dx"][pl]})
            else:
                undec += 1
    # loop bookkeeping by vm_compute
    rc, out, err = C.run_coq_file(_write(res.workdir / "c13_chk.v", HDR + "\n".join(l for _, l in chk_lines) + "\n"), 900)
    if rc != 0:
        res.broken("correspondence:coq-evaluation(bookkeeping)", err[-1500:])
    verd = {int(a): b == "true" for a, b in re.findall(r"=\s*\((\d+)(?:%nat)?,\s*(true|false)\)", out)}
    book_ok = book_bad = 0
    for k, _ in chk_lines:
        if k in undecided_cases:
            continue
        if verd.get(k):
            book_ok += 1
        else:
            book_bad += 1
            if book_bad <= 6:
                res.broken("correspondence:ForceBias.fbloop(draw bookkeeping)",
                           {"case": {x: cases[k][x] for x in ("natoms", "T", "delta", "forces")}, "script": cases[k]["script"],
                            "impl_consumed": results[k]["consumed"], "impl_zeta": results[k]["zeta"], "impl_calls": results[k]["calls"],
                            "model_entries": plans[k][0]})
    if undec > max(5, len(meta) // 20):
        res.broken("correspondence:too-many-undecided", {"undecided": undec, "of": len(meta)})

    # ---------------- search with the real generator: bound / termination / density
    stats = real_runs(res, rng, quick)
    res.coverage.update(
        evaluations=len(meta) + len(chk_lines) + stats["real_steps"], distinct_nontrivial=len({(round(m[2]["g"], 9), m[2]["z"], m[2]["u"]) for m in meta if m[1] == "entry"}),
        rule="scripted (zeta,u) streams through the public step(): forces zero / moderate (|gamma| 0.005..75) / near the clip / far beyond it "
             "(1e6..1e308), scalar and per-coordinate delta, 5 temperatures, 1-3 atoms of mixed masses, float/dict/array mass-scaling powers; "
             "u placed 1e-6, 1e-3 or 0.3 (relative) from the model's P; non-trivial = distinct (gamma, zeta, u) verdict entries; plus real-generator runs",
        correspondence={"flavour": "functional: verdict entries certified by interval arithmetic on Model.ForceBias.P, loop bookkeeping by vm_compute "
                                   "(fbstep) vs draws consumed and final zeta, gamma and displacement within 64 ulp",
                        "cases": len(chk_lines), "certified_checks": agree, "disagreed": dis + book_bad, "undecided": undec,
                        "bookkeeping_agreed": book_ok, "cases_excluded_as_uncertified": len(undecided_cases)},
        direct_oracle={"evaluations": len(chk_lines) + stats["real_steps"], "failures": len(res.failures)},
        input_distribution=dist, statistical=stats["tests"])
    res.samples += [{"case": {x: cases[i][x] for x in ("natoms", "T", "delta", "power", "forces")}, "script": cases[i]["script"][:8],
                     "impl": {x: results[i].get(x) for x in ("consumed", "zeta", "dx")}} for i in (0, 1)]
    res.assumptions += ["density clause tied for |gamma| >= 1e-12 (margins 0.3 below 1e-8, where the float value of P carries a relative error ~1e-16/|gamma|) or exactly 0; the KS search goes down to |gamma| = 1e-11; smaller non-zero forces are run for bound/termination only",
                        "float/real gap: u is placed at relative distance >= 1e-6 from P; zeta is kept within |zeta| <= 0.99 for tight margins"]


def _write(path, text):
    path.write_text(text)
    return path


def ks_stat(sorted_z, g):
    n = len(sorted_z)
    d = 0.0
    for i, z in enumerate(sorted_z):
        f = cdf(g, z)
        d = max(d, abs(f - i / n), abs((i + 1) / n - f))
    return d


def real_runs(res, rng, quick):
    tests = []
    real_steps = 0
    # (a) bound / termination / exactly-once with extreme and tiny forces
    cases = []
    for k in range(24 if quick else 300):
        c = gen_case(rng, k)
        for i in range(c["natoms"]):
            for j in range(3):
                if rng.random() < 0.4:
                    c["forces"][i][j] = rng.choice([-1, 1]) * rng.choice([1e-300, 1e-20, 1e-12, 1e-6, 1e100, 1.7e308])
        c.update(mode="real", steps=6 if quick else 20, seed=rng.randint(0, 2 ** 31), keep=True)
        if k % 3 == 0:
            # an outside change between two steps: the calculator is exchanged for one with other forces; the next step must follow ITS forces
            c["swap"] = {"after": rng.randint(0, c["steps"] - 2), "forces": [[rng.choice([-1, 1]) * rng.choice([0.5, 3.0, 40.0]) for _ in range(3)] for _ in range(c["natoms"])]}
        cases.append(c)
    outs = C.run_impl_parallel("c13.py", [{"cases": cases[i::16]} for i in range(16)], timeout=600)
    results = [None] * len(cases)
    for j, o in enumerate(outs):
        results[j::16] = o["results"]
    for c, r in zip(cases, results):
        if "exception" in r:
            res.fail("exception", f"step() raised {r['exception']}: {r['message']}", {"input": c, "observed": r})
            continue
        real_steps += r["steps"]
        D = c["delta"]
        for s_, gs in enumerate(r.get("gamma_steps") or []):
            F = c["swap"]["forces"] if c.get("swap") and s_ > c["swap"]["after"] else c["forces"]
            for co in range(3 * c["natoms"]):
                d_ = D[co // 3][co % 3] if isinstance(D, list) else D
                x = fl_(F[co // 3][co % 3]) * d_ / (2 * c["T"] * KB)
                want = max(-GMAX, min(GMAX, x))
                got_g = float.fromhex(gs[co])
                if abs(got_g - want) > 1e-9 * max(1.0, abs(want)):
                    res.fail("density:force-of-another-configuration", f"step {s_}: coordinate {co} used gamma={got_g!r} but the force acting NOW gives {want!r}"
                             + (" (the calculator was exchanged after step %d)" % c["swap"]["after"] if c.get("swap") else ""), {"input": c, "step": s_, "coord": co})
                    break
        mmin = min(c["masses"])
        pw = [float.fromhex(x) for x in r["power"]]
        for s in range(r["steps"]):
            for co in range(3 * c["natoms"]):
                d = D[co // 3][co % 3] if isinstance(D, list) else D
                bound = d * (mmin / c["masses"][co // 3]) ** pw[co]
                dx = float.fromhex(r["dx"][s][co])
                z = float.fromhex(r["zeta"][s][co])
                if abs(dx) > bound * (1 + 8 * ULP) + 1e-13:
                    res.fail("bound", f"|dx|={abs(dx)!r} exceeds {bound!r}", {"input": c, "step": s, "coord": co})
                if abs(dx - z * bound) > 1e-12 * (1 + abs(bound)):
                    res.fail("advance-once", f"dx={dx!r} is not zeta*delta*scale={z * bound!r}", {"input": c, "step": s, "coord": co})
    # (b) density: KS against the proved CDF + mass on the force side
    gammas = [1.0, -5.0, 4e-9] if quick else [1e-11, -4e-9, 1e-6, 0.01, -0.1, 1.0, -1.0, 5.0, -5.0, 50.0, -50.0, 709.782712, -2000.0]
    T, d = 300.0, 0.1
    sample_points = []
    for g in gammas:
        n_atoms, steps = (1500, 12) if quick else (2000, 34)
        verdict, info = None, None
        for stage in (1, 2):
            c = {"natoms": n_atoms, "symbols": ["Ar"] * n_atoms, "masses": [39.948] * n_atoms, "T": T, "delta": d, "power": 0.25,
                 "forces": [[g * 2 * T * KB / d] * 3] * n_atoms, "positions": [[0.0, 0.0, 0.0]] * n_atoms, "mode": "real",
                 "steps": steps * (1 if stage == 1 else 4), "seed": rng.randint(0, 2 ** 31), "keep": False}
            r = C.run_impl("c13.py", {"cases": [c]}, timeout=1500)["results"][0]
            if "exception" in r:
                res.fail("exception", f"{r['exception']}: {r['message']}", {"input": {"gamma": g}, "observed": r})
                break
            real_steps += r["steps"]
            zs = r["zs"]
            n = len(zs)
            geff = max(-GMAX, min(g, GMAX))
            D = ks_stat(zs, geff)
            stat = D * math.sqrt(n)
            frac_along = r["zstats"]["frac_pos"] if geff > 0 else 1 - r["zstats"]["frac_pos"]
            expect = mass_along(geff)
            zscore = (frac_along - expect) / math.sqrt(expect * (1 - expect) / n)
            info = {"test": "KS(zeta ~ proved CDF) and mass on the force side", "gamma": g, "n": n, "ks_sqrt_n": round(stat, 3),
                    "threshold": 3.0, "frac_along_force": frac_along, "expected": expect, "z": round(zscore, 2), "z_threshold": 6.5, "stage": stage}
            if stat <= 3.0 and abs(zscore) <= 6.5:
                verdict = "ok"
                break
            verdict = "suspect"
        if info:
            info["verdict"] = verdict if verdict == "ok" else "violation(confirmed)"
            tests.append(info)
            if verdict == "suspect":
                res.fail("density", f"zeta does not follow the Bal-Neyts density at gamma={g}: KS*sqrt(n)={info['ks_sqrt_n']}, mass along force "
                         f"{info['frac_along_force']:.4f} vs {info['expected']:.4f} (confirmed with 4x samples)", {"input": {"gamma": g, "T": T, "delta": d}, "observed": info})
            for z in (-0.7, -0.2, 0.3, 0.8):
                sample_points.append((max(-GMAX, min(g, GMAX)), z))
    # monotone favouring (direct, on the implementation's empirical masses)
    by = sorted((abs(t["gamma"]), t["frac_along_force"]) for t in tests if abs(t["gamma"]) <= GMAX)
    for (g1, f1), (g2, f2) in zip(by, by[1:]):
        if g2 > g1 * 1.5 and f2 < f1 - 0.02:
            res.fail("density", f"mass along the force decreases with |gamma|: {g1}->{f1:.3f}, {g2}->{f2:.3f}", {"input": {"gammas": [g1, g2]}, "observed": [f1, f2]})
    # cross-certify the python CDF against the Coq antiderivative at sample points
    lines = [f"cdf_close {i}%nat {C.rlit(g)} {C.rlit(z)} {C.rlit(cdf(g, z))} (1/1000000000)." for i, (g, z) in enumerate(sample_points)]
    got = C.run_coq_cases(res.workdir, HDR, ["Goal True.\n" + "\n".join(lines) + "\nexact I. Qed."], per_file=1, tag="c13cdf")
    okc = sum(1 for i in range(len(lines)) if got.get(i) == "CLOSE")
    tests.append({"test": "python CDF vs Coq ForceBiasIntegral.cdf (interval)", "points": len(lines), "certified": okc})
    if okc < len(lines):
        res.broken("oracle:cdf-cross-check", {"certified": okc, "of": len(lines), "raw": {i: got.get(i) for i in range(len(lines))}})
    return {"tests": tests, "real_steps": real_steps}


def replay(res: C.Result, path):
    import json
    d = json.loads(open(path).read())
    c = d.get("input")
    if not c or "forces" not in c:
        print("replay: not a step() case; re-running the check")
        run(res)
        return res.finish("proof")
    r = C.run_impl("c13.py", {"cases": [c]})["results"][0]
    print(json.dumps({"input": c, "observed_now": r}, indent=1)[:4000])
    return 0
