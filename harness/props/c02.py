"""C02 — acceptance rules: Model/Criteria.v over R, theorems Props/C02.v, per-case decisions by `interval`."""
from __future__ import annotations

import random
from decimal import Decimal, getcontext
from fractions import Fraction

import numpy as np

import common as C
import translate

getcontext().prec = 60


def D(x):
    fr = Fraction(x)
    return Decimal(fr.numerator) / Decimal(fr.denominator)


def dy(rng, lo, hi, bits=20):
    """a dyadic rational float in [lo, hi] (exact in binary, so sums/differences of a few of them are exact)"""
    k = rng.randint(int(lo * 2**bits), int(hi * 2**bits))
    return k / 2**bits


def rand_cell(rng, sheared):
    a = np.diag([dy(rng, 3, 6, 8), dy(rng, 3, 6, 8), dy(rng, 3, 6, 8)])
    if sheared:
        for (i, j) in ((0, 1), (0, 2), (1, 2), (1, 0)):
            if rng.random() < 0.7:
                a[i, j] = dy(rng, -1, 1, 8)
    return a


def det(m):
    m = [[Fraction(x) for x in row] for row in m]
    return (m[0][0] * (m[1][1] * m[2][2] - m[1][2] * m[2][1]) - m[0][1] * (m[1][0] * m[2][2] - m[1][2] * m[2][0])
            + m[0][2] * (m[1][0] * m[2][1] - m[1][1] * m[2][0]))


def gen_case(rng, k, consts):
    kind = ["can", "ham", "iso", "tens", "gc"][k % 5]
    extreme = rng.random() < 0.15
    T = rng.choice([1.0, 10.0, 77.0, 300.0, 1000.0, 5000.0])
    kT = consts["kB"] * T
    c = {"crit": kind, "T": T, "warm": rng.random() < 0.6, "natoms": rng.choice([0, 1, 2, 5, 12]) if kind != "ham" else rng.choice([1, 2, 5]),
         "E_old": dy(rng, -50, 50), "extreme": extreme}
    scale = rng.choice([0.3, 1.0, 3.0, 8.0, 25.0]) * kT
    if extreme:
        scale = rng.choice([1e3, 1e5, 1e7]) * kT
    c["E_new"] = c["E_old"] + round(rng.uniform(-1, 1) * scale * 2**30) / 2**30
    if kind == "ham":
        n = c["natoms"]
        c["momenta"] = [[dy(rng, -2, 2, 10) for _ in range(3)] for _ in range(n)]
        c["K_old"] = dy(rng, 0, 1.0) * (1 if not extreme else 1)
    if kind in ("iso", "tens"):
        sheared = rng.random() < 0.6
        old = rand_cell(rng, sheared)
        # new cell = old deformed a little (or a lot)
        f = np.eye(3) + np.array([[dy(rng, -0.08, 0.08, 10) if (rng.random() < 0.6 or i == j) else 0.0 for j in range(3)] for i in range(3)])
        new = np.array([[float(x) for x in row] for row in (f @ old)])
        if det(new) <= 0 or det(old) <= 0:
            new, old = np.eye(3) * 5.0, np.eye(3) * 4.0
        if rng.random() < 0.2:
            # a left-handed set of cell vectors (negative determinant, positive volume) is a legal ASE cell: swap two vectors of both cells
            old, new = old[[1, 0, 2]], new[[1, 0, 2]]
            c["left_handed"] = True
        c["cell_old"], c["cell_new"] = old.tolist(), new.tolist()
        c["P"] = rng.choice([0.0, dy(rng, -0.02, 0.05, 16), dy(rng, 0, 0.5, 10)])
    if kind == "tens":
        mode = rng.choice(["hydro", "hydro", "general", "nonsym", "nonsym", "zero"])
        if mode == "hydro":
            S = (np.eye(3) * c["P"]).tolist()
        elif mode == "zero":
            S = np.zeros((3, 3)).tolist()
        elif mode == "nonsym":   # "all external stress tensors": not necessarily symmetric
            S = [[dy(rng, -0.03, 0.03, 14) for _ in range(3)] for _ in range(3)]
        else:
            m = np.array([[dy(rng, -0.03, 0.03, 14) for _ in range(3)] for _ in range(3)])
            S = ((m + m.T) / 2).tolist()
        c["S"], c["stress_mode"] = S, mode
    if kind == "gc":
        c["species"] = rng.choice(["Ar", "H", "H2", "CO2", "Xe"])
        c["delta"] = rng.choice([1, 1, -1, -1, 2, -2])
        c["N"] = rng.choice([0, 1, 2, 5, 50]) + (max(0, -c["delta"]))
        c["V"] = rng.choice([125.0, 1000.0, 27000.0, dy(rng, 50, 5000, 4)])
        c["mu"] = dy(rng, -0.6, 0.1, 16)
        if extreme:
            c["mu"] = dy(rng, -50, 50, 8)
        r2 = random.Random(k * 7919 + 13)
        if c["N"] >= 3 and r2.random() < 0.5:
            c["history"] = r2.randint(1, min(3, c["N"]))      # the count is the simulation's own, after accepted insertions through the real driver
        r3 = random.Random(k * 104729 + 7)
        if r3.random() < 0.5:
            c["mass_factor"] = r3.choice([2.0, 0.75, 1.5, 3.0])   # an isotope / coarse-grained bead: the exchange species carries its own masses (D2, 3He, 13CO2)
    return c


MASS = {"Ar": 39.948, "H": 1.008, "H2": 2.016, "CO2": 44.009, "Xe": 131.293}


def ln_A(c, consts, seen=None):
    """ln of the textbook acceptance ratio, 60 digits, from the quantities the implementation reported (or planned)"""
    kB = D(consts["kB"])
    T = D(c["T"])
    kT = kB * T
    s = seen or {}
    E_new, E_old = D(s.get("E_new_seen", c["E_new"])), D(c["E_old"])
    if c["crit"] == "can":
        return -(E_new - E_old) / kT
    if c["crit"] == "ham":
        K_new = D(s["K_new"]) if "K_new" in s else None
        if K_new is None:
            from ase.data import atomic_masses
            m = atomic_masses[18]
            K_new = sum(D(x) * D(x) for row in c["momenta"] for x in row) / (2 * D(m))
        return -((E_new + K_new) - E_old - D(c["K_old"])) / kT
    if c["crit"] in ("iso", "tens"):
        V = D(s["V_old"]) if "V_old" in s else D(abs(det(c["cell_old"])))
        V2 = D(s["V_new"]) if "V_new" in s else D(abs(det(c["cell_new"])))
        x = -((E_new - E_old) + D(c["P"]) * (V2 - V)) / kT + (D(c["natoms"]) + 1) * (V2 / V).ln()
        if c["crit"] == "tens":
            eps = s.get("strain")
            if eps is None:
                h0, h = np.array(c["cell_old"]), np.array(c["cell_new"])
                eps = (0.5 * (np.linalg.inv(h0.T) @ h.T @ h0 @ np.linalg.inv(h0) - np.eye(3))).tolist()
            tr = sum((D(c["S"][i][j]) - (D(c["P"]) if i == j else 0)) * D(eps[j][i]) for i in range(3) for j in range(3))
            x -= V * tr / kT
        return x
    if c["crit"] == "gc":
        d, N = c["delta"], c["N"]
        m = D(s.get("mass", MASS[c["species"]] * c.get("mass_factor", 1.0)))
        pi = D("3.14159265358979323846264338327950288419716939937510582097494")
        lam = (D(consts["hplanck"]) ** 2 / (2 * pi * m * kB * T / D(consts["Nav"]) * D("0.001") * D(consts["e"]))).sqrt() * D(10**10)
        fact = Decimal(1)
        if d > 0:
            for i in range(N + 1, N + d + 1):
                fact /= i
        else:
            for i in range(N + d + 1, N + 1):
                fact *= i
        pref = D(c["V"]) ** d * fact * lam ** (-3 * d)
        if pref <= 0:
            return None
        return (d * D(c["mu"]) - (E_new - E_old)) / kT + pref.ln()
    raise ValueError


def q(x):
    return C.rlit(x)


def mat_lit(m):
    rows = []
    for i in range(3):
        for j in range(3):
            if m[i][j] != 0:
                rows.append(f"| {i}%nat, {j}%nat => {q(m[i][j])}")
    return "(fun i j => match i, j with " + " ".join(rows) + " | _, _ => 0 end)"


def coq_A(c, s):
    dE = q(Fraction(s["E_new_seen"]) - Fraction(c["E_old"]))
    T = q(c["T"])
    if c["crit"] == "can":
        return f"exp (x_can kB {dE} {T})"
    if c["crit"] == "ham":
        dH = q(Fraction(s["E_new_seen"]) + Fraction(s["K_new"]) - Fraction(c["E_old"]) - Fraction(c["K_old"]))
        return f"exp (x_can kB {dH} {T})"
    if c["crit"] == "iso":
        return f"exp (x_iso kB {dE} {q(c['P'])} {q(s['V_old'])} {q(s['V_new'])} {T} {s['natoms']})"
    if c["crit"] == "tens":
        return (f"exp (x_tens kB false {dE} {q(c['P'])} {q(s['V_old'])} {q(s['V_new'])} {T} {s['natoms']} "
                f"{mat_lit(c['S'])} {mat_lit(s['strain'])})")
    return (f"A_gc kB hplanck Nav echarge {dE} {q(c['mu'])} {q(c['V'])} {q(s['mass'])} {T} {c['N']} ({c['delta']})")


HDR = """From QV Require Import Model.Criteria Gen.Constants.
From Coq Require Import Lra.
From Interval Require Import Tactic.
Open Scope R_scope.
Ltac norm := cbv [x_can x_iso x_tens tr_prod stress_dev sum3 ident Nat.eqb A_gc xlog_gc x_gc prefactor debroglie factorial_term fact_ins fact_del
                  Pos.to_nat Pos.iter_op Nat.add Nat.sub Init.Nat.add Z.mul Pos.mul Z.opp
                  kB hplanck Nav echarge]; rewrite ?INR_IZR_INZ; cbv [Z.of_nat Pos.of_succ_nat Pos.succ].
Ltac decide_case n u A :=
  first [ assert (u < A) by (norm; interval with (i_prec 64)); idtac "CASE" n "ACCEPT"
        | assert (A <= u) by (norm; interval with (i_prec 64)); idtac "CASE" n "REJECT"
        | idtac "CASE" n "UNDECIDED" ].
"""


def run(res: C.Result):
    rng = random.Random(res.seed)
    consts = translate.regenerate()
    C.prove(res, extra_tb=["Coq-Interval `interval with (i_prec 64)` decides each correspondence case (kernel-checked reflexive tactic)",
                           "translator: harness/translate.py regenerates Gen/Constants.v (ASE's kB,_hplanck,_Nav,_e as used by criteria.py)"])
    ncases = 300 if res.tier == "quick" else 5000
    cases = [gen_case(rng, k, consts) for k in range(ncases)]
    # corpus: pinned-tree failures
    cases[0].update(crit="can", T=1.0, E_old=0.0, E_new=-1000.0, natoms=2, extreme=True)
    cases[3].update(P=0.03125, stress_mode="hydro", S=(np.eye(3) * 0.03125).tolist(),
                    cell_old=[[4.0, 0.5, 0.0], [0.0, 4.0, 0.25], [0.0, 0.0, 4.0]],
                    cell_new=[[4.0, 0.75, 0.0], [0.125, 4.0, 0.25], [0.0, 0.25, 4.25]])
    # place u relative to the planned threshold
    for c in cases:
        la = ln_A(c, consts)
        c["rel"] = rng.choice([1e-6, 1e-6, 1e-3, 0.3])
        side = rng.choice([-1, 1])
        if la is None or la < -600:
            c["u"] = rng.uniform(0.01, 0.999)
        elif la >= 0:
            c["u"] = rng.choice([rng.uniform(0, 1), 0.0, 1 - 2**-53])
        else:
            a = float(la.exp())
            c["u"] = min(max(a * (1 + side * c["rel"]), 0.0), 1 - 2**-53)
    # the rule as the driver applies it (reference state = where the run started, after whatever the user did to the box, or the last accepted trial)
    r7 = random.Random(res.seed ^ 0xD21)
    drv = []
    for k in range(12 if res.tier == "quick" else 150):
        L = r7.choice([5.0, 5.5, 6.0])
        segs = [{"steps": r7.randint(3, 6), "scale": r7.choice([None, 0.9375, 1.0625, 0.875, 1.125])}]
        if k % 2:
            segs.append({"steps": r7.randint(3, 6), "scale": r7.choice([0.9375, 1.0625, 1.125]), "shift": [0.25, 0.0, -0.125] if k % 4 == 1 else None})
        drv.append({"crit": "drv_iso" if k % 3 else "drv_tens", "natoms": r7.choice([2, 3, 5]), "cell": (np.eye(3) * L).tolist(), "T": r7.choice([1500.0, 3000.0]),
                    "P": r7.choice([0.03125, 0.0625, 0.015625]), "seed": r7.randint(0, 10**6), "segments": segs})
    outs = C.run_impl_parallel("c02.py", [{"cases": (cases + drv)[i::16]} for i in range(16)])
    results = [None] * (ncases + len(drv))
    for j, o in enumerate(outs):
        results[j::16] = o["results"]
    drv_results, results = results[ncases:], results[:ncases]
    ndrv = {"trials": 0, "after_user_rescale": 0, "flagged": 0}
    for c, r in zip(drv, drv_results):
        if "exception" in r:
            res.fail("driver:exception", f"{r['exception']}: {r['message']}", {"input": c, "observed": r})
            continue
        kT = D(consts["kB"]) * D(c["T"])
        for si, run_ in enumerate(r["runs"]):
            E_ref, V_ref = D(run_["start"]["E"]), D(run_["start"]["V"])
            for ti, t in enumerate(run_["trials"]):
                ndrv["trials"] += 1
                ndrv["after_user_rescale"] += bool(c["segments"][si].get("scale")) and ti == 0
                E2, V2 = D(t["E_new"]), D(t["V_new"])
                if t["move"] == "c":
                    la = -((E2 - E_ref) + D(c["P"]) * (V2 - V_ref)) / kT + (D(t["natoms"]) + 1) * (V2 / V_ref).ln()
                else:
                    la = -(E2 - E_ref) / kT          # (the volume did not change; for the isotension criteria the strain is zero too)
                    if abs(V2 - V_ref) > D("1e-9") * V_ref:
                        la = None
                u = D(t["u"])
                if la is None:
                    exp_ = None
                elif la >= 0:
                    exp_ = True
                else:
                    a = la.exp()
                    exp_ = None if abs(u - a) <= a * D("1e-6") else bool(u < a)
                if exp_ is not None and exp_ != t["verdict"]:
                    ndrv["flagged"] += 1
                    res.fail(f"{c['crit'][4:]}:driver:verdict-not-textbook",
                             f"{t['criteria_class']} on a {'cell' if t['move'] == 'c' else 'displacement'} trial, run {si + 1} trial {ti + 1}: reference state E={float(E_ref):.6f}, V={float(V_ref):.4f} "
                             f"(where the run started{' after the user rescaled the box' if c['segments'][si].get('scale') else ''}, or the last accepted trial), trial state E'={t['E_new']:.6f}, V'={t['V_new']:.4f}, "
                             f"N={t['natoms']}, P={c['P']}, T={c['T']}: A = {float(la.exp()) if la < 50 else 'huge'}, u = {t['u']}, verdict {t['verdict']}",
                             {"input": c, "run": si, "trial": ti, "observed": t, "reference": {"E": float(E_ref), "V": float(V_ref)}})
                    break
                if t["verdict"]:
                    E_ref, V_ref = E2, V2
    coq_cases, idx = [], []
    dist = {"criteria": {}, "verdicts": {"accept": 0, "reject": 0, "raised": 0}, "regime": {"A>=1": 0, "A<1": 0, "underflow": 0},
            "rel_distance": {}, "driver_level": ndrv, "extreme": 0, "warmed_up_with_other_settings": 0, "stress_mode": {}, "sheared_hydrostatic": 0, "inconclusive_guard_band": 0}
    distinct = set()
    for k, (c, r) in enumerate(zip(cases, results)):
        dist["criteria"][c["crit"]] = dist["criteria"].get(c["crit"], 0) + 1
        dist["extreme"] += c["extreme"]
        dist["warmed_up_with_other_settings"] += bool(c.get("warm"))
        if c["crit"] == "tens":
            dist["stress_mode"][c["stress_mode"]] = dist["stress_mode"].get(c["stress_mode"], 0) + 1
        if "exception" in r:
            res.fail("harness-or-impl-exception", f"{r['exception']}: {r['message']}", {"input": c, "observed": r})
            continue
        if "raised" in r:
            dist["verdicts"]["raised"] += 1
            sig = "overflow" if r["raised"] == "OverflowError" else f"raised-{r['raised']}"
            res.fail(f"{c['crit']}:{sig}", f"criteria.evaluate raised {r['raised']} (finite inputs)", {"input": c, "observed": r})
            continue
        dist["verdicts"]["accept" if r["verdict"] else "reject"] += 1
        if c.get("history") and r.get("N_after_history") != c["N"]:
            res.fail("gc:particle-count-after-accepted-insertions", f"after {c['history']} accepted insertions of {c['species']} into a simulation that started with {c['N'] - c['history']} particles the "
                     f"criteria reads N = {r.get('N_after_history')} (expected {c['N']})", {"input": c, "observed": {x: r.get(x) for x in ("N_after_history", "natoms_after_history")}})
        if r.get("params_changed"):
            res.fail(f"{c['crit']}:parameters-changed-by-evaluate", f"criteria.evaluate changed the simulation's {r['params_changed']}: the next trial is judged with other parameters than the user set",
                     {"input": c, "observed": {x: r.get(x) for x in ("params_changed", "verdict", "verdict_again")}})
        elif "raised_again" in r or r.get("verdict_again") != r["verdict"]:
            res.fail(f"{c['crit']}:second-evaluation-differs", f"the same trial judged twice (same uniform number, nothing changed in between): {r['verdict']} then {r.get('verdict_again', r.get('raised_again'))}",
                     {"input": c, "observed": {x: r.get(x) for x in ("verdict", "verdict_again", "raised_again")}})
        la = ln_A(c, consts, r)
        u = c["u"]
        # ---- direct oracle (60-digit arithmetic on the reported quantities), with the guard band
        if la is None:
            expected = False
        elif la >= 0:
            expected = True
            dist["regime"]["A>=1"] += 1
        elif la < -700:
            expected = False if u > 0 else None
            dist["regime"]["underflow"] += 1
        else:
            a = la.exp()
            dist["regime"]["A<1"] += 1
            if abs(D(u) - a) <= a * D("1e-9"):
                expected = None
            else:
                expected = D(u) < a
        if expected is None:
            dist["inconclusive_guard_band"] += 1
        elif expected != r["verdict"]:
            sig = f"{c['crit']}:decision"
            if c["crit"] == "tens" and c.get("stress_mode") == "hydro":
                sig = "tens:hydrostatic-differs-from-isobaric"
            res.fail(sig, f"u={u!r}, ln A={float(la) if la is not None else None}: expected {'accept' if expected else 'reject'}, "
                     f"got {'accept' if r['verdict'] else 'reject'}", {"input": c, "observed": r})
        dist["rel_distance"][str(c["rel"])] = dist["rel_distance"].get(str(c["rel"]), 0) + 1
        if c["crit"] == "tens" and c.get("stress_mode") == "hydro" and any(c["cell_old"][i][j] for i in range(3) for j in range(3) if i != j):
            dist["sheared_hydrostatic"] += 1
        distinct.add((c["crit"], c["T"], c["E_new"], u))
        if la is not None and (la < -700 or (la >= 0 and float(la) > 1e5)):
            continue  # far outside: the lemma favourable_accepted / positivity decides, not numerics
        coq_cases.append(f"decide_case {len(idx)}%nat {q(u)} ({coq_A(c, r)}).")
        idx.append(k)
    # ---- Coq decides each case with `interval`
    per = 40
    files = []
    for i in range(0, len(coq_cases), per):
        files.append("Goal True.\n" + "\n".join(coq_cases[i:i + per]) + "\nexact I. Qed.")
    got = C.run_coq_cases(res.workdir, HDR, files, per_file=1, tag="c02")
    if -1 in got:
        res.broken("correspondence:coq-evaluation", got[-1][:1500])
    agree = undec = dis = 0
    for j, k in enumerate(idx):
        v = got.get(j)
        if v is None or v == "UNDECIDED":
            undec += 1
            continue
        if (v == "ACCEPT") == results[k]["verdict"]:
            agree += 1
        else:
            dis += 1
            if dis <= 10:
                res.broken("correspondence:Criteria.decide", {"case": cases[k], "impl": results[k], "model": v})
    res.coverage.update(
        evaluations=ncases, distinct_nontrivial=len(distinct),
        rule="five criteria on real Canonical/HamiltonianCanonical/Isobaric/Isotension/GrandCanonical objects (settings applied "
             "through the public setters after construction; in 60% of the cases AFTER a first evaluate() under the construction-time settings, so that anything cached per object is exposed), dyadic inputs, T in {1..5000 K}, |dE|/kT up to 1e7, triclinic/"
             "sheared cells, N in {0..50}, delta in {+-1,+-2}; u placed at relative distance 1e-6/1e-3/0.3 from the threshold "
             "when A<1; non-trivial = distinct (criteria, T, E_new, u)",
        correspondence={"flavour": "functional (decided in Coq by interval arithmetic)", "cases": len(idx), "agreed": agree,
                        "disagreed": dis, "undecided": undec, "model": "Criteria.x_can/x_iso/x_tens/A_gc"},
        direct_oracle={"evaluations": ncases, "failures": len(res.failures)}, input_distribution=dist)
    if undec > max(3, len(idx) // 50):
        res.broken("correspondence:too-many-undecided", {"undecided": undec, "of": len(idx)})
    res.samples += [{"case": cases[i], "impl": results[i]} for i in (0, 3, 4)]
    res.assumptions += ["float/real gap: decisions are compared only outside a 1e-9 relative guard band around the threshold; "
                        "u is placed >= 1e-6 (relative) away from it", "ASE supplies energies, volumes, masses (reported values are used)",
                        "isotension: the strain tensor is the one the criteria publishes (the property fixes no strain measure)"]
