"""C05 — grand-canonical bookkeeping: Model/Labels.v (+ Model/Context.v for the counter), Proofs/LabelsProofs.v, Props/C05.v.
Tie: real GrandCanonical runs from generated programs; for every accepted trial the added / removed index sets are read off the
context as the criteria saw it (cross-checked against the atom identities that appeared / vanished) and the Coq model must reproduce
the complete label list of every label-bearing move object (vm_compute).  Search: the property's invariants on every snapshot."""
from __future__ import annotations

import random
import re

import common as C
from props import progs

HDR = """From QV Require Import Model.Labels.
Open Scope Z_scope.
"""


def oz(x):
    return "None" if x is None else f"(Some ({int(x)}))"


def ids_of(e):
    return [e] if isinstance(e, int) else [x for sub in e[1:] if not isinstance(sub, int) or e[0] != "*" or sub is e[1] for x in ids_of(sub)] if e[0] != "*" else ids_of(e[1])


def run(res: C.Result):
    rng = random.Random(res.seed)
    C.prove(res)
    quick = res.tier == "quick"
    nprog = 70 if quick else 1500
    cases = []
    for k in range(nprog):
        p = progs.gen_program(rng, k, ensembles=("gc",), alias=(k % 3 == 0), multi_insert=(k % 4 != 0))
        p["steps"] = rng.randint(8, 16)
        p["verdicts"] = [rng.random() < 0.65 for _ in range(120)]
        # exchange moves of one table share one labelling convention: fresh labels, or one negative do-not-touch label
        ed = rng.choice([None, None, None, -1, -4])
        for lf in p["leaves"]:
            if lf["kind"] == "exch":
                lf["default_label"] = ed
        if k % 5 == 0:                                   # configured labels incl. 0 on displacement moves (inserted atoms join group 0 / 7 / stay untouched)
            for lf in p["leaves"]:
                if lf["kind"] == "disp":
                    lf["default_label"] = rng.choice([0, 0, -1, 7])
        r3 = random.Random(p["seed"] ^ 0xC05)
        r4 = random.Random(p["seed"] ^ 0x5C05)
        for lf in p["leaves"]:
            if lf.get("default_label") is not None and r4.random() < 0.5:
                lf["default_label_np"] = True          # configured from an array element: numpy.int64
        single = [m for m in p["moves"] if isinstance(m["expr"], int) and p["leaves"][m["expr"]]["kind"] in ("disp", "exch")
                  and sum(1 for m2 in p["moves"] if m["expr"] in ids_of(m2["expr"])) == 1]
        if single and r3.random() < 0.3:
            m0 = r3.choice(single)
            p["replace_move"] = {"step": r3.randint(2, max(2, p["steps"] - 3)), "name": m0["name"], "leaf": m0["expr"]}
        cases.append(p)
    # net-zero swaps: one accepted trial that deletes one particle and inserts another (plain composite e1 + d + e2 with pre-selections)
    for k in range(6 if quick else 60):
        p = progs.gen_program(rng, k, ensembles=("gc",), multi_insert=False)
        p["moves"] = [m for m in p["moves"] if m["name"] in ("d", "e")]
        for lf in p["leaves"]:
            if lf["kind"] == "exch":
                lf["default_label"] = None
        p["leaves"].append(dict(p["leaves"][p["moves"][-1]["expr"]]))
        e1, e2, d0 = p["moves"][-1]["expr"], len(p["leaves"]) - 1, p["moves"][0]["expr"]
        p["moves"] = [{"name": "swap", "expr": ["plain", e1, e2], "probability": 1.0}, {"name": "d", "expr": d0, "probability": 1.0}]
        p.update(force_swap=[e1, e2], max_cycles=2, steps=rng.randint(5, 9), verdicts=[True] * 40, vetoes=[], fixed=[])
        if k % 2 and len(p["exchange"]["symbols"]) == 1:
            p["force_swap_big"] = True
        cases.append(p)
    # relocation trials (delete one particle, then insert one, in ONE plain-composite trial), accepted and rejected: the atoms a rejected trial
    # puts back must be the ones the labels describe
    r5 = random.Random(res.seed ^ 0x5E10C)
    for k in range(8 if quick else 80):
        p = progs.relocate_program(r5, k)
        p["steps"] = r5.randint(8, 14)
        p["verdicts"] = [r5.random() < 0.5 for _ in range(120)]
        for lf in p["leaves"]:
            if lf["kind"] == "exch":
                lf["default_label"] = None
        cases.append(p)
    outs = C.run_impl_parallel("c05.py", [{"cases": cases[i::16]} for i in range(16)], timeout=3000)
    results = [None] * len(cases)
    for j, o in enumerate(outs):
        results[j::16] = o["results"]
    dist = {"programs": len(cases), "trials": 0, "accepted_insertions": 0, "accepted_deletions": 0, "accepted_multi_insertions": 0, "accepted_other": 0,
            "rejected_or_failed": 0, "accepted_swaps": 0, "aliased_tables": 0, "configured_default_label": {}, "label_bearing_objects": 0, "molecular_species": 0}
    items, meta = [], []
    distinct = set()
    for k, (p, r) in enumerate(zip(cases, results)):
        dist["aliased_tables"] += any(m["name"] in ("e_again", "ek") for m in p["moves"])
        dist["molecular_species"] += len(p["exchange"]["symbols"]) > 1
        if "exception" in r:
            res.fail("exception", f"simulation raised {r['exception']}: {r['message'][:200]}", {"input": p, "observed": {x: r[x] for x in ("exception", "message", "trace")}})
            continue
        if not r.get("exchange_unchanged", True):
            res.fail("template-modified", "the user's exchange_atoms template was modified by the run", {"input": p})
        tsize = len(p["exchange"]["symbols"])
        N = p["N0"]
        inserted_particles = []          # list of vid sets
        def ids(e):
            return [e] if isinstance(e, int) else [x for sub in e[1:] if not isinstance(sub, int) or e[0] != "*" or sub is e[1] for x in ids(sub)] if e[0] != "*" else ids(e[1])
        used = {j for m in p["moves"] for j in ids(m["expr"])}
        label_leaves = [j for j, lf in enumerate(p["leaves"]) if lf["kind"] in ("disp", "exch") and j in used]   # objects that are in the table
        dist["label_bearing_objects"] += len(label_leaves)
        for ti, t in enumerate(r["trials"]):
            dist["trials"] += 1
            distinct.add((k, ti))
            pre, post, ev = t["pre"], t["post"], t["at_eval"]
            acc = t["outcome"] is True
            why = []
            # ---- a do-not-touch label is honoured: an atom that a label-bearing move displaced carries a non-negative label in (one of) its parts
            mv = next((m for m in p["moves"] if m["name"] == t["name"]), None)
            if mv is not None and ev is not None:
                parts = ids(mv["expr"])
                if all(p["leaves"][j]["kind"] in ("disp", "exch") for j in parts):
                    ppos = dict(zip(pre["vid"], pre["arrays"]["positions"]))
                    for i, v in enumerate(ev["vid"]):
                        if v in ppos and ev["arrays"]["positions"][i] != ppos[v]:
                            labs = [pre["leaves"][j]["labels"][pre["vid"].index(v)] for j in parts if len(pre["leaves"][j]["labels"]) == pre["n"]]
                            if labs and all(x < 0 for x in labs):
                                why.append(("labels:do-not-touch-atom-displaced", f"atom {v} carries the negative label(s) {labs} in every part of move {t['name']!r} but was displaced by it"))
                                break
            # ---- alignment of every label array with the atoms, always
            for j in label_leaves:
                if len(post["leaves"][j]["labels"]) != post["n"]:
                    why.append(("labels:length", f"move object {j}: {len(post['leaves'][j]['labels'])} labels for {post['n']} atoms"))
            new_vids = [v for v in post["vid"] if v not in set(pre["vid"])]
            gone_vids = [v for v in pre["vid"] if v not in set(post["vid"])]
            if not acc:
                dist["rejected_or_failed"] += 1
                for j in label_leaves:
                    if post["leaves"][j]["labels"] != pre["leaves"][j]["labels"]:
                        why.append(("labels:rejected-trial-changed-labels", f"move object {j}: labels changed by a trial with verdict {t['outcome']}"))
                if post["ctx"]["N"] != pre["ctx"]["N"]:
                    why.append(("counter", f"counter changed {pre['ctx']['N']} -> {post['ctx']['N']} by a trial with verdict {t['outcome']}"))
                # the label arrays did not change: then the ATOMS under them must be the same atoms (one label per atom identity)
                if (new_vids or gone_vids) and post["n"] == pre["n"]:
                    why.append(("labels:other-atoms-after-rejection", f"after a trial with verdict {t['outcome']} the atoms {gone_vids[:4]} are gone and the atoms {new_vids[:4]} (which the trial "
                                f"had inserted) sit under their labels; the label arrays and the counter still describe the atoms from before the trial"))
                if sorted(post["vid"]) == sorted(pre["vid"]) and post["vid"] != pre["vid"]:
                    for j in label_leaves:
                        lp = pre["leaves"][j]["labels"]
                        lq = post["leaves"][j]["labels"]
                        if len(lp) == pre["n"] and len(lq) == post["n"]:
                            moved = [v for i, v in enumerate(pre["vid"]) if lq[post["vid"].index(v)] != lp[i]]
                            if moved:
                                why.append(("labels:misaligned-after-rejection", f"move object {j}: after a trial with verdict {t['outcome']} the atoms {moved[:4]} sit under other labels than before "
                                            f"(atom order {pre['vid']} -> {post['vid']}, labels unchanged)"))
                                break
            else:
                added = ev["ctx"]["added"] if ev else []
                removed = ev["ctx"]["deleted"] if ev else []
                # particles: consecutive blocks of the template's size among the atoms that appeared
                blocks = [set(new_vids[i:i + tsize]) for i in range(0, len(new_vids), tsize)]
                if p.get("force_swap_big") and t["name"] == "swap" and new_vids:
                    blocks = [set(new_vids)]          # the pre-selected three-atom species: ONE particle
                inserted_particles += blocks
                e_leaf = next((j for j in label_leaves if p["leaves"][j]["kind"] == "exch"), None)
                removed_particles = 0
                if gone_vids and e_leaf is not None:
                    lab = pre["leaves"][e_leaf]["labels"]
                    removed_particles = len({lab[pre["vid"].index(v)] for v in gone_vids})
                N += len(blocks) - removed_particles
                if blocks and gone_vids:
                    dist["accepted_swaps"] += 1
                elif len(blocks) > 1:
                    dist["accepted_multi_insertions"] += 1
                elif blocks:
                    dist["accepted_insertions"] += 1
                elif gone_vids:
                    dist["accepted_deletions"] += 1
                else:
                    dist["accepted_other"] += 1
                if post["ctx"]["N"] != N:
                    why.append(("counter", f"number_of_exchange_particles={post['ctx']['N']} but initial {p['N0']} + accepted insertions - accepted deletions = {N}"))
                    N = post["ctx"]["N"]
                # cross-check the oracle answers against the identities
                if len(added) != len(new_vids) or len(removed) != len(gone_vids):
                    why.append(("bookkeeping", f"context recorded {len(added)} added / {len(removed)} removed indices but {len(new_vids)} atoms appeared / {len(gone_vids)} vanished"))
                # ---- labels of the new particles
                for j in label_leaves:
                    lf = p["leaves"][j]
                    lab = post["leaves"][j]["labels"]
                    if len(lab) != post["n"]:
                        continue
                    dflt = lf.get("default_label")
                    dist["configured_default_label"][str(dflt)] = dist["configured_default_label"].get(str(dflt), 0) + bool(blocks)
                    for bi, blk in enumerate(blocks):
                        ls = {lab[post["vid"].index(v)] for v in blk}
                        if len(ls) != 1:
                            why.append(("labels:particle-split", f"move object {j}: the atoms of one inserted particle carry labels {sorted(ls)}"))
                            continue
                        l = ls.pop()
                        if dflt is not None and l != dflt:
                            why.append(("labels:default-label", f"move object {j}: inserted atoms are labelled {l}, configured default_label is {dflt}"))
                        if dflt is None:
                            outside = {lab[i] for i, v in enumerate(post["vid"]) if all(v not in b2 for b2 in blocks)}
                            siblings = [lab[post["vid"].index(next(iter(b2)))] for b2 in blocks if b2 is not blk]
                            if l < 0 or l in outside:
                                why.append(("labels:not-distinct", f"move object {j}: inserted particle got label {l}, which an earlier particle also carries"))
                            elif l in siblings:
                                why.append(("labels:two-particles-one-label", f"move object {j}: two particles inserted in one trial share the label {l}"))
                    # survivors keep their label
                    for i, v in enumerate(post["vid"]):
                        if v in pre["vid"] and len(pre["leaves"][j]["labels"]) == pre["n"]:
                            if lab[i] != pre["leaves"][j]["labels"][pre["vid"].index(v)]:
                                why.append(("labels:survivor-relabelled", f"move object {j}: surviving atom {v} changed label"))
                                break
                    # ---- model
                    if len(pre["leaves"][j]["labels"]) == pre["n"] and all(0 <= x < pre["n"] + len(added) for x in removed):
                        items.append(f"on_atoms_changed {C.zlist(pre['leaves'][j]['labels'])} {oz(dflt)} {len(added)}%nat {C.natlist(removed)}")
                        meta.append((k, ti, j, lab))
            seen = set()
            for sig, msg in why:
                if (sig, msg) in seen:
                    continue
                seen.add((sig, msg))
                res.fail(sig, f"trial {ti} ({t['name']}, verdict {t['outcome']}): {msg}",
                         {"input": p, "trial": ti, "observed": {"pre_labels": [l["labels"] for l in pre["leaves"]], "post_labels": [l["labels"] for l in post["leaves"]],
                                                                "pre_vid": pre["vid"], "post_vid": post["vid"], "N": post["ctx"]["N"]}})
    got = {}
    per = 300
    lines = [f"Eval vm_compute in ({j}%Z, {it})." for j, it in enumerate(items)]
    files = ["\n".join(lines[i:i + per]) for i in range(0, len(lines), per)]
    from concurrent.futures import ThreadPoolExecutor

    def one(idx_text):
        idx, text = idx_text
        f = res.workdir / f"c05_{idx}.v"
        f.write_text(HDR + text + "\n")
        return C.run_coq_file(f, 1200)

    with ThreadPoolExecutor(max_workers=16) as ex:
        for rc, out, err in ex.map(one, enumerate(files)):
            if rc != 0:
                res.broken("correspondence:coq-evaluation", err[-1500:])
            for m in re.finditer(r"=\s*\((\d+)(?:%\w+)?,\s*(.*?)\)\s*:\s", out, re.S):
                got[int(m.group(1))] = [int(x) for x in re.findall(r"-?\d+", m.group(2))]
    agree = dis = 0
    for j, (k, ti, leaf, lab) in enumerate(meta):
        if got.get(j) == lab:
            agree += 1
        else:
            dis += 1
            if dis <= 8:
                res.broken("correspondence:Labels.on_atoms_changed", {"case": cases[k], "trial": ti, "move_object": leaf, "model": got.get(j), "impl": lab})
    res.coverage.update(
        evaluations=dist["trials"], distinct_nontrivial=len(distinct),
        rule="real GrandCanonical runs (8-16 steps of 1-3 cycles, verdicts accepted with p=0.65): tables with several label-bearing moves, d*k, a+b, e1+e2, d+e, "
             "a third of the tables with the same exchange object under two names or as e*2, atomic and 2-3 atom molecular species, labels with negatives, "
             "a fifth of the programs with configured default_label in {0, -1, 7}; non-trivial = distinct (program, trial)",
        correspondence={"flavour": "relational: added/removed index sets read from the context at evaluate time (cross-checked against appearing/vanishing atom identities); "
                                   "Labels.on_atoms_changed by vm_compute must reproduce every label list", "cases": len(meta), "agreed": agree, "disagreed": dis, "undecided": 0},
        direct_oracle={"evaluations": dist["trials"], "failures": len(res.failures)}, input_distribution=dist)
    res.samples += [{"program": {x: cases[i][x] for x in ("moves", "leaves", "exchange", "N0")},
                     "trials": [{"name": t["name"], "outcome": t["outcome"], "labels": [l["labels"] for l in t["post"]["leaves"]], "N": t["post"]["ctx"]["N"]} for t in results[i].get("trials", [])[:5]]} for i in (0, 1)]
    res.assumptions += ["particles are recovered from atom identities stamped between trials: atoms that appear in one accepted trial are split into consecutive blocks of the template's size",
                        "the number of particles removed by an accepted deletion is counted in the exchange move's own labelling"]


def replay(res: C.Result, path):
    import json
    d = json.loads(open(path).read())
    p = d.get("input")
    if not p:
        print("replay: no concrete input in this file")
        return 1
    r = C.run_impl("c05.py", {"cases": [p]})["results"][0]
    ti = d.get("trial")
    if "exception" in r:
        print(json.dumps(r, indent=1)[:3000])
        return 1
    t = r["trials"][ti] if ti is not None and ti < len(r["trials"]) else None
    print(json.dumps({"trial": ti, "now": t and {"name": t["name"], "outcome": t["outcome"], "labels": [l["labels"] for l in t["post"]["leaves"]],
                                                  "vid": t["post"]["vid"], "N": t["post"]["ctx"]["N"]}}, indent=1)[:5000])
    return 0
