"""C11 — displacement moves: Model/Displace.v, Proofs/DisplaceProofs.v, Props/C11.v.
Tie (R, oracle inference): real DisplacementMove / composite calls; from the observation the harness reads off the only oracle
answers that could explain it (selected labels, operation rows as position tokens, vetoed attempts), checks that they are admissible,
and the Coq model (vm_compute) must reproduce every position token, the return value and the displaced-label log."""
from __future__ import annotations

import random
import re

import common as C

OPS = ["ball", "box", "sphere", "translation", "rotation", "translation_rotation", "ball+box"]
BROADCAST = {"ball", "box", "sphere", "translation", "ball+box"}


def rand_labels(rng, n):
    kind = rng.choice(["atomic", "molecular", "wild", "wild", "all_negative", "one"])
    if kind == "atomic":
        l = list(range(n))
        rng.shuffle(l)
    elif kind == "molecular":
        l = [i // rng.choice([2, 3]) for i in range(n)]
        if rng.random() < 0.5:
            rng.shuffle(l)
    elif kind == "wild":
        pool = [-7, -2, -1, 0, 1, 3, 3, 8, 20, 1000]
        l = [rng.choice(pool) for _ in range(n)]
    elif kind == "all_negative":
        l = [rng.choice([-1, -2, -5]) for _ in range(n)]
    else:
        l = [-1] * n
        l[rng.randrange(n)] = rng.choice([0, 4])
    return l


def rand_expr(rng, nleaves):
    def leaf():
        return rng.randrange(nleaves)
    shape = rng.choice(["single", "single", "mul", "mul", "add", "right", "left", "mix"])
    if shape == "single":
        return leaf()
    if shape == "mul":
        return ["*", leaf(), rng.randint(2, 6)]
    if shape == "add":
        return ["+", leaf(), leaf()]
    if shape == "right":
        return ["+", leaf(), ["+", leaf(), leaf()]]
    if shape == "left":
        return ["+", ["+", leaf(), leaf()], leaf()]
    return ["+", ["*", leaf(), 2], ["+", leaf(), leaf()]]


def expr_leaves(e):
    if isinstance(e, int):
        return [e]
    if e[0] == "+":
        return expr_leaves(e[1]) + expr_leaves(e[2])
    return expr_leaves(e[1]) * e[2]


def gen_case(rng, k):
    n = rng.randint(3, 10)
    nleaves = rng.choice([1, 1, 2])
    c = {"natoms": n, "seed": rng.randint(0, 2 ** 31), "positions": [[rng.randint(0, 80) / 8 for _ in range(3)] for _ in range(n)],
         "leaves": [{"labels": rand_labels(rng, n), "op": rng.choice(OPS)} for _ in range(nleaves)],
         "expr": rand_expr(rng, nleaves), "max_attempts": rng.choice([1, 2, 3]),
         "vetoes": [rng.random() < rng.choice([0.0, 0.0, 0.3, 0.6]) for _ in range(80)], "pre": [], "fixed": []}
    if rng.random() < 0.3:
        c["pre"].append(["add", rng.randint(1, 2), rng.choice([None, -1, -3, 7])])
        if rng.random() < 0.4:
            c["pre"].append(["remove", sorted(rng.sample(range(n), rng.randint(1, 2)))])
    elif rng.random() < 0.3:
        c["fixed"] = sorted(rng.sample(range(n), rng.randint(1, n - 1)))
    calls = []
    for _ in range(3):
        call = {}
        if isinstance(c["expr"], int) and rng.random() < 0.4:
            nonneg = [x for x in c["leaves"][c["expr"]]["labels"] if x >= 0]
            if nonneg:
                call["presel"] = rng.choice(nonneg)
        calls.append(call)
    # labels change between calls (set_labels is public; grand-canonical notifications do the same): whatever the move remembered about the
    # particle it displaced last must not survive a relabelling
    r2 = random.Random(c["seed"] ^ 0xC11)
    if isinstance(c["expr"], int) and r2.random() < 0.4:
        nonneg = [x for x in c["leaves"][c["expr"]]["labels"] if x >= 0]
        if nonneg:
            lab = r2.choice(nonneg)
            calls = [{"presel": lab}, {"presel": lab, "relabel": "roll"}, {"relabel": "roll"}]
    else:
        for call in calls[1:]:
            if r2.random() < 0.3:
                call["relabel"] = "roll"
    c["calls"] = calls
    r3 = random.Random(c["seed"] ^ 0x11D)
    if r3.random() < 0.3:
        c["label_offset"] = r3.choice([2 ** 53, 2 ** 60, 7 * 10 ** 16])      # 64-bit particle ids: consecutive labels that collide as doubles
    if not isinstance(c["expr"], int) and r3.random() < 0.5:
        c["derived"] = True      # a second composite is made from this one (composite * 2) and used in between: each reports about its own last call
    return c


def uniq(labels):
    return sorted({x for x in labels if x >= 0})


HDR = """From QV Require Import Model.Displace.
Open Scope Z_scope.
Definition ozl (o : option Z) : list Z := match o with Some x => [1; x] | None => [0] end.
Definition showd (r : dresult Z) : list Z * (bool * list Z) := (dpos r, (dok r, ozl (dlabel r))).
Definition showc (r : list Z * list (option Z)) : list Z * list (list Z) := (fst r, map ozl (snd r)).
"""


def oz(x):
    return "None" if x is None else f"(Some ({int(x)}))"


def ozl_py(x):
    return [0] if x is None else [1, int(x)]


def run(res: C.Result):
    rng = random.Random(res.seed)
    C.prove(res)
    quick = res.tier == "quick"
    ncases = 260 if quick else 5000
    cases = [gen_case(rng, k) for k in range(ncases)]
    outs = C.run_impl_parallel("c11.py", [{"cases": cases[i::16]} for i in range(16)])
    results = [None] * ncases
    for j, o in enumerate(outs):
        results[j::16] = o["results"]
    items, meta = [], []
    dist = {"shape": {}, "ops": {}, "calls": 0, "success": 0, "failed": 0, "no_eligible": 0, "preselected": 0, "vetoed_attempts": 0,
            "with_pre_history": 0, "with_fixatoms": 0, "composite_size": {}}
    distinct = set()
    for k, (c, r) in enumerate(zip(cases, results)):
        shape = "single" if isinstance(c["expr"], int) else "composite"
        dist["shape"][shape] = dist["shape"].get(shape, 0) + 1
        dist["with_pre_history"] += bool(c["pre"])
        dist["with_fixatoms"] += bool(c["fixed"])
        if "exception" in r:
            res.fail("exception", f"{r['exception']}: {r['message']}", {"input": c, "observed": r})
            continue
        leaf_ids = expr_leaves(c["expr"])
        if shape == "composite":
            dist["composite_size"][len(leaf_ids)] = dist["composite_size"].get(len(leaf_ids), 0) + 1
            if r["type"] != "CompositeDisplacementMove":
                res.fail("composite:type", f"{c['expr']} of displacement moves is a {r['type']}: no duplicate filter, no number_of_moved_particles",
                         {"input": c, "observed": {"type": r["type"]}})
        for ci, (call, rec) in enumerate(zip(c["calls"], r["calls"])):
            dist["calls"] += 1
            dist["success" if rec["ret"] else "failed"] += 1
            toks = {}

            def tk(h):
                return toks.setdefault(h, len(toks) + 1)

            before = [tk(h) for h in rec["before"]]
            after = [tk(h) for h in rec["after"]]
            n = rec["natoms"]
            changed = set(rec["changed"])
            distinct.add((k, ci))
            fixed = set(c["fixed"]) if not any(p[0] == "remove" for p in c["pre"]) else set()
            dist["attempts_checked"] = dist.get("attempts_checked", 0) + rec.get("attempts", 0)
            for ba in (rec.get("bad_attempts") or [])[:1]:
                res.fail("attempt:not-one-operation-result", f"attempt {ba['attempt']} of the call showed check_move positions that are not (positions before the attempt) + (the operation's "
                         f"result) for the moving atoms {ba['moving']}: off by {ba['off_by']}, other atoms moved: {ba['others_moved']} (an earlier vetoed attempt was not undone?)",
                         {"input": c, "call": ci, "observed": ba})
            if shape == "single":
                labels = rec["labels"][0]
                op = c["leaves"][leaf_ids[0]]["op"]
                dist["ops"][op] = dist["ops"].get(op, 0) + 1
                presel = call.get("presel")
                dist["preselected"] += presel is not None
                U = uniq(labels)
                lab = rec["displaced"]
                # ---------- direct oracle
                why = []
                if rec["ret"]:
                    grp = {i for i in range(n) if labels[i] == lab}
                    if lab is None or lab < 0 and presel is None:
                        why.append(f"displaced label {lab!r} is not a non-negative label")
                    if not changed <= grp:
                        why.append(f"atoms {sorted(changed - grp)} do not carry the selected label {lab} but moved")
                    if not fixed and grp - changed and op != "rotation":   # (a pure rotation leaves an atom at the centre of mass in place)
                        why.append(f"atoms {sorted(grp - changed)} of the selected group did not move")
                    if not fixed and op in BROADCAST and len(rec["delta"]) > 1:
                        d0 = [float.fromhex(x) for x in rec["delta"][0]]
                        for d in rec["delta"][1:]:
                            if any(abs(float.fromhex(x) - y) > 1e-12 for x, y in zip(d, d0)):
                                why.append("the atoms of the group were not moved by one common operation result")
                                break
                else:
                    if changed:
                        why.append(f"the move reported failure but atoms {sorted(changed)} moved")
                    if presel is None and not U:
                        dist["no_eligible"] += 1
                neg = {i for i in range(n) if labels[i] < 0}
                if changed & neg:
                    why.append(f"atoms {sorted(changed & neg)} carry a negative label but were displaced (displaced_labels={lab})")
                if presel is None and not U and rec["ret"]:
                    why.append("no particle is eligible but the move reported success")
                for w in why:
                    res.fail("single:" + ("negative" if "negative" in w else "group" if "group" in w or "label" in w else "failure"), w,
                             {"input": c, "call": ci, "observed": {x: rec[x] for x in ("ret", "changed", "labels", "displaced")}})
                # ---------- oracle inference + model
                if rec["ret"]:
                    choice = lab if lab is not None else -999
                    news = [after[i] for i in range(n) if labels[i] == lab]
                    outcome = "(Some " + C.zlist(news) + ")"
                    if presel is None and lab not in U:
                        res.broken("correspondence:inadmissible-oracle", {"case": c, "call": ci, "why": f"label {lab} is not in unique_labels {U}"})
                else:
                    choice = U[0] if U else -999
                    outcome = "None"
                dist["vetoed_attempts"] += rec["checks"] - (1 if rec["ret"] else 0)
                items.append(f"showd (displacement_call {C.zlist(labels)} {oz(presel)} ({choice}) {outcome} {C.zlist(before)})")
                meta.append((k, ci, "single", (after, rec["ret"], ozl_py(lab if rec["ret"] else None))))
            else:
                if rec["displaced"] == "MISSING":
                    continue
                disp = rec["displaced"]
                subs_labels = rec["labels"]
                ops = [c["leaves"][i]["op"] for i in leaf_ids]
                why = []
                nn = [x for x in disp if x is not None]
                if len(set(nn)) != len(nn):
                    why.append(f"a particle was displaced twice in one call: {disp}")
                if rec["number_moved"] != len(nn):
                    why.append(f"number_of_moved_particles={rec['number_moved']} but {len(nn)} sub-moves succeeded")
                if rec["ret"] != (len(nn) > 0):
                    why.append(f"return value {rec['ret']} with {len(nn)} moved particles")
                if "number_moved_after_other" in rec and (rec["number_moved_after_other"] != rec["number_moved"] or rec["displaced_after_other"] != rec["displaced"]):
                    why.append(f"number_of_moved_particles={rec['number_moved']} (labels {rec['displaced']}) right after the call, but {rec['number_moved_after_other']} (labels "
                               f"{rec['displaced_after_other']}) after ANOTHER composite (made from this one with * 2) was called: the report is no longer about this move's last call")
                shared = all(l == subs_labels[0] for l in subs_labels)
                no_veto = rec["checks"] == len(nn)
                if shared and no_veto:
                    want = min(len(subs_labels), len(uniq(subs_labels[0])))
                    if len(nn) != want:
                        why.append(f"{len(nn)} particles displaced, expected min(n={len(subs_labels)}, eligible={len(uniq(subs_labels[0]))})")
                grp = set()
                for sl, e in zip(subs_labels, disp):
                    if e is not None:
                        grp |= {i for i in range(n) if sl[i] == e}
                if not changed <= grp:
                    why.append(f"atoms {sorted(changed - grp)} moved but belong to no displaced particle")
                if not fixed and grp - changed and "rotation" not in ops:
                    why.append(f"atoms {sorted(grp - changed)} of displaced particles did not move")
                for w in why:
                    res.fail("composite:" + ("twice" if "twice" in w else "count" if "number" in w or "expected" in w else "group"), w,
                             {"input": c, "call": ci, "observed": {x: rec[x] for x in ("ret", "changed", "labels", "displaced", "number_moved")}})
                # inference
                done, subs = [], []
                for sl, e in zip(subs_labels, disp):
                    cand = [x for x in uniq(sl) if x not in done]
                    if e is not None:
                        news = [after[i] for i in range(n) if sl[i] == e]
                        subs.append(f"Build_sub {C.zlist(sl)} ({e}) (Some {C.zlist(news)})")
                        if e not in cand:
                            res.broken("correspondence:inadmissible-oracle", {"case": c, "call": ci, "why": f"label {e} not among candidates {cand}"})
                        done.append(e)
                    elif cand:
                        subs.append(f"Build_sub {C.zlist(sl)} ({cand[0]}) None")   # a candidate was tried and every attempt vetoed
                    else:
                        subs.append(f"Build_sub {C.zlist(sl)} (-999) None")
                dist["vetoed_attempts"] += rec["checks"] - len(nn)
                items.append(f"showc (composite_call [{'; '.join(subs)}] [] {C.zlist(before)})")
                meta.append((k, ci, "composite", (after, [ozl_py(e) for e in disp])))
    # evaluate the model on every call
    agree = dis = 0
    per = 250
    got = {}
    lines = [f"Eval vm_compute in ({j}%Z, {it})." for j, it in enumerate(items)]
    files = ["\n".join(lines[i:i + per]) for i in range(0, len(lines), per)]
    from concurrent.futures import ThreadPoolExecutor

    def one(idx_text):
        idx, text = idx_text
        f = res.workdir / f"c11_{idx}.v"
        f.write_text(HDR + text + "\n")
        return C.run_coq_file(f, 900)

    with ThreadPoolExecutor(max_workers=16) as ex:
        for rc, out, err in ex.map(one, enumerate(files)):
            if rc != 0:
                res.broken("correspondence:coq-evaluation", err[-1500:])
            for m in re.finditer(r"=\s*\((\d+)(?:%\w+)?,\s*(.*?)\)\s*:\s", out, re.S):
                got[int(m.group(1))] = re.sub(r"\s+", " ", m.group(2))
    for j, (k, ci, kind, exp) in enumerate(meta):
        g = got.get(j)
        if g is None:
            dis += 1
            continue
        nums = [int(x) for x in re.findall(r"-?\d+", g)]
        if kind == "single":
            after, ok, lab = exp
            want = list(after) + lab
            okm = ("true" in g) == ok
            same = okm and nums == want
        else:
            after, disp = exp
            want = list(after) + [x for e in disp for x in e]
            same = nums == want
        if same:
            agree += 1
        else:
            dis += 1
            if dis <= 8:
                res.broken(f"correspondence:Displace.{'displacement_call' if kind == 'single' else 'composite_call'}",
                           {"case": cases[k], "call": ci, "model": g[:400], "impl": {"after_tokens": exp[0], "rest": exp[1:]}})
    res.coverage.update(
        evaluations=dist["calls"], distinct_nontrivial=len(distinct),
        rule="real DisplacementMove and composites built with * and + (m*k, a+b, a+(b+c), (a+b)+c, a*2+(b+c)) on 3-10 atoms; label arrays atomic/"
             "molecular/wild (negative, repeated, gaps, unsorted, 1000)/all negative/one eligible; every shipped displacement operation; pre-selected and "
             "random targets; check_move vetoing 0/30/60% of attempts with max_attempts 1-3; optional history (atoms added with default_label None/-1/-3/7, "
             "atoms removed) or FixAtoms on a subset; 3 consecutive calls per case; non-trivial = distinct (case, call)",
        correspondence={"flavour": "relational (oracle inference): model must reproduce all position tokens, return value and displaced-label log by vm_compute",
                        "cases": len(meta), "agreed": agree, "disagreed": dis, "undecided": 0},
        direct_oracle={"evaluations": dist["calls"], "failures": len(res.failures)}, input_distribution=dist)
    res.samples += [{"case": {x: cases[i][x] for x in ("leaves", "expr", "calls", "pre", "fixed")}, "impl": [{x: rc[x] for x in ("ret", "changed", "displaced")} for rc in results[i].get("calls", [])]} for i in (0, 1, 2)]
    res.assumptions += ["collective constraints (FixCom) move every atom by design and belong to C12; here: no constraint or FixAtoms",
                        "a negative label pre-selected explicitly by the user is outside the property (it speaks of the selected non-negative label)"]


def replay(res: C.Result, path):
    import json
    d = json.loads(open(path).read())
    c = d.get("input")
    if not c:
        print("replay: no concrete input in this file")
        return 1
    r = C.run_impl("c11.py", {"cases": [c]})["results"][0]
    print(json.dumps({"input": c, "observed_now": r}, indent=1)[:4000])
    return 0
