"""C10 — proposal operations: Model/Ops.v, Proofs/OpsProofs.v, Props/C10.v.
Tie (F, scripted generator): operation.calculate(context) of real operations; the draws the implementation requested must be
the model's laws, and every output component is compared with the model evaluated by interval arithmetic inside Coq.
Search: real generator - geometry clauses on many draws; scripted involutions through the implementation (a proposal followed by
the proposal of the mirrored draws must be the identity)."""
from __future__ import annotations

import math
import random

import numpy as np

import common as C

ULP = 2.0 ** -52
TWO_PI = 2 * math.pi
KINDS = ["ball", "sphere", "box", "translation", "rotation", "translation_rotation", "composite", "iso", "aniso", "shape"]
SPECIES = ["H", "C", "O", "Ar", "Cu"]


def fx(x):
    return float.fromhex(x)


def rand_cell(rng, triclinic):
    a = np.diag([rng.randint(24, 48) / 4 for _ in range(3)]).astype(float)
    if triclinic:
        for (i, j) in ((1, 0), (2, 0), (2, 1), (0, 1)):
            if rng.random() < 0.6:
                a[i, j] = rng.randint(-8, 8) / 4
    return a.tolist()


def rand_mask(rng):
    m = rng.choice(["default", "default", "diag", "random", "xy_frozen", "xx_frozen"])
    if m == "default":
        return None
    if m == "diag":
        return np.eye(3, dtype=bool).tolist()
    if m == "xy_frozen":
        k = np.ones((3, 3), dtype=bool)
        k[0, 1] = k[1, 0] = False
        return k.tolist()
    if m == "xx_frozen":
        k = np.ones((3, 3), dtype=bool)
        k[0, 0] = False
        return k.tolist()
    return [[rng.random() < 0.6 for _ in range(3)] for _ in range(3)]


def ndraws(spec):
    if isinstance(spec, list):
        return sum(ndraws(s) for s in spec)
    return {"ball": 3, "sphere": 2, "box": 3, "translation": 3, "rotation": 3, "translation_rotation": 6, "iso": 1, "aniso": 6, "shape": 6}[spec["kind"]]


def laws(spec):
    """the laws each operation requests, in order (Model/Ops.v comments): (method, lo, hi, count)"""
    if isinstance(spec, list):
        return [l for s in spec for l in laws(s)]
    k = spec["kind"]
    if k == "ball":
        return [("uniform", 0.0, spec["step"], 1), ("uniform", 0.0, TWO_PI, 1), ("uniform", -1.0, 1.0, 1)]
    if k == "sphere":
        return [("uniform", 0.0, TWO_PI, 1), ("uniform", -1.0, 1.0, 1)]
    if k == "box":
        return [("uniform", -spec["step"], spec["step"], 3)]
    if k == "translation":
        return [("uniform", 0.0, 1.0, 3)]
    if k == "rotation":
        return [("uniform", 0.0, 360.0, 2), ("uniform", -1.0, 1.0, 1)]
    if k == "translation_rotation":
        return [("uniform", 0.0, 1.0, 3), ("uniform", 0.0, 360.0, 2), ("uniform", -1.0, 1.0, 1)]
    if k == "iso":
        return [("uniform", -spec["max_value"], spec["max_value"], 1)]
    return [("uniform", -spec["max_value"], spec["max_value"], 6)]


def gen_case(rng, k, mode):
    kind = KINDS[k % len(KINDS)]
    n = rng.randint(2, 6)
    group = rng.randint(1, min(4, n))
    c = {"symbols": [rng.choice(SPECIES) for _ in range(n)], "cell": rand_cell(rng, rng.random() < 0.6),
         "positions": [[rng.randint(0, 64) / 8 for _ in range(3)] for _ in range(n)], "mode": mode, "warm": rng.random() < 0.5,
         "masses": [rng.choice([1.008, 2.014, 12.0, 13.003, 15.999, 39.948, 63.546]) for _ in range(n)] if rng.random() < 0.6 else None,
         "indices": sorted(rng.sample(range(n), group)), "kind": kind}
    step = rng.choice([0.01, 0.1, 0.5, 1.0, 3.0])

    def simple(kd):
        if kd in ("ball", "sphere", "box"):
            return {"kind": kd, "step": rng.choice([0.01, 0.1, 0.5, 1.0, 3.0])}
        return {"kind": kd}
    if kind in ("ball", "sphere", "box"):
        c["op"] = {"kind": kind, "step": step}
    elif kind == "composite":
        c["op"] = [simple(rng.choice(["ball", "sphere", "box", "translation", "rotation"])) for _ in range(rng.randint(2, 3))]
    elif kind in ("iso", "aniso", "shape"):
        c["op"] = {"kind": kind, "max_value": rng.choice([0.01, 0.05, 0.1, 0.3, 1e-4, 1e-6]), "mask": rand_mask(rng)}
    else:
        c["op"] = {"kind": kind}
    r2 = random.Random(c["seed"] ^ 0xC10 if "seed" in c else len(c["positions"]) * 7919 + int(step * 100))
    for spec in (c["op"] if isinstance(c["op"], list) else [c["op"]]):
        if spec["kind"] in ("ball", "sphere", "box", "iso", "aniso", "shape") and r2.random() < 0.35:
            spec["late"] = True          # built with other settings, then re-tuned through step_size / max_value / mask
        if spec["kind"] in ("iso", "aniso", "shape") and r2.random() < 0.3:
            spec["sibling_mask_edit"] = True      # ANOTHER default-constructed operation of the same kind had its mask edited in place before
    if mode == "scripted":
        t = []
        for _ in range(ndraws(c["op"])):
            t.append(rng.randint(1, 2 ** 16 - 1) / 2 ** 16)
        c["script"] = t
    else:
        c["seed"] = rng.randint(0, 2 ** 31)
        c["repeat"] = 12
    return c


# ----------------------------------------------------------------- Coq side
HDR = """From QV Require Import Model.Ops.
From Coq Require Import Lra.
From Interval Require Import Tactic.
Open Scope R_scope.
Ltac ev := cbv [ball sphere box translation rot_point rotation_disp com wsum summ centroid sumv fold_right map length nth
                vadd vsub vscale vzero rowmul mapply mmul mtrans ase_rot Rz Rx_c composite iso_def masked mbuild mget mscale mident delta
                vx vy vz a00 a01 a02 a10 a11 a12 a20 a21 a22 Nat.eqb INR]; simpl.
Ltac close_case n model impl tol :=
  first [ assert (Rabs (model - impl) <= tol) by (ev; interval with (i_prec 64)); idtac "CASE" n "CLOSE"
        | assert (tol < Rabs (model - impl)) by (ev; interval with (i_prec 64)); idtac "CASE" n "FAR"
        | idtac "CASE" n "UNDECIDED" ].
"""


def v3(v):
    return f"(V3 {C.rlit(v[0])} {C.rlit(v[1])} {C.rlit(v[2])})"


def m3(m):
    return "(M3 " + " ".join(C.rlit(m[i][j]) for i in range(3) for j in range(3)) + ")"


def draws_of(spec, script):
    """the float values the scripted generator handed out (lo + (hi-lo)*t), grouped per primitive operation"""
    out, pos = [], 0
    for (meth, lo, hi, cnt) in laws(spec):
        out.append([lo + (hi - lo) * script[pos + i] for i in range(cnt)])
        pos += cnt
    return out


def model_terms(c, masses):
    """list of (coq term per output row component) for displacement operations; None for deformations"""
    specs = c["op"] if isinstance(c["op"], list) else [c["op"]]
    pos = [c["positions"][i] for i in c["indices"]]
    ms = [masses[i] for i in c["indices"]]
    script = c["script"]
    terms_per_part, sp = [], 0
    for s in specs:
        nd = ndraws(s)
        d = draws_of(s, script[sp:sp + nd])
        sp += nd
        k = s["kind"]
        if k == "ball":
            terms_per_part.append(("bcast", f"(ball {C.rlit(d[0][0])} {C.rlit(d[1][0])} {C.rlit(d[2][0])})"))
        elif k == "sphere":
            terms_per_part.append(("bcast", f"(sphere {C.rlit(s['step'])} {C.rlit(d[0][0])} {C.rlit(d[1][0])})"))
        elif k == "box":
            terms_per_part.append(("bcast", f"(box {v3(d[0])})"))
        elif k in ("translation", "translation_rotation"):
            ps = "[" + "; ".join(v3(p) for p in pos) + "]"
            terms_per_part.append(("bcast", f"(translation {v3(d[0])} {m3(c['cell'])} {ps})"))
            if k == "translation_rotation":
                terms_per_part.append(("rows", rot_term(d[1], d[2][0], ms, pos)))
        elif k == "rotation":
            terms_per_part.append(("rows", rot_term(d[0], d[1][0], ms, pos)))
    return terms_per_part


def rot_term(phipsi, cth, ms, pos):
    ps = "[" + "; ".join(v3(p) for p in pos) + "]"
    mm = "[" + "; ".join(C.rlit(m) for m in ms) + "]"
    A = f"(ase_rot ({C.rlit(phipsi[0])} * PI / 180) {C.rlit(cth)} ({C.rlit(phipsi[1])} * PI / 180))"
    return f"(rotation_disp {A} {mm} {ps})"


def run(res: C.Result):
    rng = random.Random(res.seed)
    C.prove(res, extra_tb=["Coq-Interval `interval with (i_prec 64)` evaluates the operation models in each correspondence case",
                           "scipy.linalg.expm: Section hypotheses (inverse, transpose, determinant, half-squares, regular) validated numerically on every "
                           "generator matrix the runs build; jointly satisfiable (Proofs/OpsProofs.v expm_toy)",
                           "that a coordinatewise reflection/shift of independent uniform draws preserves their joint law is the one informal step "
                           "in reading the involution theorems as 'equally likely'"])
    quick = res.tier == "quick"
    ns, nr = (120, 80) if quick else (2500, 1500)
    scripted = [gen_case(rng, k, "scripted") for k in range(ns)]
    # designated: fine-tuning amplitudes with the default mask for every deformation kind (volume, SPD and symmetry clauses apply in full)
    for kd in ("iso", "aniso", "shape"):
        for mv in (1e-4, 1e-6):
            base = next(c for c in scripted if c["kind"] == kd)
            scripted.append(dict(base, op={"kind": kd, "max_value": mv, "mask": None}))
    # designated: composites with two or three PER-ATOM parts (rotations) on groups of exactly 3 atoms - where an (n, 3) result has the shape of a 3 x 3 matrix
    r12 = random.Random(res.seed ^ 0x10C3)
    for j in range(4 if quick else 40):
        base = dict(next(c for c in scripted if c["kind"] == "composite" and len(c["positions"]) >= 3))
        n_ = len(base["positions"])
        base["indices"] = sorted(r12.sample(range(n_), 3))
        base["op"] = [{"kind": "rotation"}, {"kind": "rotation"}] if j % 2 == 0 else [{"kind": "rotation"}, {"kind": "ball", "step": 0.1}, {"kind": "rotation"}]
        base["script"] = [r12.randint(1, 2 ** 16 - 1) / 2 ** 16 for _ in range(ndraws(base["op"]))]
        base["warm"] = False
        scripted.append(base)
    ns = len(scripted)
    cases = scripted + [gen_case(rng, k, "real") for k in range(nr)]
    # scripted involutions through the implementation: a second case with the mirrored draws
    inv_cases = []
    for c in cases[:ns]:
        if isinstance(c["op"], list) or c["kind"] in ("translation", "translation_rotation"):
            continue
        t = c["script"]
        k = c["kind"]
        if k == "ball":
            t2 = [t[0], (t[1] + 0.5) % 1.0, 1 - t[2]]
        elif k == "sphere":
            t2 = [(t[0] + 0.5) % 1.0, 1 - t[1]]
        elif k == "rotation":
            t2 = [(0.5 - t[1]) % 1.0, (-t[0] - 0.5) % 1.0, t[2]]
        else:  # box, deformations: draw -> -draw
            t2 = [1 - x for x in t]
        c2 = dict(c, script=t2, warm=False, involution_of=cases.index(c))
        inv_cases.append(c2)
    allc = cases + inv_cases
    outs = C.run_impl_parallel("c10.py", [{"cases": allc[i::16]} for i in range(16)])
    results = [None] * len(allc)
    for j, o in enumerate(outs):
        results[j::16] = o["results"]

    coq, meta = [], []
    dist = {"kind": {}, "mode": {"scripted": 0, "real": 0, "involution": len(inv_cases)}, "mask": {"default": 0, "custom": 0}, "triclinic": 0,
            "custom_masses": 0, "group_size": {}, "expm_contract_worst": {}}
    distinct = set()
    for k, (c, r) in enumerate(zip(allc, results)):
        if "exception" in r:
            res.fail("exception", f"{c['kind']}: {r['exception']}: {r['message']}", {"input": c, "observed": r})
            continue
        if "involution_of" in c:
            check_involution(res, c, r, allc[c["involution_of"]], results[c["involution_of"]])
            continue
        kind = c["kind"]
        dist["kind"][kind] = dist["kind"].get(kind, 0) + 1
        if r.get("parts_sum") and r.get("outs"):
            ps, got = r["parts_sum"], r["outs"][0]
            a = [float.fromhex(x) for x in ps["value"]]
            b = [float.fromhex(x) for x in got["value"]]
            if ps["shape"] != got["shape"] or any(abs(x - y) > 1e-12 * (1 + abs(x)) for x, y in zip(a, b)):
                res.fail("composite:not-the-sum-of-its-parts", f"composite of {[p_['kind'] for p_ in c['op']]} on a group of {len(c['indices'])} atom(s): returned {got['shape']} "
                         f"{[round(y, 6) for y in b][:9]}, the parts evaluated one after the other with the same draws sum to {[round(x, 6) for x in a][:9]}",
                         {"input": c, "observed": got, "expected": ps})
        dist["mode"][c["mode"]] += 1
        dist["triclinic"] += any(c["cell"][i][j] for i in range(3) for j in range(3) if i != j)
        dist["custom_masses"] += c["masses"] is not None
        dist["group_size"][len(c["indices"])] = dist["group_size"].get(len(c["indices"]), 0) + 1
        masses = [fx(x) for x in r["masses"]]
        deform = kind in ("iso", "aniso", "shape")
        if deform:
            dist["mask"]["default" if c["op"]["mask"] is None else "custom"] += 1
        for o in r["outs"]:
            val = np.array([fx(x) for x in o["value"]]).reshape(o["shape"])
            geometry_oracle(res, c, val, masses, r)
        distinct.add((kind, str(c["op"]), tuple(c["indices"]), c.get("seed"), tuple(c.get("script", []))))
        if c["mode"] != "scripted":
            continue
        # ---- requested laws
        want = laws(c["op"])
        got_calls = [(x[0], float(x[1]), float(x[2]), int(np.prod(x[3])) if x[3] is not None else 1) for x in r["calls"] if x[0] == "uniform"]
        if len(got_calls) != len(r["calls"]) or len(got_calls) != len(want) or any(
                g[0] != w[0] or abs(g[1] - w[1]) > 1e-12 * (1 + abs(w[1])) or abs(g[2] - w[2]) > 1e-12 * (1 + abs(w[2])) or g[3] != w[3]
                for g, w in zip(got_calls, want)):
            res.broken("correspondence:requested-laws", {"case": {"kind": kind, "op": c["op"]}, "model_laws": want, "impl_calls": r["calls"]})
            continue
        val = np.array([fx(x) for x in r["outs"][0]["value"]]).reshape(r["outs"][0]["shape"])
        # ---- model comparison inside Coq
        if not deform:
            parts = model_terms(c, masses)
            g = len(c["indices"])
            rows = val.shape[0]
            for row in range(rows):
                for comp, acc in enumerate(("vx", "vy", "vz")):
                    terms = []
                    for typ, t in parts:
                        terms.append(f"{acc} {t}" if typ == "bcast" else f"{acc} (nth {row if rows > 1 else 0} {t} vzero)")
                    # a broadcast-only result has one row; a rotation part has one row per atom
                    if rows == 1 and any(typ == "rows" for typ, _ in parts) and g > 1:
                        continue
                    model = " + ".join(f"({t})" for t in terms)
                    impl = float(val[row, comp])
                    tol = 1e-10 * (1.0 + abs(impl))
                    coq.append(f"close_case {len(meta)}%nat ({model}) {C.rlit(impl)} {C.rlit(tol)}.")
                    meta.append((k, kind, (row, comp)))
        else:
            mk = c["op"]["mask"]
            mask_fun = "(fun i j => match i, j with " + " ".join(
                f"| {i}%nat, {j}%nat => {C.blit(True if mk is None else mk[i][j])}" for i in range(3) for j in range(3)) + " | _, _ => true end)"
            if kind == "iso":
                u = draws_of(c["op"], c["script"])[0][0]
                base = f"(iso_def {C.rlit(u)} {mask_fun})"
            else:
                X = np.array([fx(x) for x in r["expm"]]).reshape(3, 3)
                base = f"(masked {m3(X.tolist())} {mask_fun})"
                for key, v in r["contract"].items():
                    w = dist["expm_contract_worst"]
                    w[key] = max(w.get(key, 0.0), v) if key != "regular" else min(w.get(key, 1e9), v)
                bad = {kk: v for kk, v in r["contract"].items() if (kk != "regular" and v > 1e-12) or (kk == "regular" and v < 1e-6)}
                if bad:
                    res.broken("external-contract:scipy.expm", {"generator": r["gen"], "violated": bad})
            for i in range(3):
                for j in range(3):
                    impl = float(val[i, j])
                    coq.append(f"close_case {len(meta)}%nat (mget {base} {i} {j}) {C.rlit(impl)} {C.rlit(1e-12 * (1 + abs(impl)))}.")
                    meta.append((k, kind, (i, j)))
    per = 30
    files = ["Goal True.\n" + "\n".join(coq[i:i + per]) + "\nexact I. Qed." for i in range(0, len(coq), per)]
    got = C.run_coq_cases(res.workdir, HDR, files, per_file=1, tag="c10", timeout=1500)
    if -1 in got:
        res.broken("correspondence:coq-evaluation", got[-1][:1500])
    agree = dis = undec = 0
    by_kind = {}
    for j, (k, kind, pl) in enumerate(meta):
        g = got.get(j)
        by_kind.setdefault(kind, [0, 0, 0])
        if g == "CLOSE":
            agree += 1
            by_kind[kind][0] += 1
        elif g == "FAR":
            dis += 1
            by_kind[kind][1] += 1
            if dis <= 8:
                res.broken(f"correspondence:Ops.{kind}", {"case": {x: allc[k][x] for x in ("op", "indices", "positions", "cell", "script", "masses")},
                                                          "component": pl, "impl": results[k]["outs"][0]})
        else:
            undec += 1
            by_kind[kind][2] += 1
    if undec > max(3, len(meta) // 25):
        res.broken("correspondence:too-many-undecided", {"undecided": undec, "of": len(meta), "by_kind": by_kind})
    res.coverage.update(
        evaluations=len(allc) + len(meta), distinct_nontrivial=len(distinct),
        rule="every shipped operation (ball, sphere, box, translation, rotation, translation+rotation, composites of 2-3 parts built with +, "
             "isotropic/anisotropic/shape deformation) on 2-6 atoms with natural and custom masses, cubic and triclinic cells, groups of 1-4 atoms, "
             "default / diagonal / partially frozen / random masks, steps 0.01-3, strains 0.01-0.3; scripted draws (dyadic) and real generator "
             "(12 draws per case); half the cases use an operation object that was first applied to another context; non-trivial = distinct "
             "(operation, parameters, group, draws)",
        correspondence={"flavour": "functional: requested laws equal the model's; |model - impl| <= 1e-10 rel per output component, decided in Coq by interval arithmetic",
                        "cases": len(meta), "agreed": agree, "disagreed": dis, "undecided": undec, "by_kind[agree,far,undecided]": by_kind},
        direct_oracle={"evaluations": len(allc), "failures": len(res.failures)}, input_distribution=dist)
    res.samples += [{"case": {x: allc[i][x] for x in ("op", "indices", "script", "cell")}, "impl": results[i].get("outs")} for i in (0, 4, 7)]
    res.assumptions += ["for anisotropic/shape deformations the model takes scipy's expm value as oracle answer (its contract is validated numerically)",
                        "rotation tie: |cos theta| <= 1 - 2^-16 (dyadic draws), so arccos conditioning stays below 1e3 ulp"]


def check_involution(res, c2, r2, c1, r1):
    """through the implementation: proposal(omega) followed by proposal(sigma omega) is the identity"""
    if "exception" in r1:
        return
    k = c1["kind"]
    a = np.array([fx(x) for x in r1["outs"][0]["value"]]).reshape(r1["outs"][0]["shape"])
    b = np.array([fx(x) for x in r2["outs"][0]["value"]]).reshape(r2["outs"][0]["shape"])
    ok, what = True, ""
    if k in ("ball", "sphere", "box"):
        ok = np.allclose(a + b, 0, atol=1e-12 * (1 + np.abs(a).max()))
        what = f"displacement {a.tolist()} and its mirror {b.tolist()} do not cancel"
    elif k in ("iso", "aniso", "shape"):
        if c1["op"]["mask"] is None:
            ok = np.allclose(b @ a, np.eye(3), atol=min(1e-10, max(1e-15, 0.01 * c1["op"]["max_value"] ** 2)))
            what = f"F(sigma omega) F(omega) = {(b @ a).tolist()} is not the identity"
    elif k == "rotation":
        # apply omega, then sigma omega computed on the rotated group
        pos = np.array(c1["positions"], dtype=float)
        idx = c1["indices"]
        c3 = dict(c1, positions=(pos + _scatter(pos.shape, idx, a)).tolist(), script=c2["script"], warm=False)
        r3 = C.run_impl("c10.py", {"cases": [c3]})["results"][0]
        if "exception" in r3:
            return
        b3 = np.array([fx(x) for x in r3["outs"][0]["value"]]).reshape(r3["outs"][0]["shape"])
        back = np.array(c3["positions"])[idx] + b3
        ok = np.allclose(back, pos[idx], atol=1e-9 * (1 + np.abs(pos).max()))
        what = f"rotation by the mirrored draws does not undo the rotation: residual {np.abs(back - pos[idx]).max():.3e}"
    if not ok:
        res.fail(f"{k}:not-symmetric", what, {"input": c1, "mirrored_script": c2["script"], "observed": {"first": r1["outs"], "second": r2["outs"]}})


def _scatter(shape, idx, rows):
    out = np.zeros(shape)
    out[idx] = rows
    return out


def geometry_oracle(res, c, val, masses, r):
    """the property's clauses on one output of the implementation"""
    kind = c["kind"]
    op = c["op"]
    pos = np.array(c["positions"], dtype=float)
    idx = c["indices"]
    cell = np.array(c["cell"], dtype=float)

    def bad(sig, msg):
        res.fail(f"{kind}:{sig}", msg, {"input": c, "observed": val.tolist()})

    if kind in ("ball", "sphere", "box"):
        s = op["step"]
        nrm = float(np.linalg.norm(val))
        if kind == "ball" and nrm > s * (1 + 1e-12):
            bad("norm", f"|ball| = {nrm!r} > step {s!r}")
        if kind == "sphere" and abs(nrm - s) > 1e-12 * s:
            bad("norm", f"|sphere| = {nrm!r} != step {s!r}")
        if kind == "box" and np.max(np.abs(val)) > s:
            bad("norm", f"box component {np.max(np.abs(val))!r} > step {s!r}")
    elif kind in ("translation", "rotation", "translation_rotation"):
        new = pos[idx] + val
        d0 = np.linalg.norm(pos[idx][:, None] - pos[idx][None, :], axis=-1)
        d1 = np.linalg.norm(new[:, None] - new[None, :], axis=-1)
        if not np.allclose(d0, d1, atol=1e-9 * (1 + d0.max())):
            bad("rigid", f"pairwise distances change by {np.abs(d0 - d1).max():.3e}")
        m = np.array(masses)[idx]
        if kind == "rotation":
            com0 = (m[:, None] * pos[idx]).sum(0) / m.sum()
            com1 = (m[:, None] * new).sum(0) / m.sum()
            if not np.allclose(com0, com1, atol=1e-9 * (1 + np.abs(com0).max())):
                bad("com", f"centre of mass moves by {np.abs(com0 - com1).max():.3e}")
        if kind == "translation":
            frac = np.linalg.solve(cell.T, new.mean(0))
            if np.any(frac < -1e-9) or np.any(frac >= 1 + 1e-9):
                bad("centroid", f"centroid of the moved group has fractional coordinates {frac.tolist()}")
    elif kind in ("iso", "aniso", "shape"):
        mk = np.ones((3, 3), dtype=bool) if op["mask"] is None else np.array(op["mask"], dtype=bool)
        eye = np.eye(3)
        if np.any(np.abs(val[~mk] - eye[~mk]) > 0):
            bad("mask", f"masked-out components differ from the identity: {(val - eye)[~mk].tolist()}")
        if op["mask"] is None:
            if kind == "iso" and not np.allclose(val, val[0, 0] * eye, atol=0):
                bad("iso", "isotropic deformation is not a scalar times the identity")
            if kind == "shape" and abs(np.linalg.det(val) - 1) > min(1e-12, max(4e-16, 0.01 * op["max_value"] ** 2)):
                bad("volume", f"shape deformation has determinant {np.linalg.det(val)!r}")
            if not np.allclose(val, val.T, atol=1e-14) or np.min(np.linalg.eigvalsh((val + val.T) / 2)) <= 0:
                bad("spd", "deformation gradient is not symmetric positive-definite")


def replay(res: C.Result, path):
    import json
    d = json.loads(open(path).read())
    c = d.get("input")
    if not c:
        print("replay: no concrete input in this file")
        return 1
    r = C.run_impl("c10.py", {"cases": [c]})["results"][0]
    print(json.dumps({"input": c, "observed_now": r}, indent=1)[:4000])
    return 0
