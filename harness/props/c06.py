"""C06 — same seed, same trajectory.  Model/Seed.v, Props/C06.v (thin: seed handling).  The content is the differential tie: every driver,
generated move tables (including forced minimum counts), the same seed twice in one process under differently seeded and re-seeded global
generators, trip-wires on numpy's and Python's global random functions, generator state right after construction = PCG64(seed)."""
from __future__ import annotations

import random

import common as C
from props import progs

DRIVERS = ["canonical", "hamiltonian", "isobaric", "isotension", "gc", "fbmc", "afbmc"]
SEEDS = [0, 0, 1, 2, 42, 2 ** 32, 2 ** 63, 2 ** 64 - 1, 2 ** 127 + 5, {"np": "int64", "value": 7}, {"np": "uint32", "value": 4000000000}, {"np": "int64", "value": 0}]


def gen_case(rng, k):
    drv = DRIVERS[k % 7]
    seed = SEEDS[k % len(SEEDS)] if rng.random() < 0.8 else rng.randint(0, 2 ** 40)
    c = {"driver": drv, "seed": seed, "other_seed": (seed["value"] if isinstance(seed, dict) else seed) + 1 + rng.randint(0, 5), "steps": rng.randint(4, 8)}
    if drv in ("fbmc", "afbmc"):
        n = rng.randint(2, 5)
        c.update(natoms=n, positions=[[rng.randint(0, 40) / 8 + 2 * i for _ in range(3)] for i in range(n)])
    else:
        p = progs.gen_program(rng, DRIVERS.index(drv), ensembles=tuple(DRIVERS[:5]))
        p["criteria"] = "real"
        p["calc"] = "caching"
        p["fixed"] = [] if drv == "gc" else p["fixed"]
        p["max_cycles"] = rng.choice([2, 3, 4])
        # forced moves: minimum counts summing to at most max_cycles (their slots are drawn from the simulation's generator too)
        left = p["max_cycles"]
        for m in p["moves"]:
            if left > 1 and rng.random() < 0.5:
                m["minimum_count"] = 1
                left -= 1
            m["interval"] = rng.choice([1, 1, 2])
        c["program"] = p
    return c


def run(res: C.Result):
    rng = random.Random(res.seed)
    C.prove(res)
    quick = res.tier == "quick"
    ncases = 84 if quick else 1400
    cases = [gen_case(rng, k) for k in range(ncases)]
    outs = C.run_impl_parallel("c06.py", [{"cases": cases[i::16]} for i in range(16)], timeout=3000)
    results = [None] * ncases
    for j, o in enumerate(outs):
        results[j::16] = o["results"]
    # the same cases in OTHER interpreter processes with another string-hash seed (the harness pins PYTHONHASHSEED=0 for itself; a user does not):
    # anything that iterates a set / dict-of-hashes of names in hash order would make the trajectory depend on the interpreter
    outs2 = C.run_impl_parallel("c06.py", [{"cases": cases[i::16]} for i in range(16)], timeout=3000, env=dict(C.IMPL_ENV, PYTHONHASHSEED=str(1 + res.seed % 4000)))
    results2 = [None] * ncases
    for j, o in enumerate(outs2):
        results2[j::16] = o["results"]
    dist = {"driver": {}, "seed_kind": {"zero": 0, "small": 0, "huge": 0, "numpy_integer": 0}, "steps": 0, "with_forced_moves": 0, "different_seed_differs": 0}
    distinct = set()
    for k, (c, r) in enumerate(zip(cases, results)):
        dist["driver"][c["driver"]] = dist["driver"].get(c["driver"], 0) + 1
        sv = c["seed"]["value"] if isinstance(c["seed"], dict) else c["seed"]
        dist["seed_kind"]["numpy_integer" if isinstance(c["seed"], dict) else "zero" if sv == 0 else "huge" if sv >= 2 ** 32 else "small"] += 1
        dist["with_forced_moves"] += any(m.get("minimum_count") for m in c.get("program", {}).get("moves", []))
        if "exception" in r:
            res.fail(f"exception:{c['driver']}", f"{r['exception']}: {r['message'][:300]}", {"input": c, "observed": {x: r[x] for x in ("exception", "message", "trace")}})
            continue
        distinct.add((c["driver"], str(c["seed"]), k))
        a, b = r["a"], r["b"]
        dist["steps"] += len(a["steps"])
        kind = "seed-zero" if sv == 0 else "numpy-integer-seed" if isinstance(c["seed"], dict) else "seed"
        if a["seed_attr"] != sv or a["state0"] != r["pcg64_state"]:
            res.fail(f"{kind}:not-honoured", f"{c['driver']}: built with seed {c['seed']!r} but the simulation's seed is {a['seed_attr']} and its generator is "
                     f"{'not ' if a['state0'] != r['pcg64_state'] else ''}PCG64({sv})", {"input": c, "observed": {"seed_attr": a["seed_attr"], "state0": a["state0"], "expected": r["pcg64_state"]}})
        first = next((i for i, (x, y) in enumerate(zip(a["steps"], b["steps"])) if x != y), None)
        if first is not None or a["log"] != b["log"] or len(a["steps"]) != len(b["steps"]):
            sig = f"{kind}:not-reproducible"
            res.fail(sig, f"{c['driver']}: two runs with seed {c['seed']!r} under different global generator states diverge at step {first} "
                     f"(log equal: {a['log'] == b['log']})", {"input": c, "observed": {"first_diverging_step": first, "a": a["steps"][first] if first is not None else None,
                                                                                  "b": b["steps"][first] if first is not None else None, "trips": r["trips"]}})
        r2 = results2[k]
        if "exception" not in r2 and (r2["a"]["steps"] != a["steps"] or r2["a"]["log"] != a["log"]):
            first2 = next((i for i, (x, y) in enumerate(zip(a["steps"], r2["a"]["steps"])) if x != y), None)
            res.fail(f"{kind}:not-reproducible-across-interpreters", f"{c['driver']}: the same seed {c['seed']!r} gives another trajectory in an interpreter started with another PYTHONHASHSEED "
                     f"(first diverging step {first2})", {"input": c, "observed": {"first_diverging_step": first2, "hash_seeds": [0, 1 + res.seed % 4000]}})
        if not r["unseeded"]["same"]:
            res.fail("unseeded:recorded-seed-does-not-reproduce", f"{c['driver']}: a simulation built without a seed recorded seed {r['unseeded']['recorded_seed']}; a second one built with that seed "
                     f"diverges at step {r['unseeded']['first_diverging_step']}", {"input": c, "observed": r["unseeded"]})
        if r["plain_int"] is not None and (r["plain_int"]["steps"] != a["steps"] or r["plain_int"]["log"] != a["log"]):
            res.fail("numpy-integer-seed:differs-from-int", f"{c['driver']}: seed {c['seed']!r} and the equal builtin int give different trajectories", {"input": c})
        if r["ntrips"]:
            res.fail("global-generator", f"{c['driver']}: a global random function was called from the package during the run: {r['trips'][0]}", {"input": c, "observed": r["trips"]})
        if r["other"]["steps"] != a["steps"]:
            dist["different_seed_differs"] += 1
        elif len(a["steps"]) >= 4 and len({(x["pos"], x["cell"], x["n"]) for x in a["steps"]}) > 1:
            # (demanded only when the run shows its randomness at all: a program whose atoms are all fixed, or whose every trial is
            #  vetoed, has one trajectory whatever the seed - see DESIGN.md Appendix A)
            res.fail("different-seeds-same-trajectory", f"{c['driver']}: seeds {c['seed']!r} and {c['other_seed']} give identical trajectories over {len(a['steps'])} steps", {"input": c})
    res.coverage.update(
        evaluations=ncases * 3, distinct_nontrivial=len(distinct),
        rule="all seven drivers; seeds 0, 1, 2, 42, 2^32, 2^63, 2^64-1, 2^127+5, numpy int64/uint32 (incl. int64(0)) and random 40-bit seeds; generated move tables with "
             "intervals and forced minimum counts, real criteria; each case = run A (global seeds 1), run B (global seeds 98765, both re-seeded and consumed between "
             "steps), a run with another seed; trip-wires on 12 numpy.random / 9 random functions and on default_rng() without a seed; non-trivial = distinct case",
        correspondence={"flavour": "differential (the model's content is seed handling only): simulation seed and PCG64 state right after construction vs numpy.random.PCG64(seed)",
                        "cases": ncases, "agreed": ncases - sum(1 for f in res.failures if "not-honoured" in f["signature"]), "disagreed": sum(1 for f in res.failures if "not-honoured" in f["signature"]), "undecided": 0},
        direct_oracle={"evaluations": ncases * 3, "failures": len(res.failures)}, input_distribution=dist)
    res.samples += [{"case": {x: cases[i].get(x) for x in ("driver", "seed", "steps")}, "run_a_first_steps": results[i].get("a", {}).get("steps", [])[:2]} for i in (0, 5)]
    res.assumptions += ["trajectory = hashes of positions, cell, numbers after each step + move_history + the complete log text",
                        "numpy's PCG64 is trusted to be a deterministic function of its seed"]


def replay(res: C.Result, path):
    import json
    d = json.loads(open(path).read())
    c = d.get("input")
    if not c:
        print("replay: no concrete input in this file")
        return 1
    r = C.run_impl("c06.py", {"cases": [c]})["results"][0]
    print(json.dumps({k: r.get(k) for k in ("trips", "ntrips", "pcg64_state", "exception")} | {"a_seed": r.get("a", {}).get("seed_attr")}, indent=1)[:3000])
    return 0
