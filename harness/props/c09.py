"""C09 — scheduling: due-only, exact cycles, minimum counts, free-slot law, add_move guard."""
from __future__ import annotations

import random

import common as C


def gen_case(rng):
    cycles = rng.randint(1, 12)
    adds, names = [], []
    budget = cycles
    n_moves = rng.randint(1, 6)
    for i in range(n_moves):
        name = i if rng.random() > 0.12 or not names else rng.choice(names)  # sometimes re-add under an existing name
        mn = rng.choice([0, 0, 0, 1, 1, 2, 3, rng.randint(0, cycles + 2)])
        w = rng.choice([0, 0, 1, 1, 5, 16, 32, 64, rng.randint(0, 64)])
        iv = rng.choice([1, 1, 2, 3, 4, 5, 7])
        adds.append({"name": name, "interval": iv, "weight": w, "min": mn})
        names.append(name)
    # guarantee a move that is always due with positive weight (the property's side condition on weights)
    if rng.random() < 0.3:   # no always-due move: all weights positive, intervals > 1 => steps with nothing due occur
        for e in adds:
            e["weight"] = max(e["weight"], 1)
            e["interval"] = max(e["interval"], 2)
    else:
        adds.insert(rng.randint(0, len(adds)), {"name": 99, "interval": 1, "weight": rng.choice([1, 3, 64]), "min": 0})
    case = {"cycles": cycles, "adds": adds, "steps": rng.randint(6, 14), "seed": rng.randint(1, 2**31)}
    case["wscale"] = random.Random(case["seed"]).choice([64, 64, 8, 1, 64e9])      # weights are relative: w/64e9 is the same table in tiny units
    if random.Random(case["seed"] ^ 0x5C).random() < 0.3:
        case["built_with_cycles"] = cycles + random.Random(case["seed"]).choice([1, 3, 7])      # max_cycles is lowered on the existing object before the moves are added
    r3 = random.Random(case["seed"] ^ 0x7AB1E)
    if r3.random() < 0.3 and case["steps"] >= 4:
        case["table_edit"] = {"step": r3.randint(2, case["steps"] - 2), "name": r3.choice(adds)["name"], "interval": r3.choice([1, 2, 3, 5])}
        for s_ in range(case["steps"]):
            tb, _ = model_table(case, s_)
            due_ = [e for e in tb if s_ % e["interval"] == 0]
            if due_ and sum(e["weight"] for e in due_) == 0:
                del case["table_edit"]      # the property's side condition: the due weights are not all zero (on any step)
                break
    r4 = random.Random(case["seed"] ^ 0x1A7E)
    if r4.random() < 0.4 and any(e["min"] > 0 for e in adds) and not any(model_table(case, 0)[1]) and not any(model_table(case, case["steps"] - 1)[1]):
        case["late_min"] = True      # every move is added with minimum_count=0; the minimum counts are then set on the table entries (public MoveStorage fields)
    if cycles >= 2 and rng.random() < 0.3:
        # the documented dynamic use: the consumer of the step generator changes a weight between two moves of the LAST step
        case["edit"] = {"after": rng.randint(0, cycles - 2), "name": rng.choice(adds)["name"], "weight": rng.choice([0, 0, 0, 1, 64])}
        tbl, _ = model_table(case, case["steps"] - 1)
        due = [e for e in tbl if (case["steps"] - 1) % e["interval"] == 0]
        if sum(case["edit"]["weight"] if e["name"] == case["edit"]["name"] else e["weight"] for e in due) == 0:
            del case["edit"]      # the property's side condition: the due weights are not all zero
    return case


def adds_at(case, step):
    """the add_move calls that describe the table in force at `step` (a later edit of an interval = the same call with the new interval)"""
    te = case.get("table_edit")
    if not te or step < te["step"]:
        return case["adds"]
    return [dict(e, interval=te["interval"]) if e["name"] == te["name"] else e for e in case["adds"]]


def model_table(case, step=0):
    """python mirror of add_moves, only used for the direct oracle"""
    case = dict(case, adds=adds_at(case, step))
    tbl = []
    refused = []
    for e in case["adds"]:
        if sum(x["min"] for x in tbl) + e["min"] > case["cycles"]:
            refused.append(True)
            continue
        refused.append(False)
        for i, x in enumerate(tbl):
            if x["name"] == e["name"]:
                tbl[i] = e
                break
        else:
            tbl.append(e)
    return tbl, refused


def infer_oracle(names, due, cycles):
    """forced slots := first `min` occurrences of each due move; the rest are free choices"""
    fidx, free = [], []
    need = {e["name"]: e["min"] for e in due}
    taken = {}
    slot_forced = {}
    for e in due:
        pos = [i for i, n in enumerate(names) if n == e["name"]][:e["min"]]
        for p in pos:
            slot_forced[p] = e["name"]
    # fidx must be listed in np.repeat order
    for e in due:
        fidx += [p for p, n in sorted(slot_forced.items()) if n == e["name"]]
    free = [n for i, n in enumerate(names) if i not in slot_forced]
    return fidx, free


def check_edited_step(c, tbl, due, st, edit, dist):
    """last step of a case whose consumer changed one weight after slot `after`: every later free slot must request the CURRENT weights"""
    why = []
    names, marks, calls = st["names"], st.get("slot_marks", []), st["calls"]
    if not due:
        return ["nothing due but attempted"] if names else []
    dist["edited_steps"] = dist.get("edited_steps", 0) + 1
    if len(names) != c["cycles"]:
        why.append(f"{len(names)} attempts for {c['cycles']} cycles")
    lo = 0
    for j, n in enumerate(names):
        hi = marks[j] if j < len(marks) else len(calls)
        weights = [(edit["weight"] if (e["name"] == edit["name"] and j > edit["after"]) else e["weight"]) for e in due]
        tot = sum(weights)
        for call in calls[lo:hi]:
            if call.get("p") is not None and tot > 0:
                ks = [p * tot for p in call["p"]]
                if len(ks) != len(due) or any(abs(x - w) > 1e-9 * max(1, tot) for x, w in zip(ks, weights)):
                    why.append(f"slot {j}: free choice requested p={[round(x, 4) for x in call['p']]} but the weights in force are {weights} (one was changed after slot {edit['after']})")
                elif weights[[e["name"] for e in due].index(n)] == 0:
                    why.append(f"slot {j}: move {n} chosen freely with weight 0")
        lo = hi
    return why


def entry_lit(e):
    return f"{{| ename := {e['name']}; einterval := {e['interval']}; eweight := {e['weight']}; emin := {e['min']}%nat |}}"


def designated_readds():
    """Designated add_move sequences (seeded change C09-11: the committed total cached under the table SIZE): a name is registered,
    re-registered with another minimum count - the table keeps its size, the committed total does not - and the very next call asks
    for forced slots.  Both directions: the total grew (the next call must be refused) and the total shrank (it must be accepted)."""
    out = []
    for c in (1, 2, 3, 5, 8):
        for pre in (0, 2):
            others = [{"name": 50 + i, "interval": i + 2, "weight": 1, "min": 0} for i in range(pre)]
            base = [{"name": 99, "interval": 1, "weight": 1, "min": 0}] + others
            grew = base + [{"name": 0, "interval": 1, "weight": 1, "min": 0}, {"name": 0, "interval": 1, "weight": 1, "min": c},
                           {"name": 0, "interval": 1, "weight": 1, "min": 1}, {"name": 1, "interval": 1, "weight": 1, "min": 1},
                           {"name": 2, "interval": 2, "weight": 3, "min": 0}]
            shrank = base + [{"name": 0, "interval": 1, "weight": 1, "min": c}, {"name": 0, "interval": 1, "weight": 1, "min": 0},
                             {"name": 0, "interval": 1, "weight": 1, "min": 0}, {"name": 0, "interval": 1, "weight": 1, "min": 1},
                             {"name": 99, "interval": 1, "weight": 2, "min": c - 1}, {"name": 1, "interval": 1, "weight": 1, "min": 1}]
            for adds in (grew, shrank):
                out.append({"cycles": c, "adds": adds, "steps": 6, "seed": 1000 + 10 * c + pre, "wscale": 64})
    return out


def run(res: C.Result):
    rng = random.Random(res.seed)
    C.prove(res)
    ncases = 120 if res.tier == "quick" else 2500
    cases = designated_readds() + [gen_case(rng) for _ in range(ncases)]
    ncases = len(cases)
    outs = C.run_impl_parallel("c09.py", [{"cases": cases[i::16]} for i in range(16)])
    results = [None] * ncases
    for j, o in enumerate(outs):
        results[j::16] = o["results"]
    items, tbl_items, meta = [], [], []
    dist = {"cycles": {}, "refused_adds": 0, "steps": 0, "steps_nothing_due": 0, "free_choice_calls": 0,
            "forced_slots": 0, "weight_zero_due": 0, "law_observed": 0}
    distinct = set()
    for k, (c, r) in enumerate(zip(cases, results)):
        if "exception" in r:
            res.fail("exception", f"{r['exception']}: {r['message']}", {"input": c, "observed": r})
            continue
        tbl, refused = model_table(c)
        dist["cycles"][c["cycles"]] = dist["cycles"].get(c["cycles"], 0) + 1
        dist["refused_adds"] += sum(refused)
        if r["refused"] != refused:
            res.fail("add_move-guard", f"add_move refusals {r['refused']} expected {refused}", {"input": c, "observed": r["refused"]})
        es = "[" + "; ".join(entry_lit(e) for e in c["adds"]) + "]"
        flat_tbl = [int(round(x)) for row in r["table"] for x in row]
        tbl_items.append(f"({k}%nat, ({c['cycles']}%nat, {es}), {C.zlist(flat_tbl)})")
        if c.get("table_edit"):
            dist["tables_edited_between_steps"] = dist.get("tables_edited_between_steps", 0) + 1
        for st in r["steps"]:
            s, names = st["step"], st["names"]
            tbl, _ = model_table(c, s)
            es = "[" + "; ".join(entry_lit(e) for e in adds_at(c, s)) + "]"
            due = [e for e in tbl if s % e["interval"] == 0]
            dist["steps"] += 1
            why = []
            edited = c.get("edit") if s == c["steps"] - 1 else None
            if edited:
                why += check_edited_step(c, tbl, due, st, edited, dist)
                if why:
                    res.fail("schedule:weights-changed-during-step", "; ".join(why[:3]), {"input": c, "step": s, "observed": st})
                continue
            if not due:
                dist["steps_nothing_due"] += 1
                if names:
                    why.append(f"nothing due but attempted {names}")
            else:
                if len(names) != c["cycles"]:
                    why.append(f"{len(names)} attempts for {c['cycles']} cycles")
                for n in names:
                    if n not in [e["name"] for e in due]:
                        why.append(f"move {n} attempted at step {s} but not due")
                for e in due:
                    if names.count(e["name"]) < e["min"]:
                        why.append(f"move {e['name']} attempted {names.count(e['name'])} < minimum {e['min']}")
                    if e["weight"] == 0:
                        dist["weight_zero_due"] += 1
                        if names.count(e["name"]) > e["min"]:
                            why.append(f"weight-zero move {e['name']} chosen freely")
            if [h[0] for h in st["history"]] != names:
                why.append("move_history names differ from yielded names")
            # requested law, when the calls are recognisable as weighted choices
            law = None
            tot = sum(e["weight"] for e in due) if due else 0
            for call in st["calls"]:
                if call.get("p") is not None:
                    dist["free_choice_calls"] += 1
                    ks = [p * tot for p in call["p"]]
                    if len(ks) != len(due) or any(abs(x - e["weight"]) > 1e-9 * max(1, tot) for x, e in zip(ks, due)):
                        why.append(f"free slot requested p={call['p']} for due weights {[e['weight'] for e in due]}")
                    else:
                        law = [(e["name"], e["weight"]) for e in due]
            if why:
                res.fail("schedule", "; ".join(why[:3]), {"input": c, "step": s, "observed": st})
            fidx, free = infer_oracle(names, due, c["cycles"])
            dist["forced_slots"] += len(fidx)
            dist["law_observed"] += law is not None
            if due and len(tbl) > 1:
                distinct.add((k, tuple(names)))
            expected = [1] + names + [-7] + ([x for p in law for x in p] if law else [])
            items.append(f"({len(meta)}%nat, ({c['cycles']}%nat, {es}, {s}, {C.natlist(fidx)}, {C.zlist(free)}, {C.blit(law is not None)}), {C.zlist(expected)})")
            meta.append((k, s))
    hdr = "From QV Require Import Model.Driver Model.Algebra.\n"
    disagree = []
    for i in range(0, len(items), 400):
        body, err = C.coq_eval_list(res.workdir, hdr, f"disagreements c09_case [{'; '.join(items[i:i + 400])}]", tag=f"c09_{i}")
        if err:
            res.broken("correspondence:coq-evaluation", err[-1500:])
        disagree += C.parse_nat_list(body)
    for d in disagree[:10]:
        k, s = meta[d]
        res.broken("correspondence:Driver.yield_moves", {"case": cases[k], "step": s, "impl": results[k]["steps"][s]})
    body, err = C.coq_eval_list(res.workdir, hdr, f"disagreements c09_table [{'; '.join(tbl_items)}]", tag="c09_tbl")
    if err:
        res.broken("correspondence:coq-evaluation", err[-1500:])
    td = C.parse_nat_list(body)
    for k in td[:10]:
        res.broken("correspondence:Driver.add_moves", {"case": cases[k], "impl_table": results[k].get("table")})
    res.coverage.update(
        evaluations=len(items) + len(tbl_items), distinct_nontrivial=len(distinct),
        rule="random tables (1-7 entries, intervals 1-7, weights k/64 incl. 0, minimum counts incl. over-committing ones, "
             "re-added names), cycles 1-12, every step 0..13 of a real irun(); non-trivial = distinct (table, step) with a "
             "due move and >1 table entry",
        correspondence={"flavour": "relational (oracle answers inferred from the yielded names; admissibility checked in Coq)",
                        "cases": len(items), "disagreed": len(disagree), "agreed": len(items) - len(disagree),
                        "tables": len(tbl_items), "tables_disagreed": len(td), "model": "Driver.yield_moves / add_moves / free_slot_law"},
        direct_oracle={"evaluations": dist["steps"], "failures": len(res.failures)}, input_distribution=dist)
    res.samples += [{"case": cases[i], "step3": results[i]["steps"][3] if "steps" in results[i] else None} for i in (0, 1)]
    res.assumptions += ["numpy.random.Generator.choice samples the requested law (p vector / without replacement)",
                        "independence of free slots: each free slot is a separate choice() call with the same p vector "
                        "(checked from the recorded calls); a long-run frequency test is not run in this tier"]
