"""C03 — a rejected or failed trial leaves the system exactly as it was.  Model/Context.v, Proofs/ContextProofs.v, Props/C03.v.
Tie: real Canonical / HamiltonianCanonical / Isobaric / Isotension / GrandCanonical runs from generated programs (move tables built
with + and *, atomic and molecular labels, extra per-atom arrays, FixAtoms, scripted verdicts, vetoing check_move).  At the moment
the criteria is consulted the harness snapshots the atoms and the context's pending bookkeeping; the Coq model's `revert` / `save`
of that state (vm_compute on tokenised rows) must equal the implementation's state after the trial.  Search: after every trial with
a False / None verdict the tokenised observable state and all bookkeeping must equal those before the trial."""
from __future__ import annotations

import random
import re

import common as C
from props import progs


def obs(s):
    """observable state of a snapshot: atom identities in order, every per-atom array, cell, constrained identities"""
    return {"vid": s["vid"], "arrays": s["arrays"], "cell": s["cell"], "fixed_vid": sorted(s["vid"][i] for i in s["fixed"] if i < len(s["vid"])),
            "nconstraints": s["nconstraints"]}


def leaks(s):
    c = s["ctx"]
    out = []
    if c.get("added"):
        out.append(f"pending added indices {c['added']}")
    if c.get("deleted"):
        out.append(f"pending deleted indices {c['deleted']}")
    if c.get("particle_delta"):
        out.append(f"pending particle_delta {c['particle_delta']}")
    for j, lf in enumerate(s["leaves"]):
        if lf["to_displace"] is not None or lf["to_add"] or lf["to_delete"] is not None:
            out.append(f"move {j} keeps a pre-selection {lf}")
    return out


def classify(prog, t):
    """signature of a failure, so that the known findings match exactly their own input class"""
    ent = next(m for m in prog["moves"] if m["name"] == t["name"])

    def leaf_ids(e):
        return [e] if isinstance(e, int) else leaf_ids(e[1]) + (leaf_ids(e[2]) if e[0] == "+" else [])
    kinds = [prog["leaves"][i]["kind"] for i in leaf_ids(ent["expr"])]
    plain = len(set(kinds)) > 1
    if plain and kinds.count("exch") >= 2:
        # the shipped bookkeeping undoes: insertions only, ONE deletion batch, or a deletion followed by insertions (Props/C03.v,
        # C03_reject_restores_general); it cannot undo two deletions made one after the other or an insertion followed by a deletion.
        # Only those trials belong to the known finding; a delete-then-insert trial of the same composite must be restored like any other.
        acts = [a for a in t.get("acts", []) if a != "none"]
        if acts.count("del") >= 2 or ("ins" in acts and "del" in acts[acts.index("ins"):]) or not acts:
            return "plain-composite-with-two-exchange-moves"
        return "plain-composite:undoable-trial:" + ">".join(acts)
    if prog.get("fixed") and any(prog["leaves"][i]["kind"] == "exch" and any(prog["leaves"][i]["labels"][f] >= 0 for f in prog["fixed"] if f < len(prog["leaves"][i]["labels"]))
                                  for i in leaf_ids(ent["expr"])):
        return "fixed-exchangeable-atom-deleted"
    return f"{prog['ensemble']}:{'+'.join(sorted(set(kinds)))}"


HDR = """From QV Require Import Model.Context.
Open Scope Z_scope.
Definition st (rows : list (Z * Z)) (lastp : list Z) (a d : list nat) (drows : list (Z * Z)) (pd n : Z) := Build_cstate rows lastp a d drows pd n.
Definition showr (s : cstate Z Z) := (map fst (rows s), map snd (rows s), nexch s).
"""


def run(res: C.Result):
    rng = random.Random(res.seed)
    C.prove(res)
    quick = res.tier == "quick"
    nprog = 90 if quick else 1800
    cases = [progs.add_mid_run_edit(progs.gen_program(rng, k)) for k in range(nprog)]
    for k, p in enumerate(cases):
        if k % 3 == 1:
            p["np_verdicts"] = True          # the criteria answers numpy.bool_ (what `np.exp(-dE/kT) > rng.random()` gives), not bool
    # designated inputs of the open findings (they must keep being exercised)
    nk = 4 if quick else 30
    for k in range(nk):
        cases.append(progs.gen_program(rng, 4 + 7 * k, ensembles=("gc",), plain_multi_exchange=True))
        cases[-1]["designated"] = "plain-composite-with-two-exchange-moves"
        cases.append(progs.gen_program(rng, 5 + 7 * k, ensembles=("gc",), fixed_exchange_particle=True))
        cases[-1]["designated"] = "fixed-exchangeable-atom-deleted"
    for k in range(6 if quick else 60):
        cases.append(progs.framework_program(rng, k))      # molecules interleaved with frozen framework atoms
    for k in range(8 if quick else 100):
        cases.append(progs.relocate_program(rng, k))      # delete-then-insert in one trial: undone correctly by the shipped code
    outs = C.run_impl_parallel("c03.py", [{"cases": cases[i::16]} for i in range(16)], timeout=3000)
    results = [None] * len(cases)
    for j, o in enumerate(outs):
        results[j::16] = o["results"]
    dist = {"ensemble": {}, "trials": 0, "outcomes": {"accepted": 0, "rejected": 0, "failed": 0}, "rejected_by_kind": {}, "with_fixatoms": 0,
            "extra_arrays": {}, "pending_at_evaluate": {"insertions": 0, "deletions": 0, "none": 0}, "table_entries": {}}
    items, meta = [], []
    distinct = set()
    for k, (p, r) in enumerate(zip(cases, results)):
        dist["ensemble"][p["ensemble"]] = dist["ensemble"].get(p["ensemble"], 0) + 1
        dist["with_fixatoms"] += bool(p["fixed"])
        for a, on in p["arrays"].items():
            dist["extra_arrays"][a] = dist["extra_arrays"].get(a, 0) + bool(on)
        for m in p["moves"]:
            dist["table_entries"][m["name"]] = dist["table_entries"].get(m["name"], 0) + 1
        if "exception" in r:
            sig = "exception"
            if p.get("designated"):
                sig = p["designated"]
            res.fail(sig, f"simulation raised {r['exception']}: {r['message'][:200]}", {"input": p, "observed": {x: r[x] for x in ("exception", "message", "trace")}})
            continue
        for ti, t in enumerate(r["trials"]):
            dist["trials"] += 1
            oc = t["outcome"]
            dist["outcomes"]["accepted" if oc else "rejected" if oc is False else "failed"] += 1
            distinct.add((k, ti))
            pre, post = t["pre"], t["post"]
            if oc is not True:
                kind = classify(p, t)
                dist["rejected_by_kind"][kind] = dist["rejected_by_kind"].get(kind, 0) + 1
                a, b = obs(pre), obs(post)
                why = []
                for key in a:
                    if a[key] != b[key]:
                        if key == "arrays":
                            bad = [n for n in a["arrays"] if a["arrays"][n] != b["arrays"].get(n)] + [n for n in b["arrays"] if n not in a["arrays"]]
                            why.append(f"per-atom arrays changed: {bad}")
                        else:
                            why.append(f"{key} changed: {a[key]} -> {b[key]}")
                why += leaks(post)
                if pre["ctx"].get("N") != post["ctx"].get("N"):
                    why.append(f"number_of_exchange_particles changed {pre['ctx'].get('N')} -> {post['ctx'].get('N')}")
                if why:
                    res.fail(kind, f"trial {ti} ({t['name']}, verdict {oc}): " + "; ".join(why)[:600],
                             {"input": p, "trial": ti, "observed": {"pre": pre, "post": post, "at_eval": t["at_eval"]}})
            # ---- correspondence: revert / save of the state the criteria saw
            ev = t["at_eval"]
            if ev is None or "added" not in ev["ctx"] and p["ensemble"] == "gc":
                continue
            c = ev["ctx"]
            toks = {}

            def tk(x):
                return toks.setdefault(x, len(toks) + 1)
            names = sorted(n for n in ev["arrays"] if n not in ("positions", "momenta"))
            ham = p["ensemble"] == "hamiltonian"

            def ptok(arrs, i):
                return tk(("p", arrs["positions"][i], arrs.get("momenta", [None] * (i + 1))[i] if ham else None))

            known_vids = set(ev["vid"]) | set(c.get("deleted_vid", [])) - {0}

            def otok(arrs, vid, i):
                # atoms inserted during the trial carry the identity 0 until the harness stamps them between trials
                return tk(("o", vid[i] if vid[i] in known_vids and vid[i] != 0 else 0) + tuple(arrs[n][i] for n in names if n in arrs) + ((arrs.get("momenta", [None] * (i + 1))[i],) if not ham else ()))
            rows = [(ptok(ev["arrays"], i), otok(ev["arrays"], ev["vid"], i)) for i in range(ev["n"])]
            if ham:
                lastp = [tk(("p", c["last_positions"][i], c["last_momenta"][i])) for i in range(c["n_last_positions"])]
            else:
                lastp = [tk(("p", c["last_positions"][i], None)) for i in range(c["n_last_positions"])]
            added, deleted = c.get("added", []), c.get("deleted", [])
            dist["pending_at_evaluate"]["insertions" if added else "deletions" if deleted else "none"] += 1
            dr = c.get("deleted_rows", {})
            drows = [(ptok(dr, i), otok(dr, c["deleted_vid"], i)) for i in range(c.get("n_deleted_atoms", 0))]
            if any(d >= ev["n"] + len(deleted) or d < 0 for d in deleted) or any(a_ >= ev["n"] for a_ in added):
                continue   # out-of-frame indices: python would raise; the direct oracle reports what happens
            zz = lambda l: "[" + "; ".join(f"({a_}, {b_})" for a_, b_ in l) + "]"
            state = f"(st {zz(rows)} {C.zlist(lastp)} {C.natlist(added)} {C.natlist(deleted)} {zz(drows)} ({c.get('particle_delta', 0)}) ({c.get('N', 0)}))"
            fn = "save" if oc else "revert 0 0"
            items.append(f"showr ({fn} {state})")
            prow = [(ptok(post["arrays"], i), otok(post["arrays"], post["vid"], i)) for i in range(post["n"])]
            meta.append((k, ti, bool(oc), [a_ for a_, _ in prow], [b_ for _, b_ in prow], post["ctx"].get("N", 0), classify(p, t)))
    # ---- evaluate the model
    got = {}
    per = 150
    lines = [f"Eval vm_compute in ({j}%Z, {it})." for j, it in enumerate(items)]
    files = ["\n".join(lines[i:i + per]) for i in range(0, len(lines), per)]
    from concurrent.futures import ThreadPoolExecutor

    def one(idx_text):
        idx, text = idx_text
        f = res.workdir / f"c03_{idx}.v"
        f.write_text(HDR + text + "\n")
        return C.run_coq_file(f, 1200)

    with ThreadPoolExecutor(max_workers=16) as ex:
        for rc, out, err in ex.map(one, enumerate(files)):
            if rc != 0:
                res.broken("correspondence:coq-evaluation", err[-1500:])
            for m in re.finditer(r"=\s*\((\d+)(?:%\w+)?,\s*(.*?)\)\s*:\s", out, re.S):
                got[int(m.group(1))] = re.sub(r"\s+", " ", m.group(2))
    agree = dis = 0
    known_sigs = {kf["signature"] for kf in C.load_known() if kf["property"] == "C03" and kf["status"] == "open"}
    for j, (k, ti, acc, ppos, poth, pn, kind) in enumerate(meta):
        g = got.get(j)
        nums = [int(x) for x in re.findall(r"-?\d+", g or "")]
        want = ppos + poth + [pn]
        if g is not None and nums == want:
            agree += 1
        elif kind in known_sigs:
            agree += 0   # the implementation's behaviour on the open findings' inputs is reported by the direct oracle
        else:
            dis += 1
            if dis <= 8:
                res.broken(f"correspondence:Context.{'save' if acc else 'revert'}", {"case": cases[k], "trial": ti, "model": (g or "")[:500], "impl": want})
    res.coverage.update(
        evaluations=dist["trials"], distinct_nontrivial=len(distinct),
        rule="generated programs on real Canonical/HamiltonianCanonical/Isobaric/Isotension/GrandCanonical objects: 4-9 atoms, tables of 1-7 entries "
             "(displacement d, d*k, a+b, a+(b+c); Hamiltonian; cell moves alone and in c+d; exchange e, e1+e2, d+e; atomic and 1-3 atom molecular "
             "exchange species), atomic/molecular labels with negatives, tags/momenta/charges/custom float and int arrays each present with p=1/2, "
             "FixAtoms on a random subset, scripted verdicts (p=1/2), check_move vetoing 0/25/50% with max_attempts 1-2, 5-12 steps of 1-3 cycles; "
             "non-trivial = distinct (program, trial); designated inputs of the open findings are always included",
        correspondence={"flavour": "functional: Context.revert / Context.save of the state seen by the criteria (tokenised rows, pending lists) by vm_compute "
                                   "must equal the implementation's state after the trial", "cases": len(meta), "agreed": agree, "disagreed": dis, "undecided": 0},
        direct_oracle={"evaluations": dist["trials"], "failures": len(res.failures)}, input_distribution=dist)
    res.samples += [{"program": {x: cases[i][x] for x in ("ensemble", "moves", "leaves", "fixed", "arrays")},
                     "trials": [{x: t[x] for x in ("name", "outcome")} for t in results[i].get("trials", [])[:8]]} for i in (0, 4)]
    res.assumptions += ["cell restore (DeformationContext) is checked by the direct oracle only; the Coq model covers rows, positions, momenta (Hamiltonian) and the exchange bookkeeping",
                        "a failed trial (verdict None) triggers neither save nor revert in the driver: the move itself must have cleaned up"]


def replay(res: C.Result, path):
    import json
    d = json.loads(open(path).read())
    p = d.get("input")
    if not p:
        print("replay: no concrete input in this file")
        return 1
    r = C.run_impl("c03.py", {"cases": [p]})["results"][0]
    ti = d.get("trial")
    if "exception" in r:
        print(json.dumps(r, indent=1)[:3000])
        return 1
    t = r["trials"][ti] if ti is not None and ti < len(r["trials"]) else None
    print(json.dumps({"trial": ti, "now": t and {"name": t["name"], "outcome": t["outcome"], "pre": obs(t["pre"]), "post": obs(t["post"])}}, indent=1)[:5000])
    return 0
