"""C19 — reinsert∘delete = id (every array, dtype, any index order) and the label glue of search_molecules."""
from __future__ import annotations

import itertools
import random

import numpy as np

import common as C

ARRS = ["tags", "momenta", "charges", "masses", "custom2d", "customint", "custombool", "custom3d", "float32"]


def gen_reinsert(rng):
    n = rng.randint(1, 24)
    k = rng.randint(1, n) if rng.random() < 0.85 else n
    idx = rng.sample(range(n), k)
    if rng.random() < 0.2:
        idx.sort()
    c = {"kind": "reinsert", "n": n, "indices": idx, "arrays": rng.sample(ARRS, rng.randint(0, len(ARRS))),
         "seed": rng.randint(0, 10**9), "as_array": rng.random() < 0.7}
    r2 = random.Random(c["seed"] ^ 0xC19)
    if r2.random() < 0.06:
        c["indices"] = []          # nothing was deleted (what a context holds after a reset): re-inserting nothing changes nothing, for a list and for an array
        return c
    if r2.random() < 0.3:
        # numpy / ASE index sets may count from the end: the same atoms addressed by negative indices (all, or some of them)
        allneg = r2.random() < 0.5
        c["raw_indices"] = [i - n if (allneg or r2.random() < 0.5) else i for i in idx]
    return c


def gen_molecules(rng):
    """random clusters; returns case + independent component computation inputs"""
    L = rng.choice([7.0, 9.0, 12.0])
    pbc = rng.random() < 0.5
    nm = rng.randint(1, 7)
    pos, sym = [], []
    for _ in range(nm):
        size = rng.choice([1, 1, 2, 2, 3, 4])
        c = [rng.uniform(0, L) for _ in range(3)]
        p = np.array(c)
        for s in range(size):
            pos.append(p.tolist())
            sym.append(rng.choice(["H", "O", "C"]))
            step = np.array([rng.gauss(0, 1) for _ in range(3)])
            p = p + step / np.linalg.norm(step) * rng.uniform(0.8, 1.3)
    order = list(range(len(pos)))
    rng.shuffle(order)  # molecules are NOT contiguous in index space
    pos = [pos[i] for i in order]
    sym = [sym[i] for i in order]
    n = len(pos)
    kind = rng.choice(["scalar", "scalar", "dict"])
    if kind == "scalar":
        cutoff = rng.choice([1.0, 1.4, 1.6, 2.5])
    else:
        pairs = list(itertools.combinations_with_replacement(sorted(set(sym)), 2))
        chosen = rng.sample(pairs, rng.randint(1, len(pairs)))
        cutoff = {f"{a}-{b}": rng.choice([1.1, 1.5, 2.0]) for a, b in chosen}
    rs = rng.choice([None, None, 1, 2, 3, [1, 2], [2, 4], [3, 3], [0, n]])
    dk = rng.choice(["none", "neg1", "negvar", "negvar", "list"])
    default = None if dk == "none" else ([-1] * n if dk == "neg1" else [-(i % 5) - 1 for i in range(n)])
    case = {"kind": "molecules", "symbols": sym, "positions": pos, "cell": [L, L, L], "pbc": pbc, "cutoff": cutoff,
            "required_size": rs, "default": default, "default_as_array": dk == "negvar" and rng.random() < 0.6}
    r2 = random.Random(int(pos[0][0] * 1e6) ^ n)
    if default is not None and r2.random() < 0.35:
        # every entry of the supplied default below -1 (e.g. -2 = "not yet classified"): admitted molecules still get labels >= 0
        case["default"] = [-(i % 4) - 2 for i in range(n)] if r2.random() < 0.5 else [-100] * n
        case["default_as_array"] = r2.random() < 0.6
        if r2.random() < 0.7:
            case["required_size"] = None      # (so that molecules are admitted)
    return case


def components(case):
    """independent union-find over brute-force minimum-image distances; None if a pair sits on a cutoff"""
    pos = np.array(case["positions"])
    n = len(pos)
    L = case["cell"][0]
    parent = list(range(n))
    edges = []

    def find(x):
        while parent[x] != x:
            parent[x] = parent[parent[x]]
            x = parent[x]
        return x

    for i in range(n):
        for j in range(i + 1, n):
            cut = case["cutoff"]
            if isinstance(cut, dict):
                a, b = sorted((case["symbols"][i], case["symbols"][j]))
                c = cut.get(f"{a}-{b}")
                if c is None:
                    continue
            else:
                c = cut
            d = pos[i] - pos[j]
            if case["pbc"]:
                best = min(np.linalg.norm(d + np.array(s) * L) for s in itertools.product((-2, -1, 0, 1, 2), repeat=3))
            else:
                best = np.linalg.norm(d)
            if abs(best - c) < 1e-6:
                return None
            if best < c:
                parent[find(i)] = find(j)
                edges.append((j, i) if (i + j) % 3 == 0 else (i, j))
    comps = {}
    for i in range(n):
        comps.setdefault(find(i), []).append(i)
    case["_edges"] = edges
    return sorted(comps.values(), key=min)


def canon(labels):
    seen, out = {}, []
    for x in labels:
        if x < 0:
            out.append(x)
        else:
            out.append(seen.setdefault(x, len(seen)))
    return out


def run(res: C.Result):
    rng = random.Random(res.seed)
    C.prove(res)
    n1 = 200 if res.tier == "quick" else 5000
    n2 = 200 if res.tier == "quick" else 4000
    c1 = [gen_reinsert(rng) for _ in range(n1)]
    c2, comps2 = [], []
    while len(c2) < n2:
        c = gen_molecules(rng)
        comp = components(c)
        if comp is not None:
            c2.append(c)
            comps2.append(comp)
    # corpus: the pinned tree's failing inputs (default arrays with more than one element, one-element [0])
    c2[0].update(default=[-(i % 3) - 2 for i in range(len(c2[0]["symbols"]))], default_as_array=True)
    allc = c1 + c2
    outs = C.run_impl_parallel("c19.py", [{"cases": allc[i::16]} for i in range(16)])
    results = [None] * len(allc)
    for j, o in enumerate(outs):
        results[j::16] = o["results"]
    items1, items2, items3 = [], [], []
    dist = {"n_atoms": {}, "k_deleted": {}, "arrays": {}, "sorted_indices": 0, "cutoff_kinds": {}, "pbc": 0,
            "required_size": {}, "default_kinds": {}, "components": {}, "admitted_atoms": 0, "default_atoms": 0}
    distinct = set()
    for k, (c, r) in enumerate(zip(c1, results[:n1])):
        if "exception" in r:
            res.fail("reinsert:exception", f"{r['exception']}: {r['message']}", {"input": c, "observed": r})
            continue
        dist["n_atoms"][c["n"]] = dist["n_atoms"].get(c["n"], 0) + 1
        dist["k_deleted"][len(c["indices"])] = dist["k_deleted"].get(len(c["indices"]), 0) + 1
        dist["sorted_indices"] += c["indices"] == sorted(c["indices"])
        for a in c["arrays"]:
            dist["arrays"][a] = dist["arrays"].get(a, 0) + 1
        if r["after"] != r["before"]:
            bad = [n for n in r["before"] if r["after"].get(n) != r["before"][n]] + [n for n in r["after"] if n not in r["before"]]
            res.fail("reinsert:not-inverse", f"arrays {bad} differ after delete+reinsert of indices {c.get('raw_indices', c['indices'])}",
                     {"input": c, "observed": {n: {"before": r["before"].get(n), "after": r["after"].get(n)} for n in bad}})
        if c["indices"] != sorted(c["indices"]) and len(c["indices"]) > 1:
            distinct.add(("r", c["n"], tuple(c["indices"])))
        names = sorted(r["before"])
        arrs = "[" + "; ".join(f"({r['before'][n][0]}, {C.zlist(r['before'][n][1])})" for n in names) + "]"
        exp = []
        for n in names:
            for stage in ("kept", "removed", "after"):
                dt, rows = r[stage].get(n, [0, []])
                exp += [dt, len(rows), *rows]
        items1.append(f"({k}%nat, ({arrs}, {C.natlist(c['indices'])}), {C.zlist(exp)})")
    for k, (c, comp, r) in enumerate(zip(c2, comps2, results[n1:])):
        ck = "dict" if isinstance(c["cutoff"], dict) else "scalar"
        dist["cutoff_kinds"][ck] = dist["cutoff_kinds"].get(ck, 0) + 1
        dist["pbc"] += c["pbc"]
        dist["required_size"][str(c["required_size"])] = dist["required_size"].get(str(c["required_size"]), 0) + 1
        dkind = "none" if c["default"] is None else ("array" if c["default_as_array"] else "list")
        dist["default_kinds"][dkind] = dist["default_kinds"].get(dkind, 0) + 1
        dist["components"][len(comp)] = dist["components"].get(len(comp), 0) + 1
        if "exception" in r:
            sig = "molecules:default-array-truthiness" if r["exception"] == "ValueError" and "truth value" in r["message"] else "molecules:exception"
            res.fail(sig, f"{r['exception']}: {r['message']}", {"input": c, "observed": r})
            continue
        n = len(c["symbols"])
        rs = c["required_size"]
        lo, hi = (0, n) if rs is None else ((rs, rs) if isinstance(rs, int) else tuple(rs))
        if r.get("default_modified") or r.get("default_returned"):
            res.fail("molecules:default-array-modified", "search_molecules wrote into the caller's default array (a later call with the same array no longer gets the supplied default)",
                     {"input": c, "observed": {x: r.get(x) for x in ("default_modified", "default_returned")}})
        default = c["default"] if c["default"] is not None else [-1] * n
        lab = r["labels"]
        comp_of = {i: a for a, cc in enumerate(comp) for i in cc}
        adm = {i for cc in comp if lo <= len(cc) <= hi for i in cc}
        dist["admitted_atoms"] += len(adm)
        dist["default_atoms"] += n - len(adm)
        why = []
        if len(lab) != n:
            why.append(f"{len(lab)} labels for {n} atoms")
        else:
            for i in range(n):
                if i not in adm and lab[i] != default[i]:
                    why.append(f"atom {i} (not in an admitted component) has label {lab[i]}, default {default[i]}")
                if i in adm and lab[i] < 0:
                    why.append(f"atom {i} of an admitted component has negative label {lab[i]}")
            for i in adm:
                for j in adm:
                    if (lab[i] == lab[j]) != (comp_of[i] == comp_of[j]):
                        why.append(f"atoms {i},{j}: labels {lab[i]},{lab[j]} but components {comp_of[i]},{comp_of[j]}")
        if why:
            res.fail("molecules:labels", "; ".join(why[:3]), {"input": c, "observed": lab, "components": comp})
        if len(comp) > 1 and adm and len(adm) < n:
            distinct.add(("m", k))
        comps_l = "[" + "; ".join(C.natlist(cc) for cc in comp) + "]"
        items2.append(f"({k}%nat, ({C.zlist(default)}, {lo}%nat, {hi}%nat, {comps_l}), {C.zlist(canon(lab))})")
        edges_l = "[" + "; ".join(f"({a}, {b})%nat" for a, b in c["_edges"]) + "]"
        items3.append(f"({k}%nat, ({C.zlist(default)}, {lo}%nat, {hi}%nat, {edges_l}), {C.zlist(canon(lab))})")
        dist["edges"] = dist.get("edges", 0) + len(c["_edges"])
    hdr = "From QV Require Import Model.Atoms Model.Algebra.\n"
    tot_dis = 0
    for tag, f, items, cs, model in (("r", "c19_reinsert_case", items1, c1, "Atoms.delete/select/reinsert"),
                                     ("m", "c19_labels_case", items2, c2, "Atoms.labels"),
                                     ("e", "c19_molecules_case", items3, c2, "Atoms.components+labels")):
        for i in range(0, len(items), 300):
            body, err = C.coq_eval_list(res.workdir, hdr, f"disagreements {f} [{'; '.join(items[i:i + 300])}]", tag=f"c19{tag}_{i}")
            if err:
                res.broken("correspondence:coq-evaluation", err[-1500:])
            ds = C.parse_nat_list(body)
            tot_dis += len(ds)
            for d in ds[:5]:
                res.broken(f"correspondence:{model}", {"case": cs[d]})
    res.coverage.update(
        evaluations=len(allc), distinct_nontrivial=len(distinct),
        rule="(a) real Atoms (1-24 atoms, random subsets of 9 extra arrays incl. 2-D/3-D/int/bool/float32), random index "
             "subsets in random order, list or ndarray indices: delete, slice, reinsert_atoms, three stages compared with the "
             "model row by row (byte-level row tokens + dtype); (b) random molecular geometries (shuffled indices, periodic or "
             "not, scalar/dict cutoffs, size filters, default arrays) against (i) the model's verified component algorithm "
             "(Atoms.components, C19_components_spec) evaluated in Coq on the within-cutoff pair list and (ii) an independent union-find, both over brute-force "
             "minimum-image distances; non-trivial = unsorted multi-index deletion, or >1 component with both admitted and "
             "non-admitted atoms",
        correspondence={"flavour": "functional", "cases": len(items1) + len(items2) + len(items3), "disagreed": tot_dis,
                        "agreed": len(items1) + len(items2) + len(items3) - tot_dis},
        direct_oracle={"evaluations": len(allc), "failures": len(res.failures)}, input_distribution=dist)
    res.samples += [{"case": c1[0], "result_keys": list(results[0].keys())}, {"case": c2[1], "labels": results[n1 + 1].get("labels"), "components": comps2[1]}]
    res.assumptions += ["which pairs are within the cutoff is float geometry (brute-force minimum-image distances computed by the harness); the components of that pair list are computed by the verified model",
                        "pairs within 1e-6 of a cutoff are excluded from generation",
                        "default arrays have negative entries (with non-negative defaults 'same non-negative label iff connected' "
                        "is unsatisfiable for any implementation)"]
