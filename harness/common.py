"""Shared machinery: Coq build / case evaluation, evidence, known findings, verdicts."""
from __future__ import annotations

import fcntl
import json
import os
import re
import shutil
import subprocess
import sys
import time
from pathlib import Path

# relocatable for my own exploration (snapshot copies run against a scratch worktree); the registered commands use /verif and /repo
VERIF = Path(os.environ.get("QV_VERIF") or Path(__file__).resolve().parents[1])
REPO = Path(os.environ.get("QV_REPO") or "/repo")
COQ = VERIF / "coq"
WORK = VERIF / "_work"
PY = "/venv/bin/python"
IMPL_ENV = dict(
    os.environ,
    PYTHONPATH=str(REPO / "src"),
    QV_REPO=str(REPO),
    PYTHONHASHSEED="0",
    PYTHONDONTWRITEBYTECODE="1",
    QUANSINO_VERIF="1",
    OMP_NUM_THREADS="1",
    OPENBLAS_NUM_THREADS="1",
    MKL_NUM_THREADS="1",
)

FORBIDDEN = re.compile(
    r"\b(Admitted|admit|Axiom|Axioms|Parameter|Parameters|Conjecture|Admit Obligations|"
    r"Unset Guard Checking|Unset Positivity Checking|Unset Universe Checking|bypass_check|"
    r"type-in-type|impredicative-set)\b"
)


# --------------------------------------------------------------------------- build


class BuildError(Exception):
    def __init__(self, msg, file=None, line=None, lemma=None, log=""):
        super().__init__(msg)
        self.file, self.line, self.lemma, self.log = file, line, lemma, log


def _strip_comments(text: str) -> str:
    out, depth, i = [], 0, 0
    while i < len(text):
        if text.startswith("(*", i):
            depth += 1
            i += 2
        elif text.startswith("*)", i) and depth:
            depth -= 1
            i += 2
        else:
            if not depth:
                out.append(text[i])
            i += 1
    return "".join(out)


def grep_gate() -> list[str]:
    """No Admitted/Axiom/Parameter/... anywhere; Variable/Hypothesis only inside sections."""
    bad = []
    for f in sorted(COQ.rglob("*.v")):
        src = _strip_comments(f.read_text())
        for m in FORBIDDEN.finditer(src):
            bad.append(f"{f.relative_to(VERIF)}: forbidden `{m.group(0)}`")
        depth = 0
        for ln in src.splitlines():
            s = ln.strip()
            if re.match(r"Section\s+\w+", s):
                depth += 1
            elif re.match(r"End\s+\w+", s) and depth:
                depth -= 1
            elif re.match(r"(Variable|Variables|Hypothesis|Hypotheses|Context)\b", s) and depth == 0:
                bad.append(f"{f.relative_to(VERIF)}: `{s[:40]}` outside a section")
    return bad


def _enclosing_lemma(path: Path, line: int) -> str | None:
    try:
        lines = path.read_text().splitlines()
    except OSError:
        return None
    for i in range(min(line, len(lines)) - 1, -1, -1):
        m = re.match(r"\s*(Lemma|Theorem|Corollary|Example|Fact|Definition|Fixpoint|Goal)\s+(\w+)?", lines[i])
        if m:
            return m.group(2) or "Goal"
    return None


def build_coq(timeout=1500) -> float:
    """Full .vo build of the Coq project (incremental), under a lock. Raises BuildError."""
    t0 = time.time()
    gate = grep_gate()
    if gate:
        raise BuildError("grep gate: " + "; ".join(gate[:5]))
    lock = open(VERIF / ".build.lock", "w")
    fcntl.flock(lock, fcntl.LOCK_EX)
    try:
        files = sorted(str(p.relative_to(COQ)) for p in COQ.rglob("*.v"))
        proj = "-Q . QV\n-arg -w -arg -all\n" + "\n".join(files) + "\n"
        pf = COQ / "_CoqProject"
        if not pf.exists() or pf.read_text() != proj or not (COQ / "Makefile").exists():
            pf.write_text(proj)
            subprocess.run(["coq_makefile", "-f", "_CoqProject", "-o", "Makefile"], cwd=COQ, check=True,
                           capture_output=True)
        p = subprocess.run(["timeout", str(timeout), "make", "-j16", "-k"], cwd=COQ, capture_output=True, text=True)
        if p.returncode != 0:
            log = p.stdout[-6000:] + p.stderr[-6000:]
            m = re.search(r'File "\./([^"]+)", line (\d+)', p.stderr) or re.search(r'File "([^"]+)", line (\d+)', p.stderr)
            f, ln, lem = None, None, None
            if m:
                f, ln = m.group(1), int(m.group(2))
                lem = _enclosing_lemma(COQ / f, ln)
            raise BuildError(f"coq build failed in {f}:{ln} ({lem})", f, ln, lem, log)
    finally:
        fcntl.flock(lock, fcntl.LOCK_UN)
        lock.close()
    return time.time() - t0


def props_obligations(pid: str, workdir: Path):
    """Compile Props/<pid>.v separately (fresh) and capture `Print Assumptions` per theorem."""
    src = COQ / "Props" / f"{pid}.v"
    text = _strip_comments(src.read_text())
    names = re.findall(r"Print Assumptions\s+([\w.]+)\s*\.", text)
    theorems = re.findall(r"^\s*(?:Theorem|Corollary)\s+(\w+)", text, re.M)
    examples = re.findall(r"^\s*Example\s+(\w+)", text, re.M)
    (workdir / "props").mkdir(exist_ok=True)
    out_vo = workdir / "props" / f"{pid}.vo"
    p = subprocess.run(
        ["timeout", "600", "coqc", "-Q", str(COQ), "QV", "-w", "-all", "-o", str(out_vo), str(src)],
        capture_output=True, text=True, cwd=workdir)
    if p.returncode != 0:
        m = re.search(r'line (\d+)', p.stderr)
        ln = int(m.group(1)) if m else 0
        raise BuildError(f"Props/{pid}.v failed", f"Props/{pid}.v", ln, _enclosing_lemma(src, ln), p.stderr[-4000:])
    blocks = re.split(r"(?m)^(?=Closed under the global context|Axioms:)", p.stdout)
    blocks = [b.strip() for b in blocks if b.strip().startswith(("Closed under", "Axioms:"))]
    assumptions = {}
    for n, b in zip(names, blocks):
        if b.startswith("Closed"):
            assumptions[n] = []
        else:
            ax = re.findall(r"(?m)^([\w.']+)\s*:", b[len("Axioms:"):])
            assumptions[n] = sorted(set(ax))
    shutil.rmtree(workdir / "props", ignore_errors=True)
    return {"theorems": theorems, "examples": examples, "assumptions": assumptions,
            "print_assumptions_count": len(names), "blocks": len(blocks)}


_BIGNAT = re.compile(r"(?:Init\.)?Nat\.of_num_uint\s*\(\s*Number\.UIntDecimal\s*\(")


def denat(text: str) -> str:
    """Coq prints a nat numeral above 5000 as `Init.Nat.of_num_uint (Number.UIntDecimal (Decimal.D6 (Decimal.D0 ... Decimal.Nil))))`
    (case identifiers of the thorough tiers get that large): rewrite those back to `6000%nat` so that every parser sees one format."""
    out, pos = [], 0
    while True:
        m = _BIGNAT.search(text, pos)
        if not m:
            out.append(text[pos:])
            return "".join(out)
        start = m.start()
        lead = text[:start].rstrip()
        paren = lead.endswith("(")
        i, digits, opened = m.end(), [], 2
        while True:
            m2 = re.compile(r"\s*Decimal\.D(\d)\s*\(?").match(text, i)
            if not m2:
                break
            digits.append(m2.group(1))
            opened += 1 if m2.group(0).rstrip().endswith("(") else 0
            i = m2.end()
        m3 = re.compile(r"\s*Decimal\.Nil").match(text, i)
        if not m3 or not digits:
            out.append(text[pos:m.end()])
            pos = m.end()
            continue
        i = m3.end()
        need = opened + (1 if paren else 0)
        while need and i < len(text) and text[i] in " \n\t)":
            if text[i] == ")":
                need -= 1
            i += 1
        out.append(text[pos:len(lead) - 1] if paren else text[pos:start])
        out.append("".join(digits) + "%nat")
        pos = i


def run_coq_file(path: Path, timeout=900) -> tuple[int, str, str]:
    cmd = ["timeout", str(timeout), "coqc", "-Q", str(COQ), "QV", "-w", "-all", str(path)]
    p = subprocess.run(cmd, capture_output=True, text=True, cwd=path.parent)
    if p.returncode != 0:
        # one retry: a loaded machine produces transient failures (timeouts, "Can't open ....vo"); a genuine failure fails again
        time.sleep(1.0)
        path.parent.mkdir(parents=True, exist_ok=True)
        p = subprocess.run(cmd[:1] + [str(2 * timeout)] + cmd[2:], capture_output=True, text=True, cwd=path.parent)
    return p.returncode, denat(p.stdout), p.stderr


def run_coq_cases(workdir: Path, header: str, cases: list[str], per_file=400, timeout=900, tag="cases",
                  jobs=16) -> dict[int, str]:
    """cases[i] is Coq vernacular that prints exactly one line `CASE <i> <result>` (via idtac or Eval).
    Returns {i: result-string}. Files are compiled in parallel."""
    from concurrent.futures import ThreadPoolExecutor

    workdir.mkdir(parents=True, exist_ok=True)
    files = []
    for k in range(0, len(cases), per_file):
        f = workdir / f"{tag}_{k // per_file}.v"
        f.write_text(header + "\n" + "\n".join(cases[k:k + per_file]) + "\n")
        files.append(f)
    results: dict[int, str] = {}
    errors = []

    def one(f):
        return f, run_coq_file(f, timeout)

    with ThreadPoolExecutor(max_workers=jobs) as ex:
        for f, (rc, out, err) in ex.map(one, files):
            text = out + "\n" + err
            for m in re.finditer(r"CASE\s+(\d+)(?:%\w+)?\s+([^\n]*)", text):
                results[int(m.group(1))] = m.group(2).strip()
            if rc != 0:
                errors.append((f.name, err[-1500:]))
    if errors:
        results[-1] = json.dumps(errors)
    return results


def coq_eval_list(workdir: Path, header: str, expr: str, tag="eval", timeout=900) -> tuple[str, str]:
    """Evaluate `expr` with vm_compute, return the raw printed term and stderr."""
    workdir.mkdir(parents=True, exist_ok=True)
    f = workdir / f"{tag}.v"
    f.write_text(header + f"\nDefinition verif_result := Eval vm_compute in ({expr}).\nPrint verif_result.\n")
    rc, out, err = run_coq_file(f, timeout)
    if rc != 0:
        return "", err
    m = re.search(r"verif_result\s*=\s*(.*?)\n\s*:\s", out, re.S)
    return (m.group(1) if m else out), ""


def parse_nat_list(s: str) -> list[int]:
    return [int(x) for x in re.findall(r"-?\d+", s)]


# --------------------------------------------------------------------------- Coq literal helpers


def zlit(n: int) -> str:
    return f"({n})%Z" if n < 0 else f"{n}%Z"


def zlist(xs) -> str:
    return "[" + "; ".join(f"({int(x)})" if int(x) < 0 else str(int(x)) for x in xs) + "]%Z"


def natlist(xs) -> str:
    return "[" + "; ".join(str(int(x)) for x in xs) + "]%nat"


def blit(b) -> str:
    return "true" if b else "false"


def rlit(x) -> str:
    """Exact rational literal for a Python float / Fraction / int (as a Coq R term)."""
    from fractions import Fraction

    fr = Fraction(x)
    if fr.denominator == 1:
        n = fr.numerator
        return f"({n})" if n < 0 else f"{n}"
    n, d = fr.numerator, fr.denominator
    return f"({n} / {d})"


# --------------------------------------------------------------------------- impl side


def run_impl(script: str, payload, timeout=1800, env=None):
    """Run harness/impl/<script> with the real package; JSON in on stdin, JSON out on stdout."""
    p = subprocess.run([PY, "-W", "ignore", str(VERIF / "harness" / "impl" / script)], input=json.dumps(payload),
                       capture_output=True, text=True, env=env or IMPL_ENV, timeout=timeout, cwd="/")
    if p.returncode != 0:
        raise RuntimeError(f"impl driver {script} failed rc={p.returncode}:\n{p.stderr[-3000:]}")
    return json.loads(p.stdout)


def run_impl_parallel(script: str, payloads: list, jobs=16, timeout=1800, env=None):
    from concurrent.futures import ThreadPoolExecutor

    with ThreadPoolExecutor(max_workers=jobs) as ex:
        return list(ex.map(lambda pl: run_impl(script, pl, timeout, env), payloads))


# --------------------------------------------------------------------------- known findings / verdict


def load_known():
    f = VERIF / "known_findings.json"
    if not f.exists():
        return []
    return json.loads(f.read_text())["findings"]


class Result:
    """Accumulates what one check run did and turns it into verdict + evidence."""

    def __init__(self, pid: str, tier: str, seed: int):
        self.pid, self.tier, self.seed = pid, tier, seed
        self.t0 = time.time()
        self.failures = []  # dicts: {signature, what, replay(dict)}
        self.unproved = []  # dicts: {name, detail}
        self.coverage = {}
        self.assumptions = []
        self.samples = []
        self.notes = []
        self.workdir = WORK / pid
        if self.workdir.exists():
            shutil.rmtree(self.workdir, ignore_errors=True)
        self.workdir.mkdir(parents=True, exist_ok=True)
        (VERIF / "replays" / pid).mkdir(parents=True, exist_ok=True)

    def fail(self, signature: str, what: str, replay: dict):
        self.failures.append({"signature": signature, "what": what, "replay": replay})

    def broken(self, name: str, detail):
        self.unproved.append({"name": name, "detail": detail})

    def finish(self, level="proof") -> int:
        known = [k for k in load_known() if k["property"] == self.pid and k["status"] == "open"]
        lines, violations, kf_hits = [], 0, {}
        seen = set()
        for f in self.failures:
            k = next((k for k in known if re.fullmatch(k["signature"], f["signature"])), None)
            if k:
                kf_hits.setdefault(k["id"], []).append(f)
                continue
            if f["signature"] in seen:
                continue
            seen.add(f["signature"])
            violations += 1
            name = re.sub(r"[^A-Za-z0-9_.-]+", "_", f["signature"])[:80]
            rp = VERIF / "replays" / self.pid / f"{name}.json"
            rp.write_text(json.dumps({"property": self.pid, "kind": "failing-input", "tier": self.tier,
                                      "seed": self.seed, "signature": f["signature"], "what": f["what"],
                                      **f["replay"],
                                      "how_to_replay": f"./check {self.pid} --replay {rp.relative_to(VERIF)}"},
                                     indent=1, default=str))
            lines.append(f"VIOLATION property={self.pid} replay={rp.relative_to(VERIF)}")
        for k in known:
            if k["id"] in kf_hits:
                lines.append(f"KNOWN-FINDING: property={self.pid} {k['id']}: {k['what_fails']}")
        if self.unproved and violations == 0:
            # a proof obligation or the correspondence no longer checks and the search found no failing input
            rp = VERIF / "replays" / self.pid / "unproved.json"
            rp.write_text(json.dumps({"property": self.pid, "kind": "unproved", "tier": self.tier, "seed": self.seed,
                                      "theorem_or_correspondence": [u["name"] for u in self.unproved],
                                      "detail": self.unproved}, indent=1, default=str))
            lines.append(f"VIOLATION property={self.pid} replay={rp.relative_to(VERIF)} no-failing-input-found")
            violations += 1
        cov = dict(self.coverage)
        cov.setdefault("samples", self.samples[:6] or ["(none)"])
        cov["known_finding_hits"] = {k: len(v) for k, v in kf_hits.items()}
        cov["unproved_or_broken_correspondence"] = [u["name"] for u in self.unproved]
        if self.notes:
            cov["notes"] = self.notes
        ev = {"property_id": self.pid, "tier": self.tier, "seed": self.seed, "level": level, "coverage": cov,
              "assumptions": self.assumptions, "wall_s": round(time.time() - self.t0, 2), "violations": violations}
        (VERIF / "evidence").mkdir(exist_ok=True)
        (VERIF / "evidence" / f"{self.pid}.json").write_text(json.dumps(ev, indent=1, default=str) + "\n")
        for ln in lines:
            print(ln)
        print(f"[{self.pid}] tier={self.tier} seed={self.seed} obligations={cov.get('obligations')} "
              f"discharged={cov.get('discharged')} evaluations={cov.get('evaluations')} "
              f"violations={violations} wall={ev['wall_s']}s")
        if not os.environ.get("QV_KEEP_WORK"):
            shutil.rmtree(self.workdir, ignore_errors=True)
        return 1 if violations else 0


CHECKER_CMD = ("cd /verif/coq && coq_makefile -f _CoqProject -o Makefile && make -j16  (full .vo build, Coq 8.16.1); "
               "then coqc -Q /verif/coq QV Props/<id>.v for Print Assumptions")

KERNEL_TB = [
    "Coq 8.16.1 kernel (coqc full .vo build; vm_compute used by finite obligations and by case evaluation; no native_compute)",
    "no Axiom/Parameter/Conjecture/Admitted/admit in /verif/coq (grep gate run on every check)",
]


def prove(res: Result, extra_tb=()):
    """Build the project, collect obligations for res.pid. Records breakage in res; returns True if all proved."""
    ok = True
    try:
        import translate
        translate.regenerate()
        bt = build_coq()
        info = props_obligations(res.pid, res.workdir)
    except RuntimeError as e:
        res.broken("translator", {"error": str(e)[-3000:]})
        res.coverage.update(obligations=1, discharged=0, checker_cmd=CHECKER_CMD, trusted_base=KERNEL_TB + list(extra_tb))
        return False
    except BuildError as e:
        res.broken(f"coq:{e.file}:{e.lemma}", {"error": str(e), "log": e.log[-3000:]})
        src = COQ / "Props" / f"{res.pid}.v"
        n = len(re.findall(r"^\s*(?:Theorem|Corollary)\s+(\w+)", _strip_comments(src.read_text()), re.M)) if src.exists() else 1
        res.coverage.update(obligations=max(n, 1), discharged=0, checker_cmd=CHECKER_CMD,
                            trusted_base=KERNEL_TB + list(extra_tb), build_error=str(e))
        return False
    axioms = sorted({a for v in info["assumptions"].values() for a in v})
    n = len(info["theorems"])
    if info["print_assumptions_count"] != info["blocks"]:
        res.broken("print-assumptions-parse", info)
        ok = False
    res.coverage.update(
        obligations=n, discharged=n if ok else 0, checker_cmd=CHECKER_CMD,
        theorems=info["theorems"], non_vacuity_examples=info["examples"],
        axioms_per_theorem=info["assumptions"], coq_build_s=round(bt, 1),
        trusted_base=KERNEL_TB + [f"axiom (stdlib, via Print Assumptions): {a}" for a in axioms] + list(extra_tb))
    return ok
