"""./check <Cxx> [--tier quick|thorough] [--replay file]"""
from __future__ import annotations

import argparse
import importlib
import os
import sys
import traceback

sys.path.insert(0, os.path.dirname(os.path.abspath(__file__)))
import common  # noqa: E402


def main() -> int:
    ap = argparse.ArgumentParser()
    ap.add_argument("pid")
    ap.add_argument("--tier", default=os.environ.get("VERIF_TIER", "quick"), choices=["quick", "thorough"])
    ap.add_argument("--replay", default=None)
    ap.add_argument("--seed", type=int, default=int(os.environ.get("VERIF_SEED", "20260926")))
    a = ap.parse_args()
    if a.pid == "setup":
        try:
            import translate
            translate.regenerate()
        except ImportError:
            pass
        try:
            t = common.build_coq(timeout=3000)
        except common.BuildError as e:
            print("SETUP FAILED:", e, "\n", e.log[-3000:])
            return 1
        print(f"coq project built in {t:.1f}s")
        return 0
    mod = importlib.import_module(f"props.{a.pid.lower()}")
    res = common.Result(a.pid, a.tier, a.seed)
    try:
        if a.replay:
            return mod.replay(res, a.replay)
        mod.run(res)
    except Exception as e:  # harness failure: never report as held
        traceback.print_exc()
        res.broken("harness-exception", {"error": repr(e), "trace": traceback.format_exc()[-3000:]})
    return res.finish(getattr(mod, "LEVEL", "proof"))


if __name__ == "__main__":
    sys.exit(main())
