"""Regenerates /verif/MANIFEST.json from the table below (run by hand after adding a check)."""
import json
from pathlib import Path

V = Path("/verif")
PROPS = [json.loads(l)["id"] for l in (V / "properties.jsonl").read_text().splitlines() if l.strip()]

COMMON_NOTE = ("Trusted: Coq 8.16.1 kernel + vm_compute; the hand-written model's fidelity is checked (not assumed) by the "
               "behavioural correspondence run on every invocation; harness/generators; ASE/numpy/scipy as external oracles. "
               "Axioms per theorem are captured from Print Assumptions into the evidence file.")

CHECKS = {
    "C17": dict(
        technique="Coq proof by structural induction over all expression trees (Model/Algebra.v, Props/C17.v) + "
                  "exhaustive/stratified correspondence of the model's eval against real quansino objects",
        text="Theorems for every expression tree (no size bound): flatten-faithfulness, specialised-type iff one kind, "
             "association-freeness, multiplier guard, plain call semantics; same for operations. The model's eval is compared "
             "with type(result)/[id(m)] of real objects on every tree up to the size bound plus random larger trees.",
        ref="§4 C17"),
}

CHECKS["C15"] = dict(
    technique="Coq proof by induction over the run loop and over all splits (Model/Driver.v, Props/C15.v) + functional "
              "correspondence of the model's event list against recording observers on real Canonical/ForceBias runs",
    text="Theorems for all observer lists, all step counts and all splits (zero-length segments included): exact call "
         "schedule for positive/negative intervals, header once, exact step count, split = unsplit. The event list of the "
         "model is compared with the call log of real runs through run/srun/irun; split runs are compared byte-for-byte "
         "(atoms, log, trajectory) with the unsplit run.",
    ref="§4 C15")
CHECKS["C09"] = dict(
    technique="Coq proof over all tables/steps/cycle counts/admissible oracle answers (Model/Driver.v, Props/C09.v) + "
              "relational correspondence (oracle inference) against real MonteCarlo.irun with a recording generator",
    text="Theorems: nothing attempted when nothing is due, exactly `cycles` attempts otherwise, only due moves, minimum "
         "counts met (needs distinct forced slots - shown necessary), non-forced moves need positive weight, add_move guard "
         "and its invariant. Names yielded by real runs must be reproduced by the model for admissible inferred oracle "
         "answers; the requested p vectors are read from the recorded choice() calls.",
    ref="§4 C09")

CHECKS["C19"] = dict(
    technique="Coq proof by induction (polymorphic rows; Model/Atoms.v, Proofs/AtomsProofs.v, Proofs/ComponentsProofs.v, Props/C19.v) + functional correspondence on real "
              "ase.Atoms / reinsert_atoms / search_molecules, with an independent union-find as differential oracle",
    text="Theorems for every row type, list length and duplicate-free in-range index list in any order: "
         "reinsert(delete L I, select L I, I) = L (dtype tag included); label glue: admitted components get one "
         "non-negative label each, distinct across components, everything else keeps any supplied default. Three stages of "
         "delete/slice/reinsert on real Atoms are compared row-by-row with the model; labels are compared (up to renaming) "
         "with the model. Connectivity is proved too: the model's component algorithm yields exactly the classes of the equivalence "
         "closure of the within-cutoff pair list (C19_components_spec), and labels equal/non-negative <-> connected end to end "
         "(C19_molecules_connected); it is evaluated in Coq on the pair list of each case. Only which pairs are within the cutoff (float geometry) is computed by the harness.",
    ref="§4 C19")

CHECKS["C02"] = dict(
    technique="Coq proof over the reals (Model/Criteria.v, Props/C02.v: exp/ln identities, field, lra) + per-case decisions "
              "by the Coq-Interval tactic compared with criteria.evaluate() of real simulation objects",
    text="Theorems for all real parameters: the evaluated value is min(1, exp x) and never an error; exponents are the "
         "textbook ones (canonical, isobaric with (V'/V)^(N+1), isotension = isobaric - stress work, identical when the "
         "stress is hydrostatic for every strain/cell; GC insertion/deletion prefactors; factorial loops = N!/(N+d)!). "
         "Each real evaluate() verdict (scripted uniform number placed 1e-6..0.3 from the threshold) is re-decided inside "
         "Coq by certified interval arithmetic on the same model definitions, and by 60-digit arithmetic as direct oracle.",
    ref="§4 C02",
    note=COMMON_NOTE + " IEEE rounding is not modelled: decisions are compared outside a 1e-9 guard band; ASE constants are "
         "regenerated into Gen/Constants.v on every run.")

CHECKS["C18"] = dict(
    technique="Coq proof over the reals (Model/ForceBias.v upd_tanh/upd_exp/delta_of, Proofs/AdaptiveProofs.v, Proofs/VariationProofs.v, Props/C18.v) + "
              "per-case comparison |model - impl| <= 64 ulp decided by the Coq-Interval tactic against real "
              "AdaptiveForceBias.update_delta()",
    text="Theorems for all lo <= hi, r > 0, v >= 0 and both shipped update functions: delta in [lo, hi], = hi at zero variance, "
         "= midpoint at the reference variance (also the no-committee fallback), antitone in v, tending to lo. Real "
         "update_delta() outputs (both schemes, both functions, variances 0..1e300, per-coordinate arrays, no data) are compared "
         "with the same Coq definitions by certified interval arithmetic; variances >= 64 r are squeezed with the antitone and "
         "range theorems instead of evaluating huge exponents.",
    ref="§4 C18",
    note=COMMON_NOTE + " IEEE rounding is not modelled: comparison tolerance 64 ulp of max(|lo|,|hi|); range/anchor clauses "
         "checked with a 4-8 ulp allowance.")

CHECKS["C13"] = dict(
    technique="Coq proof over the reals (Model/ForceBias.v, Proofs/ForceBiasProofs.v, Proofs/ForceBiasIntegral.v with Coquelicot, "
              "Props/C13.v) + scripted-generator correspondence through the public ForceBias.step(): every (zeta,u) verdict certified "
              "by the Coq-Interval tactic on the model's P, loop bookkeeping by vm_compute, gamma/displacement compared in Coq",
    text="Theorems for all gamma, zeta in [-1,1], delta, masses: P is the Bal-Neyts density (both branches), 0<=P<=1, integrates to 1 "
         "(so the accepted zeta has density P and each trial is accepted with probability 1/2 whatever the force: termination), "
         "its CDF in closed form, mass on the force side = 1/(1-e^-2g)-1/(2g), P(z)>=P(-z) along the force, |dx|<=delta*(m_min/m)^p "
         "(<= delta for p>=0), no exponential exceeds exp(gamma_max) and exp(gamma_max) of the CURRENT source is a finite double "
         "(regenerated constant), rejection loop: on return every coordinate holds an accepted pair, converged ones are never redrawn. "
         "Partial: monotonicity of the favoured mass in |gamma| is measured (KS + mass tests), not proved.",
    ref="§4 C13",
    note=COMMON_NOTE + " The density clause is tied for |gamma| >= 0.005 or exactly 0; numpy's Generator is trusted to sample the "
         "requested uniform laws; KS/mass tests use a two-stage rule (KS*sqrt(n) > 3 or |z| > 6.5, confirmed with 4x samples).")

CHECKS["C14"] = dict(
    technique="Coq proof over the reals for an arbitrary force field (Model/Verlet.v, Proofs/VerletProofs.v, Props/C14.v) + "
              "correspondence of real Verlet.integrate / maxwell_boltzmann_distribution / HamiltonianDisplacementMove with the same "
              "definitions evaluated by the Coq-Interval tactic and vm_compute",
    text="Theorems: integrate^n . flip . integrate^n = flip exactly, for every force field, masses, dt, n; kick-drift-kick shear form; "
         "harmonic wells: shadow energy conserved exactly, so |dH| <= a/(1-a) H~ with a = k dt^2/4m for every step count (the O(dt^2) "
         "law); refresh p = xi sqrt(m kT) (variance m kT, linear in the StdNormal draw), forced refresh hits the target temperature "
         "up to the 1e-15 regulariser; the kinetic energy handed to the criteria is that of the successful attempt's fresh momenta. "
         "Partial: energy-error order for anharmonic potentials is measured (Richardson ratios), not proved.",
    ref="§4 C14",
    note=COMMON_NOTE + " Float/real gap: reversibility checked to 1e-9 relative, model comparison to 1e-12 relative.")

CHECKS["C10"] = dict(
    technique="Coq proof over the reals (Model/Ops.v, Proofs/OpsProofs.v, Proofs/OpsMeasure.v with Coquelicot for the law-preserving involutions, Props/C10.v: ring/nra/field on explicit 3-vectors and 3x3 "
              "matrices, sin^2+cos^2, matrix-exponential contract as Section hypotheses with a consistency witness) + scripted-generator "
              "correspondence of every operation.calculate() with the same definitions evaluated by the Coq-Interval tactic",
    text="Theorems for all steps/strains, draws in support, cells, groups, masses, masks: |ball| = r <= step, |sphere| = step, box within "
         "+-step; translation puts the centroid at frac@cell and is rigid; ASE's Euler matrix is orthogonal, rotation about any centre is "
         "rigid and about the centre of mass keeps it; composite = sum of parts; iso = e^u 1; shape has det 1, default-mask gradients "
         "are symmetric positive-definite, masked-out entries equal the identity (under the stated expm contract); symmetry as "
         "involutions of the draws: ball/sphere/box negate, deformations and rotation give the inverse.",
    ref="§4 C10",
    note=COMMON_NOTE + " scipy.linalg.expm is a hypothesis-carrying parameter (five standard facts, numerically validated each run, jointly "
         "satisfiable); that the involutions preserve the joint uniform law is the one informal step. The scripted tie depends on the order "
         "of the draws inside an operation (a reordering would be reported as no-failing-input-found).")

CHECKS["C12"] = dict(
    technique="Coq proof (Model/Constraints.v, Proofs/ConstraintsProofs.v, Props/C12.v: list induction + ring/field over the reals; "
              "invariant lifted to every propose/accept/reject history by induction over fold_left) + correspondence of every logged "
              "Atoms.set_positions of real runs and of FixRot.adjust_momenta with the same definitions evaluated by the Coq-Interval tactic",
    text="Theorems: FixAtoms keeps fixed rows for ANY proposed positions, FixCom keeps the centre of mass for any proposal (masses with "
         "non-zero sum) and zeroes the total momentum; both invariants hold after every history of proposals, acceptances and "
         "rejections (no bound on length); FixRot: for omega solving I omega = L the adjusted momenta have zero angular momentum, and "
         "the total linear momentum is unchanged for any omega (positions relative to the centre of mass).",
    ref="§4 C12",
    note=COMMON_NOTE + " ASE's constraint classes are modelled, not verified: each logged set_positions call is compared with the model. "
         "The code's inverse inertia tensor via ASE's eigen-decomposition is tied by certifying the residual of I omega = L in Coq.")

CHECKS["C11"] = dict(
    technique="Coq proof by list induction, polymorphic in the position type (Model/Displace.v, Proofs/DisplaceProofs.v, Props/C11.v) + "
              "relational correspondence (oracle inference, vm_compute) against real DisplacementMove / CompositeDisplacementMove calls",
    text="Theorems for all label arrays (negative, repeated, gaps, unsorted), all operation results, all composite sizes: only rows "
         "carrying the selected label can change and they receive the operation's rows; a label chosen by the move is non-negative "
         "and present; negative labels are never displaced; no eligible particle or all attempts vetoed => failure and unchanged "
         "positions; composite: no particle twice, reported count = successful sub-moves, and exactly min(n, eligible) particles "
         "move when nothing vetoes and the sub-moves share one labelling (admissible oracle answers).",
    ref="§4 C11")

CHECKS["C03"] = dict(
    technique="Coq proof, polymorphic in positions and per-atom data (Model/Context.v + Model/Atoms.v, Proofs/ContextProofs.v, Props/C03.v: "
              "list induction; delete/reinsert inverse law; invariant lifted to every accept/reject history) + functional correspondence "
              "of Context.revert/save (vm_compute on tokenised rows) with the state of real simulations after each trial",
    text="Theorems for every row type and every history: a rejected displacement-type trial (any number of moves, any new positions), a "
         "rejected insertion trial (any number of particles of any size) and a rejected deletion trial (any duplicate-free in-range "
         "index set collected in one frame) return rows bit for bit, leave nothing pending and the counter unchanged; acceptance "
         "applies the pending counter change; the invariant holds at every position of any admissible history. Refuted (witness by "
         "vm_compute): two deletions in two index frames - the open finding for plain composites holding two exchange moves. "
         "Partial: a displacement followed by an exchange inside one plain composite is covered by the tie, not by a theorem.",
    ref="§4 C03")

CHECKS["C05"] = dict(
    technique="Coq proof by list induction (Model/Labels.v, Model/Context.v, Proofs/LabelsProofs.v, Proofs/ContextProofs.v, Props/C05.v) + "
              "relational correspondence (vm_compute) of Labels.on_atoms_changed against the label arrays of every move object of real "
              "GrandCanonical runs after each accepted trial",
    text="Theorems for all label arrays, all added/removed index sets, all histories: the label array follows the atom count; the atoms "
         "inserted by one notification share one label, fresh (non-negative, unused) unless a label is configured, which is then "
         "honoured including 0 and negatives; deletion removes exactly the deleted entries; every distinct move object is updated "
         "once; the counter equals its initial value plus accepted insertions minus accepted deletions after any history. "
         "Open finding (not a theorem): two particles inserted by one trial share a label.",
    ref="§4 C05",
    note=COMMON_NOTE + " Scope: the exchange moves of one table share one labelling convention (fresh labels or one negative label); a "
         "non-negative label configured on an exchange move merges particles by the user's own choice and is exercised on displacement moves only.")

CHECKS["C04"] = dict(
    technique="Coq proof for an arbitrary calculator function and opaque configurations (Model/Calc.v, Proofs/CalcProofs.v, Props/C04.v: "
              "invariant by induction over accept/reject/fail histories) + functional correspondence of Calc.run (vm_compute) on the "
              "outcome sequence of real runs with counting calculators, and an independent calculator on atoms.copy() after every trial; "
              "Model/CalcKeys.v, Proofs/CalcKeysProofs.v: the results as a dictionary keyed by property, invariant over every sequence of "
              "propose/request/save/revert, functional correspondence after every elementary operation on a real Canonical object",
    text="Every value a compute-only-what-is-asked calculator holds after a trial, under any key, belongs to the current configuration. "
         "Theorems for every calculator function E, every history: between trials cached result = reference energy = E(current "
         "configuration), calc.atoms = remembered geometry = current; asking for the energy then costs no evaluation (logging and "
         "rejection are free); a trial costs exactly one evaluation iff it reached its criteria with a changed configuration, none "
         "if it failed; the initial reference energy is right whatever (truthful) state the calculator was in. Open finding: "
         "grand-canonical runs with calculators that keep per-atom internal state.",
    ref="§4 C04",
    note=COMMON_NOTE + " ASE's Calculator.get_property caching rule is modelled (compare_atoms = identical or not); the count clause is "
         "checked for result-caching calculators and not for Hamiltonian moves.")

CHECKS["C20"] = dict(
    technique="Coq proof over a trace model of the driver/user-object interaction (Model/Protocol.v, Proofs/ProtocolProofs.v, Props/C20.v) + "
              "functional correspondence (vm_compute) with the protocol events logged by strict user objects in all six drivers",
    text="Theorems for every table (including the same object under several names), every return value and verdict: a truthy result "
         "is followed by exactly one evaluate and recorded with the verdict, a falsy one is recorded as not attempted with nothing "
         "else happening; a rejected trial notifies nobody; after an accepted change of the atom count / cell every move object "
         "receives exactly one notification carrying exactly the added/removed indices / the new cell. That the real drivers never "
         "touch anything outside the protocol is established by the tie (strict logging objects), not by a theorem.",
    ref="§4 C20")

CHECKS["C06"] = dict(
    category="proof",
    technique="Coq proof of the seed-handling clause (Model/Seed.v, Props/C06.v) + differential correspondence: generator state after "
              "construction vs PCG64(seed), identical-seed runs under differently seeded global generators, trip-wired global random functions",
    text="Theorem (thin, stated as such): every integer seed including 0 is honoured, so equal seeds give the same generator stream and, "
         "the run being a function of configuration and stream, the same trajectory; the shipped `seed or ...` is refuted for 0. "
         "The bulk of this property - no stray global randomness in any driver - is a fact about Python call graphs and is established "
         "by the tie, at exploration strength: all seven drivers, generated tables with forced moves, two same-seed runs in one process "
         "with re-seeded global generators compared step by step (positions, cell, numbers, move history, log text), trip-wires.",
    ref="§4 C06",
    note=COMMON_NOTE + " Proof covers seed handling only; reproducibility and the absence of global randomness are differential-tested.")

CHECKS["C16"] = dict(
    technique="Coq proof over a file model with a process-local buffer any prefix of which may have reached the OS (Model/Files.v, "
              "Proofs/FilesProofs.v, Props/C16.v) + correspondence on the logged file operations of real runs and on REAL process "
              "deaths (subprocess killed with os._exit after the k-th file operation): content on disk must be a model crash state",
    text="Theorems for any payloads and any prior content: after n logger calls the file is the old content plus n complete flushed "
         "lines; after a trajectory call one frame more, earlier bytes untouched; at EVERY crash point inside a call, with any part of "
         "the buffer pushed, completed lines/frames are intact followed by a prefix of the current one; after a restart call the file "
         "is exactly the latest document (also when shorter). Refuted for the shipped sequence: between truncate and flush a crash "
         "leaves an empty or partial restart file (open finding). Partial: process death only, not power loss.",
    ref="§4 C16",
    note=COMMON_NOTE + " CPython text-file buffering and the host file system under process death are modelled and validated by the real "
         "crashes. The theorems are about the operation shapes the code emits today (one write per log line, seek/truncate/write/flush); "
         "a different shape is reported as a broken correspondence.")

CHECKS["C08"] = dict(
    technique="Coq proof of a generic to_dict/JSON/registry/from_dict round trip over a nested-object model (Model/Serial.v, "
              "Proofs/SerialProofs.v) and an executable model of Python's import protocol (Model/Import.v) + a TRANSLATOR that regenerates the "
              "class schemas and the module import graph from /repo's current source on every run (Gen/Schema.v, Gen/ImportGraph.v); the "
              "finite obligations over the regenerated data are re-proved by vm_compute; cross-validated by behavioural round trips",
    text="Generic theorem (any schema, any nesting depth): an object built from classes satisfying class_ok, nested through fields for "
         "which from_dict asks the registry for the right protocol, is rebuilt exactly. Regenerated obligations on the current source: "
         "every concrete serialisable class found by introspection satisfies class_ok (registered under the name it writes, every "
         "constructor parameter and documented tunable written, nothing written that the constructor refuses); every nested field's "
         "protocol is inhabited; every module of the package can be the first import of a fresh interpreter (the import protocol is "
         "run on the module-level import statements); after importing quansino.mc or any of its submodules alone every module that registers "
         "classes has been executed, and quansino.moves alone brings the operations and integrators (what a restart script relies on; also "
         "exercised by single-import rebuilds of every document in fresh interpreters). Simulation-level settings are covered by the behavioural leg only.",
    ref="§4 C08",
    note=COMMON_NOTE + " Trusted additionally: the translator (introspection + ast in a fresh interpreter, fail-closed); ASE's JSON codec.")

CHECKS["C07"] = dict(
    technique="Coq proof (Model/Restart.v, Model/Serial.v, Proofs/RestartProofs.v, Proofs/SerialProofs.v, Props/C07.v) + translator-regenerated "
              "simulation / component schemas with finite obligations by vm_compute + the property verbatim on real restart files: every step of "
              "every generated run is a restart point",
    text="Theorems: for any step function that reads the state only through its step-relevant projection, any restart point k and any "
         "number of further steps, a file that restores the projection gives a run that agrees with the uninterrupted one (induction), and so "
         "does any chain of restarts of restarts (second-generation restarts are taken from every restart point of every run); "
         "the move table's components are restored exactly at any nesting depth (generic round trip); regenerated obligations: every "
         "simulation class implementing the restart interface writes the atoms, everything its constructor needs, nothing it refuses and "
         "every setting it owns, and is registered; every component class satisfies class_ok. Open finding: ForceBias offers "
         "restart_file but does not implement the interface.",
    ref="§4 C07",
    note=COMMON_NOTE + " The hypothesis that a step depends only on the projection (no hidden global state) is what C06's tie establishes. "
         "Trusted additionally: the translator; ASE's JSON codec.")

CHECKS["C01"] = dict(
    technique="Coq proof over the reals of detailed balance, finite-state Markov-chain invariance and the analytic averages (Proofs/BalanceProofs.v, MarkovProofs.v, LangevinProofs.v, AveragesProofs.v, PoissonProofs.v, Props/C01.v, reusing Model/Criteria.v) "
              "+ statistical exploration of long real runs on analytically solvable systems (two-stage decision rule)",
    text="PARTIAL. Proved for all parameters: Metropolis detailed balance for any positive weights; 'accept iff u < A' accepts with "
         "probability min(1,A); the exponents the criteria evaluate are ratios of the target weights (canonical; isobaric with "
         "V^(N+1) in scaled coordinates; grand-canonical insertion and deletion with V/Lambda^3 and N!); finite-state chains: a reversible "
         "stochastic kernel is stationary, the Metropolis-Hastings kernel of ANY proposal is reversible, weighted mixtures and sequences of "
         "invariant kernels are invariant, a chain started in the target stays in it through any history; the analytic averages themselves: "
         "Langevin mean coth x - 1/x, ideal-gas volume and equipartition identities for every cut-off (explicit boundary term), Poisson "
         "normalisation / mean / variance as infinite series. Cited, not formalised: the ergodic theorem and the two L -> infinity limits. "
         "The real code is sampled: harmonic wells (ball / box / Hamiltonian incl. a coarse chain with ~25 % rejections), dipole in a field, ideal gas at "
         "constant P and at constant mu (mean, variance, histogram, uniform positions and orientations), and runs re-heated on the fly.",
    ref="§4 C01",
    note=COMMON_NOTE + " The statement is a limit over infinite histories: the implementation can only be sampled; a violation needs a "
         "first-stage nomination (|z| > 4.5) AND |z| > 6.5 on an independent run with 4x the steps.")

NA_REASON = "check not built yet in this round (see DESIGN.md §8 order of construction); no weaker technique substituted"


def main():
    checks, na = [], []
    for pid in PROPS:
        if pid in CHECKS:
            c = CHECKS[pid]
            checks.append({
                "property_id": pid,
                "quick_cmd": f"./check {pid} --tier quick",
                "thorough_cmd": f"./check {pid} --tier thorough",
                "evidence_file": f"/verif/evidence/{pid}.json",
                "replay_cmd_template": f"./check {pid} --replay {{path}}",
                "engine": "coq-proof+correspondence",
                "level_claimed": {"category": c.get("category", "proof"), "text": c["text"], "design_ref": c["ref"]},
                "level_note": c.get("note", COMMON_NOTE),
                "technique": c["technique"],
            })
        else:
            na.append({"property_id": pid, "reason": NA_REASON})
    m = {
        "version": 1,
        "setup_cmd": "./check setup",
        "hooks": {"guard": "QUANSINO_VERIF", "enable": "no source hooks are needed: all observation points are reachable "
                  "from outside (proxies for the generator, files, calculators, user objects); checks export QUANSINO_VERIF=1",
                  "baseline_off_cmd": "cd /repo && /venv/bin/python -m pytest -ra -q -p no:cacheprovider --timeout=900 "
                                      "--continue-on-collection-errors",
                  "source_commits": [], "add_only": True},
        "engines": [{"name": "coq-proof+correspondence", "path": "/verif/check",
                     "serves_properties": sorted(CHECKS),
                     "kind_free_text": "Coq 8.16 theorems over hand-written Gallina models (coq/), tied to /repo by "
                                       "behavioural correspondence (harness/) and, for finite data, a translator (Gen/*.v)"}],
        "checks": checks,
        "notes": "See DESIGN.md. known_findings.json lists open findings and fixed defects.",
        "not_applicable": na,
    }
    (V / "MANIFEST.json").write_text(json.dumps(m, indent=1) + "\n")
    print(f"{len(checks)} checks, {len(na)} not claimed")


main()
