#!/bin/bash
# usage: coqshow.sh <file.v relative to coq/> <line>   -- prints the goals after that line
cd /verif/coq
mkdir -p /verif/_work/dbg
head -n "$2" "$1" > /verif/_work/dbg/Dbg.v
echo "Show." >> /verif/_work/dbg/Dbg.v
coqc -Q . QV -w -all /verif/_work/dbg/Dbg.v 2>&1 | grep -v "^Error: There are pending proofs" | tail -${3:-40}
