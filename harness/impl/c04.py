"""C04 driver: real simulations from generated programs (see sim.py)"""
from util import serve
from sim import run_program

serve(run_program)
