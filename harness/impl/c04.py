"""C04 driver: real simulations from generated programs (see sim.py); and, for cases with "keys_ops", elementary operations
(set positions / calc.get_property / context.save_state / driver.revert_state) on a real Canonical object with a calculator that
computes ONLY what it is asked for - the tie of Model/CalcKeys.v (the calculator's results as a dictionary keyed by property)."""
import warnings

import numpy as np
from ase import Atoms
from ase.calculators.calculator import Calculator, all_changes

from util import serve
from sim import run_program

from quansino.mc.canonical import Canonical

KEYS = ["energy", "forces", "stress"]
BASE = np.array([[1.0, 1.0, 1.0], [3.0, 1.5, 1.0], [1.5, 3.25, 2.0]])
PATTERN = np.array([[0.125, 0.0, 0.25], [0.0, -0.125, 0.0625], [0.25, 0.125, -0.125]])


def config(i):
    return BASE + i * PATTERN


def value(k, pos):
    if k == "energy":
        return float(np.sum((pos - 2.0) ** 2))
    if k == "forces":
        return -2.0 * (pos - 2.0)
    return np.array([float(np.sum(pos[:, a] * pos[:, b])) for a, b in ((0, 0), (1, 1), (2, 2), (1, 2), (0, 2), (0, 1))])


class OnlyAsked(Calculator):
    """computes only the requested properties (as expensive calculators do)"""

    implemented_properties = KEYS

    def calculate(self, atoms=None, properties=("energy",), system_changes=all_changes):
        super().calculate(atoms, properties, system_changes)
        for k in properties:
            self.results[k] = value(k, self.atoms.positions)


def token(k, v, ntok):
    """which configuration a held value belongs to: i + 1, or 999 when it belongs to none"""
    for i in range(ntok):
        if np.allclose(np.asarray(v, dtype=float), np.asarray(value(k, config(i)), dtype=float), rtol=0, atol=1e-12):
            return i + 1
    return 999


def keys_ops(case):
    warnings.simplefilter("ignore")
    ntok = 1 + max([o[1] for o in case["keys_ops"] if o[0] == "p"] + [0])
    atoms = Atoms("Ar3", positions=config(0), cell=[9.0, 9.0, 9.0], pbc=False)
    mc = Canonical(atoms, temperature=300.0, seed=1, logfile=None)
    atoms.calc = OnlyAsked()
    ctx = mc.context
    trace = []
    for o in case["keys_ops"]:
        if o[0] == "p":
            atoms.positions = config(o[1])
        elif o[0] == "q":
            atoms.calc.get_property(KEYS[o[1]], atoms)
        elif o[0] == "s":
            ctx.save_state()
        else:
            mc.revert_state()
        calc = atoms.calc
        held, last = calc.results, getattr(ctx, "last_results", {}) or {}
        in_sync = calc.atoms is not None and not calc.check_state(atoms)
        trace += [int(in_sync), int(held is getattr(ctx, "last_results", None))]
        trace += [token(k, held[k], ntok) if k in held else 0 for k in KEYS]
        trace += [token(k, last[k], ntok) if k in last else 0 for k in KEYS]
    return {"trace": trace}


serve(lambda case: keys_ops(case) if "keys_ops" in case else run_program(case))
