"""C12 driver: real Canonical / HamiltonianCanonical / ForceBias / AdaptiveForceBias runs under FixAtoms or FixCom with scripted
verdicts and vetoes; FixRot.adjust_momenta through Atoms.set_momenta."""
import warnings

import numpy as np
from ase import Atoms
from ase.constraints import FixAtoms, FixCom

from util import Harmonic, serve

from quansino.constraints import FixRot
from quansino.integrators.displacement import Verlet
from quansino.mc.canonical import Canonical, HamiltonianCanonical
from quansino.mc.fbmc import AdaptiveForceBias, ForceBias
from quansino.moves.displacement import DisplacementMove, HamiltonianDisplacementMove
from quansino.operations.displacement import Ball, Box, Rotation, Sphere, Translation, TranslationRotation

warnings.simplefilter("ignore")
OPS = {"ball": lambda: Ball(0.3), "box": lambda: Box(0.25), "sphere": lambda: Sphere(0.2), "translation": Translation,
       "rotation": Rotation, "translation_rotation": TranslationRotation, "ball+box": lambda: Ball(0.2) + Box(0.1),
       "ball+rotation": lambda: Ball(0.2) + Rotation()}


class Scripted:
    """criteria stub: scripted verdicts, then alternate"""

    def __init__(self, verdicts):
        self.v = list(verdicts)
        self.k = 0

    def evaluate(self, context, *a, **k):
        self.k += 1
        return self.v.pop(0) if self.v else bool(self.k % 2)

    def to_dict(self):
        return {"name": "Scripted"}


def hx(a):
    return [float(x).hex() for x in np.ravel(a)]


def checkpoint_legs(c):
    """"all histories" include those that pass through a checkpoint: the same system under shipped moves and criteria, run, rebuilt with
    Class.from_dict(sim.to_dict()) (a job split in legs), run on - the rebuilt simulation must still honour the constraint
    (seeded change C12-11: the checkpoint stored atoms[:], which drops FixCom)."""
    atoms = Atoms(c["symbols"], positions=np.array(c["positions"], dtype=float), cell=[12.0, 12.0, 12.0], pbc=False)
    if c.get("masses"):
        atoms.set_masses(c["masses"])
    mk = lambda: Harmonic(k=0.8, r0=np.array(c["positions"], dtype=float) + 0.1, pair=0.05)
    atoms.calc = mk()
    fixed = c.get("fixed") or []
    atoms.set_constraint(FixAtoms(indices=fixed) if c["constraint"] == "fixatoms" else FixCom())
    x0, com0 = atoms.positions.copy(), atoms.get_center_of_mass().copy()
    if c["driver"] == "canonical":
        # (hot enough for the shipped criteria to accept most trials: a leg without an accepted trial shows nothing)
        mc = Canonical(atoms, temperature=max(c["T"], 1.0e5), seed=c["seed"], max_cycles=2, logfile=None,
                       default_displacement_move=DisplacementMove(np.arange(len(atoms)), Ball(0.3)))
    else:
        mc = HamiltonianCanonical(atoms, temperature=max(c["T"], 1.0e5), seed=c["seed"], max_cycles=1, logfile=None)
    mc.run(2)
    worst_fixed = worst_com = 0.0
    accepted = 0
    for _leg in range(2):
        mc = type(mc).from_dict(mc.to_dict())
        mc.atoms.calc = mk()
        for _ in mc.srun(3):      # (srun: one whole step per iteration)
            accepted += sum(1 for _nm, v in mc.move_history if v)
            if fixed and c["constraint"] == "fixatoms":
                worst_fixed = max(worst_fixed, float(np.max(np.abs(mc.atoms.positions[fixed] - x0[fixed]))))
            if c["constraint"] == "fixcom":
                worst_com = max(worst_com, float(np.max(np.abs(mc.atoms.get_center_of_mass() - com0))))
    return {"accepted": accepted, "worst_fixed": worst_fixed, "worst_com": worst_com, "constraints": [type(k).__name__ for k in mc.atoms.constraints]}


def run_case(c):
    n = c["natoms"]
    rng = np.random.default_rng(c["geom_seed"])
    atoms = Atoms(c["symbols"], positions=np.array(c["positions"], dtype=float), cell=[12.0, 12.0, 12.0], pbc=False)
    if c.get("masses"):
        atoms.set_masses(c["masses"])
    atoms.calc = Harmonic(k=0.8, r0=np.array(c["positions"], dtype=float) + 0.1, pair=0.05)
    fixed = c.get("fixed") or []
    if c["constraint"] == "fixatoms":
        atoms.set_constraint(FixAtoms(indices=fixed))
    elif c["constraint"] == "fixcom":
        atoms.set_constraint(FixCom())
    x0 = atoms.positions.copy()
    com0 = atoms.get_center_of_mass().copy()
    proposals = []
    orig_set = atoms.set_positions

    def logged_set(newpositions, apply_constraint=True):
        before = atoms.positions.copy()
        new = np.array(newpositions, dtype=float).copy()
        orig_set(newpositions, apply_constraint=apply_constraint)
        if len(proposals) < c.get("log_proposals", 3):
            proposals.append({"old": hx(before), "new": hx(new), "after": hx(atoms.positions), "apply_constraint": bool(apply_constraint)})

    atoms.set_positions = logged_set
    drv = c["driver"]
    vetoes = list(c.get("vetoes", []))

    def check(*a, **k):
        return not (vetoes.pop(0) if vetoes else False)

    if drv in ("canonical", "hamiltonian"):
        cls = Canonical if drv == "canonical" else HamiltonianCanonical
        mc = cls(atoms, temperature=c["T"], seed=c["seed"], max_cycles=c.get("max_cycles", 2), logfile=None)
        for j, ms in enumerate(c["moves"]):
            if ms["kind"] == "hamiltonian":
                if ms.get("default_built"):
                    # an unrelated, default-built Hamiltonian move elsewhere in the process is tuned by ITS owner (constraints off): nobody else may notice;
                    # ours is default-built too and tuned through the public attributes of its integrator
                    other = HamiltonianDisplacementMove()
                    other.operation.apply_constraints = False
                    mv = HamiltonianDisplacementMove()
                    mv.operation.dt = Verlet(dt=ms["dt"]).dt
                    mv.operation.max_steps = ms["n"]
                else:
                    mv = HamiltonianDisplacementMove(operation=Verlet(dt=ms["dt"], max_steps=ms["n"]))
                mv.max_attempts = 3
            else:
                mv = DisplacementMove(np.array(ms["labels"]), OPS[ms["op"]]())
                mv.max_attempts = 3
                if ms.get("mult", 1) > 1:
                    mv.check_move = check
                    mv = mv * ms["mult"]
            if hasattr(mv, "check_move"):
                mv.check_move = check
            else:
                for sub in mv.moves:
                    sub.check_move = check
            mc.add_move(mv, criteria=Scripted([]), name=f"m{j}")
        if c.get("plus"):   # a + b composite of the first two displacement moves
            a, b = mc.moves["m0"].move, mc.moves["m1"].move
            mc.add_move(a + b, criteria=Scripted([]), name="sum")
        for nm in mc.moves:
            mc.moves[nm].criteria = Scripted(c["verdicts"])
    elif drv == "fbmc":
        mc = ForceBias(atoms, delta=c["delta"], temperature=c["T"], seed=c["seed"], logfile=None)
    else:
        mc = AdaptiveForceBias(atoms, c["delta"] / 2, c["delta"], temperature=c["T"], seed=c["seed"], logfile=None)
    if c.get("scale_masses") and drv in ("fbmc", "afbmc"):
        mc.update_masses(np.array(c["scale_masses"], dtype=float))
    worst_fixed = 0.0
    worst_com = 0.0
    first_bad = None
    hist = []
    def segment(n):
        return mc.srun(n) if drv in ("canonical", "hamiltonian") else mc.irun(n)

    def between():
        # the user prepares the system again between two runs of the same driver: everything is shifted rigidly (the references move along)
        nonlocal x0, com0
        d = np.array(c["user_shift"], dtype=float)
        atoms.positions += d
        x0 = x0 + d
        com0 = com0 + d
        return iter(())
    if c.get("user_shift"):
        s1 = max(1, c["steps"] // 2)
        # (lazy: the second run is created only after the first is exhausted and the shift applied)
        it = (y for gen in (lambda: segment(s1), between, lambda: segment(c["steps"] - s1)) for y in gen())
    else:
        it = segment(c["steps"])
    for k, _ in enumerate(it):
        if fixed and c["constraint"] == "fixatoms":
            d = float(np.max(np.abs(atoms.positions[fixed] - x0[fixed])))
            if d > worst_fixed:
                worst_fixed = d
                first_bad = first_bad if first_bad is not None else k
        if c["constraint"] == "fixcom":
            d = float(np.max(np.abs(atoms.get_center_of_mass() - com0)))
            worst_com = max(worst_com, d)
            if d > 1e-10 and first_bad is None:
                first_bad = k
        if drv in ("canonical", "hamiltonian"):
            hist.append([[nm, None if v is None else bool(v)] for nm, v in mc.move_history])
    ckpt = checkpoint_legs(c) if drv in ("canonical", "hamiltonian") and c["constraint"] in ("fixatoms", "fixcom") else None
    return {"ckpt": ckpt, "worst_fixed": worst_fixed, "worst_com": worst_com, "first_bad_step": first_bad, "history": hist[:6], "proposals": proposals,
            "masses": hx(atoms.get_masses()), "scale": float(np.max(np.abs(x0)) + 1.0),
            "outcomes": {"accepted": sum(1 for h in hist for _, v in h if v is True), "rejected": sum(1 for h in hist for _, v in h if v is False),
                         "failed": sum(1 for h in hist for _, v in h if v is None)}}


def fixrot_case(c):
    atoms = Atoms(c["symbols"], positions=np.array(c["positions"], dtype=float))
    if c.get("masses"):
        atoms.set_masses(c["masses"])
    atoms.set_constraint(FixRot())
    p = np.array(c["momenta"], dtype=float)
    if c.get("warm"):
        # the same constraint object has just been used on the same coordinates with OTHER masses (isotope substitution between two uses)
        real = atoms.get_masses().copy()
        atoms.set_masses(real[::-1] * 1.9 + 1.0)
        atoms.set_momenta(p * 0.5)
        atoms.set_masses(real)
    atoms.set_momenta(p)                       # apply_constraint=True: FixRot.adjust_momenta
    p2 = atoms.get_momenta()
    m = atoms.get_masses()
    r = atoms.positions - atoms.get_center_of_mass()
    L0 = np.sum(np.cross(r, p), axis=0)
    L1 = np.sum(np.cross(r, p2), axis=0)
    inertia = sum(mi * (np.dot(ri, ri) * np.eye(3) - np.outer(ri, ri)) for mi, ri in zip(m, r))
    omega = np.linalg.solve(inertia, L0)
    eig, vecs = atoms.get_moments_of_inertia(vectors=True)
    return {"p_after": hx(p2), "L_before": L0.tolist(), "L_after": L1.tolist(), "P_before": p.sum(0).tolist(), "P_after": p2.sum(0).tolist(),
            "masses": hx(m), "omega_solve": hx(omega), "cond": float(np.linalg.cond(inertia)),
            "ase_contract": float(np.max(np.abs(vecs.T @ np.diag(eig) @ vecs - inertia))), "com": hx(atoms.get_center_of_mass())}


def handler(c):
    return fixrot_case(c) if c["mode"] == "fixrot" else run_case(c)


serve(handler)
