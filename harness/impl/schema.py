"""Translator helper (fresh interpreter): introspects the CURRENT source of quansino and prints, as JSON, the schema of every concrete
serialisable class, the registry, and the module-level import statements of every module.  Fail-closed: anything it does not
understand aborts with a message naming the class / file / line."""
import ast
import importlib
import inspect
import json
import pkgutil
import re
import sys
import warnings

warnings.simplefilter("ignore")
import numpy as np  # noqa: E402

import quansino  # noqa: E402

mods = {"quansino": quansino}
for m in pkgutil.walk_packages(quansino.__path__, "quansino."):
    mods[m.name] = importlib.import_module(m.name)
from quansino import registry  # noqa: E402
from quansino.protocols import Criteria, Integrator, Move, Operation  # noqa: E402

PROTOS = {"Move": Move, "Operation": Operation, "Integrator": Integrator, "Criteria": Criteria}
REG = registry.__dict__.get("__class_registry") or getattr(registry, "_registry__class_registry", {})


def fail(msg):
    print(json.dumps({"error": msg}))
    sys.exit(0)


def main_method(cls):
    for n in ("calculate", "integrate", "evaluate", "__call__"):
        if n in ("__call__",) and not issubclass(cls, Move):
            continue
        if hasattr(cls, n):
            return n
    return None


def concrete(cls):
    """concrete = the protocol's main method is implemented below the Base* class"""
    if inspect.isabstract(cls) or cls.__module__ == "quansino.protocols" or cls.__name__.startswith("Base"):
        return False
    for proto, meth in ((Operation, "calculate"), (Integrator, "integrate"), (Criteria, "evaluate"), (Move, "__call__")):
        try:
            if issubclass(cls, proto):
                owner = next(k for k in cls.__mro__ if meth in k.__dict__)
                return not owner.__name__.startswith("Base")
        except (TypeError, StopIteration):
            pass
    return cls.__name__ == "MoveStorage"


def proto_of(cls):
    for n, p in PROTOS.items():
        try:
            if issubclass(cls, p):
                return n
        except TypeError:
            pass
    return "Storage" if cls.__name__ == "MoveStorage" else None


classes = {}
for name, mod in mods.items():
    for cname, cls in inspect.getmembers(mod, inspect.isclass):
        if cls.__module__.startswith("quansino") and cls.__name__ == cname and cname not in classes:
            if callable(getattr(cls, "to_dict", None)) and callable(getattr(cls, "from_dict", None)) and proto_of(cls) and concrete(cls):
                classes[cname] = cls

rng = np.random.default_rng(0)
DISP = ["Ball", "Box", "Sphere", "Translation", "Rotation", "TranslationRotation"]
CELL = ["IsotropicDeformation", "AnisotropicDeformation", "ShapeDeformation"]


def make(cname, depth=0):
    cls = classes[cname]
    kw = {}
    for pn, par in list(inspect.signature(cls.__init__).parameters.items())[1:]:
        if par.kind in (par.VAR_KEYWORD, par.VAR_POSITIONAL):
            continue
        if pn == "labels":
            kw[pn] = np.array([0, 0, 1, -1, 2, 2])
        elif pn == "operation":
            kw[pn] = make("IsotropicDeformation" if cname == "CellMove" else "Verlet" if cname == "HamiltonianDisplacementMove" else "Ball", depth + 1)
        elif pn == "operations":
            kw[pn] = [make("Ball", depth + 1), make("Box", depth + 1)]
        elif pn == "moves":
            kw[pn] = [make("ExchangeMove" if cname == "CompositeExchangeMove" else "DisplacementMove", depth + 1) for _ in range(2)]
        elif pn == "move":
            kw[pn] = make("DisplacementMove", depth + 1)
        elif pn == "criteria":
            kw[pn] = make("CanonicalCriteria", depth + 1)
        elif pn == "mask":
            kw[pn] = np.eye(3, dtype=bool)
        elif par.annotation in ("bool",) or isinstance(par.default, bool):
            kw[pn] = not par.default if isinstance(par.default, bool) else True
        elif isinstance(par.default, (int, float)) or par.annotation in ("float", "int"):
            kw[pn] = (par.default if isinstance(par.default, (int, float)) else 1) * 0.5 + 0.25 if par.annotation != "int" and not isinstance(par.default, int) else 3
        elif par.default is not inspect.Parameter.empty and callable(par.default):
            continue
        elif par.default is inspect.Parameter.empty:
            fail(f"translator: do not know how to fill constructor parameter {pn!r} of {cname}")
    return cls(**kw)


def documented_attributes(cls):
    names = []
    for k in cls.__mro__:
        doc = inspect.getdoc(k) if k.__module__.startswith("quansino") else None
        if not doc or "Attributes\n" not in doc:
            continue
        sec = doc.split("Attributes\n", 1)[1]
        sec = re.split(r"\n[A-Z][A-Za-z ]+\n-{3,}", sec)[0]
        names += re.findall(r"(?m)^(\w+)\s*:", sec)
    return list(dict.fromkeys(names))


out = {"classes": [], "registered": sorted(REG), "modules": {}, "simulations": []}
for cname in sorted(classes):
    cls = classes[cname]
    params, required = [], []
    for pn, par in list(inspect.signature(cls.__init__).parameters.items())[1:]:
        if par.kind in (par.VAR_KEYWORD, par.VAR_POSITIONAL) or (par.default is not inspect.Parameter.empty and callable(par.default)):
            continue
        params.append(pn)
        if par.default is inspect.Parameter.empty:
            required.append(pn)
    obj = make(cname)
    d = obj.to_dict()
    if not isinstance(d, dict) or "name" not in d:
        fail(f"translator: {cname}.to_dict() has no 'name'")
    tun = []
    # a documented attribute is a tunable unless it is fixed through a constructor (of the class or of a base class), or is a one-shot
    # pre-selection / a result of the last call / derived from other data
    ctor_anywhere = {pn for k in cls.__mro__ if k.__module__.startswith("quansino") and "__init__" in k.__dict__ for pn in inspect.signature(k.__init__).parameters}
    for a in documented_attributes(cls):
        if a in params or a in ctor_anywhere or a.startswith(("_", "to_")) or a in ("displaced_labels", "unique_labels") or not hasattr(obj, a):
            continue
        v = getattr(obj, a)
        if isinstance(v, (bool, int, float, type(None), np.integer, np.floating)) and not isinstance(getattr(type(obj), a, None), property):
            tun.append(a)
    src = inspect.getsource(cls.from_dict)
    # nested fields = the kwargs entries whose emitted value is itself a serialised component (a dict with a "name", or a list of them),
    # in the order in which from_dict first mentions them; plain conversions such as int(kwargs["interval"]) are not nested fields
    def _nested(v):
        return (isinstance(v, dict) and "name" in v) or (isinstance(v, (list, tuple)) and len(v) > 0 and all(isinstance(x, dict) and "name" in x for x in v))
    keys = [k for k in dict.fromkeys(re.findall(r'kwargs\["(\w+)"\]', src)) if _nested(d.get("kwargs", {}).get(k))]
    protos = re.findall(r"get_typed_class\(\s*[^,]+,\s*(\w+)\s*\)", src)
    if len(keys) != len(protos):
        fail(f"translator: cannot pair nested fields {keys} with protocols {protos} in {cname}.from_dict")
    out["classes"].append({"name": cname, "emitted_name": d["name"], "registered": REG.get(d["name"]) is cls, "protocol": proto_of(cls), "params": params, "required": required,
                           "tunables": tun, "emit_kwargs": sorted(d.get("kwargs", {})), "emit_attrs": sorted(d.get("attributes", {})),
                           "child_proto": dict(zip(keys, protos)), "module": cls.__module__})

# ---- simulation classes (restart path: ASE's encoder calls todict())
from ase import Atoms  # noqa: E402

from quansino.mc.core import MonteCarlo  # noqa: E402
from quansino.mc.driver import Driver  # noqa: E402

SETTINGS = ["temperature", "pressure", "external_stress", "chemical_potential", "number_of_exchange_particles", "accessible_volume", "exchange_atoms",
            "max_cycles", "seed", "rng_state", "step_count"]
sims = {}
for name, mod in mods.items():
    for cname, cls in inspect.getmembers(mod, inspect.isclass):
        if cls.__module__.startswith("quansino") and cls.__name__ == cname and issubclass(cls, Driver) and "restart_file" in {
                p for k in cls.__mro__ if "__init__" in k.__dict__ for p in inspect.signature(k.__init__).parameters} and cname not in ("Driver", "SingleDriver", "MultiDriver"):
            sims[cname] = cls
out_sims = []
for cname in sorted(sims):
    cls = sims[cname]
    accepted, required = set(), []
    for k in cls.__mro__:
        if "__init__" not in k.__dict__ or not k.__module__.startswith("quansino"):
            continue
        sig = inspect.signature(k.__init__)
        for pn, par in list(sig.parameters.items())[1:]:
            if par.kind in (par.VAR_KEYWORD, par.VAR_POSITIONAL):
                continue
            accepted.add(pn)
            if par.default is inspect.Parameter.empty and k is cls and pn != "atoms":
                required.append(pn)
        if not any(par.kind == par.VAR_KEYWORD for par in sig.parameters.values()):
            break
    atoms = Atoms("Ar2", positions=[[0, 0, 0], [2, 0, 0]], cell=[5, 5, 5], pbc=True)
    kw = {}
    for pn in required:
        kw[pn] = {"temperature": 300.0, "delta": 0.1, "min_delta": 0.05, "max_delta": 0.2}.get(pn)
        if kw[pn] is None:
            fail(f"translator: do not know how to fill required parameter {pn!r} of simulation class {cname}")
    try:
        sim = cls(atoms, logfile=None, **kw)
    except Exception as e:  # noqa: BLE001
        fail(f"translator: cannot construct {cname}: {e}")
    has_todict = callable(getattr(sim, "todict", None))
    has_from = callable(getattr(cls, "from_dict", None))
    try:
        d = sim.todict() if has_todict else {}
    except Exception as e:  # noqa: BLE001
        d = {}
    emitted = set(d.get("kwargs", {})) | set(d.get("attributes", {})) | set(d.get("context", {})) | ({"rng_state"} if "rng_state" in d else set())
    owned = [x for x in SETTINGS if x in ("seed", "rng_state", "step_count") or hasattr(sim, x) or x in accepted]
    out_sims.append({"name": cname, "registered": REG.get(d.get("name", cname)) is cls, "has_todict": has_todict, "has_from_dict": has_from, "has_atoms": "atoms" in d,
                     "required": required, "accepted": sorted(accepted), "emit_kwargs": sorted(d.get("kwargs", {})), "emitted": sorted(emitted), "settings": owned})
out["simulations"] = out_sims

# ---- module-level import statements (for the import-order model)
for name, mod in mods.items():
    path = mod.__file__
    tree = ast.parse(open(path).read())
    stmts = []
    pkg = name if path.endswith("__init__.py") else name.rsplit(".", 1)[0]
    for st in tree.body:
        if isinstance(st, ast.If):
            t = ast.unparse(st.test)
            if t in ("TYPE_CHECKING", "typing.TYPE_CHECKING"):
                continue
            fail(f"translator: module-level `if {t}:` in {path}:{st.lineno} is not understood")
        if isinstance(st, ast.Import):
            for a in st.names:
                if a.name.startswith("quansino"):
                    stmts.append(["import", a.name, []])
        elif isinstance(st, ast.ImportFrom):
            base = st.module or ""
            if st.level:
                parts = pkg.split(".")
                base = ".".join(parts[:len(parts) - st.level + 1] + ([base] if base else []))
            if base.startswith("quansino"):
                stmts.append(["from", base, [a.name for a in st.names]])
        elif isinstance(st, (ast.ClassDef, ast.FunctionDef)):
            stmts.append(["def", st.name, []])
        elif isinstance(st, ast.Assign):
            for t in st.targets:
                if isinstance(t, ast.Name):
                    stmts.append(["def", t.id, []])
        elif isinstance(st, ast.AnnAssign) and isinstance(st.target, ast.Name):
            stmts.append(["def", st.target.id, []])
        elif isinstance(st, (ast.Try, ast.With)):
            fail(f"translator: module-level {type(st).__name__} in {path}:{st.lineno} is not understood")
    def _is_reg(nd):
        if not isinstance(nd, ast.Call):
            return False
        f = nd.func
        if isinstance(f, ast.Name):
            return f.id in ("register_class", "register")
        return isinstance(f, ast.Attribute) and f.attr in ("register_class", "register") and isinstance(f.value, ast.Name) and f.value.id == "registry"
    registers = name != "quansino.registry" and any(_is_reg(nd) for nd in ast.walk(tree))
    out["modules"][name] = {"package": path.endswith("__init__.py"), "stmts": stmts, "registers": bool(registers)}
print(json.dumps(out))
