"""C18 driver: real AdaptiveForceBias.update_delta() with calculator results carrying committee arrays."""
import numpy as np
from ase import Atoms
from ase.calculators.calculator import Calculator, all_changes
from ase.constraints import FixCom

from util import serve

from quansino.mc.fbmc import AdaptiveForceBias


class Committee(Calculator):
    implemented_properties = ["energy", "forces"]

    def __init__(self, extra):
        super().__init__()
        self.extra = extra

    def calculate(self, atoms=None, properties=("energy",), system_changes=all_changes):
        super().calculate(atoms, properties, system_changes)
        self.results = {"energy": 0.0, "forces": np.zeros((len(self.atoms), 3)), **self.extra}


def handler(c):
    n = c["natoms"]
    atoms = Atoms("Ar" * n, positions=np.arange(3 * n, dtype=float).reshape(n, 3))
    atoms.set_constraint(FixCom())
    extra = {}
    # committee predictions as the calculator stores them: an array, or a plain list / tuple of per-model predictions (any array-like is legal)
    wrap = {"list": lambda x: [np.array(m, dtype=float).tolist() for m in x], "tuple": lambda x: tuple(np.array(m, dtype=float) for m in x)}.get(c.get("store"), lambda x: np.array(x, dtype=float))
    # the names under which the calculator publishes its committee data are settings of the simulation (forces_variance_keyword / energies_variance_keyword)
    fkey, ekey = ("committee_forces", "committee_energies") if c.get("custom_keys") else ("forces_comm", "energies")
    if c.get("forces_comm") is not None:
        extra[fkey] = wrap(c["forces_comm"])
    if c.get("energies") is not None:
        extra[ekey] = wrap(c["energies"]) if c.get("store") != "tuple" else tuple(float(x) for x in c["energies"])
    atoms.calc = Committee(extra)
    late = c.get("late") or {}
    sim = AdaptiveForceBias(atoms, late.get("lo", c["lo"]), late.get("hi", c["hi"]), temperature=300.0, scheme=late.get("scheme", c["scheme"]),
                            reference_variance=late.get("r", c["r"]), update_function=late.get("fn", c["fn"]), seed=3)
    if c.get("custom_keys"):
        sim.forces_variance_keyword, sim.energies_variance_keyword = fkey, ekey
    initial_delta = float(sim.delta)
    atoms.get_potential_energy()
    if late:
        # the object is first used with other settings, then re-tuned through its public attributes
        sim.update_delta()
        sim.min_delta, sim.max_delta, sim.reference_variance, sim.scheme, sim.update_function = c["lo"], c["hi"], c["r"], c["scheme"], c["fn"]
    sim.update_delta()
    # the variance the committee data stand for, computed independently (two-pass standard deviation)
    if c["scheme"] == "forces" and c.get("forces_comm") is not None:
        fc = np.array(c["forces_comm"], dtype=float)
        with np.errstate(all="ignore"):
            vind = np.std(fc, axis=0) / np.mean(np.abs(fc), axis=0)
    elif c["scheme"] == "energy" and c.get("energies") is not None:
        vind = np.std(np.array(c["energies"], dtype=float)) / n
    else:
        vind = c["r"]
    v = np.broadcast_to(np.asarray(sim.variation_coef, dtype=float), (n, 3) if c["scheme"] == "forces" else ())
    d = np.broadcast_to(np.asarray(sim.delta, dtype=float), v.shape)
    vind = np.broadcast_to(np.asarray(vind, dtype=float), v.shape)
    return {"v_impl": np.ravel(v).tolist(), "v": np.ravel(vind).tolist(), "delta": np.ravel(d).tolist(), "initial_delta": initial_delta,
            "hexv": [float(x).hex() for x in np.ravel(v)], "hexd": [float(x).hex() for x in np.ravel(d)]}


serve(handler)
