"""C18 driver: real AdaptiveForceBias.update_delta() with calculator results carrying committee arrays."""
import numpy as np
from ase import Atoms
from ase.calculators.calculator import Calculator, all_changes
from ase.constraints import FixCom

from util import serve

from quansino.mc.fbmc import AdaptiveForceBias


class Committee(Calculator):
    implemented_properties = ["energy", "forces"]

    def __init__(self, extra):
        super().__init__()
        self.extra = extra

    def calculate(self, atoms=None, properties=("energy",), system_changes=all_changes):
        super().calculate(atoms, properties, system_changes)
        self.results = {"energy": 0.0, "forces": np.zeros((len(self.atoms), 3)), **self.extra}


def handler(c):
    n = c["natoms"]
    atoms = Atoms("Ar" * n, positions=np.arange(3 * n, dtype=float).reshape(n, 3))
    atoms.set_constraint(FixCom())
    extra = {}
    if c.get("forces_comm") is not None:
        extra["forces_comm"] = np.array(c["forces_comm"], dtype=float)
    if c.get("energies") is not None:
        extra["energies"] = np.array(c["energies"], dtype=float)
    atoms.calc = Committee(extra)
    sim = AdaptiveForceBias(atoms, c["lo"], c["hi"], temperature=300.0, scheme=c["scheme"],
                            reference_variance=c["r"], update_function=c["fn"], seed=3)
    initial_delta = float(sim.delta)
    atoms.get_potential_energy()
    sim.update_delta()
    v = np.broadcast_to(np.asarray(sim.variation_coef, dtype=float), (n, 3) if c["scheme"] == "forces" else ())
    d = np.broadcast_to(np.asarray(sim.delta, dtype=float), v.shape)
    return {"v": np.ravel(v).tolist(), "delta": np.ravel(d).tolist(), "initial_delta": initial_delta,
            "hexv": [float(x).hex() for x in np.ravel(v)], "hexd": [float(x).hex() for x in np.ravel(d)]}


serve(handler)
