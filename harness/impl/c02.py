"""C02 driver: the public criteria.evaluate(context) of real simulation objects, with a scripted uniform number."""
import numpy as np
from ase import Atoms
from ase.calculators.calculator import Calculator, all_changes
from ase.cell import Cell

from util import ScriptedRNG, serve

from quansino.mc.canonical import Canonical, HamiltonianCanonical
from quansino.mc.gcmc import GrandCanonical
from quansino.mc.isobaric import Isobaric
from quansino.mc.isotension import Isotension
from quansino.moves.cell import CellMove
from quansino.moves.displacement import DisplacementMove, HamiltonianDisplacementMove
from quansino.moves.exchange import ExchangeMove


class Fixed(Calculator):
    implemented_properties = ["energy", "forces"]

    def __init__(self, e):
        super().__init__()
        self.e = e

    def calculate(self, atoms=None, properties=("energy",), system_changes=all_changes):
        super().calculate(atoms, properties, system_changes)
        self.results = {"energy": self.e, "forces": np.zeros((len(self.atoms), 3))}


class Quad(Calculator):
    """energy = a smooth function of positions and volume; standard caching"""
    implemented_properties = ["energy", "forces"]

    @staticmethod
    def energy_of(atoms):
        return 0.01 * float(np.sum(atoms.positions ** 2)) + 0.002 * float(atoms.get_volume())

    def calculate(self, atoms=None, properties=("energy",), system_changes=all_changes):
        super().calculate(atoms, properties, system_changes)
        self.results = {"energy": self.energy_of(self.atoms), "forces": -0.02 * self.atoms.positions}


class Spy:
    """wraps the SHIPPED criteria of a table entry: records the uniform number it is about to draw (from a copy of the generator state),
    the trial state it judges (energy recomputed from the atoms, volume) and its verdict"""

    def __init__(self, real, log, name):
        self.real, self.log, self.name = real, log, name

    def evaluate(self, context):
        import copy
        st = copy.deepcopy(context.rng.bit_generator.state)
        v = self.real.evaluate(context)
        g = np.random.Generator(np.random.PCG64())
        g.bit_generator.state = st
        self.log.append({"move": self.name, "u": float(g.random()), "E_new": Quad.energy_of(context.atoms), "V_new": float(context.atoms.get_volume()),
                         "natoms": len(context.atoms), "verdict": bool(v), "criteria_class": type(self.real).__name__})
        return v

    def to_dict(self):
        return self.real.to_dict()


def drive_iso(c):
    """the acceptance rule as the DRIVER applies it: the reference state of a trial is the configuration the run started from (whatever the user did to
    the atoms between construction and run, or between two runs) or the last accepted one"""
    from quansino.operations.cell import IsotropicDeformation
    from quansino.operations.displacement import Ball
    n = c["natoms"]
    r0 = np.random.default_rng(c["seed"])
    atoms = Atoms("Ar" * n, positions=r0.uniform(0, 4, (n, 3)), cell=np.array(c["cell"]), pbc=True)
    atoms.calc = Quad()
    cls = Isotension if c["crit"] == "drv_tens" else Isobaric
    kw = {"external_stress": np.eye(3) * c["P"]} if cls is Isotension else {}
    mc = cls(atoms, temperature=c["T"], pressure=c["P"], seed=c["seed"], max_cycles=2, logfile=None, **kw)
    mc.add_move(DisplacementMove(np.arange(n), Ball(0.4)), name="d")
    mc.add_move(CellMove(IsotropicDeformation(0.05)), name="c", probability=2.0)
    log = []
    for nm, ms in mc.moves.items():
        ms.criteria = Spy(ms.criteria, log, nm)
    out = {"runs": []}
    for seg in c["segments"]:
        if seg.get("scale"):
            atoms.set_cell(atoms.cell.array * seg["scale"], scale_atoms=True)      # the user rescales the box
        if seg.get("shift"):
            atoms.positions[0] += np.array(seg["shift"])
        start = {"E": Quad.energy_of(atoms), "V": float(atoms.get_volume())}
        del log[:]
        mc.run(seg["steps"])
        out["runs"].append({"start": start, "trials": list(log)})
    return out


def handler(c):
    if c["crit"] in ("drv_iso", "drv_tens"):
        return drive_iso(c)
    n = c["natoms"]
    rng = np.random.default_rng(7)
    atoms = Atoms("Ar" * n if n else "", positions=rng.uniform(0, 3, (n, 3)), cell=c.get("cell_new", np.eye(3) * 10), pbc=True)
    atoms.calc = Fixed(c["E_new"])
    kind = c["crit"]
    rep = {}
    # objects are built with *different* initial settings; the case's values are applied through the public setters
    if kind == "can":
        mc = Canonical(atoms, temperature=123.0, seed=1)
        mc.add_move(DisplacementMove(np.arange(n)), name="m")
    elif kind == "ham":
        mc = HamiltonianCanonical(atoms, temperature=123.0, seed=1)
        mc.add_move(HamiltonianDisplacementMove(), name="m")
        atoms.set_momenta(np.array(c["momenta"]))
        mc.context.last_kinetic_energy = c["K_old"]
        rep["K_new"] = float(atoms.get_kinetic_energy())
    elif kind == "iso":
        mc = Isobaric(atoms, temperature=123.0, pressure=0.777, seed=1)
        mc.add_move(CellMove(), name="m")
    elif kind == "tens":
        mc = Isotension(atoms, temperature=123.0, pressure=0.777, external_stress=np.ones((3, 3)), seed=1)
        mc.add_move(CellMove(), name="m")
    elif kind == "gc":
        ex = Atoms(c["species"])
        if c.get("mass_factor"):
            ex.set_masses(ex.get_masses() * c["mass_factor"])
        hist = c.get("history", 0)
        mc = GrandCanonical(atoms, ex, temperature=123.0, chemical_potential=9.9, number_of_exchange_particles=77 if not hist else c["N"] - hist, seed=1, max_cycles=1)
        mc.add_move(ExchangeMove(np.arange(n)), name="m")
        mc.chemical_potential = c["mu"]
        if hist:
            # the particle number the criteria reads is the simulation's OWN count after `hist` accepted insertions through the real driver
            class Yes:
                def evaluate(self, context):
                    return True
            real = mc.moves["m"].criteria
            mc.moves["m"].criteria = Yes()
            mc.moves["m"].move.bias_towards_insert = 1.0
            for _ in mc.srun(hist):
                pass
            mc.moves["m"].criteria = real
            rep["N_after_history"] = int(mc.number_of_exchange_particles)
            rep["natoms_after_history"] = len(atoms)
        else:
            mc.number_of_exchange_particles = c["N"]
        mc.accessible_volume = c["V"]
        mc.context.particle_delta = c["delta"]
        rep["mass"] = float(ex.get_masses().sum())
    if c.get("warm"):
        # a first trial under the construction-time settings: parameters changed afterwards must apply to the next trial
        mc.context.last_potential_energy = c["E_old"] + 0.01
        if kind in ("iso", "tens"):
            mc.context.last_cell = Cell(np.array(c["cell_old"]) * 1.01)
        mc.context.rng = ScriptedRNG([0.5])
        try:
            mc.moves["m"].criteria.evaluate(mc.context)
        except Exception as e:  # noqa: BLE001
            rep["warmup_raised"] = type(e).__name__
    mc.temperature = c["T"]
    if kind in ("iso", "tens"):
        mc.pressure = c["P"]
        mc.context.last_cell = Cell(np.array(c["cell_old"]))
        rep["V_old"] = float(mc.context.last_cell.volume)
        rep["V_new"] = float(atoms.get_volume())
    if kind == "tens":
        mc.external_stress = np.array(c["S"])
    mc.context.last_potential_energy = c["E_old"]
    mc.context.rng = ScriptedRNG([c["u"]])
    crit = mc.moves["m"].criteria
    rep["criteria_class"] = type(crit).__name__

    def params():
        out = {}
        for nm in ("temperature", "pressure", "external_stress", "chemical_potential", "number_of_exchange_particles", "accessible_volume"):
            if hasattr(mc, nm):
                out[nm] = np.array(getattr(mc, nm), dtype=float).tobytes().hex()
        return out
    before = params()
    try:
        rep["verdict"] = bool(crit.evaluate(mc.context))
    except Exception as e:  # noqa: BLE001
        rep["raised"] = type(e).__name__
    # an acceptance test reads the parameters; it must not change them, and the same trial judged again gets the same verdict
    rep["params_changed"] = sorted(k for k, v in params().items() if before.get(k) != v)
    mc.context.rng = ScriptedRNG([c["u"]])
    try:
        rep["verdict_again"] = bool(crit.evaluate(mc.context))
    except Exception as e:  # noqa: BLE001
        rep["raised_again"] = type(e).__name__
    if kind == "tens" and hasattr(crit, "strain_tensor"):
        rep["strain"] = np.asarray(crit.strain_tensor).tolist()
    rep["E_new_seen"] = float(atoms.get_potential_energy())
    rep["natoms"] = len(atoms)
    return rep


serve(handler)
