"""C07 driver: an uninterrupted run with the restart observer at interval 1 (the file's bytes are copied after every step), then, for
every k, a simulation rebuilt FROM THE FILE written at step k (read_json -> Class.from_dict -> fresh calculator) continues and is
compared with the uninterrupted run after every remaining step."""
import copy
import io
import os
import shutil
import tempfile
import warnings

import numpy as np
from ase.io.jsonio import read_json

from util import serve
from sim import PairPot, Sim, h, row_tokens

from quansino.mc.fbmc import AdaptiveForceBias, ForceBias

warnings.simplefilter("ignore")


def observe(s, mc):
    atoms = mc.atoms
    o = {"arrays": {n: h(a.tobytes()) for n, a in sorted(atoms.arrays.items()) if n != "vid"}, "cell": h(atoms.cell.array.tobytes()), "n": len(atoms),
         "step_count": int(mc.step_count), "rng": h(repr(mc._rng.bit_generator.state).encode())}
    # simulation-level settings as the running object holds them
    o["settings"] = {}
    for nm in ("temperature", "pressure", "external_stress", "chemical_potential", "accessible_volume", "max_cycles"):
        if hasattr(mc, nm):
            o["settings"][nm] = np.array(getattr(mc, nm), dtype=float).tobytes().hex()
    o["table"] = [[nm, int(ms.interval), float(ms.probability).hex(), int(ms.minimum_count)] for nm, ms in getattr(mc, "moves", {}).items()]
    if hasattr(mc, "move_history"):
        o["hist"] = [[str(a), None if b is None else bool(b)] for a, b in mc.move_history]
        o["last_E"] = float(mc.context.last_potential_energy).hex()
        o["labels"] = [[int(x) for x in m.labels] for ms in mc.moves.values() for m in leafs(ms.move) if hasattr(m, "labels")]
        if hasattr(mc.context, "number_of_exchange_particles"):
            o["N"] = int(mc.context.number_of_exchange_particles)
    return o


def leafs(move, out=None):
    out = [] if out is None else out
    if hasattr(move, "moves"):
        for m in move.moves:
            leafs(m, out)
    else:
        out.append(move)
    return out


def fresh_calc(p):
    if p.get("calc") == "lj":
        from ase.calculators.lj import LennardJones
        return LennardJones(sigma=1.5, epsilon=0.01, rc=4.0)
    return PairPot(p.get("calc", "caching"))


def handler(c):
    d = tempfile.mkdtemp(prefix="c07_", dir=c["workdir"])
    try:
        return run_case(c, d)
    finally:
        shutil.rmtree(d, ignore_errors=True)


def run_case(c, d):
    p = copy.deepcopy(c["program"])
    path = os.path.join(d, "restart.json")
    n = p["steps"]
    if c.get("driver") in ("fbmc", "afbmc"):
        from ase import Atoms
        from ase.constraints import FixCom
        from util import Harmonic
        natoms = 3
        atoms = Atoms("Ar3", positions=[[0, 0, 0], [2.5, 0, 0], [0, 2.5, 0.3]], cell=[9, 9, 9])
        atoms.set_constraint(FixCom())
        atoms.calc = Harmonic(k=0.5)
        cls = ForceBias if c["driver"] == "fbmc" else AdaptiveForceBias
        args = (0.1,) if c["driver"] == "fbmc" else (0.05, 0.15)
        mc = cls(atoms, *args, temperature=300.0, seed=c["seed"], logfile=None, restart_file=path)
        out = {"steps": []}
        for _ in mc.irun(n):
            out["steps"].append({"step_count": int(mc.step_count)})
        return out
    p["logfile"] = None
    s = Sim(p)
    mc = s.mc
    # the restart observer is what a user gets from restart_file=...: attach it the same way
    from quansino.io.restart import RestartObserver
    mc.default_restart = path
    files, ref = [], []
    rt = p.get("retune")          # {"step": j, "T": T2}: at the yield of iteration j the user re-tunes the temperature (applies to all later steps; written to the files from j+1 on)
    for i, _ in enumerate(mc.srun(n)):
        # (srun yields before the observers of this step run: the file on disk describes the state after `step_count` steps)
        with open(path) as fh:
            files.append(fh.read())
        ref.append(observe(s, mc))
        if rt and i == rt["step"]:
            mc.temperature = rt["T"]
    mc.file_manager.close() if hasattr(mc.file_manager, "close") else None
    # ref[i] = state after i+1 steps (observed at the yield, before step_count is incremented); files[i] = file describing step_count == i
    out = {"ref": ref, "restarts": [], "file_sizes": [len(f) for f in files]}
    ks = c.get("ks") or list(range(len(files)))
    for k in ks:
        rec = {"k": k}
        try:
            data = read_json(io.StringIO(files[k]))
            cls = type(mc)
            mc2 = cls.from_dict(data)
            mc2.atoms.calc = fresh_calc(p)
            # user-level callables are not serialised: re-attach the scripted check_move / criteria exactly as in the original run
            rec["step_count_loaded"] = int(mc2.step_count)
            got = []
            s2 = type("S", (), {})()
            loaded0 = observe(s2, mc2)
            for i2, _ in enumerate(mc2.srun(n - k)):
                got.append(observe(s2, mc2))
                if rt and k + i2 == rt["step"]:
                    mc2.temperature = rt["T"]      # the same re-tuning at the same step, if the file is from before it
            rec["got"] = got
            # the loaded dictionary is an input: rebuilding from it a second time (after the first rebuilt simulation has run) gives the same start
            mc3 = cls.from_dict(data)
            again0 = observe(s2, mc3)
            rec["dict_reusable"] = all(loaded0.get(x) == again0.get(x) for x in ("arrays", "cell", "n", "rng", "step_count", "labels", "N"))
            # second generation: the rebuilt simulation writes its own restart file; a simulation rebuilt from THAT file continues the same run
            if c.get("chain", True) and n - k >= 2:
                j = 2 if (n - k >= 3 and k % 2 == 0) else 1
                path2 = os.path.join(d, f"restart_gen2_{k}.json")
                mc4 = cls.from_dict(read_json(io.StringIO(files[k])))
                mc4.atoms.calc = fresh_calc(p)
                mc4.default_restart = path2
                for i4, _ in enumerate(mc4.srun(j)):
                    if rt and k + i4 == rt["step"]:
                        mc4.temperature = rt["T"]
                mc4.file_manager.close() if hasattr(mc4.file_manager, "close") else None
                with open(path2) as fh:
                    data2 = read_json(io.StringIO(fh.read()))
                mc5 = cls.from_dict(data2)
                mc5.atoms.calc = fresh_calc(p)
                rec["chain"] = {"j": j, "step_count_loaded": int(mc5.step_count), "got": []}
                for i5, _ in enumerate(mc5.srun(n - k - j)):
                    rec["chain"]["got"].append(observe(s2, mc5))
                    if rt and k + j + i5 == rt["step"]:
                        mc5.temperature = rt["T"]
        except Exception as e:  # noqa: BLE001
            import traceback
            rec["error"] = f"{type(e).__name__}: {str(e)[:300]}"
            rec["trace"] = traceback.format_exc()[-800:]
        out["restarts"].append(rec)
    return out


serve(handler)
