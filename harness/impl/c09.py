"""C09 driver: real MonteCarlo scheduling with a recording generator."""
import numpy as np
from ase import Atoms

from util import RecordingRNG, serve

from quansino.mc.core import MonteCarlo
from quansino.mc.criteria import BaseCriteria
from quansino.moves.core import BaseMove
from quansino.operations.displacement import Ball


class Noop(BaseMove):
    def __init__(self):
        super().__init__(Ball(0.1))

    def __call__(self, context):
        return False


class Crit(BaseCriteria):
    def evaluate(self, context):
        return True


def handler(case):
    global WS
    WS = float(case.get("wscale", 64))      # weights are RELATIVE: w/64 (all <= 1), w/8 or w itself (up to 64) describe the same law
    atoms = Atoms("Ar2", positions=[[0, 0, 0], [1, 1, 1]])
    mc = MonteCarlo(atoms, max_cycles=case.get("built_with_cycles", case["cycles"]), seed=case["seed"])
    mc.max_cycles = case["cycles"]          # (a public setting: re-tuned on the existing object)
    refused = []
    for e in case["adds"]:
        try:
            mc.add_move(Noop(), Crit(), name=f"m{e['name']}", interval=e["interval"], probability=e["weight"] / WS,
                        minimum_count=0 if case.get("late_min") else e["min"])
            refused.append(False)
        except ValueError:
            refused.append(True)
    if case.get("late_min"):
        for e in case["adds"]:
            mc.moves[f"m{e['name']}"].minimum_count = e["min"]
    table = [[int(n[1:]), s.interval, s.probability * WS, s.minimum_count] for n, s in mc.moves.items()]
    log = []
    mc._rng = RecordingRNG(mc._rng, log)
    steps = []
    import warnings
    warnings.simplefilter("ignore")
    edit = case.get("edit")          # {"after": j, "name": n, "weight": w}: in the LAST step, after the j-th yielded name, the user changes a weight
    te = case.get("table_edit")       # the user changes a move's interval between two steps (MoveStorage fields are public)
    for k, st in enumerate(mc.irun(case["steps"])):
        if te and k == te["step"] and f"m{te['name']}" in mc.moves:
            mc.moves[f"m{te['name']}"].interval = te["interval"]
        mark = len(log)
        names, slot_marks = [], []
        for j, n in enumerate(st):      # the step generator is consumed lazily, as a user loop over irun() does
            names.append(int(n[1:]))
            slot_marks.append(len(log) - mark)
            if edit and k == case["steps"] - 1 and j == edit["after"] and f"m{edit['name']}" in mc.moves:
                mc.moves[f"m{edit['name']}"].probability = edit["weight"] / WS
        calls = []
        for (meth, a, kw, r) in log[mark:]:
            if meth == "choice":
                calls.append({"p": None if kw.get("p") is None else [float(x) for x in kw["p"]],
                              "replace": kw.get("replace", True), "size": kw.get("size"),
                              "a": [str(x) for x in np.atleast_1d(a[0])],
                              "result": [str(x) for x in np.atleast_1d(r)]})
            else:
                calls.append({"other": meth})
        steps.append({"step": k, "names": names, "slot_marks": slot_marks, "history": [[int(n[1:]), acc] for n, acc in mc.move_history], "calls": calls})
    return {"refused": refused, "table": table, "steps": steps}


serve(handler)
