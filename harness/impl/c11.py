"""C11 driver: real DisplacementMove / composite calls on real Atoms; bit-level diff of the positions."""
import warnings

import numpy as np
from ase import Atoms
from ase.constraints import FixAtoms

from util import serve

from quansino.mc.contexts import DisplacementContext
from quansino.moves.displacement import DisplacementMove
from quansino.operations.displacement import Ball, Box, Rotation, Sphere, Translation, TranslationRotation

warnings.simplefilter("ignore")
OPS = {"ball": lambda: Ball(0.3), "box": lambda: Box(0.25), "sphere": lambda: Sphere(0.2), "translation": Translation,
       "rotation": Rotation, "translation_rotation": TranslationRotation, "ball+box": lambda: Ball(0.2) + Box(0.1)}


def build_expr(e, leaves):
    """e: int (leaf index) | ["+", a, b] | ["*", a, n]"""
    if isinstance(e, int):
        return leaves[e]
    if e[0] == "+":
        return build_expr(e[1], leaves) + build_expr(e[2], leaves)
    return build_expr(e[1], leaves) * e[2]


def flat_moves(m):
    return list(m.moves) if hasattr(m, "moves") else [m]


class RecOp:
    """records every result the operation hands to the move (the move's `operation` slot is public; the operation itself is untouched)"""

    def __init__(self, op, log):
        self._op, self._log = op, log

    def calculate(self, context):
        r = self._op.calculate(context)
        self._log.append(np.array(r, dtype=float).copy())
        return r

    def __getattr__(self, name):
        return getattr(self._op, name)


def handler(c):
    n = c["natoms"]
    OFF = int(c.get("label_offset", 0))      # 64-bit particle ids (hashes, code * 10**16 + index): labels far above 2**53

    def enc(x):
        return x if x is None or x < 0 else x + OFF

    def dec(x):
        if x is None or x < 0 or OFF == 0:
            return x
        # (an automatic label max+1 over all-negative labels is 0, not offset: reported in a namespace of its own so that it cannot be mistaken for label 0 + offset)
        return x - OFF if x >= OFF else x + 10 ** 6
    rng = np.random.default_rng(c["seed"])
    atoms = Atoms("Ar" * n, positions=np.array(c["positions"], dtype=float), cell=[15.0, 15.0, 15.0], pbc=True)
    if c.get("fixed"):
        atoms.set_constraint(FixAtoms(indices=c["fixed"]))
    ctx = DisplacementContext(atoms, rng)
    leaves = []
    for lf in c["leaves"]:
        mv = DisplacementMove(np.array([enc(x) for x in lf["labels"]], dtype=np.int64), OPS[lf["op"]]())
        mv.max_attempts = c.get("max_attempts", 3)
        leaves.append(mv)
    vetoes = list(c.get("vetoes", []))
    nchecks = [0]
    opres, attempts = [], []
    for mv in leaves:
        mv.operation = RecOp(mv.operation, opres)

    def check(*a, **k):
        nchecks[0] += 1
        ok = not (vetoes.pop(0) if vetoes else False)
        # what the user's geometric check is shown: the trial positions, the atoms being moved, the operation result that produced them
        attempts.append({"moving": [int(i) for i in np.atleast_1d(ctx._moving_indices)], "trial": atoms.positions.copy(),
                         "result": opres[-1].copy() if opres else None, "ok": ok})
        return ok

    for mv in leaves:
        mv.check_move = check
    # history before the observed calls: atoms added / removed through the public notification (grand-canonical style)
    for st in c.get("pre", []):
        if st[0] == "add":
            k, dl = st[1], st[2]
            for mv in leaves:
                mv.default_label = enc(dl)
            atoms.extend(Atoms("Ar" * k, positions=rng.uniform(0, 10, (k, 3))))
            added = np.arange(len(atoms) - k, len(atoms))
            for mv in leaves:
                mv.on_atoms_changed(added, [])
        else:
            idx = [i for i in st[1] if i < len(atoms)]
            if atoms.constraints:
                atoms.set_constraint()
            del atoms[idx]
            for mv in leaves:
                mv.on_atoms_changed([], idx)
    ctx.last_positions = atoms.get_positions()
    move = build_expr(c["expr"], leaves)
    out = {"type": type(move).__name__, "calls": []}
    derived = None
    if c.get("derived") and hasattr(move, "moves") and hasattr(move, "number_of_moved_particles"):
        derived = move * 2          # another composite made from this one: each reports about its own last call
    for call in c["calls"]:
        if call.get("relabel") == "roll":
            for mv in leaves:
                mv.set_labels(np.roll(np.asarray(mv.labels), 1))
        if call.get("presel") is not None and not hasattr(move, "moves"):
            move.to_displace_labels = enc(call["presel"])
        before = atoms.positions.copy()
        labels_before = [[dec(int(x)) for x in np.asarray(m.labels).tolist()] for m in flat_moves(move)]
        nchecks[0] = 0
        del attempts[:]
        ret = move(ctx)
        after = atoms.positions.copy()
        changed = [int(i) for i in np.where(np.any(before != after, axis=1))[0]]
        delta = (after - before)
        # every attempt starts from the configuration left by the last ACCEPTED attempt of this call (a vetoed one is undone first)
        base, bad_attempts = before.copy(), []
        for j, a in enumerate(attempts):
            mvg = a["moving"]
            others = np.ones(len(base), dtype=bool)
            others[mvg] = False
            if a["result"] is not None and not c.get("fixed"):
                want = base[mvg] + np.broadcast_to(a["result"], (len(mvg), 3)) if np.size(a["result"]) in (3, 3 * len(mvg)) else None
                if want is None or np.any(np.abs(a["trial"][mvg] - want) > 1e-12) or np.any(a["trial"][others] != base[others]):
                    bad_attempts.append({"attempt": j, "moving": mvg, "off_by": None if want is None else float(np.max(np.abs(a["trial"][mvg] - want))),
                                         "others_moved": bool(np.any(a["trial"][others] != base[others]))})
            if a["ok"]:
                base = a["trial"].copy()
        rec = {"ret": bool(ret), "changed": changed, "bad_attempts": bad_attempts, "attempts": len(attempts), "labels": labels_before, "natoms": len(atoms),
               "delta": [[float(x).hex() for x in delta[i]] for i in changed], "checks": nchecks[0],
               "before": [b.tobytes().hex() for b in before], "after": [a.tobytes().hex() for a in after]}
        if hasattr(move, "moves"):
            dl = getattr(move, "displaced_labels", "MISSING")
            rec["displaced"] = dl if dl == "MISSING" else [None if x is None else dec(int(x)) for x in dl]
            try:
                rec["number_moved"] = int(move.number_of_moved_particles)
            except AttributeError:
                rec["number_moved"] = "MISSING"
            if derived is not None:
                derived(ctx)
                dl2 = getattr(move, "displaced_labels", "MISSING")
                rec["displaced_after_other"] = dl2 if dl2 == "MISSING" else [None if x is None else dec(int(x)) for x in dl2]
                rec["number_moved_after_other"] = int(move.number_of_moved_particles)
        else:
            rec["displaced"] = None if move.displaced_labels is None else dec(int(move.displaced_labels))
        out["calls"].append(rec)
    return out


serve(handler)
