"""Builds +/* expression trees from REAL quansino moves / operations and reports type + element identities."""
import json
import sys

import numpy as np

import quansino.mc  # noqa: F401  (import order: see DESIGN §6 item 6)
from quansino.moves.cell import CellMove
from quansino.moves.core import BaseMove
from quansino.moves.displacement import DisplacementMove, HamiltonianDisplacementMove
from quansino.moves.exchange import ExchangeMove
from quansino.operations.cell import IsotropicDeformation
from quansino.operations.displacement import Ball, Box, Rotation, Sphere, Translation


class UserMove(BaseMove):
    """generic move: user subclass of BaseMove; doubles as the call-order probe"""

    def __init__(self, log=None, ret=False, tag=None):
        super().__init__(Ball(0.1))
        self.log, self.ret, self.tag = log, ret, tag

    def __call__(self, context):
        self.log.append(self.tag)
        return self.ret

    __slots__ = ("log", "ret", "tag")


class UserDisp(DisplacementMove):
    """a user's displacement move: still of the displacement kind (composite_move_type is inherited)"""


class UserExch(ExchangeMove):
    """a user's exchange move: still of the exchange kind"""


def mk_leaf(kind, idx=1):
    # every other leaf object of a displacement / exchange kind is an instance of a user subclass (seeded change C17-11: kinds compared
    # by exact class)
    if kind == "Disp":
        return (UserDisp if idx % 2 == 0 else DisplacementMove)(np.arange(3))
    if kind == "Exch":
        return (UserExch if idx % 2 == 0 else ExchangeMove)(np.arange(3))
    if kind == "Cell":
        return CellMove()
    if kind == "Ham":
        return HamiltonianDisplacementMove()
    if kind == "Gen":
        return UserMove()
    raise ValueError(kind)


OPS = [Ball, Box, Sphere, Translation, Rotation, lambda: IsotropicDeformation(0.1)]


INTER = []       # (operand object, its elements when it was used as an operand): + and * must leave their operands alone


def elems(obj):
    for attr in ("moves", "operations"):
        if hasattr(obj, attr):
            return [id(m) for m in getattr(obj, attr)]
    return None


def build(tree, pool, mk):
    tag = tree[0]
    if tag == "L":
        _, idx, kind = tree
        if idx not in pool:
            pool[idx] = mk(kind, idx) if mk is mk_leaf else mk(kind)
        return pool[idx]
    if tag == "A":
        a, b = build(tree[1], pool, mk), build(tree[2], pool, mk)
        INTER.extend([(a, elems(a)), (b, elems(b))])
        return a + b
    if tag == "M":
        n = tree[2]
        a = build(tree[1], pool, mk)
        INTER.append((a, elems(a)))
        if isinstance(n, dict):  # special multipliers
            n = {"float": 2.0, "str": "a", "none": None, "rmul": 2}[n["py"]]
            if tree[2]["py"] == "rmul":
                return 2 * a
        return a * n
    raise ValueError(tag)


def describe(obj, pool, attr):
    rev = {id(v): k for k, v in pool.items()}
    if hasattr(obj, attr):
        return {"type": type(obj).__name__, "ids": [rev.get(id(m), -99) for m in getattr(obj, attr)]}
    return {"leaf": rev.get(id(obj), -99)}


def main():
    req = json.load(sys.stdin)
    out = []
    for case in req["cases"]:
        pool = {}
        del INTER[:]
        try:
            if case["domain"] == "move":
                r = describe(build(case["tree"], pool, mk_leaf), pool, "moves")
            elif case["domain"] == "op":
                r = describe(build(case["tree"], pool, lambda k: OPS[k % len(OPS)]()), pool, "operations")
            elif case["domain"] == "call":
                # plain composite of probe moves + one cell move => plain; call it and log order
                log = []
                rets = case["rets"]
                probes = [UserMove(log, bool(r), i) for i, r in enumerate(rets)]
                comp = probes[0]
                for p in probes[1:]:
                    comp = comp + p
                if len(probes) == 1:
                    comp = comp * 1
                r = {"type": type(comp).__name__, "order": None, "result": None}
                r["result"] = bool(comp(None))
                r["order"] = list(log)
        except Exception as e:  # noqa: BLE001
            r = {"error": type(e).__name__}
        r["mutated_operands"] = sum(1 for obj, snap in INTER if elems(obj) != snap)
        out.append(r)
    json.dump({"results": out}, sys.stdout)


main()
