"""C20 driver: bare user-defined moves / criteria (protocol methods only, no quansino base class) wrapped so that every attribute
access from outside is logged, added with explicit criteria to every driver."""
import warnings

import numpy as np
from ase import Atoms

from util import Harmonic, serve

import quansino.mc  # noqa: F401
from quansino.mc.canonical import Canonical, HamiltonianCanonical
from quansino.mc.core import MonteCarlo
from quansino.mc.gcmc import GrandCanonical
from quansino.mc.isobaric import Isobaric
from quansino.mc.isotension import Isotension
from quansino.moves.cell import CellMove
from quansino.moves.displacement import DisplacementMove
from quansino.moves.exchange import ExchangeMove
from quansino.registry import register_class

warnings.simplefilter("ignore")
LOG = []
INTERNAL = ("_v_",)


CELL_W = np.array([[0.1, 0.37, 0.51], [0.73, 0.2, 0.19], [0.43, 0.61, 0.3]])


def cell_token(cell):
    # one number that tells two cells apart, volume-preserving changes included (the determinant alone does not see a shear)
    cell = np.asarray(cell, dtype=float)
    return float(np.round(np.linalg.det(cell) + np.sum(cell * CELL_W), 9))


class Strict:
    """logs every attribute read / write coming from outside; internal state lives in names starting with _v_"""

    def __getattribute__(self, name):
        if not name.startswith("_v_"):
            LOG.append(["getattr", object.__getattribute__(self, "_v_id"), name])
        return object.__getattribute__(self, name)

    def __setattr__(self, name, value):
        if not name.startswith("_v_"):
            LOG.append(["setattr", object.__getattribute__(self, "_v_id"), name])
            raise AttributeError(f"drivers must not write attribute {name!r} of a user object")
        object.__setattr__(self, name, value)


class UserMove(Strict):
    def __init__(self, oid, script, kind):
        self._v_id, self._v_script, self._v_kind = oid, list(script), kind

    def __call__(self, context):
        act = self._v_script.pop(0) if self._v_script else ["ret", True]
        LOG.append(["call", self._v_id, act])
        atoms = context.atoms
        if act[0] == "add" and hasattr(context, "particle_delta"):
            atoms.extend(Atoms("H", positions=[[1.0 + 0.1 * len(atoms), 1.0, 1.0]]))
            idx = np.array([len(atoms) - 1])
            context._added_indices = np.hstack((context._added_indices, idx), dtype=np.int_, casting="unsafe")
            context._added_atoms += atoms[idx]
            context.particle_delta += 1
            return 1
        if act[0] == "delete" and hasattr(context, "particle_delta") and len(atoms) > 2:
            idx = np.array([act[1] % len(atoms)])
            context._deleted_indices = np.hstack((context._deleted_indices, idx), dtype=np.int_, casting="unsafe")
            context._deleted_atoms += atoms[idx]
            context.particle_delta -= 1
            del atoms[idx]
            return "deleted"
        if act[0] == "swap" and hasattr(context, "particle_delta") and len(atoms) > 2:
            # one particle out, one (two-atom) particle in: zero net particle balance, non-zero atom balance
            idx = np.array([act[1] % len(atoms)])
            context._deleted_indices = np.hstack((context._deleted_indices, idx), dtype=np.int_, casting="unsafe")
            context._deleted_atoms += atoms[idx]
            del atoms[idx]
            atoms.extend(Atoms("H2", positions=[[2.0, 2.0, 2.0 + 0.1 * len(atoms)], [2.7, 2.0, 2.0]]))
            new = np.array([len(atoms) - 2, len(atoms) - 1])
            context._added_indices = np.hstack((context._added_indices, new), dtype=np.int_, casting="unsafe")
            context._added_atoms += atoms[new]
            return True
        if act[0] == "cell" and hasattr(context, "last_cell"):
            if act[1] == "shear":
                # a change of shape at constant volume (seeded change C20-11, second version: the cell notification sent only when the volume changed)
                cell = atoms.cell.array.copy()
                cell[1] = cell[1] + 0.0625 * cell[0]
                atoms.set_cell(cell, scale_atoms=True)
            else:
                atoms.set_cell(atoms.cell.array * act[1], scale_atoms=True)
            return [1]
        if act[0] == "shift":
            if len(atoms):          # (the shipped exchange move of the same table may have emptied the box)
                atoms.positions[0] += 0.01
            return True
        if act[0] == "ret":
            return {"True": True, "1": 1, "x": "x", "[0]": [0], "False": False, "0": 0, "None": None, "": "", "[]": []}[act[1]]
        return True

    # value semantics (a dataclass-like user class): two distinct instances with the same settings compare equal; a driver has no business asking
    def __eq__(self, other):
        LOG.append(["getattr", object.__getattribute__(self, "_v_id"), "__eq__"])
        return type(other) is type(self)

    def __hash__(self):
        return 7

    def on_atoms_changed(self, added_indices, removed_indices):
        LOG.append(["atoms_changed", self._v_id, [int(i) for i in np.ravel(added_indices)], [int(i) for i in np.ravel(removed_indices)]])

    def on_cell_changed(self, new_cell):
        LOG.append(["cell_changed", self._v_id, cell_token(new_cell)])

    def to_dict(self):
        LOG.append(["to_dict", self._v_id])
        return {"name": "UserMove", "kwargs": {"oid": self._v_id}}

    @classmethod
    def from_dict(cls, data):
        return cls(data["kwargs"]["oid"], [], "any")


class UserCriteria(Strict):
    def __init__(self, oid, verdicts, snaps):
        self._v_id, self._v_verdicts, self._v_snaps = oid, verdicts, snaps

    def evaluate(self, context):
        v = self._v_verdicts.pop(0) if self._v_verdicts else True
        LOG.append(["evaluate", self._v_id, bool(v)])
        self._v_snaps.append({"added": [int(i) for i in np.ravel(getattr(context, "_added_indices", []))],
                              "removed": [int(i) for i in np.ravel(getattr(context, "_deleted_indices", []))],
                              "cell": cell_token(context.atoms.cell.array), "n": len(context.atoms)})
        return v

    def to_dict(self):
        LOG.append(["to_dict", self._v_id])
        return {"name": "UserCriteria", "kwargs": {"oid": self._v_id}}

    @classmethod
    def from_dict(cls, data):
        return cls(data["kwargs"]["oid"], [], [])


class UserCriteriaFalsy(UserCriteria):
    """a criteria that happens to be FALSY as an object (e.g. it exposes the length of its - still empty - verdict window): an explicit criteria all the same"""

    def __len__(self):
        return 0


class UserCriteriaBoolFalse(UserCriteria):
    def __bool__(self):
        return False


try:
    register_class(UserMove, "UserMove")
    register_class(UserCriteria, "UserCriteria")
except Exception:  # noqa: BLE001  (registration API differences are reported by the run itself)
    pass


def handler(c):
    del LOG[:]
    n = c["natoms"]
    atoms = Atoms("Ar" * n, positions=np.array(c["positions"], dtype=float), cell=np.eye(3) * 9.0, pbc=True)
    atoms.calc = Harmonic(k=0.3)
    drv = c["driver"]
    kw = dict(seed=c["seed"], max_cycles=c["max_cycles"], logfile=None)
    if drv == "base":
        mc = MonteCarlo(atoms, **kw)
    elif drv == "canonical":
        mc = Canonical(atoms, temperature=300.0, **kw)
    elif drv == "hamiltonian":
        mc = HamiltonianCanonical(atoms, temperature=300.0, **kw)
    elif drv == "isobaric":
        mc = Isobaric(atoms, temperature=300.0, pressure=0.01, **kw)
    elif drv == "isotension":
        mc = Isotension(atoms, temperature=300.0, pressure=0.01, **kw)
    else:
        mc = GrandCanonical(atoms, Atoms("H"), temperature=300.0, chemical_potential=-0.1, number_of_exchange_particles=0, **kw)
    snaps = []
    verdicts = list(c["verdicts"])
    objs = {}
    table = []
    extra_objs, members = [], {}
    for ent in c["table"]:
        if ent["kind"] == "user_composite":
            from quansino.moves.composite import CompositeMove
            for o_, sc_ in zip(ent["oids"], ent["scripts"]):
                objs[o_] = UserMove(o_, sc_, "any")
            crit = UserCriteria(100 + len(table), verdicts, snaps)
            mc.add_move(CompositeMove([objs[o_] for o_ in ent["oids"]]), criteria=crit, name=ent["name"], probability=ent.get("probability", 1.0))
            table.append([ent["name"], None, 100 + len(table)])
            extra_objs.extend(ent["oids"])
            members[ent["name"]] = list(ent["oids"])
        elif ent["kind"] == "user":
            if ent["oid"] not in objs:
                objs[ent["oid"]] = UserMove(ent["oid"], ent["script"], "any")
            crit = {"len0": UserCriteriaFalsy, "boolfalse": UserCriteriaBoolFalse}.get(ent.get("criteria_kind"), UserCriteria)(100 + len(table), verdicts, snaps)
            mc.add_move(objs[ent["oid"]], criteria=crit, name=ent["name"], probability=ent.get("probability", 1.0), minimum_count=ent.get("minimum_count", 0))
            table.append([ent["name"], ent["oid"], 100 + len(table) - 0])
        else:
            shipped = {"disp": lambda: DisplacementMove(np.arange(n)), "exch": lambda: ExchangeMove(np.arange(n)), "cell": CellMove}[ent["shipped"]]()
            crit = {"len0": UserCriteriaFalsy, "boolfalse": UserCriteriaBoolFalse}.get(ent.get("criteria_kind"), UserCriteria)(100 + len(table), verdicts, snaps)
            mc.add_move(shipped, criteria=crit, name=ent["name"], probability=ent.get("probability", 1.0))
            table.append([ent["name"], None, 100 + len(table)])
    trials = []
    cur = None
    kid_of = {t[0]: t[2] for t in table}
    ent_of = {e["name"]: e for e in c["table"]}
    ntr = 0
    for step in mc.irun(c["steps"]):
        for name in step:
            if cur is not None:
                cur.update(end=len(LOG), hist=[str(mc.move_history[-1][0]), None if mc.move_history[-1][1] is None else bool(mc.move_history[-1][1])],
                           n_after=len(atoms), cell_after=cell_token(atoms.cell.array), snap_end=len(snaps))
                trials.append(cur)
            name = str(name)
            if ntr == c.get("reannounce_at") and ent_of[name]["kind"] == "user":
                # the consumer of the step generator re-registers the announced entry with a NEW criteria object before the trial runs:
                # the table is what counts when the trial is executed
                newk = 300 + ntr
                old = ent_of[name]["oid"]
                if c.get("reannounce_new_move") and sum(1 for t_ in table if t_[1] == old) == 1:
                    # ... and with a NEW move object (the old one is out of the table from now on: it is neither called nor told about anything)
                    new_oid = 500 + old
                    objs[new_oid] = UserMove(new_oid, object.__getattribute__(objs[old], "_v_script"), "any")
                    ent_of[name] = dict(ent_of[name], oid=new_oid)
                    for t_ in table:
                        if t_[0] == name:
                            t_[1] = new_oid
                mc.add_move(objs[ent_of[name]["oid"]], criteria=UserCriteria(newk, verdicts, snaps), name=name, probability=ent_of[name].get("probability", 1.0))
                kid_of[name] = newk
                for t_ in table:
                    if t_[0] == name:
                        t_[2] = newk
            ntr += 1
            cur = {"name": name, "kid": kid_of[name], "oid": ent_of[name].get("oid"), "objs": [t_[1] for t_ in table if t_[1] is not None] + extra_objs, "members": members.get(name), "start": len(LOG), "n_before": len(atoms), "cell_before": cell_token(atoms.cell.array), "snap_start": len(snaps)}
        if cur is not None:
            cur.update(end=len(LOG), hist=[str(mc.move_history[-1][0]), None if mc.move_history[-1][1] is None else bool(mc.move_history[-1][1])],
                       n_after=len(atoms), cell_after=cell_token(atoms.cell.array), snap_end=len(snaps))
            trials.append(cur)
            cur = None
    mark = len(LOG)
    d = mc.to_dict()
    ser = {}
    for nm, ms in d.get("moves", {}).items():
        mv = ms.get("kwargs", {}).get("move", {})
        cr = ms.get("kwargs", {}).get("criteria", {})
        ser[nm] = {"move": mv if isinstance(mv, dict) and mv.get("name") == "UserMove" else str(mv.get("name")), "criteria": cr.get("name"),
                   "criteria_oid": cr.get("kwargs", {}).get("oid") if isinstance(cr, dict) else None, "probability": ms.get("kwargs", {}).get("probability")}
    return {"log": LOG[:], "trials": trials, "snaps": snaps, "to_dict_mark": mark, "serialized": ser, "table": table}


serve(handler)
