"""C16 driver (b): one Logger object re-pointed to a second file (log rotation mid-run, or the same logger handed to a fresh simulation):
every file a logger writes to holds the header plus one complete line per call."""
import json
import os
import sys
import warnings

import numpy as np
from ase import Atoms

from util import Harmonic

import quansino.mc  # noqa: F401
from quansino.io.logger import Logger
from quansino.mc.canonical import Canonical
from quansino.moves.displacement import DisplacementMove

warnings.simplefilter("ignore")


def sim(lg, seed):
    rng = np.random.default_rng(seed)
    atoms = Atoms("Ar4", positions=rng.uniform(0, 3, (4, 3)), cell=[6, 6, 6], pbc=False)
    atoms.calc = Harmonic(k=0.5)
    mc = Canonical(atoms, temperature=300.0, seed=seed, max_cycles=2, logfile=lg, logging_interval=1)
    mc.add_move(DisplacementMove(np.arange(4)), name="d")
    return mc


def main():
    c = json.load(sys.stdin)
    d = c["dir"]
    os.makedirs(d, exist_ok=True)
    a, b = os.path.join(d, "a.log"), os.path.join(d, "b.log")
    first = a if c["first"] == "path" else open(a, c["mode"])  # noqa: SIM115
    lg = Logger(first, 1, mode=c["mode"])
    mc = sim(lg, c["seed"])
    mc.run(c["steps1"])
    second = b if c["second"] == "path" else open(b, c["mode"])  # noqa: SIM115
    lg.file = second
    if c["variant"] == "rotate":
        lg.write_header()
        mc.run(c["steps2"])
        rows_b = c["steps2"]
    else:
        mc2 = sim(lg, c["seed"] + 1)
        mc2.run(c["steps2"])
        rows_b = c["steps2"] + 1
    lg.close()
    out = {"rows_a": c["steps1"] + 1, "rows_b": rows_b}
    for k, f in (("a", a), ("b", b)):
        with open(f) as fh:
            out[k] = fh.read()
    json.dump(out, sys.stdout)


main()
