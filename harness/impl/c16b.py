"""C16 driver (b): one Logger object re-pointed to a second file (log rotation mid-run, or the same logger handed to a fresh simulation):
every file a logger writes to holds the header plus one complete line per call."""
import json
import os
import sys
import warnings

import numpy as np
from ase import Atoms

from util import Harmonic

import quansino.mc  # noqa: F401
from quansino.io.logger import Logger
from quansino.mc.canonical import Canonical
from quansino.moves.displacement import DisplacementMove

warnings.simplefilter("ignore")


def sim(lg, seed):
    rng = np.random.default_rng(seed)
    atoms = Atoms("Ar4", positions=rng.uniform(0, 3, (4, 3)), cell=[6, 6, 6], pbc=False)
    atoms.calc = Harmonic(k=0.5)
    mc = Canonical(atoms, temperature=300.0, seed=seed, max_cycles=2, logfile=lg, logging_interval=1)
    mc.add_move(DisplacementMove(np.arange(4)), name="d")
    return mc


def manual_restart(c, d):
    """the restart observer called by hand at a step it has already written (settings changed in between; a named checkpoint under another path):
    after EVERY observer call the file holds one JSON document describing the latest state"""
    from ase.io.jsonio import read_json
    path, ck = os.path.join(d, "run.json"), os.path.join(d, "checkpoint.json")
    rng = np.random.default_rng(c["seed"])
    atoms = Atoms("Ar4", positions=rng.uniform(0, 3, (4, 3)), cell=[6, 6, 6], pbc=False)
    atoms.calc = Harmonic(k=0.5)
    mc = Canonical(atoms, temperature=300.0, seed=c["seed"], max_cycles=2, logfile=None, restart_file=path, logging_interval=1)
    mc.add_move(DisplacementMove(np.arange(4)), name="d")
    mc.run(c["steps1"])
    out = {"expected_step": int(mc.step_count), "docs": []}

    def load(pth):
        try:
            with open(pth) as fh:
                text = fh.read()
            doc = read_json(pth)
            return {"bytes": len(text), "temperature": float(doc["kwargs"]["temperature"]) if "kwargs" in doc and "temperature" in doc["kwargs"] else None,
                    "step_count": int(doc.get("attributes", {}).get("step_count", doc.get("step_count", -1))) if isinstance(doc, dict) else None,
                    "keys": sorted(doc)[:12]}
        except Exception as e:  # noqa: BLE001
            return {"error": f"{type(e).__name__}: {str(e)[:120]}"}
    out["docs"].append(["after the run", 300.0, load(path)])
    mc.temperature = 450.0
    mc.default_restart()                        # same step_count, other settings: a manual save before leaving
    out["docs"].append(["after re-tuning the temperature and calling the restart observer by hand", 450.0, load(path)])
    mc.temperature = 520.0
    mc.default_restart.file = ck                # a named checkpoint
    mc.default_restart()
    out["docs"].append(["named checkpoint (observer.file = other path; observer())", 520.0, load(ck)])
    json.dump(out, sys.stdout)


def remove_fields(c, d):
    """columns dropped after the first lines were written (equilibration columns not wanted in production) + a new header: every later line has
    exactly the columns of that header"""
    a = os.path.join(d, "a.log")
    lg = Logger(a, 1, mode="w")
    mc = sim(lg, c["seed"])
    lg.add_field("Extra", lambda: 1.5, "{:>10.2f}") if c.get("extra") else None
    mc.run(c["steps1"])
    names = [n if isinstance(n, str) else n[0] for n in lg.fields]
    victim = names[-1] if c.get("which", "last") == "last" else names[1]
    lg.remove_fields(victim)
    lg.write_header()
    mc.run(c["steps2"])
    lg.close()
    with open(a) as fh:
        json.dump({"a": fh.read(), "removed": victim, "steps1": c["steps1"], "steps2": c["steps2"]}, sys.stdout)


def main():
    c = json.load(sys.stdin)
    d = c["dir"]
    os.makedirs(d, exist_ok=True)
    if c["variant"] == "manual_restart":
        return manual_restart(c, d)
    if c["variant"] == "remove_fields":
        return remove_fields(c, d)
    a, b = os.path.join(d, "a.log"), os.path.join(d, "b.log")
    first = a if c["first"] == "path" else open(a, c["mode"])  # noqa: SIM115
    lg = Logger(first, 1, mode=c["mode"])
    mc = sim(lg, c["seed"])
    mc.run(c["steps1"])
    second = b if c["second"] == "path" else open(b, c["mode"])  # noqa: SIM115
    lg.file = second
    if c["variant"] == "rotate":
        lg.write_header()
        mc.run(c["steps2"])
        rows_b = c["steps2"]
    else:
        mc2 = sim(lg, c["seed"] + 1)
        mc2.run(c["steps2"])
        rows_b = c["steps2"] + 1
    lg.close()
    out = {"rows_a": c["steps1"] + 1, "rows_b": rows_b}
    for k, f in (("a", a), ("b", b)):
        with open(f) as fh:
            out[k] = fh.read()
    json.dump(out, sys.stdout)


main()
