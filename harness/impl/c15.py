"""C15 driver: recording observers on real Canonical / ForceBias runs; any split, any entry point."""
import numpy as np
from ase import Atoms
from ase.constraints import FixCom

from util import Harmonic, Stream, atoms_tokens, serve

from quansino.io.core import Observer
from quansino.io.logger import Logger
from quansino.io.trajectory import TrajectoryObserver
from quansino.mc.canonical import Canonical
from quansino.mc.fbmc import ForceBias
from quansino.moves.displacement import DisplacementMove


class Rec(Observer):
    def __init__(self, name, interval, log, sim):
        super().__init__(interval)
        self.name, self.log, self.sim = name, log, sim

    def __call__(self):
        self.log.append([1, self.name, self.sim[0].step_count])

    def attach_simulation(self, *a, **k): ...
    def close(self): ...

    __slots__ = ("name", "log", "sim")


class RecLogger(Logger):
    __slots__ = ("evlog", "sim")

    def __call__(self):
        self.evlog.append([1, 1, self.sim[0].step_count])
        super().__call__()

    def write_header(self):
        self.evlog.append([0])
        super().write_header()


class RecTraj(TrajectoryObserver):
    __slots__ = ("evlog", "sim")

    def __call__(self):
        self.evlog.append([1, 2, self.sim[0].step_count])
        super().__call__()


class Wrap:
    """logs calls of an observer the driver built itself (logfile / trajectory given as streams), then forwards"""

    def __init__(self, inner, nm, evlog, sim):
        self.__dict__.update(inner=inner, nm=nm, evlog=evlog, sim=sim)

    @property
    def interval(self):
        return self.inner.interval

    def __call__(self):
        self.evlog.append([1, self.nm, self.sim[0].step_count])
        return self.inner()

    def write_header(self):
        self.evlog.append([0])
        return self.inner.write_header()

    def __getattr__(self, name):
        return getattr(self.inner, name)

    def __bool__(self):
        return True


def handler(case):
    rng = np.random.default_rng(case["geom_seed"])
    atoms = Atoms("Ar4", positions=rng.uniform(0, 3, (4, 3)), cell=[6, 6, 6], pbc=False)
    atoms.calc = Harmonic(k=0.5)
    evlog, sim = [], [None]
    logs, trajs = Stream(), Stream()
    kw = {}
    streams = case.get("streams", False)
    kw["logging_interval"] = case.get("logging_interval", 1)
    if streams:
        if case["logger"] is not None:
            kw["logfile"] = logs
        if case["traj"] is not None:
            kw["trajectory"] = trajs
    if case["logger"] is not None and not streams:
        lg = RecLogger(logs, case["logger"])
        lg.evlog, lg.sim = evlog, sim
        kw["logfile"] = lg
    if case["traj"] is not None and not streams:
        tr = RecTraj(atoms, trajs, case["traj"])
        tr.evlog, tr.sim = evlog, sim
        kw["trajectory"] = tr
    if case["driver"] == "canonical":
        mc = Canonical(atoms, temperature=300.0, seed=case["seed"], max_cycles=2, **kw)
        mc.add_move(DisplacementMove(np.arange(4)), name="d")
    else:
        mc = ForceBias(atoms, delta=0.05, temperature=300.0, seed=case["seed"], **kw)
    sim[0] = mc
    if streams:
        obs = mc.file_manager.observers
        for key, nm in (("default_logger", 1), ("default_trajectory", 2)):
            if key in obs:
                obs[key] = Wrap(obs[key], nm, evlog, sim)
        if mc._default_logger is not None:
            mc._default_logger = obs["default_logger"]
    recs = []
    for i, iv in enumerate(case["intervals"]):
        recs.append(Rec(10 + i, iv, evlog, sim))
        mc.file_manager.attach_observer(f"rec{i}", recs[-1])
    orig_step = mc.step

    def step():
        evlog.append([2, mc.step_count])
        return orig_step()

    mc.step = step
    is_mc = case["driver"] == "canonical"
    retune = case.get("retune")
    if case["entry"] == "irun_chain":
        # all run generators are created first and consumed afterwards (itertools.chain(sim.irun(a), sim.irun(b))): a generator does nothing until iterated
        gens = [mc.irun(seg) for seg in case["segments"]]
        for g in gens:
            for st in g:
                if is_mc:
                    for _ in st:
                        pass
        case = dict(case, segments=[])
    if case["entry"] == "irun_abandon":
        # the first run generator is asked for MORE steps than are taken and then abandoned (a loop left with `break`): what was not taken never happened,
        # and the runs that follow perform exactly their own numbers of steps
        a = case["segments"][0]
        it = mc.irun(a + 5)
        for _ in range(a):
            for _x in next(it):
                pass
        nxt = next(it, None)          # resumes the generator: the a-th step is counted and observed; the (a+1)-th step generator is created, never consumed
        it.close()
        if nxt is not None and evlog and evlog[-1][0] == 2:
            evlog.pop()               # (my step wrapper logs at creation time)
        case = dict(case, segments=case["segments"][1:], entry="irun")
    if case.get("mid"):
        # ONE run call; the observer is attached while its generator is being iterated
        mid = case["mid"]
        gen = mc.srun(sum(case["segments"])) if case["entry"] == "srun" else mc.irun(sum(case["segments"]))
        for i, st in enumerate(gen):
            if i == mid["at"]:
                mc.file_manager.attach_observer("late", Rec(40, mid["interval"], evlog, sim))
            if is_mc and case["entry"] != "srun":
                for _ in st:
                    pass
        case = dict(case, segments=[])
    for si, seg in enumerate(case["segments"]):
        if retune and si == retune["seg"]:
            if retune.get("replace"):
                # a new observer attached under the name of an existing one takes its place
                mc.file_manager.attach_observer(f"rec{retune['obs']}", Rec(30 + retune["obs"], retune["interval"], evlog, sim))
            else:
                recs[retune["obs"]].interval = retune["interval"]      # the user re-tunes an attached observer between two run calls
        if case["entry"] == "run":
            mc.run(seg)
        elif case["entry"] == "srun":
            for _ in mc.srun(seg):
                pass
        else:
            for st in mc.irun(seg):
                if is_mc:
                    for _ in st:
                        pass
    return {"events": evlog, "step_count": mc.step_count, "atoms": atoms_tokens(atoms),
            "log": logs.getvalue(), "traj": trajs.getvalue()}


serve(handler)
