"""C14 driver: real Verlet.integrate, maxwell_boltzmann_distribution and HamiltonianDisplacementMove on small systems."""
import warnings

import numpy as np
from ase import Atoms
from ase.calculators.calculator import Calculator, all_changes

from util import ScriptedRNG, serve

from quansino.integrators.displacement import Verlet
from quansino.mc.canonical import HamiltonianCanonical
from quansino.mc.contexts import HamiltonianDisplacementContext
from quansino.moves.displacement import HamiltonianDisplacementMove
from quansino.utils.dynamics import maxwell_boltzmann_distribution

warnings.simplefilter("ignore")


class Pot(Calculator):
    """harmonic wells (per-atom k, anchors r0)  +  optional quartic wells  +  optional Morse pair term"""

    implemented_properties = ["energy", "forces"]

    def __init__(self, k, r0, quartic=0.0, morse=None):
        super().__init__()
        self.k = np.asarray(k, dtype=float)[:, None]
        self.r0 = np.asarray(r0, dtype=float)
        self.c4 = quartic
        self.morse = morse

    def calculate(self, atoms=None, properties=("energy",), system_changes=all_changes):
        super().calculate(atoms, properties, system_changes)
        d = self.atoms.positions - self.r0
        e = 0.5 * float(np.sum(self.k * d * d))
        f = -self.k * d
        if self.c4:
            r2 = np.sum(d * d, axis=1)[:, None]
            e += 0.25 * self.c4 * float(np.sum(r2 * r2))
            f = f - self.c4 * r2 * d
        if self.morse:
            D, a, re = self.morse
            pos = self.atoms.positions
            n = len(pos)
            for i in range(n):
                for j in range(i + 1, n):
                    v = pos[i] - pos[j]
                    r = float(np.linalg.norm(v))
                    x = np.exp(-a * (r - re))
                    e += D * (1 - x) ** 2
                    g = 2 * D * a * (1 - x) * x * v / r
                    f[i] -= g
                    f[j] += g
        self.results = {"energy": e, "forces": f}


def hx(a):
    return [float(x).hex() for x in np.ravel(a)]


def fh(a, shape=None):
    v = np.array([float.fromhex(x) if isinstance(x, str) else float(x) for x in np.ravel(np.array(a, dtype=object))], dtype=float)
    return v.reshape(shape) if shape else v


def build(c):
    n = c["natoms"]
    atoms = Atoms("Ar" * n, positions=fh(c["q"], (n, 3)))
    atoms.set_masses(fh(c["masses"]))
    if c.get("bonds"):
        from ase.constraints import FixBondLengths
        atoms.set_constraint(FixBondLengths(c["bonds"]))      # rigid bonds: a non-linear constraint (momenta are projected when set)
    if c.get("hookean"):
        from ase.constraints import Hookean
        atoms.set_constraint(Hookean(a1=0, a2=1, k=c["hookean"], rt=0.1))      # a force-contributing restraint: part of the total energy AND of the forces
    atoms.set_momenta(fh(c["p"], (n, 3)))
    atoms.calc = Pot(fh(c["k"]), fh(c["r0"], (n, 3)), c.get("quartic", 0.0), c.get("morse"))
    return atoms


def mk_verlet(c, dt, n, cls=None):
    """the integrator, either built with its settings or (late) built with OTHER settings and re-tuned through its public attributes"""
    from ase.units import fs
    cls = cls or Verlet
    if c.get("late"):
        v = cls(dt=dt * 2.0 + 0.25, max_steps=n + 2)
        v.dt = dt * fs
        v.max_steps = n
        return v
    return cls(dt=dt, max_steps=n)


def mk_move(c, on_fresh):
    """shipped_dist: the SHIPPED distribution function itself is the move's distribution (forced variant through functools.partial); the freshly
    drawn momenta are observed at the entry of the integrator instead"""
    if not c.get("shipped_dist"):
        def dist(context):
            maxwell_boltzmann_distribution(context, forced=c.get("forced", False))
            on_fresh(context)
        return HamiltonianDisplacementMove(distribution=dist, operation=mk_verlet(c, c["dt"], c["n"]))
    from functools import partial

    class SpyVerlet(Verlet):
        def integrate(self, context):
            on_fresh(context)
            super().integrate(context)
    dist = partial(maxwell_boltzmann_distribution, forced=True) if c.get("forced") else maxwell_boltzmann_distribution
    return HamiltonianDisplacementMove(distribution=dist, operation=mk_verlet(c, c["dt"], c["n"], SpyVerlet))


def verlet_case(c):
    atoms = build(c)
    ctx = HamiltonianDisplacementContext(atoms, np.random.default_rng(1))
    v = mk_verlet(c, c["dt"], c["n"])
    if c.get("warm"):
        # the same integrator object is first used on ANOTHER system of the same size (other masses, other anchors)
        other = build(c)
        other.set_masses(fh(c["masses"])[::-1] * 3.5 + 1.0)
        other.positions += 0.05
        v.integrate(HamiltonianDisplacementContext(other, np.random.default_rng(2)))
    out = {"dt_internal": float(v.dt).hex(), "H0": atoms.get_total_energy(), "q0": hx(atoms.positions), "p0": hx(atoms.get_momenta())}
    v.integrate(ctx)
    out["q1"], out["p1"], out["H1"] = hx(atoms.positions), hx(atoms.get_momenta()), atoms.get_total_energy()
    atoms.set_momenta(-atoms.get_momenta())
    v.integrate(ctx)
    out["q2"], out["p2"] = hx(atoms.positions), hx(atoms.get_momenta())
    # energy error along the trajectory at dt and dt/2 over the same total time (and dt/4)
    errs = []
    for div in (1, 2, 4):
        a = build(c)
        cx = HamiltonianDisplacementContext(a, np.random.default_rng(1))
        vv = mk_verlet(c, c["dt"] / div, 1)
        if c.get("warm"):
            other = build(c)
            other.set_masses(fh(c["masses"])[::-1] * 3.5 + 1.0)
            vv.integrate(HamiltonianDisplacementContext(other, np.random.default_rng(2)))
        h0 = a.get_total_energy()
        worst = 0.0
        hs = []
        for st in range(c["n"] * div):
            vv.integrate(cx)
            if (st + 1) % div:
                continue   # compare at the common time points of the three grids
            h = a.get_total_energy()
            hs.append(h)
            worst = max(worst, abs(h - h0))
        errs.append({"div": div, "max_err": worst, "H0": h0, "rms_err": float(np.sqrt(np.mean((np.array(hs) - h0) ** 2)))})
    out["errs"] = errs
    return out


def mb_case(c):
    atoms = build(c)
    if c.get("fixed"):
        from ase.constraints import FixAtoms
        atoms.set_constraint(FixAtoms(indices=c["fixed"]))
    ctx = HamiltonianDisplacementContext(atoms, None)
    ctx.rng = ScriptedRNG(fh(c["xi"]).tolist())
    ctx.temperature = c["T"]
    maxwell_boltzmann_distribution(ctx, forced=c["forced"])
    return {"p": hx(atoms.get_momenta()), "ke": float(atoms.get_kinetic_energy()), "dof": int(atoms.get_number_of_degrees_of_freedom()),
            "calls": [list(x) if not isinstance(x, tuple) else [y if not isinstance(y, tuple) else list(y) for y in x] for x in ctx.rng.log],
            "consumed": ctx.rng.pos}


def fresh_case(c):
    """real HamiltonianCanonical steps; the move's distribution is wrapped to snapshot the fresh momenta; a scripted check_move
    vetoes some attempts; the criteria is wrapped to record what it is handed"""
    atoms = build(c)
    snaps, seen = [], []

    move = mk_move(c, lambda context: snaps.append({"ke": float(context.atoms.get_kinetic_energy()).hex(), "p": hx(context.atoms.get_momenta())}))
    vetoes = list(c["vetoes"])

    def check(*a, **k):
        return not (vetoes.pop(0) if vetoes else False)

    move.check_move = check
    move.max_attempts = c.get("max_attempts", 4)
    mc = HamiltonianCanonical(atoms, temperature=c["T"], seed=c["seed"], default_displacement_move=move, logfile=None, max_cycles=1)
    crit = mc.moves["default_displacement_move"].criteria
    orig = crit.evaluate
    verdicts = list(c["verdicts"])

    class Stub:
        def evaluate(self, context, *a, **k):
            seen.append({"last_ke": float(context.last_kinetic_energy).hex(), "n_snaps": len(snaps),
                         "ke_now": float(context.atoms.get_kinetic_energy()).hex()})
            r = orig(context, *a, **k)
            return verdicts.pop(0) if verdicts else bool(r)

        def to_dict(self):
            return crit.to_dict()

    mc.moves["default_displacement_move"].criteria = Stub()
    steps = []
    for _ in mc.srun(c["steps"]):
        steps.append({"snaps": len(snaps), "seen": len(seen), "hist": [list(map(str, h)) for h in mc.move_history][-1:]})
    return {"snaps": snaps, "seen": seen, "steps": steps}


def ctx_case(c):
    """the Hamiltonian move called directly with each SHIPPED Hamiltonian context (displacement / deformation / exchange flavour): whatever the
    flavour, after the call the context's reference kinetic energy is that of the momenta drawn for the last attempt"""
    from quansino.mc import contexts as K
    atoms = build(c)
    atoms.set_cell([20.0, 20.0, 20.0])
    ctx = getattr(K, c["context"])(atoms, np.random.default_rng(c["seed"]))
    ctx.temperature = c["T"]
    snaps = []

    move = mk_move(c, lambda context: snaps.append(float(context.atoms.get_kinetic_energy()).hex()))
    vetoes = list(c["vetoes"])
    move.check_move = lambda *a, **k: not (vetoes.pop(0) if vetoes else False)
    move.max_attempts = c.get("max_attempts", 3)
    calls = []
    for _ in range(c["calls"]):
        before = len(snaps)
        ret = bool(move(ctx))
        calls.append({"ret": ret, "drawn": len(snaps) - before, "last_ke": float(ctx.last_kinetic_energy).hex(), "fresh": snaps[-1] if len(snaps) > before else None})
        # the driver's part: accept
        if ret:
            ctx.save_state()
    return {"calls": calls}


def handler(c):
    return {"verlet": verlet_case, "mb": mb_case, "fresh": fresh_case, "ctx": ctx_case}[c["mode"]](c)


serve(handler)
