"""C10 driver: operation.calculate(context) on real contexts with a scripted or real generator."""
import warnings

import numpy as np
from ase import Atoms
from scipy.linalg import expm

from util import ScriptedRNG, serve

from quansino.mc.contexts import DeformationContext, DisplacementContext
from quansino.operations.cell import AnisotropicDeformation, IsotropicDeformation, ShapeDeformation
from quansino.operations.displacement import Ball, Box, Rotation, Sphere, Translation, TranslationRotation

warnings.simplefilter("ignore")

OPS = {"ball": Ball, "sphere": Sphere, "box": Box, "translation": Translation, "rotation": Rotation,
       "translation_rotation": TranslationRotation, "iso": IsotropicDeformation, "aniso": AnisotropicDeformation,
       "shape": ShapeDeformation}


def build_op(spec):
    if isinstance(spec, list):                       # composite: sum of parts via the public + operator
        ops = [build_op(s) for s in spec]
        out = ops[0]
        for o in ops[1:]:
            out = out + o
        return out
    kind = spec["kind"]
    late = spec.get("late")       # the operation is built with OTHER settings, used once, and then re-tuned through its public attributes
    if kind in ("ball", "sphere", "box"):
        if late:
            op = OPS[kind](spec["step"] * 3.0 + 0.5)
            op.step_size = spec["step"]
            return op
        return OPS[kind](spec["step"])
    if kind in ("iso", "aniso", "shape"):
        if spec.get("sibling_mask_edit"):
            sibling = OPS[kind](0.05)            # an unrelated operation with the default mask ...
            sibling.mask[2, :] = False             # ... is edited in place by its owner: no other operation may notice
        mask = None if spec.get("mask") is None else np.array(spec["mask"], dtype=bool)
        if late:
            op = OPS[kind](spec["max_value"] * 2.0 + 0.01, None if mask is None else ~mask)
            op.max_value = spec["max_value"]
            op.mask = np.ones((3, 3), dtype=bool) if mask is None else mask
            return op
        return OPS[kind](spec["max_value"], mask)
    return OPS[kind]()


def build_atoms(c):
    atoms = Atoms(c["symbols"], positions=np.array(c["positions"], dtype=float), cell=np.array(c["cell"], dtype=float), pbc=True)
    if c.get("masses") is not None:
        atoms.set_masses(c["masses"])
    return atoms


def hx(a):
    return [float(x).hex() for x in np.ravel(a)]


def handler(c):
    atoms = build_atoms(c)
    op = build_op(c["op"])
    deform = not isinstance(c["op"], list) and c["op"]["kind"] in ("iso", "aniso", "shape")
    log = []
    if c["mode"] == "scripted":
        rng = ScriptedRNG(c["script"], log)
    else:
        rng = np.random.default_rng(c["seed"])
    ctx = (DeformationContext if deform else DisplacementContext)(atoms, rng)
    if not deform:
        ctx._moving_indices = list(c["indices"])
    outs = []
    for _ in range(c.get("repeat", 1)):
        if c.get("warm"):
            # the same operation object is first used on another context (other atoms / indices) - nothing may be cached
            other = atoms.copy()
            other.positions += 0.37
            other.set_masses(other.get_masses()[::-1] * 1.7)
            o2 = (DeformationContext if deform else DisplacementContext)(other, np.random.default_rng(5))
            if not deform:
                o2._moving_indices = list(c["indices"])[:1]
            op.calculate(o2)
        r = np.asarray(op.calculate(ctx), dtype=float)
        outs.append({"shape": list(r.shape), "value": hx(r)})
        if c.get("apply") and not deform:
            atoms.positions[ctx._moving_indices] += r
    res = {"outs": outs, "calls": [[x[0]] + [y if not isinstance(y, tuple) else list(y) for y in x[1:]] for x in log],
           "consumed": getattr(rng, "pos", None), "masses": hx(atoms.get_masses()), "final_positions": hx(atoms.positions)}
    if isinstance(c["op"], list) and c["mode"] == "scripted" and c.get("repeat", 1) == 1 and not c.get("apply"):
        # the parts evaluated one after the other on a fresh context with the same script (each draws in turn): their sum, term by term
        atoms2 = build_atoms(c)
        ctx2 = DisplacementContext(atoms2, ScriptedRNG(c["script"], []))
        ctx2._moving_indices = list(c["indices"])
        try:
            parts = [np.asarray(build_op(sp).calculate(ctx2), dtype=float) for sp in c["op"]]
            total = parts[0] + np.zeros_like(np.broadcast_arrays(*parts)[0])
            for p_ in parts[1:]:
                total = total + p_
            res["parts_sum"] = {"shape": list(total.shape), "value": hx(total)}
        except Exception as e:  # noqa: BLE001
            res["parts_sum_error"] = f"{type(e).__name__}: {e}"
    if deform and c["mode"] == "scripted" and c["op"]["kind"] != "iso":
        # scipy's expm on the generator the operation builds (the oracle answer for the model) + numerical validation of its contract
        comps = [-c["op"]["max_value"] + 2 * c["op"]["max_value"] * t for t in c["script"][:6]]
        E = np.zeros((3, 3))
        E[0, 0], E[1, 1], E[2, 2] = comps[0], comps[1], comps[2]
        E[0, 1] = E[1, 0] = comps[3]
        E[0, 2] = E[2, 0] = comps[4]
        E[1, 2] = E[2, 1] = comps[5]
        if c["op"]["kind"] == "shape":
            E[[0, 1, 2], [0, 1, 2]] -= (comps[0] + comps[1] + comps[2]) / 3.0
        X = expm(E)
        H = expm(E / 2)
        res["expm"] = hx(X)
        res["gen"] = hx(E)
        res["contract"] = {"inverse": float(np.max(np.abs(expm(-E) @ X - np.eye(3)))), "transpose": float(np.max(np.abs(expm(E.T) - X.T))),
                           "det": float(abs(np.linalg.det(X) - np.exp(np.trace(E)))), "half": float(np.max(np.abs(H @ H - X))),
                           "regular": float(abs(np.linalg.det(H)))}
    return res


serve(handler)
