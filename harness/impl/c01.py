"""C01 driver: long real runs on analytically solvable systems; returns time series summaries (batch means) and thinned samples."""
import math
import warnings

import numpy as np
from ase import Atoms
from ase.calculators.calculator import Calculator, all_changes
from ase.units import kB

from util import serve

import quansino.mc  # noqa: F401
from quansino.integrators.displacement import Verlet
from quansino.mc.canonical import Canonical, HamiltonianCanonical
from quansino.mc.gcmc import GrandCanonical
from quansino.mc.isobaric import Isobaric
from quansino.moves.cell import CellMove
from quansino.moves.displacement import DisplacementMove, HamiltonianDisplacementMove
from quansino.moves.exchange import ExchangeMove
from quansino.operations.cell import IsotropicDeformation
from quansino.operations.displacement import Ball, Box, Rotation, Sphere, Translation, TranslationRotation

warnings.simplefilter("ignore")


class Wells(Calculator):
    """harmonic wells 1/2 k |r - r0|^2 per atom"""
    implemented_properties = ["energy", "forces"]

    def __init__(self, k, r0):
        super().__init__()
        self.k, self.r0 = k, np.array(r0, dtype=float)

    def calculate(self, atoms=None, properties=("energy",), system_changes=all_changes):
        super().calculate(atoms, properties, system_changes)
        d = self.atoms.positions - self.r0
        self.results = {"energy": 0.5 * self.k * float(np.sum(d * d)), "forces": -self.k * d}


class Field(Calculator):
    """rigid dipole in a uniform field along z: E = -f * (z1 - z0)"""
    implemented_properties = ["energy", "forces"]

    def __init__(self, f):
        super().__init__()
        self.f = f

    def calculate(self, atoms=None, properties=("energy",), system_changes=all_changes):
        super().calculate(atoms, properties, system_changes)
        p = self.atoms.positions
        self.results = {"energy": -self.f * float(p[1, 2] - p[0, 2]), "forces": np.array([[0, 0, -self.f], [0, 0, self.f]])}


class Zero(Calculator):
    implemented_properties = ["energy", "forces", "stress"]

    def calculate(self, atoms=None, properties=("energy",), system_changes=all_changes):
        super().calculate(atoms, properties, system_changes)
        self.results = {"energy": 0.0, "forces": np.zeros((len(self.atoms), 3)), "stress": np.zeros(6)}


def batch(x, nb=40):
    x = np.asarray(x, dtype=float)
    n = len(x) // nb * nb
    b = x[:n].reshape(nb, -1).mean(axis=1)
    return {"mean": float(x.mean()), "se": float(b.std(ddof=1) / math.sqrt(nb)), "n": int(len(x)), "batches": nb}


OPS = {"ball": lambda: Ball(0.45), "box": lambda: Box(0.35), "sphere": lambda: Sphere(0.3), "ball+box": lambda: Ball(0.3) + Box(0.2)}


def harmonic(c):
    n, T, k = c["natoms"], c["T"], c["k"]
    r0 = np.array([[3.0 * i, 0.0, 0.0] for i in range(n)])
    atoms = Atoms("Ar" * n, positions=r0 + 0.05, cell=[50, 50, 50], pbc=False)
    atoms.calc = Wells(k, r0)
    if c["move"] == "hamiltonian":
        mc = HamiltonianCanonical(atoms, temperature=T, seed=c["seed"], max_cycles=1, logfile=None)
        mc.add_move(HamiltonianDisplacementMove(operation=Verlet(dt=c.get("dt", 10.0), max_steps=c.get("nsteps", 6))), name="h")
    else:
        mc = Canonical(atoms, temperature=T, seed=c["seed"], max_cycles=n, logfile=None)
        mv = DisplacementMove(np.arange(n), OPS[c["move"].replace("*2", "")]())
        mc.add_move(mv * 2 if c["move"].endswith("*2") else mv, criteria=type(mc).default_criteria[DisplacementMove](), name="d")
    e, acc = [], []
    for i, _ in enumerate(mc.srun(c["steps"])):
        if c.get("T_switch") and i == c["burn"] // 2:
            # parameters changed on the simulation object apply from the next trial on: the average after the burn-in is that of the NEW temperature
            mc.temperature = T = c["T_switch"]
        if i >= c["burn"]:
            e.append(mc.context.last_potential_energy)
            acc += [bool(b) for _, b in mc.move_history if b is not None]
    return {"obs": batch(e), "expected": 1.5 * n * kB * T, "acc": float(np.mean(acc)) if acc else None}


def dipole(c):
    T, f, d = c["T"], c["f"], 1.0
    atoms = Atoms("HF", positions=[[5, 5, 5], [5 + d, 5, 5]], cell=[20, 20, 20], pbc=False)
    atoms.set_masses([1.0, 19.0])
    atoms.calc = Field(f)
    mc = Canonical(atoms, temperature=T, seed=c["seed"], max_cycles=1, logfile=None)
    op = Rotation() if c["move"] == "rotation" else Ball(0.3) + Rotation()
    mc.add_move(DisplacementMove(np.array([0, 0]), op), name="r")
    cs, phis = [], []
    for i, _ in enumerate(mc.srun(c["steps"])):
        if i >= c["burn"]:
            b = atoms.positions[1] - atoms.positions[0]
            cs.append(b[2] / np.linalg.norm(b))
            phis.append(math.atan2(b[1], b[0]))
    x = f * d / (kB * T)
    blen = float(np.linalg.norm(atoms.positions[1] - atoms.positions[0]))
    return {"obs": batch(cs), "expected": 1 / math.tanh(x) - 1 / x, "x": x, "bond_length": blen, "phi": [float(v) for v in phis[::max(1, len(phis) // 2000)]]}


def isobaric(c):
    n, T, P = c["natoms"], c["T"], c["P"]
    L = ((n + 1) * kB * T / P) ** (1 / 3)
    rng = np.random.default_rng(1)
    # a left-handed set of cell vectors (negative determinant, positive volume) is a legal ASE cell
    cell = [[0, L, 0], [L, 0, 0], [0, 0, L]] if c.get("left_handed") else [L, L, L]
    atoms = Atoms("Ar" * n, positions=rng.uniform(0, L, (n, 3)), cell=cell, pbc=True)
    atoms.calc = Zero()
    mc = Isobaric(atoms, temperature=T, pressure=P, seed=c["seed"], max_cycles=1, logfile=None)
    mc.add_move(CellMove(IsotropicDeformation(c["max_value"])), name="c")
    v = []
    for i, _ in enumerate(mc.srun(c["steps"])):
        if c.get("T_switch") and i == c["burn"] // 2:
            mc.temperature = T = c["T_switch"]
            mc.pressure = P = c.get("P_switch", P)
        if i >= c["burn"]:
            v.append(atoms.get_volume())
    return {"obs": batch(v), "expected": (n + 1) * kB * T / P}


def grand(c):
    T, a_target, L = c["T"], c["a"], c["L"]
    mol = c["species"] == "molecule"
    ex = Atoms("N2", positions=[[0, 0, 0], [1.1, 0, 0]]) if mol else Atoms("Ar")
    atoms = Atoms(cell=[L, L, L], pbc=True)
    atoms.calc = Zero()
    # chemical potential for the wanted mean: a = V exp(mu/kT) / Lambda^3, with the implementation's own de Broglie wavelength
    from quansino.mc import criteria as crit
    m = float(ex.get_masses().sum())

    def mu_for(T):
        lam = math.sqrt(crit._hplanck ** 2 / (2 * np.pi * m * kB * T / crit._Nav * 1e-3 * crit._e)) * 1e10
        return kB * T * math.log(a_target * lam ** 3 / (c.get("acc_frac", 1.0) * L ** 3))
    mu = mu_for(T)
    mc = GrandCanonical(atoms, ex, temperature=T, chemical_potential=mu, number_of_exchange_particles=0, seed=c["seed"], max_cycles=1, logfile=None)
    mc.add_move(ExchangeMove(np.array([], dtype=int), TranslationRotation() if mol else Translation()), name="e")
    if c.get("acc_frac"):
        # only part of the box is accessible to the gas (a pore, a slab): a public setting, made after construction; the mean follows V_acc
        mc.accessible_volume = c["acc_frac"] * L ** 3
    ns, frac, cos, phi = [], [], [], []
    size = len(ex)
    for i, _ in enumerate(mc.srun(c["steps"])):
        if c.get("T_switch") and i == c["burn"] // 2:
            # heat the running simulation; mu follows so that the exact mean stays a_target
            mc.temperature = c["T_switch"]
            mc.chemical_potential = mu = mu_for(c["T_switch"])
        if i >= c["burn"]:
            ns.append(len(atoms) // size)
            if i % c["thin"] == 0 and len(atoms):
                p = atoms.positions.reshape(-1, size, 3)
                cen = p.mean(axis=1)
                frac += list((cen[0] / L) % 1.0)
                if mol:
                    b = p[0, 1] - p[0, 0]
                    cos.append(float(b[2] / np.linalg.norm(b)))
                    phi.append(float(math.atan2(b[1], b[0])))
    ns = np.array(ns)
    hist = np.bincount(ns[::c["thin"]], minlength=16)[:16].tolist()
    return {"obs": batch(ns), "var": batch((ns - ns.mean()) ** 2), "expected": a_target, "hist_thinned": hist, "n_thinned": int(len(ns[::c["thin"]])),
            "frac": [float(x) for x in frac[:6000]], "cos": cos[:3000], "phi": phi[:3000], "mu": mu, "counter": int(mc.number_of_exchange_particles), "final_particles": len(atoms) // size}


def handler(c):
    return {"harmonic": harmonic, "dipole": dipole, "isobaric": isobaric, "gc": grand}[c["system"]](c)


serve(handler)
