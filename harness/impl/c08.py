"""C08 driver (one fresh interpreter per request): import ONE public module first, then discover every concrete serialisable class of the
package, build instances with non-default settings, round-trip them through to_dict -> JSON -> registry -> from_dict and compare."""
import importlib
import inspect
import json
import pkgutil
import sys
import traceback
import warnings

warnings.simplefilter("ignore")
req = json.load(sys.stdin)
out = {"first_import": req["first_import"], "import_error": None, "classes": {}, "simulations": {}, "discovered": [], "registered": []}
try:
    importlib.import_module(req["first_import"])
except Exception as e:  # noqa: BLE001
    out["import_error"] = f"{type(e).__name__}: {e}"
    json.dump(out, sys.stdout)
    sys.exit(0)

import numpy as np  # noqa: E402
from ase import Atoms  # noqa: E402
from ase.io.jsonio import decode, encode  # noqa: E402

import quansino  # noqa: E402

if req.get("only_import"):
    json.dump(out, sys.stdout)
    sys.exit(0)

if req.get("rebuild_only"):
    # ---- a restart / analysis script: ONE public module imported, then documents written elsewhere are rebuilt by their registered names.
    # Nothing else of the package is imported by hand.
    from quansino import registry as _reg
    from quansino.protocols import Criteria as _C, Integrator as _I, Move as _M, Operation as _O
    _P = {"Move": _M, "Operation": _O, "Integrator": _I, "Criteria": _C}

    def _canon(x):
        if isinstance(x, np.ndarray):
            return ["nd", str(x.dtype), list(x.shape), x.tolist()]
        if isinstance(x, (np.integer, np.floating, np.bool_)):
            return x.item()
        if isinstance(x, Atoms):
            return ["atoms", x.get_chemical_formula(), x.positions.tolist(), x.cell.array.tolist()]
        if isinstance(x, dict):
            return {str(k): _canon(v) for k, v in sorted(x.items(), key=lambda kv: str(kv[0]))}
        if isinstance(x, (list, tuple)):
            return [_canon(v) for v in x]
        if hasattr(x, "to_dict") and not isinstance(x, type):
            return ["obj", type(x).__name__, _canon(x.to_dict())]
        if callable(x):
            return ["callable", getattr(x, "__name__", "?")]
        return x
    out["rebuilt"] = {}
    for key, spec in req["rebuild_only"].items():
        rec = {}
        try:
            doc = decode(spec["doc"])
            if spec["proto"] == "Simulation":
                klass = _reg.get_class(doc["name"])
            elif spec["proto"] == "Storage":
                from quansino.utils.moves import MoveStorage as _MS      # (the table entry class itself is what the script asks for)
                klass = _reg.get_typed_class(doc["name"], _MS)
            else:
                klass = _reg.get_typed_class(doc["name"], _P[spec["proto"]])
            new = klass.from_dict(doc)
            again = new.todict() if spec["proto"] == "Simulation" and hasattr(new, "todict") else new.to_dict()
            if spec["proto"] != "Simulation" and _canon(decode(encode(again))) != _canon(decode(spec["doc"])):
                rec["diff"] = True
        except Exception as e:  # noqa: BLE001
            rec["error"] = f"{type(e).__name__}: {str(e)[:200]}"
        out["rebuilt"][key] = rec
    json.dump(out, sys.stdout, default=str)
    sys.exit(0)

# ---- after the first import a user imports what he needs: the defining modules of the classes he builds
mods = {}
for m in pkgutil.walk_packages(quansino.__path__, "quansino."):
    try:
        mods[m.name] = importlib.import_module(m.name)
    except Exception as e:  # noqa: BLE001
        out.setdefault("module_errors", {})[m.name] = f"{type(e).__name__}: {e}"

from quansino import registry  # noqa: E402
from quansino.protocols import Criteria, Integrator, Move, Operation  # noqa: E402

PROTOS = {"Move": Move, "Operation": Operation, "Integrator": Integrator, "Criteria": Criteria}
REG = getattr(registry, "_registry__class_registry", None) or registry.__dict__.get("__class_registry") or {}
out["registered"] = sorted(REG)
rng = np.random.default_rng(req.get("seed", 0))


def concrete(cls):
    """concrete = the protocol's main method is implemented below the Base* class (same rule as the translator)"""
    if inspect.isabstract(cls) or cls.__module__ == "quansino.protocols" or cls.__name__.startswith("Base"):
        return False
    for proto, meth in ((Operation, "calculate"), (Integrator, "integrate"), (Criteria, "evaluate"), (Move, "__call__")):
        try:
            if issubclass(cls, proto):
                owner = next(k for k in cls.__mro__ if meth in k.__dict__)
                return not owner.__name__.startswith("Base")
        except (TypeError, StopIteration):
            pass
    return True


def discovered():
    seen = {}
    for name, mod in mods.items():
        for cname, cls in inspect.getmembers(mod, inspect.isclass):
            if not cls.__module__.startswith("quansino") or cname in seen or cls.__name__ != cname:
                continue
            if callable(getattr(cls, "to_dict", None)) and callable(getattr(cls, "from_dict", None)) and concrete(cls):
                seen[cname] = cls
    return seen


CLASSES = discovered()
out["discovered"] = sorted(CLASSES)


def proto_of(cls):
    for n, p in PROTOS.items():
        try:
            if issubclass(cls, p):
                return n
        except TypeError:
            pass
    return None


def canon(x):
    if isinstance(x, np.ndarray):
        return ["nd", str(x.dtype), list(x.shape), x.tolist()]
    if isinstance(x, (np.integer,)):
        return int(x)
    if isinstance(x, (np.floating,)):
        return float(x)
    if isinstance(x, (np.bool_,)):
        return bool(x)
    if isinstance(x, Atoms):
        return ["atoms", x.get_chemical_formula(), x.positions.tolist(), x.cell.array.tolist()]
    if isinstance(x, dict):
        return {str(k): canon(v) for k, v in sorted(x.items(), key=lambda kv: str(kv[0]))}
    if isinstance(x, (list, tuple)):
        return [canon(v) for v in x]
    if hasattr(x, "to_dict") and not isinstance(x, type):
        return ["obj", type(x).__name__, canon(x.to_dict())]
    if callable(x):
        return ["callable", getattr(x, "__name__", "?")]
    return x


NAT = 6


def make(cname, depth=0):
    """an instance of class cname with NON-default values for every constructor parameter and tunable"""
    cls = CLASSES[cname]
    sig = inspect.signature(cls.__init__)
    kw = {}
    disp_ops = ["Ball", "Box", "Sphere", "Translation", "Rotation", "TranslationRotation"]
    cell_ops = ["IsotropicDeformation", "AnisotropicDeformation", "ShapeDeformation"]
    for pn, par in list(sig.parameters.items())[1:]:
        if par.kind in (par.VAR_KEYWORD, par.VAR_POSITIONAL):
            continue
        if pn == "labels":
            kw[pn] = np.array([0, 0, 1, -1, 2, 2][:NAT])
        elif pn == "operation":
            if cname == "CellMove":
                kw[pn] = make(rng.choice(cell_ops), depth + 1)
            elif cname == "HamiltonianDisplacementMove":
                kw[pn] = make("Verlet", depth + 1)
            else:
                kw[pn] = make(rng.choice(disp_ops), depth + 1) if rng.random() < 0.7 or depth > 1 else make("CompositeOperation", depth + 1)
        elif pn == "operations":
            # every nesting of composites: a composite operation may contain composite operations
            kw[pn] = [make(rng.choice(disp_ops + (["CompositeOperation"] if depth < 2 else [])), depth + 1) for _ in range(int(rng.integers(2, 4)))]
        elif pn == "moves":
            kind = {"CompositeDisplacementMove": ["DisplacementMove"], "CompositeExchangeMove": ["ExchangeMove"]}.get(
                cname, ["DisplacementMove", "CellMove", "ExchangeMove"] + (["CompositeDisplacementMove", "CompositeMove", "CompositeExchangeMove"] if depth < 2 else []))
            kw[pn] = [make(rng.choice(kind), depth + 1) for _ in range(int(rng.integers(2, 4)))]
        elif pn == "move":
            kw[pn] = make(rng.choice(["DisplacementMove", "CellMove", "ExchangeMove"]), depth + 1)
        elif pn == "criteria":
            kw[pn] = make(rng.choice(["CanonicalCriteria", "IsobaricCriteria", "GrandCanonicalCriteria"]), depth + 1)
        elif pn == "step_size":
            kw[pn] = 0.37
        elif pn == "max_value":
            kw[pn] = 0.07
        elif pn == "mask":
            m = rng.random((3, 3)) < 0.6
            m[0, 0] = False
            kw[pn] = m
        elif pn == "dt":
            kw[pn] = 0.7
        elif pn == "max_steps":
            kw[pn] = 7
        elif pn == "apply_constraints":
            kw[pn] = False
        elif pn == "scale_atoms":
            kw[pn] = False
        elif pn == "bias_towards_insert":
            kw[pn] = float(rng.choice([0.3, 0.0, 1.0]))
        elif pn == "interval":
            kw[pn] = int(rng.choice([3, 7, 1000]))
        elif pn == "probability":
            kw[pn] = float(rng.choice([0.25, 3.0, 12.5, 0.0]))     # a relative weight: any non-negative number
        elif pn == "minimum_count":
            kw[pn] = int(rng.choice([1, 2, 0]))
        elif pn == "distribution":
            continue   # callables are excepted by the property
        elif par.default is inspect.Parameter.empty:
            raise RuntimeError(f"do not know how to fill parameter {pn!r} of {cname}")
    obj = cls(**kw)
    # public settings are re-tuned AFTER construction as well (a setting cached at construction time must not be what gets serialised)
    for pn in list(kw):
        if depth == 0 and rng.random() < 0.5 and hasattr(obj, pn):
            v = getattr(obj, pn)
            try:
                if isinstance(v, (bool, np.bool_)):
                    setattr(obj, pn, not bool(v))
                elif isinstance(v, (int, np.integer)):
                    setattr(obj, pn, int(v) + 1)
                elif isinstance(v, (float, np.floating)):
                    setattr(obj, pn, float(v) * 1.5 if v else 0.125)
            except Exception:  # noqa: BLE001
                pass
    tun = {}
    for tn, tv in (("max_attempts", int(rng.choice([17, 10000, 10, 1]))), ("default_label", 0), ("bias_towards_insert", 0.3)):
        if hasattr(obj, tn) and tn not in kw and not isinstance(getattr(type(obj), tn, None), property):
            try:
                setattr(obj, tn, tv)
                tun[tn] = tv
            except Exception:  # noqa: BLE001
                pass
    return obj


def compare(a, b, params):
    diffs = []
    if type(a) is not type(b):
        diffs.append(["type", type(a).__name__, type(b).__name__])
    for p in params:
        va, vb = getattr(a, p, "<missing>"), getattr(b, p, "<missing>")
        if p == "dt":
            pass
        if canon(va) != canon(vb):
            diffs.append([p, repr(canon(va))[:120], repr(canon(vb))[:120]])
    da, db = canon(a.to_dict()), canon(b.to_dict())
    if da != db:
        diffs.append(["to_dict", json.dumps(da, default=str)[:200], json.dumps(db, default=str)[:200]])
    return diffs


for cname in sorted(CLASSES):
    cls = CLASSES[cname]
    pr = proto_of(cls)
    rec = {"protocol": pr, "module": cls.__module__, "registered_as": [k for k, v in REG.items() if v is cls]}
    if pr is None and cname != "MoveStorage":
        continue    # simulations / contexts / observers are handled below or are not rebuilt by name
    for rep in range(req.get("repeats", 2)):
        try:
            obj = make(cname)
            d = obj.to_dict()
            d2 = decode(encode(d))
            name = d2["name"]
            if rep == 0:
                out.setdefault("documents", {})[cname] = {"proto": pr or "Storage", "doc": encode(d)}
            if cname == "MoveStorage":
                klass = registry.get_typed_class(name, CLASSES["MoveStorage"])
            else:
                klass = registry.get_typed_class(name, PROTOS[pr])
            new = klass.from_dict(d2)
            params = [p for p in list(inspect.signature(cls.__init__).parameters)[1:] if p not in ("distribution", "kwargs", "args")]
            params += [t for t in ("max_attempts", "default_label", "bias_towards_insert", "apply_constraints") if hasattr(obj, t) and t not in params]
            rec.setdefault("diffs", []).extend(compare(obj, new, params))
        except Exception as e:  # noqa: BLE001
            rec.setdefault("errors", []).append(f"{type(e).__name__}: {str(e)[:200]} @ {traceback.format_exc().strip().splitlines()[-3].strip()[:120]}")
    out["classes"][cname] = rec

# ---- simulation-level settings
if req.get("simulations", True):
    from quansino.mc.canonical import Canonical, HamiltonianCanonical
    from quansino.mc.gcmc import GrandCanonical
    from quansino.mc.isobaric import Isobaric
    from quansino.mc.isotension import Isotension

    def sim_atoms():
        return Atoms("Ar" * NAT, positions=rng.uniform(0, 5, (NAT, 3)), cell=[6.0, 6.0, 6.0], pbc=True)
    specs = {
        "Canonical": (Canonical, dict(temperature=431.0, max_cycles=3, seed=12345), ["temperature", "max_cycles"]),
        "HamiltonianCanonical": (HamiltonianCanonical, dict(temperature=431.0, max_cycles=3, seed=12345), ["temperature", "max_cycles"]),
        "Isobaric": (Isobaric, dict(temperature=431.0, pressure=0.0123, max_cycles=3, seed=12345), ["temperature", "pressure", "max_cycles"]),
        "Isotension": (Isotension, dict(temperature=431.0, pressure=0.0123, external_stress=np.arange(9.0).reshape(3, 3) * 0.001, max_cycles=3, seed=12345),
                       ["temperature", "pressure", "external_stress", "max_cycles"]),
        "GrandCanonical": (GrandCanonical, dict(exchange_atoms=Atoms("H2", positions=[[0, 0, 0], [0.74, 0, 0]]), temperature=431.0, chemical_potential=-0.321,
                                                number_of_exchange_particles=4, max_cycles=3, seed=12345),
                           ["temperature", "chemical_potential", "number_of_exchange_particles", "accessible_volume", "exchange_atoms", "max_cycles"]),
    }
    for sname, (cls, kw, settings) in specs.items():
        rec = {}
        try:
            variant = int(rng.integers(0, 3))
            if variant == 1:
                kw = {k_: v_ for k_, v_ in kw.items() if k_ != "max_cycles"}      # cycles per step left at its default ...
            mc = cls(sim_atoms(), logfile=None, **kw)
            if variant >= 1:
                mc.max_cycles = 2                                                  # ... and/or re-tuned on the existing object
                mc.temperature = 512.5
            if sname == "GrandCanonical":
                mc.accessible_volume = 77.5
            mc.add_move(make("DisplacementMove"), name="m")
            mc._rng.random(5)
            mc.step_count = 9
            d = mc.todict() if req.get("via_todict", True) else mc.to_dict()
            d2 = decode(encode(d))
            out.setdefault("documents", {})["sim:" + sname] = {"proto": "Simulation", "doc": encode(d)}
            klass = registry.get_class(d2["name"])
            new = klass.from_dict(d2)
            diffs = []
            if type(new) is not type(mc):
                diffs.append(["type", type(mc).__name__, type(new).__name__])
            for s in settings + ["step_count", "_seed"]:
                if canon(getattr(mc, s)) != canon(getattr(new, s, "<missing>")):
                    diffs.append([s, repr(canon(getattr(mc, s)))[:100], repr(canon(getattr(new, s, "<missing>")))[:100]])
            if canon(mc._rng.bit_generator.state) != canon(new._rng.bit_generator.state):
                diffs.append(["generator state", "", ""])
            # the decoded dictionary is an input: the first rebuilt simulation is used (atoms moved, array-valued settings re-tuned in place),
            # then a second simulation is rebuilt from the SAME dictionary - it must still come out as the original
            new.atoms.positions += 0.25
            if hasattr(new, "external_stress"):
                new.context.external_stress += 0.05
            new2 = klass.from_dict(d2)
            for s in settings + ["step_count", "_seed"]:
                if canon(getattr(mc, s)) != canon(getattr(new2, s, "<missing>")):
                    diffs.append([f"{s} (second rebuild from the same dictionary)", repr(canon(getattr(mc, s)))[:100], repr(canon(getattr(new2, s, "<missing>")))[:100]])
            if new2.atoms is new.atoms or not np.array_equal(new2.atoms.positions, mc.atoms.positions):
                diffs.append(["atoms (second rebuild from the same dictionary)", "as saved", "shared with / moved by the first rebuilt simulation"])
            rec["diffs"] = diffs
        except Exception as e:  # noqa: BLE001
            rec["errors"] = [f"{type(e).__name__}: {str(e)[:300]}"]
        out["simulations"][sname] = rec
json.dump(out, sys.stdout, default=str)
