"""Shared driver: builds a REAL quansino simulation from a JSON program (any ensemble, any move table built with + and *, extra
per-atom arrays, constraints, scripted or real criteria, vetoing check_move, several calculator styles) and records, around every
trial, tokenised snapshots of everything the properties C03/C04/C05/C20 talk about.  Used by c03.py, c04.py, c05.py, c20.py."""
from __future__ import annotations

import hashlib
import warnings

import numpy as np
from ase import Atoms
from ase.calculators.calculator import Calculator, all_changes
from ase.calculators.lj import LennardJones
from ase.constraints import FixAtoms, FixCom, Hookean

import quansino.mc  # noqa: F401
from quansino.integrators.displacement import Verlet
from quansino.mc.canonical import Canonical, HamiltonianCanonical
from quansino.mc.gcmc import GrandCanonical
from quansino.mc.isobaric import Isobaric
from quansino.mc.isotension import Isotension
from quansino.moves.cell import CellMove
from quansino.moves.composite import CompositeMove
from quansino.moves.displacement import DisplacementMove, HamiltonianDisplacementMove
from quansino.moves.exchange import ExchangeMove

# harness-side instrumentation (nothing in /repo is touched): what every elementary exchange move did in a trial, in order
ACTS = []
_exch_call = ExchangeMove.__call__


def _logged_exchange_call(self, context):
    n0 = len(context.atoms)
    r = _exch_call(self, context)
    n1 = len(context.atoms)
    ACTS.append("ins" if n1 > n0 else "del" if n1 < n0 else "none")
    return r


ExchangeMove.__call__ = _logged_exchange_call
from quansino.operations.cell import AnisotropicDeformation, IsotropicDeformation, ShapeDeformation
from quansino.operations.displacement import Ball, Box, Rotation, Sphere, Translation, TranslationRotation

warnings.simplefilter("ignore")

DISP_OPS = {"ball": lambda: Ball(0.3), "box": lambda: Box(0.25), "sphere": lambda: Sphere(0.2), "translation": Translation,
            "rotation": Rotation, "translation_rotation": TranslationRotation, "ball+box": lambda: Ball(0.2) + Box(0.1)}
CELL_OPS = {"iso": lambda a=0.05: IsotropicDeformation(a), "aniso": lambda a=0.04: AnisotropicDeformation(a), "shape": lambda a=0.04: ShapeDeformation(a)}


def h(b: bytes) -> str:
    return hashlib.blake2b(b, digest_size=6).hexdigest()


def row_tokens(arr) -> list[str]:
    arr = np.ascontiguousarray(arr)
    tag = (str(arr.dtype) + str(arr.shape[1:])).encode()
    return [h(tag + arr[i].tobytes()) for i in range(len(arr))]


class PairPot(Calculator):
    """smooth pair potential + weak wells; style 'caching' = standard ASE caching, 'stateless' = recomputes on every request,
    'internal' = keeps a per-atom internal table that must match the atom count (like a neighbour list),
    'inplace' = standard caching, but array results are written into one persistent buffer (as ASE's EMT does with its forces),
    'lazy' = standard caching, but only the requested properties are computed and added to the results of the current configuration"""

    implemented_properties = ["energy", "forces", "stress"]

    def __init__(self, style="caching"):
        super().__init__()
        self.style = style
        self.evaluations = 0
        self.table = None
        self._fbuf = None

    def energy_of(self, atoms):
        pos = atoms.positions
        n = len(pos)
        e = 0.02 * float(np.sum(pos * pos)) / (1 + n)
        w = 1.0 + 0.03125 * atoms.numbers          # species-dependent: swapping two atoms of different kinds changes the energy
        for i in range(n):
            d = pos[i + 1:] - pos[i]
            r2 = np.sum(d * d, axis=1) + 0.5
            e += float(np.sum(w[i] * w[i + 1:] / r2))
        if atoms.cell.rank == 3:
            e += 0.001 * atoms.get_volume()
        return e

    def calculate(self, atoms=None, properties=("energy",), system_changes=all_changes):
        super().calculate(atoms, properties, system_changes)
        self.evaluations += 1
        if self.style == "internal":
            if self.table is None or "numbers" in system_changes:
                self.table = np.zeros(len(self.atoms))
            if len(self.table) != len(self.atoms):
                raise RuntimeError("internal per-atom table does not match the atoms (stale calculator state)")
        forces = -0.04 * self.atoms.positions / (1 + len(self.atoms))       # (gradient of the well term: a deterministic function of the configuration)
        if self.style == "inplace":
            if self._fbuf is None or self._fbuf.shape != forces.shape:
                self._fbuf = np.zeros_like(forces)
            self._fbuf[:] = forces
            forces = self._fbuf
        if self.style == "lazy":
            self.results["energy"] = self.energy_of(self.atoms)
            if "forces" in properties:
                self.results["forces"] = forces
            if "stress" in properties:
                self.results["stress"] = 1e-3 * np.array([float(np.sum(self.atoms.positions[:, a] * self.atoms.positions[:, b])) for a, b in ((0, 0), (1, 1), (2, 2), (1, 2), (0, 2), (0, 1))])
            return
        self.results = {"energy": self.energy_of(self.atoms), "forces": forces, "stress": np.zeros(6)}

    def get_property(self, name, atoms=None, allow_calculation=True):
        if self.style == "stateless":
            self.results = {}
        return super().get_property(name, atoms, allow_calculation)


def make_calc(style):
    """'sum': ASE's SumCalculator around the pair potential - a result-caching calculator that derives from BaseCalculator only, not from Calculator"""
    if style == "lj":
        return LennardJones(sigma=1.5, epsilon=0.01, rc=4.0)
    if style == "sum":
        from ase.calculators.mixing import SumCalculator
        return SumCalculator([PairPot("caching")])
    return PairPot(style)


class Scripted:
    """criteria stub: records what it is handed (hook), answers from a script"""

    def __init__(self, verdicts, hook=None, real=None, np_bool=False):
        self.v = verdicts
        self.hook = hook
        self.real = real
        self.np_bool = np_bool          # a criteria written as `np.exp(-dE / kT) > rng.random()` answers with numpy.bool_, not bool

    def evaluate(self, context, *a, **k):
        if self.hook:
            self.hook(context)
        r = self.real.evaluate(context) if self.real is not None else None
        if self.v:
            return np.bool_(self.v.pop(0)) if self.np_bool else self.v.pop(0)
        return bool(r) if r is not None else True

    def to_dict(self):
        return {"name": "Scripted"}


def build_expr(e, leaves):
    if isinstance(e, int):
        return leaves[e]
    if e[0] == "+":
        return build_expr(e[1], leaves) + build_expr(e[2], leaves)
    if e[0] == "plain":                       # the plain composite, constructed directly from a list of moves
        return CompositeMove([build_expr(x, leaves) for x in e[1:]])
    return build_expr(e[1], leaves) * e[2]


def leaf_objects(move, out=None):
    out = [] if out is None else out
    if hasattr(move, "moves"):
        for m in move.moves:
            leaf_objects(m, out)
    else:
        out.append(move)
    return out


class Sim:
    def __init__(self, p):
        self.p = p
        n = p["natoms"]
        atoms = Atoms(p["symbols"], positions=np.array(p["positions"], dtype=float), cell=np.array(p["cell"], dtype=float), pbc=True)
        arr = p.get("arrays", {})
        rng = np.random.default_rng(p.get("array_seed", 0))
        if arr.get("tags"):
            atoms.set_tags(rng.integers(0, 9, n))
        if arr.get("momenta"):
            atoms.set_momenta(rng.normal(0, 1, (n, 3)))
        if arr.get("charges"):
            atoms.set_initial_charges(rng.normal(0, 1, n))
        if arr.get("custom_f2"):
            atoms.set_array("custom_f2", rng.normal(0, 1, (n, 2)))
        if arr.get("custom_i"):
            atoms.set_array("custom_i", rng.integers(-5, 5, n))
        atoms.set_array("vid", np.arange(1, n + 1, dtype=np.int64))
        self.next_vid = n + 1
        if p.get("fixed"):
            atoms.set_constraint(FixAtoms(indices=p["fixed"]))
        elif p.get("fixcom"):
            atoms.set_constraint(FixCom())
        elif p.get("hookean"):
            # an energy-contributing constraint: atoms.get_potential_energy() includes its term, calc.get_potential_energy(atoms) does not
            atoms.set_constraint(Hookean(a1=0, a2=1, k=2.0, rt=0.5))
        calc = p.get("calc", "caching")
        atoms.calc = make_calc(calc)
        self.atoms = atoms
        self.vetoes = list(p.get("vetoes", []))
        self.leaves = []
        for lf in p["leaves"]:
            k = lf["kind"]
            if k == "disp":
                mv = DisplacementMove(np.array(lf["labels"]), DISP_OPS[lf["op"]]())
            elif k == "exch":
                mv = ExchangeMove(np.array(lf["labels"]), DISP_OPS[lf.get("op", "translation")](), bias_towards_insert=lf.get("bias", 0.5))
            elif k == "cell":
                mv = CellMove(CELL_OPS[lf["op"]](*([lf["amp"]] if lf.get("amp") else [])), scale_atoms=lf.get("scale_atoms", True))
            else:
                mv = HamiltonianDisplacementMove(operation=Verlet(dt=lf.get("dt", 1.0), max_steps=lf.get("n", 3)))
            if "default_label" in lf and k in ("disp", "exch"):
                # a label taken out of an array (labels.min(), labels[3]) is a numpy integer, not an int
                mv.default_label = np.int64(lf["default_label"]) if lf.get("default_label_np") and lf["default_label"] is not None else lf["default_label"]
            mv.max_attempts = p.get("max_attempts", 2)
            if p.get("criteria") != "shipped":
                mv.check_move = self.check
            self.leaves.append(mv)
        ens = p["ensemble"]
        kw = dict(temperature=p.get("T", 300.0), seed=p["seed"], max_cycles=p.get("max_cycles", 2), logfile=p.get("logfile"))
        if p.get("default_max_cycles"):
            del kw["max_cycles"]      # left to the constructor's default (one cycle per atom present at construction)
        if ens == "canonical":
            mc = Canonical(atoms, **kw)
        elif ens == "hamiltonian":
            mc = HamiltonianCanonical(atoms, **kw)
        elif ens == "isobaric":
            mc = Isobaric(atoms, pressure=p.get("P", 0.01), **kw)
        elif ens == "isotension":
            mc = Isotension(atoms, pressure=p.get("P", 0.01), external_stress=np.array(p["stress"], dtype=float) if p.get("stress") else np.eye(3) * p.get("P", 0.01), **kw)
        else:
            ex = Atoms(p["exchange"]["symbols"], positions=np.array(p["exchange"]["positions"], dtype=float))
            self.exchange_before = (ex.positions.tobytes(), ex.numbers.tobytes(), sorted(ex.arrays))
            mc = GrandCanonical(atoms, ex, chemical_potential=p.get("mu", -0.1), number_of_exchange_particles=p.get("N0", 0), **kw)
            if p.get("accessible_volume_factor"):
                mc.accessible_volume = p["accessible_volume_factor"] * atoms.cell.volume      # e.g. the pore volume of a framework
            self.exchange = ex
        self.mc = mc
        self.eval_snaps = []
        self.verdicts = list(p.get("verdicts", []))
        self.table = []
        for ent in p["moves"]:
            mv = build_expr(ent["expr"], self.leaves)
            real = None
            if p.get("criteria") in ("real", "both"):
                for mt, ct in mc.default_criteria.items():
                    if isinstance(leaf_objects(mv)[0], mt):
                        real = ct()
                        break
            crit = Scripted(self.verdicts if p.get("criteria") != "real" else [], hook=self.at_evaluate, real=real, np_bool=bool(p.get("np_verdicts")))   # "both": the real criteria is evaluated, the scripted verdict returned
            if p.get("criteria") == "shipped":
                # the shipped criteria object itself (serialisable): the default one for the kind of the first leaf
                crit = None
                for mt, ct in mc.default_criteria.items():
                    if isinstance(leaf_objects(mv)[0], mt):
                        crit = ct()
                        break
            mc.add_move(mv, criteria=crit, name=ent["name"], interval=ent.get("interval", 1), probability=ent.get("probability", 1.0),
                        minimum_count=ent.get("minimum_count", 0))
            self.table.append((ent["name"], mv))

    # ---- hooks
    def check(self, *a, **k):
        return not (self.vetoes.pop(0) if self.vetoes else False)

    def at_evaluate(self, context):
        self.eval_snaps.append(self.snapshot(stamp=False))

    # ---- snapshots
    def stamp(self):
        vid = self.atoms.arrays.get("vid")
        if vid is None:
            return
        for i in np.where(vid == 0)[0]:
            vid[i] = self.next_vid
            self.next_vid += 1

    def snapshot(self, stamp=True):
        atoms, mc = self.atoms, self.mc
        if stamp:
            self.stamp()
        ctx = mc.context
        s = {"n": len(atoms), "arrays": {name: row_tokens(a) for name, a in sorted(atoms.arrays.items()) if name != "vid"},
             "vid": [int(x) for x in atoms.arrays["vid"]], "cell": h(atoms.cell.array.tobytes()),
             "fixed": sorted(int(i) for c in atoms.constraints if isinstance(c, FixAtoms) for i in c.index),
             "nconstraints": len(atoms.constraints)}
        c = {"last_positions": row_tokens(ctx.last_positions), "n_last_positions": len(ctx.last_positions),
             "moving": [int(i) for i in np.ravel(ctx._moving_indices)] if hasattr(ctx, "_moving_indices") else None}
        if hasattr(ctx, "last_cell"):
            c["last_cell"] = h(np.asarray(ctx.last_cell).tobytes())
        if hasattr(ctx, "last_momenta"):
            c["last_momenta"] = row_tokens(ctx.last_momenta)
        if hasattr(ctx, "particle_delta"):
            c.update(added=[int(i) for i in np.ravel(ctx._added_indices)], deleted=[int(i) for i in np.ravel(ctx._deleted_indices)],
                     n_added_atoms=len(ctx._added_atoms), n_deleted_atoms=len(ctx._deleted_atoms),
                     deleted_rows={name: row_tokens(a) for name, a in sorted(ctx._deleted_atoms.arrays.items()) if name != "vid"},
                     deleted_vid=[int(x) for x in ctx._deleted_atoms.arrays.get("vid", [])],
                     particle_delta=int(ctx.particle_delta), N=int(ctx.number_of_exchange_particles))
        s["ctx"] = c
        s["geom"] = h(atoms.positions.tobytes() + atoms.cell.array.tobytes() + atoms.numbers.tobytes())
        # ASE's change detection (compare_atoms) ignores differences below 1e-15: a coarser identity of the configuration
        s["geom12"] = h((np.round(atoms.positions, 12) + 0.0).tobytes() + (np.round(atoms.cell.array, 12) + 0.0).tobytes() + atoms.numbers.tobytes())
        s["leaves"] = [{"labels": [int(x) for x in m.labels] if hasattr(m, "labels") else None,
                        "to_displace": None if getattr(m, "to_displace_labels", None) is None else int(m.to_displace_labels),
                        "to_add": getattr(m, "to_add_atoms", None) is not None,
                        "to_delete": None if getattr(m, "to_delete_label", None) is None else int(m.to_delete_label)} for m in self.leaves]
        return s

    def energy_probe(self):
        """C04: reported energy, reference energy, independent from-scratch evaluation, remembered geometry"""
        atoms, ctx = self.atoms, self.mc.context
        ev0 = getattr(atoms.calc, "evaluations", None)
        reported = float(atoms.get_potential_energy())
        ev1 = getattr(atoms.calc, "evaluations", None)
        fresh_atoms = atoms.copy()
        fresh_atoms.calc = LennardJones(sigma=1.5, epsilon=0.01, rc=4.0) if self.p.get("calc") == "lj" else PairPot("caching")
        fresh = float(fresh_atoms.get_potential_energy())
        f_fresh = np.array(fresh_atoms.get_forces(), dtype=float)
        if self.p.get("passive_probe"):
            # nobody asks for forces between the trials (asking refreshes what the context saves): only what the calculator HOLDS for the current
            # atoms is looked at (seeded change C04-11: a rejection leaves the rejected trial's forces among the results)
            held = getattr(atoms.calc, "results", {}).get("forces")
            in_sync = not atoms.calc.check_state(atoms)
            # (what is held is the raw result: compared with the raw forces of the fresh evaluation, not with the constraint-adjusted ones get_forces() returns)
            f_fresh = np.array(fresh_atoms.get_forces(apply_constraint=False), dtype=float)
            f_rep = np.array(held, dtype=float) if (held is not None and in_sync) else f_fresh
        else:
            f_rep = np.array(atoms.get_forces(), dtype=float)
        forces_ok = bool(f_rep.shape == f_fresh.shape and np.allclose(f_rep, f_fresh, rtol=1e-9, atol=1e-12))
        return {"forces_ok": forces_ok, "forces_max_error": float(np.max(np.abs(f_rep - f_fresh))) if f_rep.shape == f_fresh.shape and f_rep.size else 0.0, "reported": reported, "fresh": fresh, "reference": float(ctx.last_potential_energy), "probe_cost": None if ev0 is None else ev1 - ev0,
                "evaluations": ev1, "last_pos_ok": bool(np.array_equal(ctx.last_positions, atoms.positions)),
                "last_cell_ok": bool(np.array_equal(np.asarray(ctx.last_cell), atoms.cell.array)) if hasattr(ctx, "last_cell") else True,
                "calc_atoms_ok": bool(atoms.calc.atoms is not None and len(atoms.calc.atoms) == len(atoms) and np.array_equal(atoms.calc.atoms.positions, atoms.positions)
                                      and np.array_equal(atoms.calc.atoms.cell.array, atoms.cell.array))}

    # ---- run
    def run(self):
        mc, p = self.mc, self.p
        trials = []
        probe = p.get("energy_probe", False)
        cur = None
        if p.get("pre_run_probe"):
            # the user looks at forces and stress before the run: they are now among the calculator's results for the initial configuration
            self.atoms.get_forces()
            self.atoms.get_stress()
        edit = p.get("pre_run_edit")
        if edit:
            # the user prepares the system between construction and the first run
            if "cell" in edit:
                self.atoms.set_cell(self.atoms.cell.array * edit["cell"], scale_atoms=True)
            i = edit["atom"] % len(self.atoms)
            if i not in (p.get("fixed") or []):
                self.atoms.positions[i] += np.array(edit["shift"])
        def steps_iter():
            mid = p.get("mid_run_edit")
            if not mid:
                yield from mc.irun(p["steps"])
                return
            # the same driver is run twice; between the two runs the user moves an atom (and rescales the box): validate_simulation must pick that up
            s1 = max(1, min(p["steps"] - 1, mid["after"]))
            yield from mc.irun(s1)
            if "cell" in mid and hasattr(mc.context, "last_cell"):
                self.atoms.set_cell(self.atoms.cell.array * mid["cell"], scale_atoms=True)
            i = mid["atom"] % max(1, len(self.atoms))
            if len(self.atoms) and i not in (p.get("fixed") or []):
                self.atoms.positions[i] += np.array(mid["shift"])
            self.user_edits = getattr(self, "user_edits", 0) + 1
            yield from mc.irun(p["steps"] - s1)
        rp = p.get("replace_move")
        for step in steps_iter():
            if rp and mc.step_count == rp["step"] and rp["name"] in mc.moves:
                # the user swaps the object behind an existing table entry for a fresh, equivalent one (tuning an operation, say): from now on the
                # NEW object is the one in the table - it must get the notifications, the old one is out of the game
                j = rp["leaf"]
                old = self.leaves[j]
                if isinstance(old, ExchangeMove):
                    new = ExchangeMove(np.array(old.labels), old.operation, bias_towards_insert=old.bias_towards_insert)
                else:
                    new = DisplacementMove(np.array(old.labels), old.operation)
                new.default_label, new.max_attempts, new.check_move = old.default_label, old.max_attempts, old.check_move
                mc.moves[rp["name"]].move = new
                self.leaves[j] = new
                rp = None
            for name in step:
                # the generator yields the name BEFORE the trial runs: finish bookkeeping of the previous one
                if cur is not None:
                    self.finish(cur, trials, probe)
                cur = {"name": name, "pre": self.snapshot(), "eval_index": len(self.eval_snaps), "step": mc.step_count, "acts_from": len(ACTS)}
                fs = p.get("force_swap")
                if fs:
                    # documented one-shot pre-selections: the first exchange move deletes a chosen particle, the second inserts one
                    e1, e2 = self.leaves[fs[0]], self.leaves[fs[1]]
                    if len(e1.unique_labels):
                        e1.to_delete_label = int(e1.unique_labels[cur["step"] % len(e1.unique_labels)])
                        e2.to_add_atoms = self.exchange.copy()
                        if p.get("force_swap_big"):
                            # the documented one-shot pre-selection may name ANOTHER species than the template (here: three atoms instead of one)
                            from ase import Atoms as _A
                            e2.to_add_atoms = _A("OH2", positions=[[0.0, 0.0, 0.0], [0.96, 0.0, 0.0], [-0.24, 0.93, 0.0]])
                if probe:
                    cur["pre_evals"] = getattr(self.atoms.calc, "evaluations", None)
            if cur is not None:
                self.finish(cur, trials, probe)
                cur = None
        out = {"trials": trials, "final_step_count": mc.step_count}
        if hasattr(self, "exchange"):
            ex = self.exchange
            out["exchange_unchanged"] = (ex.positions.tobytes(), ex.numbers.tobytes(), sorted(ex.arrays)) == self.exchange_before
        return out

    def finish(self, cur, trials, probe):
        mc = self.mc
        hist = mc.move_history[-1] if mc.move_history else (None, "MISSING")
        cur["outcome"] = None if hist[1] is None else bool(hist[1])
        cur["hist_name"] = hist[0]
        cur["at_eval"] = self.eval_snaps[cur["eval_index"]] if len(self.eval_snaps) > cur["eval_index"] else None
        cur["n_evals_in_trial"] = len(self.eval_snaps) - cur["eval_index"]
        cur["post"] = self.snapshot()
        cur["acts"] = ACTS[cur.pop("acts_from", len(ACTS)):]
        if probe:
            cur["post_evals"] = getattr(self.atoms.calc, "evaluations", None)
            cur["energy"] = self.energy_probe()
        trials.append(cur)


def run_program(p):
    return Sim(p).run()
